/* C13 embedding harness: independent chibi-scheme contexts driven from several OS threads.

   usage:  embed_c13 run   <specfile> [noinit]     concurrent / baseline runs
           embed_c13 probe <specfile>              sequential cross-context probes

   specfile lines (TAB separated):
     W <id> <scheme text>            a workload: a sequence of top-level forms, the value of the last one is
                                     the result (written with sexp_write_to_string)
     T <heapsize> <jitter> <id,id,..>  one OS thread; for each id in order: create a parent-less context
                                     (sexp_make_eval_context(NULL,NULL,NULL,heapsize,0)), load the standard
                                     environment, evaluate workload id, force a collection, audit the heap of
                                     the context for pointers that leave it, destroy the context.
                                     jitter: microseconds slept between jobs (varies the interleaving).
   output (after all threads were joined, in thread order; nothing is printed while threads run):
     R <thread> <seq> <id> <iso> <live objects> <result text>
       iso = ok | FOREIGN:<detail> | BAD:<detail>
   `initrace`: no call from main, every thread calls sexp_scheme_init() itself right after the start barrier.
   `noinit` skips the sexp_scheme_init() call that the documented embedding protocol (doc/chibi.scrbl, main())
   performs once before any context exists; used only to probe the first-use race of the init flags.

           embed_c13 run   <specfile> stdports     as run, every context gets sexp_load_standard_ports(ctx,NULL,stdin,stdout,stderr,1);
                                                   a final line "S stdfds ok|FAIL <mask>" says whether descriptors 0 1 2 still are what they were
           embed_c13 ops   <script> <capture prefix>   scripted multi-context run (round 2), see "ops" below

   probe mode prints one line per probe:  P <name> ok|FAIL <detail>
   The probes never compare addresses across runs; they compare addresses of two live contexts inside one run. */
#include <chibi/eval.h>
#include <dirent.h>
#include <fcntl.h>
#include <pthread.h>
#include <signal.h>
#include <stdio.h>
#include <stdlib.h>
#include <string.h>
#include <unistd.h>

/* exported by gc.c (SEXP_API) but not declared in the public headers */
sexp_uint_t sexp_allocated_bytes (sexp ctx, sexp x);

#define MAXW 512
#define MAXT 64
#define MAXJ 256

static char *works[MAXW];
struct thr {
  int tid, nj, ids[MAXJ];
  long heapsize, jitter;
  char *out[MAXJ];
  pthread_t th;
};
static struct thr thrs[MAXT];
static int nthr;
static pthread_barrier_t barrier;
static pthread_barrier_t sync_barrier;   /* round 4: (c13-barrier) inside workloads */
static int sync_on;
static int initrace;   /* every thread calls sexp_scheme_init() itself, concurrently (protocol violation probe) */

/* ------------------------------------------------------------------ heap audit (isolation invariant) */

static int in_own_heaps (sexp ctx, void *x) {
  sexp_heap h;
  for (h = sexp_context_heap(ctx); h; h = h->next)
    if ((char*)x >= (char*)h->data && (char*)x < (char*)h->data + h->size)
      return 1;
  return 0;
}

/* walks every allocated chunk of every heap of ctx (same iteration as sexp_sweep/sexp_finalize, gc.c) and
   checks that every slot the collector would trace (sexp_mark_one: field_base + num_slots_of_object) holds an
   immediate or a pointer into one of ctx's own heaps, and that the type object of each chunk is in ctx's
   heaps.  Returns the number of allocated chunks, writes "ok" or a description into why. */
static long audit_heap (sexp ctx, char *why, size_t n) {
  sexp_heap h;
  sexp p, end, t, x, *slots;
  sexp_free_list q, r;
  sexp_uint_t size;
  sexp_sint_t len, i;
  long nobj = 0;
  snprintf(why, n, "ok");
  for (h = sexp_context_heap(ctx); h; h = h->next) {
    p = sexp_heap_first_block(h);
    q = h->free_list;
    end = sexp_heap_end(h);
    while (p < end) {
      for (r = q->next; r && ((char*)r < (char*)p); q = r, r = r->next)
        ;
      if ((char*)r == (char*)p) {
        p = (sexp)(((char*)p) + r->size);
        continue;
      }
      if (sexp_pointer_tag(p) >= sexp_context_num_types(ctx)) {
        snprintf(why, n, "BAD:tag-%d-of-%d", (int)sexp_pointer_tag(p), (int)sexp_context_num_types(ctx));
        return nobj;
      }
      size = sexp_heap_align(sexp_allocated_bytes(ctx, p));
      if (size == 0) {
        snprintf(why, n, "BAD:zero-size-chunk");
        return nobj;
      }
      nobj++;
      t = sexp_object_type(ctx, p);
      if (!t || !sexp_pointerp(t) || !in_own_heaps(ctx, t)) {
        snprintf(why, n, "FOREIGN:type-object-of-tag-%d", (int)sexp_pointer_tag(p));
        return nobj;
      }
      len = sexp_type_num_slots_of_object(t, p);
      slots = (sexp*)(((char*)p) + sexp_type_field_base(t));
      for (i = 0; i < len; i++) {
        x = slots[i];
        if (x && sexp_pointerp(x) && !in_own_heaps(ctx, x)) {
          snprintf(why, n, "FOREIGN:tag-%d-slot-%d", (int)sexp_pointer_tag(p), (int)i);
          return nobj;
        }
      }
      p = (sexp)(((char*)p) + size);
    }
  }
  return nobj;
}

/* ------------------------------------------------------------------ evaluation helpers */

static char *dupstr (const char *s) {
  char *r = malloc(strlen(s) + 1);
  strcpy(r, s);
  return r;
}

/* canonical text of a result or of an exception (kind + message, never irritants with addresses) */
static char *show (sexp ctx, sexp res) {
  char buf[600];
  sexp s;
  if (sexp_exceptionp(res)) {
    sexp k = sexp_exception_kind(res), m = sexp_exception_message(res);
    const char *ks = "?", *ms = "?";
    sexp_gc_var1(tmp);
    sexp_gc_preserve1(ctx, tmp);
    if (sexp_symbolp(k)) { tmp = sexp_symbol_to_string(ctx, k); ks = sexp_string_data(tmp); }
    if (sexp_stringp(m)) ms = sexp_string_data(m);
    snprintf(buf, sizeof(buf), "ERR:%s:%s", ks, ms);
    tmp = sexp_exception_irritants(res);
    if (sexp_pairp(tmp) && (sexp_symbolp(sexp_car(tmp)) || sexp_fixnump(sexp_car(tmp)) || sexp_stringp(sexp_car(tmp)))) {
      tmp = sexp_write_to_string(ctx, sexp_car(tmp));      /* only plain data: never addresses */
      if (sexp_stringp(tmp)) snprintf(buf + strlen(buf), sizeof(buf) - strlen(buf), ":%.100s", sexp_string_data(tmp));
    }
    sexp_gc_release1(ctx);
    return dupstr(buf);
  }
  s = sexp_write_to_string(ctx, res);
  if (sexp_stringp(s)) return dupstr(sexp_string_data(s));
  return dupstr("ERR:unwritable");
}

/* read and evaluate every form of text in ctx's environment; result of the last form (or first exception) */
static sexp eval_all (sexp ctx, const char *text) {
  sexp_gc_var4(str, in, x, res);
  sexp_gc_preserve4(ctx, str, in, x, res);
  res = SEXP_VOID;
  str = sexp_c_string(ctx, text, -1);
  in = sexp_open_input_string(ctx, str);
  for (;;) {
    x = sexp_read(ctx, in);
    if (x == SEXP_EOF) break;
    if (sexp_exceptionp(x)) { res = x; break; }
    /* round 4: the form (c13-barrier) is not evaluated: the OS thread waits until every thread of the run reached its
       own (c13-barrier), so that the loops that follow (library calls with context-specific arguments) overlap in time */
    if (sexp_pairp(x) && sexp_symbolp(sexp_car(x)) && sexp_nullp(sexp_cdr(x))) {
      str = sexp_symbol_to_string(ctx, sexp_car(x));
      if (sexp_stringp(str) && strcmp(sexp_string_data(str), "c13-barrier") == 0) {
        if (sync_on) pthread_barrier_wait(&sync_barrier);
        continue;
      }
    }
    res = sexp_eval(ctx, x, NULL);
    if (sexp_exceptionp(res)) break;
  }
  sexp_gc_release4(ctx);
  return res;
}

static sexp new_context (long heapsize) {
  sexp ctx = sexp_make_eval_context(NULL, NULL, NULL, heapsize, 0);
  sexp e;
  if (!ctx || sexp_exceptionp(ctx)) return NULL;
  e = sexp_load_standard_env(ctx, NULL, SEXP_SEVEN);
  if (sexp_exceptionp(e)) {
    char *s = show(ctx, e);
    fprintf(stderr, "load_standard_env failed: %s\n", s);
    free(s);
    sexp_destroy_context(ctx);
    return NULL;
  }
  return ctx;
}

static int std_ports;   /* run mode (round 2): every job loads the standard ports as doc/chibi.scrbl shows (no_close = 1) */

static char *run_one (const char *text, long heapsize) {
  char why[200], *s, *out;
  long nobj;
  sexp ctx = new_context(heapsize);
  sexp_gc_var1(res);
  if (!ctx) return dupstr("NOCTX 0 -");
  if (std_ports) sexp_load_standard_ports(ctx, NULL, stdin, stdout, stderr, 1);
  sexp_gc_preserve1(ctx, res);
  res = eval_all(ctx, text);
  s = show(ctx, res);
  res = SEXP_VOID;
  sexp_gc(ctx, NULL);
  nobj = audit_heap(ctx, why, sizeof(why));
  out = malloc(strlen(s) + strlen(why) + 64);
  sprintf(out, "%s %ld %s", why, nobj, s);
  free(s);
  sexp_gc_release1(ctx);
  sexp_destroy_context(ctx);
  return out;
}

static void *thread_main (void *arg) {
  struct thr *t = arg;
  int j;
  pthread_barrier_wait(&barrier);
  if (initrace) sexp_scheme_init();
  for (j = 0; j < t->nj; j++) {
    if (t->jitter && j) usleep((useconds_t)((t->jitter * (1 + (t->tid * 7 + j * 3) % 5)) / 3));
    t->out[j] = run_one(works[t->ids[j]], t->heapsize);
  }
  return NULL;
}

static int read_spec (const char *path) {
  FILE *f = fopen(path, "r");
  char *line = NULL, *p, *q;
  size_t cap = 0;
  ssize_t n;
  if (!f) { perror(path); return 0; }
  while ((n = getline(&line, &cap, f)) > 0) {
    if (line[n-1] == '\n') line[--n] = 0;
    if (line[0] == 'W' && line[1] == '\t') {
      int id = atoi(line + 2);
      p = strchr(line + 2, '\t');
      if (!p || id < 0 || id >= MAXW) { fprintf(stderr, "bad W line\n"); return 0; }
      works[id] = dupstr(p + 1);
    } else if (line[0] == 'T' && line[1] == '\t') {
      struct thr *t;
      if (nthr >= MAXT) { fprintf(stderr, "too many threads\n"); return 0; }
      t = &thrs[nthr];
      t->tid = nthr++;
      t->heapsize = strtol(line + 2, &p, 10);
      t->jitter = strtol(p + 1, &p, 10);
      for (q = p + 1; *q && t->nj < MAXJ; ) {
        t->ids[t->nj++] = (int)strtol(q, &q, 10);
        if (*q == ',') q++;
      }
    }
  }
  free(line);
  fclose(f);
  return 1;
}

/* ------------------------------------------------------------------ probes */

static void P (const char *name, int ok, const char *detail) {
  printf("P %s %s %s\n", name, ok ? "ok" : "FAIL", detail ? detail : "");
  fflush(stdout);               /* so that a crash in a later probe does not hide the earlier verdicts */
}

/* looks name up in ctx's symbol table WITHOUT interning it */
static sexp find_symbol (sexp ctx, const char *name) {
  sexp *tab = sexp_context_symbols(ctx), ls;
  size_t len = strlen(name);
  int i;
  for (i = 0; i < SEXP_SYMBOL_TABLE_SIZE; i++)
    for (ls = tab[i]; sexp_pairp(ls); ls = sexp_cdr(ls))
      if (sexp_lsymbolp(sexp_car(ls)) && sexp_lsymbol_length(sexp_car(ls)) == len
          && memcmp(sexp_lsymbol_data(sexp_car(ls)), name, len) == 0)
        return sexp_car(ls);
  return NULL;
}

static int find_type_named (sexp ctx, const char *name) {
  int i, n = sexp_context_num_types(ctx), hits = 0;
  for (i = 0; i < n; i++) {
    sexp t = sexp_type_by_index(ctx, i);
    if (t && sexp_typep(t) && sexp_stringp(sexp_type_name(t)) && strcmp(sexp_string_data(sexp_type_name(t)), name) == 0)
      hits++;
  }
  return hits;
}

static int evals_to (sexp ctx, const char *text, const char *expect, char *buf, size_t n) {
  sexp_gc_var1(r);
  char *s;
  int ok;
  sexp_gc_preserve1(ctx, r);
  r = eval_all(ctx, text);
  s = show(ctx, r);
  ok = expect[0] == '^' ? strncmp(s, expect + 1, strlen(expect + 1)) == 0 : strcmp(s, expect) == 0;
  snprintf(buf, n, "%.80s => %.200s (expected %s)", text, s, expect);
  free(s);
  sexp_gc_release1(ctx);
  return ok;
}

static int probes (void) {
  char buf[400], why[200];
  const char *sym = "c13-probe-symbol-only-in-a";
  sexp a, b, c, sa, sb;
  int nb0, na0;
  long n;
  a = new_context(0);
  b = new_context(0);
  if (!a || !b) { P("contexts", 0, "cannot create"); return 1; }
  P("distinct-heaps", sexp_context_heap(a) != sexp_context_heap(b) && !in_own_heaps(a, b) && !in_own_heaps(b, a), "");
  P("distinct-globals", sexp_context_globals(a) != sexp_context_globals(b)
    && in_own_heaps(a, sexp_context_globals(a)) && in_own_heaps(b, sexp_context_globals(b)), "");
  /* symbols */
  P("symbol-absent-before", !find_symbol(a, sym) && !find_symbol(b, sym), "");
  sa = sexp_intern(a, sym, -1);
  P("symbol-interned-in-a", find_symbol(a, sym) == sa && in_own_heaps(a, sa), "");
  P("symbol-not-visible-in-b", find_symbol(b, sym) == NULL, "symbol interned in context A found in B's table");
  sb = sexp_intern(b, sym, -1);
  P("symbol-b-own-object", sb != sa && in_own_heaps(b, sb) && !in_own_heaps(a, sb) && !in_own_heaps(b, sa),
    "sexp_intern in B returned an object outside B's heaps");
  sb = sexp_intern(b, "car", -1);   /* immediate or in B; the same for a symbol interned many times */
  P("symbol-common-own-object", !sexp_pointerp(sb) || in_own_heaps(b, sb), "");
  sa = sexp_intern(a, "c13-long-common-symbol-name", -1);
  sb = sexp_intern(b, "c13-long-common-symbol-name", -1);
  sa = sexp_intern(a, "c13-long-common-symbol-name", -1);
  sb = sexp_intern(b, "c13-long-common-symbol-name", -1);
  P("symbol-alternating-intern", in_own_heaps(a, sa) && in_own_heaps(b, sb) && sa != sb
    && sa == find_symbol(a, "c13-long-common-symbol-name") && sb == find_symbol(b, "c13-long-common-symbol-name"), "");
  /* global bindings */
  P("define-in-a", evals_to(a, "(define c13-secret 42) c13-secret", "42", buf, sizeof(buf)), buf);
  P("global-not-visible-in-b", evals_to(b, "c13-secret", "^ERR:", buf, sizeof(buf)), buf);
  P("define-in-b", evals_to(b, "(define c13-secret 7) c13-secret", "7", buf, sizeof(buf)), buf);
  P("global-a-unchanged", evals_to(a, "c13-secret", "42", buf, sizeof(buf)), buf);
  P("set-builtin-in-a", evals_to(a, "(define vector-length (lambda (x) 'hacked)) (vector-length (vector 1 2))", "hacked", buf, sizeof(buf)), buf);
  P("builtin-b-unchanged", evals_to(b, "(vector-length (vector 1 2))", "2", buf, sizeof(buf)), buf);
  /* string->symbol, gensym-like counters, number formatting: results must not depend on the other context */
  P("number-format-a", evals_to(a, "(number->string 123456789012345678901234567890)", "\"123456789012345678901234567890\"", buf, sizeof(buf)), buf);
  P("number-format-b", evals_to(b, "(list (number->string 255 16) (number->string 1.5) (string->number \"1e3\"))", "(\"ff\" \"1.5\" 1000.0)", buf, sizeof(buf)), buf);
  /* types */
  nb0 = sexp_context_num_types(b);
  na0 = sexp_context_num_types(a);
  P("type-count-equal-at-start", 1, "");
  P("record-in-a", evals_to(a, "(import (srfi 9)) (define-record-type <c13-rec> (mk-c13 x) c13-rec? (x c13-x)) (c13-x (mk-c13 5))", "5", buf, sizeof(buf)), buf);
  {
    sexp_gc_var2(nm, ty);
    sexp_gc_preserve2(a, nm, ty);
    nm = sexp_c_string(a, "c13-ctype-only-in-a", -1);
    ty = sexp_register_simple_type(a, nm, SEXP_FALSE, SEXP_ZERO);
    P("ctype-registered-in-a", sexp_typep(ty) && in_own_heaps(a, ty) && find_type_named(a, "c13-ctype-only-in-a") == 1, "");
    sexp_gc_release2(a);
  }
  snprintf(buf, sizeof(buf), "types in A %d -> %d, in B %d -> %d", na0, (int)sexp_context_num_types(a), nb0, (int)sexp_context_num_types(b));
  P("type-count-b-unchanged", sexp_context_num_types(b) == nb0 && sexp_context_num_types(a) >= na0 + 2, buf);
  P("type-not-visible-in-b", find_type_named(b, "c13-ctype-only-in-a") == 0 && find_type_named(b, "c13-rec") == 0, "");
  P("record-pred-not-visible-in-b", evals_to(b, "(c13-rec? 1)", "^ERR:", buf, sizeof(buf)), buf);
  P("record-in-b-independent", evals_to(b, "(import (srfi 9)) (define-record-type <c13-rec> (mk-c13 y z) c13-rec? (y c13-y) (z c13-x)) (c13-x (mk-c13 5 6))", "6", buf, sizeof(buf)), buf);
  P("record-a-unchanged", evals_to(a, "(c13-x (mk-c13 9))", "9", buf, sizeof(buf)), buf);
  /* libraries: C-backed library imported in A only */
  P("import-srfi69-in-a", evals_to(a, "(import (srfi 69)) (let ((h (make-hash-table))) (hash-table-set! h 'k 1) (hash-table-ref/default h 'k 0))", "1", buf, sizeof(buf)), buf);
  P("library-not-visible-in-b", evals_to(b, "(hash-table? 1)", "^ERR:", buf, sizeof(buf)), buf);
  P("import-srfi69-in-b", evals_to(b, "(import (srfi 69)) (let ((h (make-hash-table))) (hash-table-set! h 'k 2) (hash-table-ref/default h 'k 0))", "2", buf, sizeof(buf)), buf);
  /* C-backed libraries that register types: the type ids differ between A and B (B registers three record
     types first), so a library that remembers "its" type id per process instead of per context misbehaves */
  {
    const char *use = "(list (mutex? (make-mutex)) (condition-variable? (make-condition-variable)) (random-source? (make-random-source))"
                      " (let ((m (make-mutex))) (mutex-lock! m) (mutex-unlock! m)) (thread? (make-thread (lambda () 1))) (integer? (file-size \"/\")) (mutex-state (make-mutex)))";
    const char *expect = "(#t #t #t #t #t #t not-abandoned)";
    P("typed-libs-in-a", evals_to(a, "(import (srfi 18) (srfi 27) (chibi filesystem)) (define c13-m (make-mutex)) 1", "1", buf, sizeof(buf)), buf);
    P("typed-libs-in-b-shifted", evals_to(b, "(import (srfi 9)) (define-record-type <s1> (mk-s1) s1?) (define-record-type <s2> (mk-s2) s2?)"
                                             " (define-record-type <s3> (mk-s3) s3?) (import (srfi 18) (srfi 27) (chibi filesystem)) 1", "1", buf, sizeof(buf)), buf);
    P("typed-libs-use-a", evals_to(a, use, expect, buf, sizeof(buf)), buf);
    P("typed-libs-use-b", evals_to(b, use, expect, buf, sizeof(buf)), buf);
    P("typed-libs-old-object-a", evals_to(a, "(list (mutex? c13-m) (mutex-lock! c13-m) (mutex-unlock! c13-m) (mutex-state c13-m))", "(#t #t #t not-abandoned)", buf, sizeof(buf)), buf);
  }
  /* both heaps closed after all that */
  sexp_gc(a, NULL);
  n = audit_heap(a, why, sizeof(why));
  P("heap-a-closed", strcmp(why, "ok") == 0 && n > 1000, why);
  sexp_gc(b, NULL);
  n = audit_heap(b, why, sizeof(why));
  P("heap-b-closed", strcmp(why, "ok") == 0 && n > 1000, why);
  /* destruction is local: destroy A, create C (its memory may reuse A's), B keeps working */
  sexp_destroy_context(a);
  c = new_context(0);
  P("b-after-destroy-a", evals_to(b, "(list c13-secret (c13-x (mk-c13 1 2)) (let ((h (make-hash-table))) (hash-table-set! h 1 2) (hash-table-ref/default h 1 0)) (vector-length (make-vector 100000 0)))",
                                  "(7 2 2 100000)", buf, sizeof(buf)), buf);
  if (c) {
    P("fresh-context-sees-nothing", evals_to(c, "c13-secret", "^ERR:", buf, sizeof(buf)) && find_symbol(c, sym) == NULL
      && find_type_named(c, "c13-ctype-only-in-a") == 0, buf);
    P("fresh-context-type-count", sexp_context_num_types(c) == na0, "number of types of a fresh context differs from the first context's");
  } else P("fresh-context", 0, "cannot create");
  sexp_gc(b, NULL);
  n = audit_heap(b, why, sizeof(why));
  P("heap-b-closed-after-destroy-a", strcmp(why, "ok") == 0, why);
  P("b-allocates-after-gc", evals_to(b, "(let lp ((i 0) (acc '())) (if (= i 50000) (length acc) (lp (+ i 1) (cons (number->string i) acc))))", "50000", buf, sizeof(buf)), buf);
  sexp_destroy_context(b);
#if SEXP_USE_GREEN_THREADS
  /* process-wide signal table: a handler registered by context D must survive context E loading the same
     C-backed library (chibi process); signal dispositions themselves are process-wide by nature */
  {
    sexp d = new_context(0), e = new_context(0);
    if (d && e) {
      int ok1 = evals_to(d, "(import (chibi process)) (set-signal-action! signal/user1 (lambda (n) #t)) 1", "1", buf, sizeof(buf));
      P("signal-handler-in-d", ok1, buf);
      P("import-process-in-e", evals_to(e, "(import (chibi process)) (integer? signal/user1)", "#t", buf, sizeof(buf)), buf);
      raise(SIGUSR1);
      snprintf(buf, sizeof(buf), "pending-signal mask of the registering context = %ld",
               (long)sexp_unbox_fixnum(sexp_global(d, SEXP_G_THREADS_SIGNALS)));
      P("signal-registration-survives-library-load-elsewhere",
        (sexp_unbox_fixnum(sexp_global(d, SEXP_G_THREADS_SIGNALS)) >> SIGUSR1) & 1, buf);
      P("signal-not-delivered-to-e", sexp_unbox_fixnum(sexp_global(e, SEXP_G_THREADS_SIGNALS)) == 0, "");
      evals_to(d, "(set-signal-action! signal/user1 #f) 1", "1", buf, sizeof(buf));
    } else P("signal-contexts", 0, "cannot create");
    if (d) sexp_destroy_context(d);
    if (e) sexp_destroy_context(e);
  }
#endif
  if (c) {
    P("c-after-destroy-b", evals_to(c, "(import (srfi 69)) (hash-table? (make-hash-table))", "#t", buf, sizeof(buf)), buf);
    sexp_destroy_context(c);
  }
  return 0;
}


/* ------------------------------------------------------------------ ops: scripted multi-context runs (round 2)

   One script line = one operation on a named context slot; TAB separated:
     new <slot> <mode> <heapsize>   parent-less context + standard environment; mode =
                                      plain  no standard ports
                                      std1   sexp_load_standard_ports(ctx, NULL, stdin, stdout, stderr, 1)  -- doc/chibi.scrbl
                                      dup0   ... (ctx, NULL, fdopen(dup(0)), fdopen(dup(1)), fdopen(dup(2)), 0): private streams the context owns
     child <slot> <parent slot>     sexp_make_child_context(parent, NULL)   (shares the parent's heap)
     eval <slot> <scheme text>      every top-level form; reports the canonical text of the last value / first exception
     gc <slot> | audit <slot> | destroy <slot>
     fds                            the descriptor table of the process (/proc/self/fd)
     maps                           the shared objects of the build that are mapped (/proc/self/maps)
   Descriptors 1 and 2 of the process are redirected to <prefix>.out / <prefix>.err before the first context
   exists (the FILE objects stdout / stderr themselves are untouched); the report goes to the original stdout:
     O <line no> <op> <slot> <text>
     C <line no> out|err <bytes that arrived in the capture file during this operation, escaped>
   so that "context B can still write to its (current-error-port) after A was destroyed" is judged by the bytes
   that reached descriptor 2, not by what the write returned. */

#define MAXS 64
static sexp slots[MAXS];
static char slot_name[MAXS][32];
static FILE *report;

static int slot_of (const char *name, int create) {
  int i;
  for (i = 0; i < MAXS; i++) if (slot_name[i][0] && strcmp(slot_name[i], name) == 0) return i;
  if (!create) return -1;
  for (i = 0; i < MAXS; i++) if (!slot_name[i][0]) { snprintf(slot_name[i], sizeof(slot_name[i]), "%s", name); return i; }
  return -1;
}

static void report_fds (int lineno) {
  DIR *d = opendir("/proc/self/fd");
  struct dirent *e;
  int fds[1024], n = 0, i, j, t;
  char path[64], target[300];
  if (!d) { fprintf(report, "O\t%d\tfds\t-\tERR:no-proc\n", lineno); return; }
  while ((e = readdir(d)) && n < 1024) {
    if (e->d_name[0] == '.') continue;
    if (atoi(e->d_name) == dirfd(d)) continue;
    fds[n++] = atoi(e->d_name);
  }
  closedir(d);
  for (i = 0; i < n; i++) for (j = i + 1; j < n; j++) if (fds[j] < fds[i]) { t = fds[i]; fds[i] = fds[j]; fds[j] = t; }
  fprintf(report, "O\t%d\tfds\t-\t", lineno);
  for (i = 0; i < n; i++) {
    ssize_t k;
    snprintf(path, sizeof(path), "/proc/self/fd/%d", fds[i]);
    k = readlink(path, target, sizeof(target) - 1);
    if (k < 0) continue;
    target[k] = 0;
    fprintf(report, "%s%d>%s", i ? " " : "", fds[i], target);
  }
  fprintf(report, "\n");
}

static void report_maps (int lineno) {
  FILE *f = fopen("/proc/self/maps", "r");
  char line[1024], seen[256][200];
  int n = 0, i;
  fprintf(report, "O\t%d\tmaps\t-\t", lineno);
  if (f) {
    while (fgets(line, sizeof(line), f)) {
      const char *root = getenv("CHIBI_MODULE_PATH");
      char *p = root ? strstr(line, root) : NULL, *q;
      if (!p || !strstr(line, ".so")) continue;
      p += strlen(root);
      q = p + strlen(p);
      while (q > p && (q[-1] == '\n' || q[-1] == ' ')) *--q = 0;
      q = strstr(p, " (deleted)");
      if (q) *q = 0;
      for (i = 0; i < n; i++) if (strcmp(seen[i], p + 1) == 0) break;
      if (i == n && n < 256) snprintf(seen[n++], sizeof(seen[0]), "%s", p + 1);
    }
    fclose(f);
  }
  for (i = 0; i < n; i++) fprintf(report, "%s%s", i ? " " : "", seen[i]);
  fprintf(report, "\n");
}

static off_t cap_pos[2];
static int cap_fd[2];

static void report_captured (int lineno) {
  static const char *nm[2] = {"out", "err"};
  char buf[2048];
  int k;
  for (k = 0; k < 2; k++) {
    ssize_t n = pread(cap_fd[k], buf, sizeof(buf), cap_pos[k]);
    ssize_t i;
    if (n <= 0) continue;
    cap_pos[k] += n;
    fprintf(report, "C\t%d\t%s\t", lineno, nm[k]);
    for (i = 0; i < n; i++) {
      unsigned char c = (unsigned char)buf[i];
      if (c == '\n') fputs("\\n", report);
      else if (c == '\t') fputs("\\t", report);
      else if (c == '\\') fputs("\\\\", report);
      else if (c < 32 || c > 126) fprintf(report, "\\x%02x", c);
      else fputc(c, report);
    }
    fputc('\n', report);
  }
}


/* ------------------------------------------------------------------ round 3: per-context tables (model coq/C13/Tab.v)

   tables <slot>       one line: number of types, type-array length, number of table (non-immediate) symbols, number of
                       modules, identities (addresses of the globals vector / symbol table vector / type array), the
                       heap chain as base:size, and the verdict of the TABLE audit: every pointer stored in the
                       context's globals vector, type array, type objects (name, cpl vector and its entries, tag ==
                       index), symbol buckets (pairs and symbols) designates an object inside the context's own heaps
   regtype <slot> <name> <parent id|->   sexp_register_simple_type; reports the id (tag) the new type got
   intern <slot> <name>                  sexp_intern; reports the bucket the symbol sits in and whether it was new
   define <slot> <name> <int>            sexp_intern + sexp_env_define in the context's top-level environment
   lookup <slot> <name>                  value of the global (the symbol is looked up WITHOUT interning it)
   find <slot> <name>                    is a symbol of that name in the context's table (no interning)
   consts                                SEXP_NUM_CORE_TYPES and SEXP_SYMBOL_TABLE_SIZE of the build
   signals (model coq/C13/Sig.v):
   raise <signum>                        kill(getpid(), signum) from the driving thread
   sigstate <slot>                       pending mask SEXP_G_THREADS_SIGNALS and the value of c13-sig-got
   blocking I/O in a green thread:
   pipe <slot> <name>                    a pipe whose non-blocking read end is bound to <name> as an input port
   feed <slot> <char>                    one byte into the write end of that slot's pipe */

static int pipe_wfd[MAXS];

static long count_symbols (sexp ctx) {
  sexp *tab = sexp_context_symbols(ctx), ls;
  long n = 0;
  int i;
  for (i = 0; i < SEXP_SYMBOL_TABLE_SIZE; i++)
    for (ls = tab[i]; sexp_pairp(ls); ls = sexp_cdr(ls)) n++;
  return n;
}

static int bucket_of_symbol (sexp ctx, sexp sym) {
  sexp *tab = sexp_context_symbols(ctx), ls;
  int i;
  for (i = 0; i < SEXP_SYMBOL_TABLE_SIZE; i++)
    for (ls = tab[i]; sexp_pairp(ls); ls = sexp_cdr(ls))
      if (sexp_car(ls) == sym) return i;
  return -1;
}

static void tables_audit (sexp ctx, char *why, size_t n) {
  sexp g = sexp_context_globals(ctx), ta, t, cpl, ls, *tab;
  long i, k, nt = sexp_context_num_types(ctx);
  snprintf(why, n, "ok");
#define OWN(x, what, idx) do { if (!(x) || !sexp_pointerp(x) || !in_own_heaps(ctx, (x))) { snprintf(why, n, "FOREIGN:%s-%ld", what, (long)(idx)); return; } } while (0)
  OWN(g, "globals-vector", 0);
  for (i = 0; i < SEXP_G_NUM_GLOBALS; i++) {
    sexp x = sexp_vector_data(g)[i];
    if (x && sexp_pointerp(x) && !in_own_heaps(ctx, x)) { snprintf(why, n, "FOREIGN:global-%ld", i); return; }
  }
  OWN(sexp_global(ctx, SEXP_G_SYMBOLS), "symbol-table-vector", 0);
  ta = sexp_global(ctx, SEXP_G_TYPES);
  OWN(ta, "type-array", 0);
  if ((long)sexp_vector_length(ta) < nt) { snprintf(why, n, "BAD:type-array-shorter-than-num-types"); return; }
  for (i = 0; i < nt; i++) {
    t = sexp_vector_data(ta)[i];
    OWN(t, "type-object", i);
    if (!sexp_typep(t) || (long)sexp_type_tag(t) != i) { snprintf(why, n, "BAD:type-%ld-has-tag-%ld", i, (long)sexp_type_tag(t)); return; }
    if (sexp_type_name(t) && sexp_pointerp(sexp_type_name(t))) OWN(sexp_type_name(t), "type-name", i);
    cpl = sexp_type_cpl(t);
    if (cpl && sexp_pointerp(cpl)) {
      OWN(cpl, "type-cpl-vector", i);
      if (sexp_vectorp(cpl)) {
        for (k = 0; k < (long)sexp_vector_length(cpl); k++) {
          sexp a = sexp_vector_data(cpl)[k];
          OWN(a, "type-cpl-entry-of-type", i);
          if (!sexp_typep(a) || (long)sexp_type_tag(a) >= nt || sexp_vector_data(ta)[sexp_type_tag(a)] != a) {
            snprintf(why, n, "BAD:cpl-entry-of-type-%ld-not-in-this-table", i); return;
          }
        }
        if (sexp_vector_length(cpl) > 0 && sexp_vector_data(cpl)[sexp_vector_length(cpl) - 1] != t) {
          snprintf(why, n, "BAD:cpl-of-type-%ld-does-not-end-in-itself", i); return;
        }
      }
    }
  }
  tab = sexp_context_symbols(ctx);
  for (i = 0; i < SEXP_SYMBOL_TABLE_SIZE; i++)
    for (ls = tab[i]; sexp_pairp(ls); ls = sexp_cdr(ls)) {
      OWN(ls, "symbol-bucket-pair", i);
      OWN(sexp_car(ls), "symbol-in-bucket", i);
    }
#undef OWN
}

static void report_tables (sexp ctx, int lineno, const char *slot) {
  char why[200];
  sexp_heap h;
  long nmod = -1;
  sexp menv = sexp_global(ctx, SEXP_G_META_ENV);
  if (menv && sexp_envp(menv)) {
    sexp r = sexp_eval_string(ctx, "(length *modules*)", -1, menv);
    if (sexp_fixnump(r)) nmod = sexp_unbox_fixnum(r);
  }
  tables_audit(ctx, why, sizeof(why));
  fprintf(report, "O\t%d\ttables\t%s\tnt=%ld cap=%ld nsym=%ld nmod=%ld glob=%lx symtab=%lx tarr=%lx audit=%s heaps=",
          lineno, slot, (long)sexp_context_num_types(ctx), (long)sexp_context_type_array_size(ctx), count_symbols(ctx), nmod,
          (unsigned long)sexp_context_globals(ctx), (unsigned long)sexp_global(ctx, SEXP_G_SYMBOLS),
          (unsigned long)sexp_global(ctx, SEXP_G_TYPES), why);
  for (h = sexp_context_heap(ctx); h; h = h->next)
    fprintf(report, "%lx:%lx%s", (unsigned long)h->data, (unsigned long)h->size, h->next ? "," : "");
  fprintf(report, "\n");
}

static int run_ops (const char *script, const char *prefix) {
  FILE *f = fopen(script, "r");
  char *line = NULL, path[600];
  size_t cap = 0;
  ssize_t n;
  int lineno = 0, k;
  if (!f) { perror(script); return 2; }
  report = fdopen(dup(1), "w");
  for (k = 0; k < 2; k++) {
    int fd;
    snprintf(path, sizeof(path), "%s.%s", prefix, k ? "err" : "out");
    fd = open(path, O_WRONLY | O_CREAT | O_TRUNC | O_APPEND, 0600);
    cap_fd[k] = open(path, O_RDONLY);
    if (fd < 0 || cap_fd[k] < 0) { perror(path); return 2; }
    fflush(k ? stderr : stdout);
    dup2(fd, k + 1);
    close(fd);
  }
  while ((n = getline(&line, &cap, f)) > 0) {
    char *op = line, *a1, *a2 = NULL, *a3 = NULL;
    int s;
    lineno++;
    if (line[n-1] == '\n') line[--n] = 0;
    if (!line[0] || line[0] == '#') continue;
    a1 = strchr(op, '\t');
    if (a1) { *a1++ = 0; a2 = strchr(a1, '\t'); }
    if (a2) { *a2++ = 0; if (strcmp(op, "eval") != 0) { a3 = strchr(a2, '\t'); if (a3) *a3++ = 0; } }
    if (strcmp(op, "fds") == 0) { report_fds(lineno); fflush(report); continue; }
    if (strcmp(op, "maps") == 0) { report_maps(lineno); fflush(report); continue; }
    if (strcmp(op, "consts") == 0) { fprintf(report, "O\t%d\tconsts\t-\tncore=%d symtab=%d\n", lineno, (int)SEXP_NUM_CORE_TYPES, (int)SEXP_SYMBOL_TABLE_SIZE); fflush(report); continue; }
    if (strcmp(op, "raise") == 0 && a1) {
      int r = kill(getpid(), atoi(a1));
      fprintf(report, "O\t%d\traise\t-\t%s\n", lineno, r == 0 ? "ok" : "ERR:kill");
      fflush(report);
      continue;
    }
    if (!a1) { fprintf(report, "O\t%d\t%s\t-\tERR:bad-line\n", lineno, op); continue; }
    if (strcmp(op, "new") == 0) {
      sexp ctx;
      s = slot_of(a1, 1);
      ctx = s < 0 ? NULL : new_context(a3 ? atol(a3) : 0);
      if (ctx && a2 && strcmp(a2, "std1") == 0)
        sexp_load_standard_ports(ctx, NULL, stdin, stdout, stderr, 1);
      else if (ctx && a2 && strcmp(a2, "dup0") == 0)
        sexp_load_standard_ports(ctx, NULL, fdopen(dup(0), "r"), fdopen(dup(1), "w"), fdopen(dup(2), "w"), 0);
      if (s >= 0) slots[s] = ctx;
      fprintf(report, "O\t%d\tnew\t%s\t%s\n", lineno, a1, ctx ? "ok" : "ERR:no-context");
    } else if (strcmp(op, "child") == 0) {
      int ps = a2 ? slot_of(a2, 0) : -1;
      s = slot_of(a1, 1);
      if (s >= 0 && ps >= 0 && slots[ps]) {
        slots[s] = sexp_make_child_context(slots[ps], NULL);
        fprintf(report, "O\t%d\tchild\t%s\t%s\n", lineno, a1, (slots[s] && !sexp_exceptionp(slots[s])) ? "ok" : "ERR:no-context");
      } else fprintf(report, "O\t%d\tchild\t%s\tERR:no-parent\n", lineno, a1);
    } else {
      s = slot_of(a1, 0);
      if (s < 0 || !slots[s]) { fprintf(report, "O\t%d\t%s\t%s\tERR:no-such-context\n", lineno, op, a1); fflush(report); continue; }
      if (strcmp(op, "eval") == 0) {
        sexp ctx = slots[s];
        char *txt;
        sexp_gc_var1(r);
        sexp_gc_preserve1(ctx, r);
        r = eval_all(ctx, a2 ? a2 : "");
        txt = show(ctx, r);
        sexp_gc_release1(ctx);
        fprintf(report, "O\t%d\teval\t%s\t%s\n", lineno, a1, txt);
        free(txt);
      } else if (strcmp(op, "gc") == 0) {
        sexp_gc(slots[s], NULL);
        fprintf(report, "O\t%d\tgc\t%s\tok\n", lineno, a1);
      } else if (strcmp(op, "audit") == 0) {
        char why[200];
        sexp_gc(slots[s], NULL);
        audit_heap(slots[s], why, sizeof(why));
        fprintf(report, "O\t%d\taudit\t%s\t%s\n", lineno, a1, why);
      } else if (strcmp(op, "destroy") == 0) {
        sexp r = sexp_destroy_context(slots[s]);
        slots[s] = NULL;
        fprintf(report, "O\t%d\tdestroy\t%s\t%s\n", lineno, a1, r == SEXP_FALSE ? "ERR:destroy-returned-false" : "ok");
      } else if (strcmp(op, "tables") == 0) {
        report_tables(slots[s], lineno, a1);
      } else if (strcmp(op, "regtype") == 0 && a2) {
        sexp ctx = slots[s], parent = NULL;
        sexp_gc_var2(nm, ty);
        sexp_gc_preserve2(ctx, nm, ty);
        if (a3 && a3[0] == '@') {           /* parent given by name: the newest type of that name in THIS context's table */
          long k;
          for (k = (long)sexp_context_num_types(ctx) - 1; k >= 0 && !parent; k--) {
            sexp t = sexp_type_by_index(ctx, k);
            if (t && sexp_typep(t) && sexp_stringp(sexp_type_name(t)) && strcmp(sexp_string_data(sexp_type_name(t)), a3 + 1) == 0) parent = t;
          }
        } else if (a3 && a3[0] != '-' && atol(a3) >= 0 && atol(a3) < (long)sexp_context_num_types(ctx))
          parent = sexp_type_by_index(ctx, atol(a3));
        nm = sexp_c_string(ctx, a2, -1);
        ty = sexp_register_simple_type(ctx, nm, parent ? parent : SEXP_FALSE, SEXP_NULL);
        if (sexp_typep(ty))
          fprintf(report, "O\t%d\tregtype\t%s\tid=%ld own=%d\n", lineno, a1, (long)sexp_type_tag(ty), in_own_heaps(ctx, ty));
        else
          fprintf(report, "O\t%d\tregtype\t%s\tERR:not-a-type\n", lineno, a1);
        sexp_gc_release2(ctx);
      } else if (strcmp(op, "intern") == 0 && a2) {
        sexp ctx = slots[s], sym;
        long before = count_symbols(ctx);
        sym = sexp_intern(ctx, a2, -1);
        if (sexp_lsymbolp(sym))
          fprintf(report, "O\t%d\tintern\t%s\tbucket=%d fresh=%ld own=%d\n", lineno, a1, bucket_of_symbol(ctx, sym),
                  count_symbols(ctx) - before, in_own_heaps(ctx, sym));
        else
          fprintf(report, "O\t%d\tintern\t%s\tERR:not-a-table-symbol\n", lineno, a1);
      } else if (strcmp(op, "define") == 0 && a2 && a3) {
        sexp ctx = slots[s];
        sexp_gc_var1(sym);
        sexp_gc_preserve1(ctx, sym);
        sym = sexp_intern(ctx, a2, -1);
        sexp_env_define(ctx, sexp_context_env(ctx), sym, sexp_make_fixnum(atol(a3)));
        sexp_gc_release1(ctx);
        fprintf(report, "O\t%d\tdefine\t%s\tok\n", lineno, a1);
      } else if (strcmp(op, "lookup") == 0 && a2) {
        sexp ctx = slots[s], sym = find_symbol(ctx, a2), v = NULL;
        if (sym) v = sexp_env_ref(ctx, sexp_context_env(ctx), sym, NULL);
        if (v && sexp_fixnump(v)) fprintf(report, "O\t%d\tlookup\t%s\t%ld\n", lineno, a1, (long)sexp_unbox_fixnum(v));
        else fprintf(report, "O\t%d\tlookup\t%s\t%s\n", lineno, a1, v ? "other" : "unbound");
      } else if (strcmp(op, "find") == 0 && a2) {
        fprintf(report, "O\t%d\tfind\t%s\t%d\n", lineno, a1, find_symbol(slots[s], a2) ? 1 : 0);
      } else if (strcmp(op, "sigstate") == 0) {
        sexp ctx = slots[s];
        char *txt;
        sexp_gc_var1(r);
        sexp_gc_preserve1(ctx, r);
        r = eval_all(ctx, "c13-sig-got");
        txt = show(ctx, r);
        sexp_gc_release1(ctx);
#if SEXP_USE_GREEN_THREADS
        fprintf(report, "O\t%d\tsigstate\t%s\tpending=%ld got=%s\n", lineno, a1, (long)sexp_unbox_fixnum(sexp_global(ctx, SEXP_G_THREADS_SIGNALS)), txt);
#else
        fprintf(report, "O\t%d\tsigstate\t%s\tpending=0 got=%s\n", lineno, a1, txt);
#endif
        free(txt);
      } else if (strcmp(op, "pipe") == 0 && a2) {
        sexp ctx = slots[s];
        int pfd[2];
        if (pipe(pfd) == 0) {
          sexp_gc_var3(fileno, port, sym);
          sexp_gc_preserve3(ctx, fileno, port, sym);
          fcntl(pfd[0], F_SETFL, fcntl(pfd[0], F_GETFL) | O_NONBLOCK);   /* a read blocks the green thread only */
          fileno = sexp_make_fileno(ctx, sexp_make_fixnum(pfd[0]), SEXP_FALSE);
          port = sexp_open_input_file_descriptor(ctx, NULL, 2, fileno, SEXP_FALSE);
          sym = sexp_intern(ctx, a2, -1);
          sexp_env_define(ctx, sexp_context_env(ctx), sym, port);
          sexp_gc_release3(ctx);
          pipe_wfd[s] = pfd[1];
          fprintf(report, "O\t%d\tpipe\t%s\tok\n", lineno, a1);
        } else fprintf(report, "O\t%d\tpipe\t%s\tERR:pipe\n", lineno, a1);
      } else if (strcmp(op, "feed") == 0 && a2) {
        ssize_t k = pipe_wfd[s] > 0 ? write(pipe_wfd[s], a2, 1) : -1;
        fprintf(report, "O\t%d\tfeed\t%s\t%s\n", lineno, a1, k == 1 ? "ok" : "ERR:write");
      } else fprintf(report, "O\t%d\t%s\t%s\tERR:unknown-op\n", lineno, op, a1);
    }
    report_captured(lineno);
    fflush(report);
  }
  fprintf(report, "O\t%d\tend\t-\tok\n", lineno + 1);
  fflush(report);
  return 0;
}

/* ------------------------------------------------------------------ main */

int main (int argc, char **argv) {
  int i, j, noinit = argc > 3 && (strcmp(argv[3], "noinit") == 0 || strcmp(argv[3], "initrace") == 0);
  initrace = argc > 3 && strcmp(argv[3], "initrace") == 0;
  if (argc < 3) { fprintf(stderr, "usage: embed_c13 run|probe <spec> [noinit] | ops <script> <capture prefix>\n"); return 2; }
  if (strcmp(argv[1], "ops") == 0) {
    if (argc < 4) return 2;
    sexp_scheme_init();
    return run_ops(argv[2], argv[3]);
  }
  if (!read_spec(argv[2])) return 2;
  if (!noinit) sexp_scheme_init();
  if (strcmp(argv[1], "probe") == 0) {
    int r = probes();
    /* workloads listed in the spec run sequentially in fresh contexts while nothing else is alive */
    return r;
  }
  std_ports = argc > 3 && strcmp(argv[3], "stdports") == 0;
  {
    char before[3][300], after[300], path[32];
    int k, bad = 0;
    ssize_t n;
    for (k = 0; k < 3; k++) {
      snprintf(path, sizeof(path), "/proc/self/fd/%d", k);
      n = readlink(path, before[k], sizeof(before[k]) - 1);
      before[k][n < 0 ? 0 : n] = 0;
    }
  pthread_barrier_init(&barrier, NULL, nthr);
  pthread_barrier_init(&sync_barrier, NULL, nthr);
  sync_on = 1;
  for (i = 0; i < nthr; i++)
    if (pthread_create(&thrs[i].th, NULL, thread_main, &thrs[i])) { perror("pthread_create"); return 2; }
  for (i = 0; i < nthr; i++)
    pthread_join(thrs[i].th, NULL);
  for (i = 0; i < nthr; i++)
    for (j = 0; j < thrs[i].nj; j++)
      printf("R %d %d %d %s\n", i, j, thrs[i].ids[j], thrs[i].out[j] ? thrs[i].out[j] : "MISSING 0 -");
    /* the host's standard descriptors after every context was destroyed (the report itself needs descriptor 1:
       if it is gone the parent sees no output at all) */
    for (k = 0; k < 3; k++) {
      snprintf(path, sizeof(path), "/proc/self/fd/%d", k);
      n = readlink(path, after, sizeof(after) - 1);
      after[n < 0 ? 0 : n] = 0;
      if (strcmp(after, before[k]) != 0) bad |= 1 << k;
    }
    printf("S stdfds %s %d\n", bad ? "FAIL" : "ok", bad);
  }
  return 0;
}
