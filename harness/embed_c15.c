/* Inner correspondence for C15: builds objects with a CHOSEN representation (bignums with unused
   high words, strings at an offset inside a larger byte store, unshared pairs / vectors) and calls
   sexp_equalp_bound / sexp_equalp_op / eqv? / (srfi 69) hash / string-hash on them.
   Protocol: same request lines and answers as ocaml/C15_driver.ml (eqb, equal, eqv, hash, shash). */
#include <chibi/eval.h>
#include <stdio.h>
#include <string.h>
#include <stdlib.h>

static sexp ctx, env, p_hash, p_string_hash, p_eqv;
static char *toks[100000];
static int ntok, tokpos;

static int hexval(int c) { return c <= '9' ? c - '0' : (c | 32) - 'a' + 10; }

static sexp mkbytes(sexp ctx, const char *h) {
  size_t n = strlen(h) / 2, i;
  sexp r = sexp_make_bytes(ctx, sexp_make_fixnum(n), SEXP_VOID);
  for (i = 0; i < n; i++) sexp_bytes_data(r)[i] = (char)(hexval(h[2*i]) * 16 + hexval(h[2*i+1]));
  return r;
}

static sexp build(sexp ctx) {
  sexp_gc_var3(a, d, r);
  char *t;
  if (tokpos >= ntok) return SEXP_VOID;
  t = toks[tokpos++];
  sexp_gc_preserve3(ctx, a, d, r);
  r = SEXP_VOID;
  switch (t[0]) {
  case 'i': r = (sexp) strtoull(t + 1, NULL, 16); break;
  case 'f': { unsigned long long bits = strtoull(t + 1, NULL, 16); double dv; memcpy(&dv, &bits, 8);
              r = sexp_make_flonum(ctx, dv); memcpy(&sexp_flonum_value(r), &bits, 8); break; }
  case 'b': {
    sexp_uint_t vals[4096]; int n = 0, i; char *p = t + 3;
    while (*p && n < 4096) { vals[n++] = strtoull(p, &p, 16); if (*p == '.') p++; }
    r = sexp_make_bignum(ctx, n);
    for (i = 0; i < n; i++) sexp_bignum_data(r)[i] = vals[i];
    sexp_bignum_sign(r) = (t[1] == '-') ? -1 : 1;
    break; }
  case 'y': r = mkbytes(ctx, t + 1); break;
  case 's': {
    char *p = t + 1; long off = strtol(p, &p, 10), len; p++; len = strtol(p, &p, 10); p++;
    a = mkbytes(ctx, p);
    r = sexp_alloc_type(ctx, string, SEXP_STRING);
    sexp_string_bytes(r) = a;
    sexp_string_offset(r) = off;
    sexp_string_size(r) = len;
    break; }
  case 'p': a = build(ctx); d = build(ctx); r = sexp_cons(ctx, a, d); break;
  case 'v': {
    long n = strtol(t + 1, NULL, 10), i;
    r = sexp_make_vector(ctx, sexp_make_fixnum(n), SEXP_VOID);
    for (i = 0; i < n; i++) { a = build(ctx); sexp_vector_data(r)[i] = a; }
    break; }
  default: r = SEXP_VOID;
  }
  sexp_gc_release3(ctx);
  return r;
}

static sexp parse_obj(sexp ctx, char *s) {
  ntok = 0; tokpos = 0;
  for (char *tok = strtok(s, ","); tok && ntok < 100000; tok = strtok(NULL, ",")) toks[ntok++] = tok;
  return build(ctx);
}

static void prhex(sexp_sint_t v) { if (v < 0) printf("-%lx", (unsigned long)-v); else printf("%lx", (unsigned long)v); }

int main(int argc, char **argv) {
  static char line[4000000];
  sexp_scheme_init();
  ctx = sexp_make_eval_context(NULL, NULL, NULL, 0, 0);
  sexp_load_standard_env(ctx, NULL, SEXP_SEVEN);
  sexp_load_standard_ports(ctx, NULL, stdin, stdout, stderr, 1);
  env = sexp_context_env(ctx);
  sexp_gc_var4(a, b, r, args);
  sexp_gc_preserve4(ctx, a, b, r, args);
  r = sexp_eval_string(ctx, "(import (srfi 69))", -1, env);
  if (sexp_exceptionp(r)) { fprintf(stderr, "cannot import (srfi 69)\n"); return 2; }
  env = sexp_context_env(ctx);
  p_hash = sexp_eval_string(ctx, "hash", -1, env); sexp_preserve_object(ctx, p_hash);
  p_string_hash = sexp_eval_string(ctx, "string-hash", -1, env); sexp_preserve_object(ctx, p_string_hash);
  p_eqv = sexp_eval_string(ctx, "eqv?", -1, env); sexp_preserve_object(ctx, p_eqv);
  if (sexp_exceptionp(p_hash) || sexp_exceptionp(p_string_hash) || sexp_exceptionp(p_eqv)) { fprintf(stderr, "no hash\n"); return 2; }
  while (fgets(line, sizeof line, stdin)) {
    char *f[8]; int nf = 0; char *save = NULL; char *tok = strtok_r(line, " \n", &save);
    while (tok && nf < 8) { f[nf++] = tok; tok = strtok_r(NULL, " \n", &save); }
    if (nf == 0) { printf("\n"); continue; }
    if (!strcmp(f[0], "eqb") && nf == 5) {
      a = parse_obj(ctx, f[1]); b = parse_obj(ctx, f[2]);
      r = sexp_equalp_bound(ctx, NULL, 4, a, b, sexp_make_fixnum(strtol(f[3], NULL, 16)), sexp_make_fixnum(strtol(f[4], NULL, 16)));
      if (r == SEXP_FALSE) printf("F"); else if (sexp_fixnump(r)) { printf("B"); prhex(sexp_unbox_fixnum(r)); } else printf("ERR");
    } else if (!strcmp(f[0], "equal") && nf == 3) {
      a = parse_obj(ctx, f[1]); b = parse_obj(ctx, f[2]);
      r = sexp_equalp_op(ctx, NULL, 2, a, b);
      printf("%s", r == SEXP_TRUE ? "1" : r == SEXP_FALSE ? "0" : "ERR");
    } else if (!strcmp(f[0], "eqv") && nf == 3) {
      a = parse_obj(ctx, f[1]); b = parse_obj(ctx, f[2]);
      args = sexp_list2(ctx, a, b);
      r = sexp_apply(ctx, p_eqv, args);
      printf("%s", r == SEXP_TRUE ? "1" : r == SEXP_FALSE ? "0" : "ERR");
    } else if ((!strcmp(f[0], "hash") || !strcmp(f[0], "shash")) && nf == 3) {
      a = parse_obj(ctx, f[1]);
      args = sexp_list2(ctx, a, sexp_make_fixnum(strtol(f[2], NULL, 16)));
      r = sexp_apply(ctx, f[0][0] == 'h' ? p_hash : p_string_hash, args);
      if (sexp_fixnump(r)) prhex(sexp_unbox_fixnum(r)); else printf("ERR");
    } else {
      printf("ERR unknown request");
    }
    printf("\n");
  }
  sexp_gc_release4(ctx);
  sexp_destroy_context(ctx);
  return 0;
}
