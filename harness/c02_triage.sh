#!/bin/sh
# C02 triage helper: run a Scheme expression / file under a forced-GC schedule with the asan scratch build
# usage: c02_triage.sh <schedule> [-e expr | file] ; env: VERIF_REPO, VERIF_SCRATCH, EARLY=1
sched="$1"; shift
d=$(cd /verif && python3 -m vlib.build asan 2>/dev/null | tail -1)
export LD_LIBRARY_PATH=$d CHIBI_MODULE_PATH=$d/lib CHIBI_IGNORE_SYSTEM_PATH=1
export ASAN_OPTIONS=detect_leaks=0:exitcode=97
[ -n "$EARLY" ] && export CHIBI_VERIF_GC_EARLY=1
CHIBI_VERIF_GC="$sched" timeout ${TMO:-600} "$d/chibi-scheme" "$@" > /var/tmp/verif-C02/triage.out 2> /var/tmp/verif-C02/triage.err
rc=$?
echo "rc=$rc sched=$sched"
tail -c 600 /var/tmp/verif-C02/triage.out
grep -m1 'ERROR: AddressSanitizer' /var/tmp/verif-C02/triage.err
grep -E '^\s+#[0-9]+ ' /var/tmp/verif-C02/triage.err | head -${NF:-14} | sed -e 's/0x[0-9a-f]* in //' -e 's,/var/tmp/verif-C02/[a-z]*-[0-9a-f]*/,,'
grep -v '^\s*#\|^=\|^$' /var/tmp/verif-C02/triage.err | head -5
