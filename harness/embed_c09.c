/* C09 inner correspondence (A): calls the struct-based 128-bit helpers of chibi/bignum.h (compiled with
   -DSEXP_USE_CUSTOM_LONG_LONGS=1 against the customll scratch build's headers) on the request's words, and
   prints, after the helper's answer, what native unsigned/signed __int128 arithmetic gives ("|" separated;
   "-" where no native counterpart is defined).  Same line protocol as ocaml/C09_driver.ml. */
#include <chibi/eval.h>
#include <stdio.h>
#include <string.h>
#include <stdlib.h>

#if !SEXP_USE_CUSTOM_LONG_LONGS
#error "compile with -DSEXP_USE_CUSTOM_LONG_LONGS=1"
#endif

typedef unsigned __int128 u128;
typedef __int128 s128;

static long long rdz(const char *s) {           /* signed hex, 64-bit two's complement for magnitudes >= 2^63 */
  int neg = (*s == '-'); if (neg) s++;
  unsigned long long v = strtoull(s, NULL, 16);
  return neg ? (long long)(0ULL - v) : (long long)v;
}
static sexp_luint_t rdu(char *s) { sexp_luint_t r; char *c = strchr(s, ','); *c = 0; r.hi = (uint64_t)rdz(s); r.lo = (uint64_t)rdz(c+1); *c = ','; return r; }
static sexp_lsint_t rds(char *s) { sexp_lsint_t r; char *c = strchr(s, ','); *c = 0; r.hi = (int64_t)rdz(s); r.lo = (uint64_t)rdz(c+1); *c = ','; return r; }
static void prs64(long long v) { if (v < 0) printf("-%llx", 0ULL - (unsigned long long)v); else printf("%llx", (unsigned long long)v); }
static void pru(sexp_luint_t v) { printf("%llx,%llx", (unsigned long long)v.hi, (unsigned long long)v.lo); }
static void prs(sexp_lsint_t v) { prs64(v.hi); printf(",%llx", (unsigned long long)v.lo); }
static u128 nu(sexp_luint_t v) { return ((u128)v.hi << 64) | v.lo; }
static s128 ns(sexp_lsint_t v) { return (s128)(((u128)(uint64_t)v.hi << 64) | v.lo); }
static void prnu(u128 v) { printf("|%llx,%llx", (unsigned long long)(v >> 64), (unsigned long long)v); }
static void prns(s128 v) { printf("|"); prs64((long long)(v >> 64)); printf(",%llx", (unsigned long long)v); }

int main(void) {
  static char line[4096];
  while (fgets(line, sizeof line, stdin)) {
    char *f[4]; int nf = 0; char *tok = strtok(line, " \n");
    while (tok && nf < 4) { f[nf++] = tok; tok = strtok(NULL, " \n"); }
    if (nf == 0) { printf("\n"); continue; }
#define IS(n, k) (!strcmp(f[0], n) && nf == (k) + 1)
    if (IS("lsint_lt_0", 1)) { sexp_lsint_t a = rds(f[1]); printf("%x|%x", lsint_lt_0(a), ns(a) < 0); }
    else if (IS("sexp_lsint_fits_sint", 1)) { sexp_lsint_t a = rds(f[1]); printf("%x|%x", sexp_lsint_fits_sint(a), (s128)(sexp_sint_t)ns(a) == ns(a)); }
    else if (IS("sexp_luint_fits_uint", 1)) { sexp_luint_t a = rdu(f[1]); printf("%x|%x", sexp_luint_fits_uint(a), (u128)(sexp_uint_t)nu(a) == nu(a)); }
    else if (IS("luint_from_lsint", 1)) { sexp_lsint_t a = rds(f[1]); pru(luint_from_lsint(a)); prnu((u128)ns(a)); }
    else if (IS("lsint_from_luint", 1)) { sexp_luint_t a = rdu(f[1]); prs(lsint_from_luint(a)); prns((s128)nu(a)); }
    else if (IS("lsint_from_sint", 1)) { sexp_sint_t a = rdz(f[1]); prs(lsint_from_sint(a)); prns((s128)a); }
    else if (IS("luint_from_uint", 1)) { sexp_uint_t a = (sexp_uint_t)rdz(f[1]); pru(luint_from_uint(a)); prnu((u128)a); }
    else if (IS("lsint_to_sint", 1)) { sexp_lsint_t a = rds(f[1]); prs64(lsint_to_sint(a)); printf("|"); prs64((sexp_sint_t)ns(a)); }
    else if (IS("luint_to_uint", 1)) { sexp_luint_t a = rdu(f[1]); printf("%llx|%llx", (unsigned long long)luint_to_uint(a), (unsigned long long)(sexp_uint_t)nu(a)); }
    else if (IS("lsint_to_sint_hi", 1)) { sexp_lsint_t a = rds(f[1]); prs64(lsint_to_sint_hi(a)); printf("|"); prs64((sexp_sint_t)(ns(a) >> 64)); }
    else if (IS("luint_to_uint_hi", 1)) { sexp_luint_t a = rdu(f[1]); printf("%llx|%llx", (unsigned long long)luint_to_uint_hi(a), (unsigned long long)(sexp_uint_t)(nu(a) >> 64)); }
    else if (IS("lsint_negate", 1)) { sexp_lsint_t a = rds(f[1]); prs(lsint_negate(a)); prns((s128)(0 - (u128)ns(a))); }
    else if (IS("luint_eq", 2)) { sexp_luint_t a = rdu(f[1]), b = rdu(f[2]); printf("%x|%x", luint_eq(a, b), nu(a) == nu(b)); }
    else if (IS("luint_lt", 2)) { sexp_luint_t a = rdu(f[1]), b = rdu(f[2]); printf("%x|%x", luint_lt(a, b), nu(a) < nu(b)); }
    else if (IS("luint_shl", 2)) { sexp_luint_t a = rdu(f[1]); size_t s = (size_t)rdz(f[2]); pru(luint_shl(a, s)); if (s < 128) prnu(nu(a) << s); else printf("|-"); }
    else if (IS("luint_shr", 2)) { sexp_luint_t a = rdu(f[1]); size_t s = (size_t)rdz(f[2]); pru(luint_shr(a, s)); if (s < 128) prnu(nu(a) >> s); else printf("|-"); }
    else if (IS("luint_add", 2)) { sexp_luint_t a = rdu(f[1]), b = rdu(f[2]); pru(luint_add(a, b)); prnu(nu(a) + nu(b)); }
    else if (IS("luint_add_uint", 2)) { sexp_luint_t a = rdu(f[1]); sexp_uint_t b = (sexp_uint_t)rdz(f[2]); pru(luint_add_uint(a, b)); prnu(nu(a) + b); }
    else if (IS("luint_sub", 2)) { sexp_luint_t a = rdu(f[1]), b = rdu(f[2]); pru(luint_sub(a, b)); prnu(nu(a) - nu(b)); }
    else if (IS("luint_mul_uint", 2)) { sexp_luint_t a = rdu(f[1]); sexp_uint_t b = (sexp_uint_t)rdz(f[2]); pru(luint_mul_uint(a, b)); prnu(nu(a) * b); }
    else if (IS("lsint_mul_sint", 2)) { sexp_lsint_t a = rds(f[1]); sexp_sint_t b = rdz(f[2]); prs(lsint_mul_sint(a, b)); prns((s128)((u128)ns(a) * (u128)(s128)b)); }
    else if (IS("luint_div", 2)) { sexp_luint_t a = rdu(f[1]), b = rdu(f[2]); if (nu(b) == 0) printf("-|-"); else { pru(luint_div(a, b)); prnu(nu(a) / nu(b)); } }
    else if (IS("luint_div_uint", 2)) { sexp_luint_t a = rdu(f[1]); sexp_uint_t b = (sexp_uint_t)rdz(f[2]); if (b == 0) printf("-|-"); else { pru(luint_div_uint(a, b)); prnu(nu(a) / b); } }
    else if (IS("luint_and", 2)) { sexp_luint_t a = rdu(f[1]), b = rdu(f[2]); pru(luint_and(a, b)); prnu(nu(a) & nu(b)); }
    else if (IS("luint_is_fixnum", 1)) { sexp_luint_t a = rdu(f[1]); printf("%x|%x", luint_is_fixnum(a), nu(a) <= (u128)SEXP_MAX_FIXNUM); }
    else if (IS("lsint_is_fixnum", 1)) { sexp_lsint_t a = rds(f[1]); printf("%x|%x", lsint_is_fixnum(a), (s128)SEXP_MIN_FIXNUM <= ns(a) && ns(a) <= (s128)SEXP_MAX_FIXNUM); }
    else printf("ERR unknown request");
    printf("\n");
  }
  return 0;
}
