;; C20 correspondence driver: (chibi regexp) on batches of (SRE, subject strings).
;; usage: chibi-scheme c20_driver.scm <cases-file>
;; cases file: a sequence of data  (id sre str ...)
;; output, one line per case:   id R <res> <res> ...      one <res> per subject string
;;        <res> = M<spans>;S<spans>   spans = #f -> "-"   else  i-j,x,i-j,...   (x = submatch unset)
;;        a Scheme error while matching one string gives  M!<msg>  /  S!<msg>
;;   or   id ERR <message>        when (regexp sre) raises
;; also:  (id anchors str ...) -> id A <bits per position>   the internal predicates match/bos .. match/nwb at every position
;; also:  (id ge (ng (slot ...) (slot ...)) ...) -> id Q <0/1 of the internal regexp-match>=? on two constructed match vectors>
;; also:  (id reps (from to) ...) -> id X <shape of (sre-expand-reps from to '(seq ($ x)))>
;; also:  (id range sre (str start end) ...) -> like R, calling (regexp-matches rx str start end) / (regexp-search rx str start end)
;; also:  (id fold sre str ...) -> id G F<spans kons saw>;E<regexp-extract>;S<regexp-split>;P<regexp-partition>;R<regexp-replace with "-">;A<regexp-replace-all with "-">
;; also:  (id chars cp ...)  ->  id K cp:fold:up:down:word ...   (char-level functions, hex)
(import (scheme base) (scheme write) (scheme read) (scheme char) (scheme file)
        (scheme process-context) (scheme eval) (only (meta) find-module module-env)
        (chibi regexp) (chibi char-set) (chibi char-set full) (chibi string))

;; non-exported procedures of (chibi regexp), for the function-level stages; #f when the name is gone
(define regexp-env (module-env (find-module '(chibi regexp))))
(define (internal name)
  (guard (e (#t #f)) (eval name regexp-env)))

(define (msg-of e)
  (let ((o (open-output-string)))
    (if (error-object? e)
        (begin (write-string (error-object-message e) o))
        (write e o))
    (let* ((s (get-output-string o))
           (s (string-map (lambda (c) (if (or (char=? c #\space) (char=? c #\newline)) #\_ c)) s)))
      (if (equal? s "") "?" s))))

(define (spans m s)
  (if (not m)
      "-"
      (let ((o (open-output-string)))
        (let lp ((i 0))
          (if (<= i (regexp-match-count m))
              (let ((a (regexp-match-submatch-start m i))
                    (b (regexp-match-submatch-end m i)))
                (if (> i 0) (write-char #\, o))
                (cond
                 ((and a b)
                  ;; the text accessor must agree with the indices
                  (if (not (and (<= 0 a b (string-length s))
                                (equal? (regexp-match-submatch m i) (substring s a b))))
                      (error "submatch-text-differs-from-indices" i))
                  (write a o) (write-char #\- o) (write b o))
                 (else
                  (if (or a b (regexp-match-submatch m i))
                      (error "submatch-half-set" i))
                  (write-char #\x o)))
                (lp (+ i 1)))))
        (get-output-string o))))

;; list of spans -> "a-b,a-b" ("_" when empty); list of strings -> code points in hex joined by ".", "e" = empty
;; string, strings joined by ",", "_" = empty list
(define (span-list ls)
  (if (null? ls)
      "_"
      (let ((o (open-output-string)))
        (let lp ((ls ls) (first #t))
          (if (pair? ls)
              (begin
                (if (not first) (write-char #\, o))
                (write (caar ls) o) (write-char #\- o) (write (cdar ls) o)
                (lp (cdr ls) #f))))
        (get-output-string o))))

(define (str-list ls)
  (if (null? ls)
      "_"
      (let ((o (open-output-string)))
        (let lp ((ls ls) (first #t))
          (if (pair? ls)
              (begin
                (if (not first) (write-char #\, o))
                (if (equal? (car ls) "")
                    (write-char #\e o)
                    (let lp2 ((cs (string->list (car ls))) (first #t))
                      (if (pair? cs)
                          (begin
                            (if (not first) (write-char #\. o))
                            (write-string (number->string (char->integer (car cs)) 16) o)
                            (lp2 (cdr cs) #f)))))
                (lp (cdr ls) #f))))
        (get-output-string o))))

(define char-set:word (char-set-union char-set:letter char-set:digit (char-set #\_)))

(define (hex n) (number->string n 16))

(define (do-case c)
  (let ((id (car c)))
    (write id)
    (cond
     ((eq? (cadr c) 'chars)
      (write-string " K")
      (for-each
       (lambda (cp)
         (let ((ch (integer->char cp)))
           (write-string " ")
           (write-string (hex cp)) (write-string ":")
           (write-string (hex (char->integer (char-foldcase ch)))) (write-string ":")
           (write-string (hex (char->integer (char-upcase ch)))) (write-string ":")
           (write-string (hex (char->integer (char-downcase ch)))) (write-string ":")
           (write-string (if (char-set-contains? char-set:word ch) "1" "0"))))
       (cddr c)))
     ((eq? (cadr c) 'anchors)
      ;; (id anchors str ...) -> id A <res> ...   res = for every position 0..len the 7 results of
      ;; match/bos eos bol eol bow eow nwb as 0/1, positions separated by ","
      (let ((preds (map internal '(match/bos match/eos match/bol match/eol match/bow match/eow match/nwb))))
        (cond
         ((memv #f preds)
          (write-string " ERR internal-anchor-predicates-not-found"))
         (else
          (write-string " A")
          (for-each
           (lambda (s)
             (write-string " ")
             (let ((start (string-cursor-start s)) (end (string-cursor-end s)) (len (string-length s)))
               (let lp ((i 0))
                 (if (<= i len)
                     (let* ((sc (string-index->cursor s i))
                            (ch (and (< i len) (string-cursor-ref s sc))))
                       (if (> i 0) (write-string ","))
                       (for-each
                        (lambda (p)
                          (write-string (guard (e (#t "!")) (if (p s sc ch start end #f) "1" "0"))))
                        preds)
                       (lp (+ i 1)))))))
           (cddr c))))))
     ((eq? (cadr c) 'ge)
      ;; (id ge (ng (slot ...) (slot ...)) ...) -> id Q 0/1 ...   the internal regexp-match>=? on two match vectors
      ;; (slot = index into a 12-character string, or -1 for #f) of a regexp whose non-greedy-indexes are ng
      (let ((ge? (internal 'regexp-match>=?))
            (mk-match (internal '%make-regexp-match))
            (mk-rx (internal 'make-rx))
            (str "abcdefghijkl"))
        (cond
         ((not (and ge? mk-match mk-rx))
          (write-string " ERR internal-regexp-match>=?-not-found"))
         (else
          (write-string " Q")
          (for-each
           (lambda (x)
             (write-string " ")
             (write-string
              (guard (e (#t (string-append "!" (msg-of e))))
                (let* ((rx (mk-rx #f 0 (length (cadr x)) (car x) (vector) '() #f))
                       (vec (lambda (ls)
                              (list->vector
                               (map (lambda (k) (and (>= k 0) (string-index->cursor str k))) ls))))
                       (m1 (mk-match (vec (cadr x)) rx str))
                       (m2 (mk-match (vec (car (cddr x))) rx str)))
                  (if (ge? m1 m2) "1" "0")))))
           (cddr c))))))
     ((eq? (cadr c) 'reps)
      ;; (id reps (from to) ...) -> id X <shape> ...   to = #f for "at least"; the internal sre-expand-reps applied to
      ;; the body (seq ($ x)); shape: c = stripped copy, C = copy with its submatch, o/O = optional copy, S = star, ? = other
      (let ((expand (internal 'sre-expand-reps)))
        (cond
         ((not expand)
          (write-string " ERR internal-sre-expand-reps-not-found"))
         (else
          (write-string " X")
          (for-each
           (lambda (ft)
             (write-string " ")
             (write-string
              (guard (e (#t (string-append "!" (msg-of e))))
                (let ((res (expand (car ft) (cadr ft) '(seq ($ x)))))
                  (if (not (and (pair? res) (memq (car res) '(: seq))))
                      "?"
                      (if (null? (cdr res))
                          "_"
                          (list->string
                           (map (lambda (it)
                                  (cond ((equal? it '(seq (: x))) #\c)
                                        ((equal? it '(seq ($ x))) #\C)
                                        ((equal? it '(? (seq (: x)))) #\o)
                                        ((equal? it '(? (seq ($ x)))) #\O)
                                        ((equal? it '(* (seq ($ x)))) #\S)
                                        (else #\?)))
                                (cdr res)))))))))
           (cddr c))))))
     ((eq? (cadr c) 'range)
      ;; (id range sre (str start end) ...) -> id R M<spans>;S<spans> ...   with the optional start/end arguments
      (let ((rx (guard (e (#t (cons 'err (msg-of e)))) (regexp (car (cddr c))))))
        (cond
         ((pair? rx)
          (write-string " ERR ") (write-string (cdr rx)))
         (else
          (write-string " R")
          (for-each
           (lambda (x)
             (let ((s (car x)) (start (cadr x)) (end (car (cddr x))))
               (write-string " M")
               (write-string (guard (e (#t (string-append "!" (msg-of e)))) (spans (regexp-matches rx s start end) s)))
               (write-string ";S")
               (write-string (guard (e (#t (string-append "!" (msg-of e)))) (spans (regexp-search rx s start end) s)))))
           (cdr (cddr c)))))))
     ((eq? (cadr c) 'fold)
      ;; (id fold sre str ...) -> id G <res> ...   res = F<spans>;E<strs>;S<strs>;P<strs>;R<str>;A<str>
      (let ((rx (guard (e (#t (cons 'err (msg-of e)))) (regexp (car (cddr c))))))
        (cond
         ((pair? rx)
          (write-string " ERR ") (write-string (cdr rx)))
         (else
          (write-string " G")
          (for-each
           (lambda (s)
             (write-string " F")
             (write-string
              (guard (e (#t (string-append "!" (msg-of e))))
                (span-list
                 (regexp-fold rx
                              (lambda (i m str acc)
                                (cons (cons (regexp-match-submatch-start m 0) (regexp-match-submatch-end m 0)) acc))
                              '() s (lambda (i m str acc) (reverse acc))))))
             (write-string ";E")
             (write-string (guard (e (#t (string-append "!" (msg-of e)))) (str-list (regexp-extract rx s))))
             (write-string ";S")
             (write-string (guard (e (#t (string-append "!" (msg-of e)))) (str-list (regexp-split rx s))))
             (write-string ";P")
             (write-string (guard (e (#t (string-append "!" (msg-of e)))) (str-list (regexp-partition rx s))))
             (write-string ";R")
             (write-string (guard (e (#t (string-append "!" (msg-of e)))) (str-list (list (regexp-replace rx s "-")))))
             (write-string ";A")
             (write-string (guard (e (#t (string-append "!" (msg-of e)))) (str-list (list (regexp-replace-all rx s "-"))))))
           (cdr (cddr c)))))))
     (else
      (let ((rx (guard (e (#t (cons 'err (msg-of e)))) (regexp (cadr c)))))
        (cond
         ((pair? rx)
          (write-string " ERR ") (write-string (cdr rx)))
         (else
          (write-string " R")
          (for-each
           (lambda (s)
             (write-string " M")
             (write-string (guard (e (#t (string-append "!" (msg-of e)))) (spans (regexp-matches rx s) s)))
             (write-string ";S")
             (write-string (guard (e (#t (string-append "!" (msg-of e)))) (spans (regexp-search rx s) s))))
           (cddr c)))))))
    (newline)))

(let ((p (open-input-file (cadr (command-line)))))
  (let lp ()
    (let ((c (read p)))
      (if (not (eof-object? c))
          (begin (do-case c) (lp)))))
  (write-string "DONE") (newline))
