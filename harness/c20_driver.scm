;; C20 correspondence driver: (chibi regexp) on batches of (SRE, subject strings).
;; usage: chibi-scheme c20_driver.scm <cases-file>
;; cases file: a sequence of data  (id sre str ...)        sre may be (pcre "text"): compiled by pcre->regexp
;; output, one line per case:   id R <res> <res> ...      one <res> per subject string
;;        <res> = M<spans>;S<spans>   spans = #f -> "-"   else  i-j,x,i-j,...   (x = submatch unset)
;;        a Scheme error while matching one string gives  M!<msg>  /  S!<msg>
;;   or   id ERR <message>        when (regexp sre) raises
;; also:  (id anchors str ...) -> id A <bits per position>   the internal predicates match/bos .. match/nwb at every position
;; also:  (id ge (ng (slot ...) (slot ...)) ...) -> id Q <0/1 of the internal regexp-match>=? on two constructed match vectors>
;; also:  (id reps (from to) ...) -> id X <shape of (sre-expand-reps from to '(seq ($ x)))>
;; also:  (id range sre (str start end) ...) -> like R, calling (regexp-matches rx str start end) / (regexp-search rx str start end)
;; also:  (id fold sre str ...) -> id G F<spans kons saw>;E<regexp-extract>;S<regexp-split>;P<regexp-partition>;R<regexp-replace with "-">;A<regexp-replace-all with "-">
;; also:  (id graph sre (cp ...)) -> id Y <start> <num-save-indexes> <non-greedy-indexes or _> | id:kind:match:rule:next1:next2 ...
;;          the compiled state graph reached from rx-start-state (raw state-ids); kind A accept, E epsilon, G<anchor>,
;;          C<0/1 per cp>/<char-set-size>[.<hex member>...  when the set has at most 300 members]
;; also:  (id trace search? sre str) -> id Z i;accept;id=vec id=vec ... | ... # result    searchers1 and the accept at every
;;          iteration of regexp-advance! (seen through a wrapper around the internal posse-for-each) and when it returns
;; also:  (id chars cp ...)  ->  id K cp:fold:up:down:word ...   (char-level functions, hex)
(import (scheme base) (scheme write) (scheme read) (scheme char) (scheme file)
        (scheme process-context) (scheme eval) (only (meta) find-module module-env)
        (chibi regexp) (chibi regexp pcre) (chibi char-set) (chibi char-set full) (chibi string))

;; (pcre "text") in the place of an SRE: the PCRE string front end (lib/chibi/regexp/pcre.scm)
(define (compile-rx x)
  (if (and (pair? x) (eq? (car x) 'pcre) (pair? (cdr x)) (string? (cadr x)))
      (pcre->regexp (cadr x))
      (regexp x)))

;; non-exported procedures of (chibi regexp), for the function-level stages; #f when the name is gone
(define regexp-env (module-env (find-module '(chibi regexp))))
(define (internal name)
  (guard (e (#t #f)) (eval name regexp-env)))

;; ---- engine level: the state graph and the posse after every character -------------------------------------------
(define trace-sink #f)         ; a procedure taking the posse while a trace is being recorded
(define engine-ready
  (guard (e (#t #f))
    (eval '(define %c20-old-posse-for-each posse-for-each) regexp-env)
    (eval '(define %c20-hook (lambda (p) #f)) regexp-env)
    ((eval '(lambda (h) (set! %c20-hook h)) regexp-env) (lambda (p) (if trace-sink (trace-sink p))))
    (eval '(set! posse-for-each (lambda (proc posse) (%c20-hook posse) (%c20-old-posse-for-each proc posse))) regexp-env)
    #t))
(define i-state-id (internal 'state-id))
(define i-state-accept? (internal 'state-accept?))
(define i-state-chars (internal 'state-chars))
(define i-state-match (internal 'state-match))
(define i-state-match-rule (internal 'state-match-rule))
(define i-state-next1 (internal 'state-next1))
(define i-state-next2 (internal 'state-next2))
(define i-state-matches? (internal 'state-matches?))
(define i-rx-start-state (internal 'rx-start-state))
(define i-rx-num-save-indexes (internal 'rx-num-save-indexes))
(define i-rx-non-greedy-indexes (internal 'rx-non-greedy-indexes))
(define i-regexp-advance! (internal 'regexp-advance!))
(define i-make-regexp-state (internal 'make-regexp-state))
(define i-regexp-state-accept (internal 'regexp-state-accept))
(define i-regexp-state-searchers (internal 'regexp-state-searchers))
(define i-searcher-state (internal 'searcher-state))
(define i-searcher-matches (internal 'searcher-matches))
(define i-regexp-match-matches (internal 'regexp-match-matches))
(define i-posse->list (internal 'posse->list))
(define anchor-procs
  (map (lambda (n) (cons (internal (string->symbol (string-append "match/" n))) n))
       '("bos" "eos" "bol" "eol" "bow" "eow" "nwb")))

(define (num-or-x v) (if v (number->string v) "x"))

(define (dump-graph rx cps)
  (let ((seen '()) (out '()))
    (let walk ((st (i-rx-start-state rx)))
      (if (and st (not (memq st seen)))
          (begin
            (set! seen (cons st seen))
            (set! out
              (cons
               (string-append
                (number->string (i-state-id st)) ":"
                (let ((c (i-state-chars st)))
                  (cond
                   ((i-state-accept? st) "A")
                   ((not c) "E")
                   ((procedure? c)
                    (let ((a (assq c anchor-procs))) (if a (string-append "G" (cdr a)) "G?")))
                   (else
                    (string-append
                     "C" (list->string
                          (map (lambda (cp) (if (i-state-matches? st #f #f (integer->char cp) #f #f #f) #\1 #\0)) cps))
                     ;; the whole content of the set as the iset iteration sees it (char-set-size, and the members when there are few)
                     (guard (e (#t "/!"))
                       (let* ((cs (if (char? c) (char-set c) c))
                              (n (char-set-size cs)))
                         (string-append
                          "/" (number->string n)
                          (if (<= n 300)
                              (apply string-append
                                     (map (lambda (ch) (string-append "." (number->string (char->integer ch) 16)))
                                          (char-set->list cs)))
                              ""))))))))
                ":" (let ((m (i-state-match st))) (if (pair? m) "L" (num-or-x m)))
                ":" (case (i-state-match-rule st)
                      ((#f) "n") ((left) "l") ((right) "r") ((non-greedy-left) "g") (else "?"))
                ":" (let ((n (i-state-next1 st))) (if n (number->string (i-state-id n)) "x"))
                ":" (let ((n (i-state-next2 st))) (if n (number->string (i-state-id n)) "x")))
               out))
            (walk (i-state-next1 st))
            (walk (i-state-next2 st)))))
    (write-string (number->string (i-state-id (i-rx-start-state rx))))
    (write-string " ")
    (write-string (number->string (i-rx-num-save-indexes rx)))
    (write-string " ")
    (let ((ng (i-rx-non-greedy-indexes rx)))
      (if (null? ng)
          (write-string "_")
          (let lp ((ng ng) (first #t))
            (if (pair? ng)
                (begin (if (not first) (write-string ","))
                       (write-string (number->string (car ng)))
                       (lp (cdr ng) #f))))))
    (write-string " |")
    (for-each (lambda (x) (write-string " ") (write-string x)) (reverse out))))

(define (vec-string md str)
  (let* ((v (i-regexp-match-matches md)) (n (vector-length v)) (o (open-output-string)))
    (if (= n 0) (write-string "_" o))
    (let lp ((k 0))
      (if (< k n)
          (let ((x (vector-ref v k)))
            (if (> k 0) (write-char #\, o))
            (write-string (cond ((not x) "x")
                                ((string-cursor? x) (number->string (string-cursor->index str x)))
                                (else "?")) o)
            (lp (+ k 1)))))
    (get-output-string o)))

(define (snapshot count posse accept str)
  (let ((o (open-output-string)))
    (write-string (number->string count) o)
    (write-string ";" o)
    (write-string (if accept (vec-string (i-searcher-matches accept) str) "-") o)
    (write-string ";" o)
    (let lp ((ls (i-posse->list posse)) (first #t))
      (if (pair? ls)
          (begin
            (if (not first) (write-string " " o))
            (write-string (number->string (i-state-id (i-searcher-state (car ls)))) o)
            (write-string "=" o)
            (write-string (vec-string (i-searcher-matches (car ls)) str) o)
            (lp (cdr ls) #f))))
    (get-output-string o)))

(define (dump-trace search? rx str)
  (let* ((state (i-make-regexp-state)) (count 0) (snaps '())
         (start (string-cursor-start str)) (end (string-cursor-end str)))
    (set! trace-sink
          (lambda (posse)
            (set! snaps (cons (snapshot count posse (i-regexp-state-accept state) str) snaps))
            (set! count (+ count 1))))
    (guard (e (#t (set! trace-sink #f) (raise e)))
      (i-regexp-advance! search? #t rx str start end state))
    (set! trace-sink #f)
    (set! snaps (cons (snapshot count (i-regexp-state-searchers state) (i-regexp-state-accept state) str) snaps))
    (let lp ((ls (reverse snaps)) (first #t))
      (if (pair? ls)
          (begin (if (not first) (write-string " | "))
                 (write-string (car ls))
                 (lp (cdr ls) #f))))
    (write-string " # ")
    (let ((acc (i-regexp-state-accept state)))
      (write-string
       (if (and acc
                (let ((m (i-searcher-matches acc)))
                  (or search?
                      (let ((e (vector-ref (i-regexp-match-matches m) 1)))
                        (and e (string-cursor>=? e end))))))
           (vec-string (i-searcher-matches acc) str)
           "-")))))

(define (msg-of e)
  (let ((o (open-output-string)))
    (if (error-object? e)
        (begin (write-string (error-object-message e) o))
        (write e o))
    (let* ((s (get-output-string o))
           (s (string-map (lambda (c) (if (or (char=? c #\space) (char=? c #\newline)) #\_ c)) s)))
      (if (equal? s "") "?" s))))

(define (spans m s)
  (if (not m)
      "-"
      (let ((o (open-output-string)))
        (let lp ((i 0))
          (if (<= i (regexp-match-count m))
              (let ((a (regexp-match-submatch-start m i))
                    (b (regexp-match-submatch-end m i)))
                (if (> i 0) (write-char #\, o))
                (cond
                 ((and a b)
                  ;; the text accessor must agree with the indices
                  (if (not (and (<= 0 a b (string-length s))
                                (equal? (regexp-match-submatch m i) (substring s a b))))
                      (error "submatch-text-differs-from-indices" i))
                  (write a o) (write-char #\- o) (write b o))
                 (else
                  (if (or a b (regexp-match-submatch m i))
                      (error "submatch-half-set" i))
                  (write-char #\x o)))
                (lp (+ i 1)))))
        (get-output-string o))))

;; list of spans -> "a-b,a-b" ("_" when empty); list of strings -> code points in hex joined by ".", "e" = empty
;; string, strings joined by ",", "_" = empty list
(define (span-list ls)
  (if (null? ls)
      "_"
      (let ((o (open-output-string)))
        (let lp ((ls ls) (first #t))
          (if (pair? ls)
              (begin
                (if (not first) (write-char #\, o))
                (write (caar ls) o) (write-char #\- o) (write (cdar ls) o)
                (lp (cdr ls) #f))))
        (get-output-string o))))

(define (str-list ls)
  (if (null? ls)
      "_"
      (let ((o (open-output-string)))
        (let lp ((ls ls) (first #t))
          (if (pair? ls)
              (begin
                (if (not first) (write-char #\, o))
                (if (equal? (car ls) "")
                    (write-char #\e o)
                    (let lp2 ((cs (string->list (car ls))) (first #t))
                      (if (pair? cs)
                          (begin
                            (if (not first) (write-char #\. o))
                            (write-string (number->string (char->integer (car cs)) 16) o)
                            (lp2 (cdr cs) #f)))))
                (lp (cdr ls) #f))))
        (get-output-string o))))

(define char-set:word (char-set-union char-set:letter char-set:digit (char-set #\_)))

(define (hex n) (number->string n 16))

(define (do-case c)
  (let ((id (car c)))
    (write id)
    (cond
     ((eq? (cadr c) 'chars)
      (write-string " K")
      (for-each
       (lambda (cp)
         (let ((ch (integer->char cp)))
           (write-string " ")
           (write-string (hex cp)) (write-string ":")
           (write-string (hex (char->integer (char-foldcase ch)))) (write-string ":")
           (write-string (hex (char->integer (char-upcase ch)))) (write-string ":")
           (write-string (hex (char->integer (char-downcase ch)))) (write-string ":")
           (write-string (if (char-set-contains? char-set:word ch) "1" "0"))))
       (cddr c)))
     ((eq? (cadr c) 'graph)
      (if (not (and engine-ready i-state-id i-rx-start-state i-state-matches? i-rx-non-greedy-indexes))
          (write-string " ERRI internal-state-accessors-not-found")
          (let ((rx (guard (e (#t (cons 'err (msg-of e)))) (regexp (car (cddr c))))))
            (cond
             ((pair? rx) (write-string " ERR ") (write-string (cdr rx)))
             (else
              (write-string " Y ")
              (write-string
               (guard (e (#t (string-append "!" (msg-of e))))
                 (let ((o (open-output-string)))
                   (parameterize ((current-output-port o)) (dump-graph rx (cadr (cddr c))))
                   (get-output-string o)))))))))
     ((eq? (cadr c) 'trace)
      (if (not (and engine-ready i-regexp-advance! i-make-regexp-state i-posse->list i-regexp-state-searchers))
          (write-string " ERRI internal-engine-procedures-not-found")
          (let ((rx (guard (e (#t (cons 'err (msg-of e)))) (regexp (cadr (cddr c))))))
            (cond
             ((pair? rx) (write-string " ERR ") (write-string (cdr rx)))
             (else
              (write-string " Z ")
              (write-string
               (guard (e (#t (string-append "!" (msg-of e))))
                 (let ((o (open-output-string)))
                   (parameterize ((current-output-port o)) (dump-trace (car (cddr c)) rx (car (cddr (cddr c)))))
                   (get-output-string o)))))))))
     ((eq? (cadr c) 'anchors)
      ;; (id anchors str ...) -> id A <res> ...   res = for every position 0..len the 7 results of
      ;; match/bos eos bol eol bow eow nwb as 0/1, positions separated by ","
      (let ((preds (map internal '(match/bos match/eos match/bol match/eol match/bow match/eow match/nwb))))
        (cond
         ((memv #f preds)
          (write-string " ERR internal-anchor-predicates-not-found"))
         (else
          (write-string " A")
          (for-each
           (lambda (s)
             (write-string " ")
             (let ((start (string-cursor-start s)) (end (string-cursor-end s)) (len (string-length s)))
               (let lp ((i 0))
                 (if (<= i len)
                     (let* ((sc (string-index->cursor s i))
                            (ch (and (< i len) (string-cursor-ref s sc))))
                       (if (> i 0) (write-string ","))
                       (for-each
                        (lambda (p)
                          (write-string (guard (e (#t "!")) (if (p s sc ch start end #f) "1" "0"))))
                        preds)
                       (lp (+ i 1)))))))
           (cddr c))))))
     ((eq? (cadr c) 'ge)
      ;; (id ge (ng (slot ...) (slot ...)) ...) -> id Q 0/1 ...   the internal regexp-match>=? on two match vectors
      ;; (slot = index into a 12-character string, or -1 for #f) of a regexp whose non-greedy-indexes are ng
      (let ((ge? (internal 'regexp-match>=?))
            (mk-match (internal '%make-regexp-match))
            (mk-rx (internal 'make-rx))
            (str "abcdefghijkl"))
        (cond
         ((not (and ge? mk-match mk-rx))
          (write-string " ERR internal-regexp-match>=?-not-found"))
         (else
          (write-string " Q")
          (for-each
           (lambda (x)
             (write-string " ")
             (write-string
              (guard (e (#t (string-append "!" (msg-of e))))
                (let* ((rx (mk-rx #f 0 (length (cadr x)) (car x) (vector) '() #f))
                       (vec (lambda (ls)
                              (list->vector
                               (map (lambda (k) (and (>= k 0) (string-index->cursor str k))) ls))))
                       (m1 (mk-match (vec (cadr x)) rx str))
                       (m2 (mk-match (vec (car (cddr x))) rx str)))
                  (if (ge? m1 m2) "1" "0")))))
           (cddr c))))))
     ((eq? (cadr c) 'reps)
      ;; (id reps (from to) ...) -> id X <shape> ...   to = #f for "at least"; the internal sre-expand-reps applied to
      ;; the body (seq ($ x)); shape: c = stripped copy, C = copy with its submatch, o/O = optional copy, S = star, ? = other
      (let ((expand (internal 'sre-expand-reps)))
        (cond
         ((not expand)
          (write-string " ERR internal-sre-expand-reps-not-found"))
         (else
          (write-string " X")
          (for-each
           (lambda (ft)
             (write-string " ")
             (write-string
              (guard (e (#t (string-append "!" (msg-of e))))
                (let ((res (expand (car ft) (cadr ft) '(seq ($ x)))))
                  (if (not (and (pair? res) (memq (car res) '(: seq))))
                      "?"
                      (if (null? (cdr res))
                          "_"
                          (list->string
                           (map (lambda (it)
                                  (cond ((equal? it '(seq (: x))) #\c)
                                        ((equal? it '(seq ($ x))) #\C)
                                        ((equal? it '(? (seq (: x)))) #\o)
                                        ((equal? it '(? (seq ($ x)))) #\O)
                                        ((equal? it '(* (seq ($ x)))) #\S)
                                        (else #\?)))
                                (cdr res)))))))))
           (cddr c))))))
     ((eq? (cadr c) 'range)
      ;; (id range sre (str start end) ...) -> id R M<spans>;S<spans> ...   with the optional start/end arguments
      (let ((rx (guard (e (#t (cons 'err (msg-of e)))) (regexp (car (cddr c))))))
        (cond
         ((pair? rx)
          (write-string " ERR ") (write-string (cdr rx)))
         (else
          (write-string " R")
          (for-each
           (lambda (x)
             (let ((s (car x)) (start (cadr x)) (end (car (cddr x))))
               (write-string " M")
               (write-string (guard (e (#t (string-append "!" (msg-of e)))) (spans (regexp-matches rx s start end) s)))
               (write-string ";S")
               (write-string (guard (e (#t (string-append "!" (msg-of e)))) (spans (regexp-search rx s start end) s)))))
           (cdr (cddr c)))))))
     ((eq? (cadr c) 'fold)
      ;; (id fold sre str ...) -> id G <res> ...   res = F<spans>;E<strs>;S<strs>;P<strs>;R<str>;A<str>
      (let ((rx (guard (e (#t (cons 'err (msg-of e)))) (regexp (car (cddr c))))))
        (cond
         ((pair? rx)
          (write-string " ERR ") (write-string (cdr rx)))
         (else
          (write-string " G")
          (for-each
           (lambda (s)
             (write-string " F")
             (write-string
              (guard (e (#t (string-append "!" (msg-of e))))
                (span-list
                 (regexp-fold rx
                              (lambda (i m str acc)
                                (cons (cons (regexp-match-submatch-start m 0) (regexp-match-submatch-end m 0)) acc))
                              '() s (lambda (i m str acc) (reverse acc))))))
             (write-string ";E")
             (write-string (guard (e (#t (string-append "!" (msg-of e)))) (str-list (regexp-extract rx s))))
             (write-string ";S")
             (write-string (guard (e (#t (string-append "!" (msg-of e)))) (str-list (regexp-split rx s))))
             (write-string ";P")
             (write-string (guard (e (#t (string-append "!" (msg-of e)))) (str-list (regexp-partition rx s))))
             (write-string ";R")
             (write-string (guard (e (#t (string-append "!" (msg-of e)))) (str-list (list (regexp-replace rx s "-")))))
             (write-string ";A")
             (write-string (guard (e (#t (string-append "!" (msg-of e)))) (str-list (list (regexp-replace-all rx s "-"))))))
           (cdr (cddr c)))))))
     (else
      (let ((rx (guard (e (#t (cons 'err (msg-of e)))) (compile-rx (cadr c)))))
        (cond
         ((pair? rx)
          (write-string " ERR ") (write-string (cdr rx)))
         (else
          (write-string " R")
          (for-each
           (lambda (s)
             (write-string " M")
             (write-string (guard (e (#t (string-append "!" (msg-of e)))) (spans (regexp-matches rx s) s)))
             (write-string ";S")
             (write-string (guard (e (#t (string-append "!" (msg-of e)))) (spans (regexp-search rx s) s))))
           (cddr c)))))))
    (newline)))

(let ((p (open-input-file (cadr (command-line)))))
  (let lp ()
    (let ((c (read p)))
      (if (not (eof-object? c))
          (begin (do-case c) (lp)))))
  (write-string "DONE") (newline))
