;; C07 (K-inner, renamer): runs scripts against the REAL make-renamer of lib/init-7.scm (reached directly and,
;; for every second renamer, the way er-macro-transformer builds it) and prints, per script, the identity
;; pattern of all identifiers made.  Script file: one S-expression per scenario
;;   (N (sym J name) (new R K) (app J R I) (clo J K I) ...)
;;     sym: identifier J := symbol;  new: renamer R := (make-renamer env K);  app: identifier J := (R identifier I);
;;     clo: identifier J := (make-syntactic-closure env K '() identifier I)
;; Output line:  N (class ...) (shape ...)   class J = smallest I with (eq? id_I id_J);
;;     shape J = s for a symbol, (c K I) for a closure over env K whose expr is eq? to identifier I (smallest), ? otherwise
(import (scheme base) (scheme read) (scheme write) (scheme file) (scheme process-context) (scheme eval)
        (chibi) (chibi ast))

(define envs (vector (interaction-environment) (environment '(scheme base)) (environment '(scheme write))))

(define (renamer-via-er env)
  ;; what er-macro-transformer hands to the user's procedure as `rename`
  ((er-macro-transformer (lambda (expr rename compare) rename)) '(m) (vector-ref envs 0) env))

(define (index-of pred n)
  (let lp ((i 0)) (cond ((>= i n) #f) ((pred i) i) (else (lp (+ i 1))))))

(define (run n ops)
  (let ((ids (make-vector 64 #f)) (rens (make-vector 16 #f)) (count 0))
    (for-each
     (lambda (op)
       (case (car op)
         ((sym) (vector-set! ids (cadr op) (car (cddr op))) (set! count (+ 1 (cadr op))))
         ((new) (vector-set! rens (cadr op)
                             (if (odd? (cadr op))
                                 (renamer-via-er (vector-ref envs (car (cddr op))))
                                 (make-renamer (vector-ref envs (car (cddr op)))))))
         ((app) (vector-set! ids (cadr op) ((vector-ref rens (car (cddr op))) (vector-ref ids (cadr (cddr op)))))
                (set! count (+ 1 (cadr op))))
         ((clo) (vector-set! ids (cadr op) (make-syntactic-closure (vector-ref envs (car (cddr op))) '() (vector-ref ids (cadr (cddr op)))))
                (set! count (+ 1 (cadr op))))))
     ops)
    (write n) (write-string " ")
    (write (let lp ((j 0) (acc '()))
             (if (>= j count) (reverse acc)
                 (lp (+ j 1) (cons (index-of (lambda (i) (eq? (vector-ref ids i) (vector-ref ids j))) count) acc)))))
    (write-string " ")
    (write (let lp ((j 0) (acc '()))
             (if (>= j count) (reverse acc)
                 (let ((x (vector-ref ids j)))
                   (lp (+ j 1)
                       (cons (cond ((symbol? x) 's)
                                   ((syntactic-closure? x)
                                    (list 'c
                                          (index-of (lambda (k) (eq? (vector-ref envs k) (syntactic-closure-env x))) 3)
                                          (index-of (lambda (i) (eq? (vector-ref ids i) (syntactic-closure-expr x))) count)))
                                   (else '?))
                             acc))))))
    (newline)))

(define (main file)
  (call-with-input-file file
    (lambda (in)
      (let lp ()
        (let ((x (read in)))
          (cond ((eof-object? x) (write-string "DONE") (newline))
                (else (run (car x) (cdr x)) (lp))))))))
(main (cadr (command-line)))
