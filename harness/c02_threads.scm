;; C02 outer correspondence, dense forced-collection schedules over GREEN-THREAD programs (lib/srfi/18/threads.c,
;; the thread switch of vm.c, per-thread stacks and dynamic state).  Every section keeps freshly allocated values
;; alive only through thread-related references: a thread's own VM stack while it is descheduled, its result slot
;; (returned through thread-join!), the run queue / paused list (threads no variable refers to), values in flight
;; through a mutex + condition-variable queue, thread-specific / mutex-specific / condvar-specific slots, thread
;; names, per-thread parameterize frames, exceptions raised in a thread and re-raised by the joiner.
;; The plugin runs it with a virtual clock (CHIBI_VERIF_SCHED_CLOCK) and injected time slices (CHIBI_VERIF_SCHED), so
;; the interleaving is a function of the executed instructions only; the forced-collection schedule starts after the
;; imports (CHIBI_VERIF_GC_START).  Only the root thread prints.
(import (chibi) (srfi 1) (srfi 9) (srfi 18) (srfi 39) (srfi 69) (srfi 95) (chibi ast))
(define (show . xs) (for-each (lambda (x) (write x) (display " ")) xs) (newline))
(define (sum-tree x)
  (cond ((pair? x) (+ (sum-tree (car x)) (sum-tree (cdr x))))
        ((vector? x) (let lp ((i 0) (s 0)) (if (< i (vector-length x)) (lp (+ i 1) (+ s (sum-tree (vector-ref x i)))) s)))
        ((string? x) (string-length x))
        ((and (number? x) (exact? x) (integer? x)) (modulo x 1000003))
        ((char? x) (char->integer x))
        ((symbol? x) (string-length (symbol->string x)))
        (else 3)))
(define (garbage n) (let lp ((i 0) (acc '())) (if (< i n) (lp (+ i 1) (cons (make-vector 3 i) acc)) (length acc))))
(define (fresh i) (list i (number->string (* i 7919)) (make-vector (+ 1 (modulo i 4)) (string #\a (integer->char (+ 65 (modulo i 26))))) (* 1.5 i) (expt 3 (+ 40 i))))
(define (spawn thunk . name) (thread-start! (apply make-thread thunk name)))

;; 1. results returned through thread-join!: the result slot of an ended thread is the only reference
(define ts (map (lambda (i) (spawn (lambda () (garbage 5) (let ((v (fresh i))) (thread-yield!) (garbage 3) (list v (fresh (+ i 100))))))) (iota 6)))
(garbage 40)
(show 'join (map (lambda (t) (sum-tree (thread-join! t))) ts) (map (lambda (t) (car (car (thread-join! t)))) ts))

;; 2. a shared accumulator under a mutex, yields inside the critical section, the lock is contended
(define m (make-mutex 'acc-lock))
(define acc '())
(define (adder k n) (lambda () (let lp ((i 0)) (if (< i n) (begin (mutex-lock! m) (let ((x (fresh (+ (* 10 k) i)))) (thread-yield!) (set! acc (cons x acc))) (mutex-unlock! m) (lp (+ i 1))) (list 'added k n)))))
(define as (map (lambda (k) (spawn (adder k 4))) (iota 4)))
(let ((rs (map thread-join! as))) (show 'adders rs (length acc) (sum-tree acc) (sort (map car acc) <)))

;; 3. values in flight through a queue guarded by a mutex and a condition variable (producers / consumers)
(define qm (make-mutex)) (define qcv (make-condition-variable 'queue)) (define q '()) (define taken '())
(define (put! x) (mutex-lock! qm) (set! q (append q (list x))) (condition-variable-signal! qcv) (mutex-unlock! qm))
(define (take!) (mutex-lock! qm)
  (let lp () (if (null? q) (begin (mutex-unlock! qm qcv) (mutex-lock! qm) (lp))
                 (let ((x (car q))) (set! q (cdr q)) (mutex-unlock! qm) x))))
(define consumers (map (lambda (k) (spawn (lambda () (let lp ((i 0) (got '())) (if (< i 5) (lp (+ i 1) (cons (take!) got)) (begin (garbage 4) got)))))) (iota 2)))
(define producers (map (lambda (k) (spawn (lambda () (let lp ((i 0)) (if (< i 5) (begin (put! (fresh (+ (* 100 k) i))) (if (odd? i) (thread-yield!)) (lp (+ i 1))) 'produced))))) (iota 2)))
(show 'producers (map thread-join! producers))
(let ((got (map thread-join! consumers))) (show 'consumers (map length got) (sum-tree got) (sort (map car (apply append got)) <)))

;; 4. thread-specific, mutex-specific, condition-variable-specific, names: slots of the thread / mutex / condvar objects
(define t4 (make-thread (lambda () (thread-specific-set! (current-thread) (fresh 44)) (garbage 6) (thread-yield!) (thread-specific (current-thread))) (string-append "worker-" (number->string 44))))
(thread-specific-set! t4 (fresh 4))
(define before (thread-specific t4))
(thread-start! t4)
(define m4 (make-mutex (string-append "mx-" (number->string 4)))) (mutex-specific-set! m4 (fresh 45))
(define c4 (make-condition-variable (list 'cv (number->string 4)))) (condition-variable-specific-set! c4 (fresh 46))
(garbage 30)
(show 'specific (sum-tree before) (sum-tree (thread-join! t4)) (thread-name t4) (sum-tree (thread-specific t4)) (mutex-name m4) (sum-tree (mutex-specific m4))
      (condition-variable-name c4) (sum-tree (condition-variable-specific c4)))

;; 5. per-thread dynamic state: parameterize frames live on the thread's own stack across switches
(define prm (make-parameter (list 'outer)))
(define ps (map (lambda (i) (spawn (lambda () (parameterize ((prm (fresh i))) (thread-yield!) (garbage 4) (let ((inner (parameterize ((prm (cons i (prm)))) (thread-yield!) (prm)))) (list (prm) inner)))))) (iota 3)))
(show 'parameterize (parameterize ((prm (list 'main (number->string 5)))) (let ((r (map thread-join! ps))) (list (prm) (sum-tree r) (map caar r)))) (prm))

;; 6. an exception raised in a thread travels through the result slot and is re-raised by the joiner
(define t6 (spawn (lambda () (garbage 5) (raise (list 'boom (fresh 6))))))
(define t6b (spawn (lambda () (thread-yield!) (error "thread error" (fresh 66) (number->string 66)))))
(show 'raised (call-with-current-continuation (lambda (k) (with-exception-handler (lambda (e) (garbage 5) (k (list 'caught (if (uncaught-exception? e) (sum-tree (uncaught-exception-reason e)) (sum-tree e))))) (lambda () (thread-join! t6)))))
      (call-with-current-continuation (lambda (k) (with-exception-handler (lambda (e) (k (let ((r (if (uncaught-exception? e) (uncaught-exception-reason e) e))) (list (exception-message r) (sum-tree (exception-irritants r)))))) (lambda () (thread-join! t6b))))))

;; 7. threads no variable refers to: reachable from the run queue or the paused list only; results through a cell
(define cell-m (make-mutex)) (define cell-cv (make-condition-variable)) (define cells '())
(let lp ((i 0)) (if (< i 4) (begin (spawn (lambda () (let ((v (fresh (+ 70 i)))) (thread-yield!) (garbage 3) (mutex-lock! cell-m) (set! cells (cons v cells)) (condition-variable-broadcast! cell-cv) (mutex-unlock! cell-m)))) (lp (+ i 1)))))
(garbage 20)
(mutex-lock! cell-m)
(let lp () (if (< (length cells) 4) (begin (mutex-unlock! cell-m cell-cv) (mutex-lock! cell-m) (lp))))
(mutex-unlock! cell-m)
(show 'anonymous (sort (map car cells) <) (sum-tree cells))

;; 8. threads blocked on a mutex (paused list) holding fresh data on their stacks while the root allocates
(define gate (make-mutex)) (mutex-lock! gate)
(define blocked (map (lambda (i) (spawn (lambda () (let ((mine (fresh (+ 80 i)))) (mutex-lock! gate) (let ((r (list mine (mutex-state gate)))) (mutex-unlock! gate) (car r)))))) (iota 3)))
(thread-yield!) (garbage 60) (thread-yield!) (garbage 60)
(show 'gate-state (eq? (mutex-state gate) (current-thread)))
(mutex-unlock! gate)
(show 'blocked (sum-tree (map thread-join! blocked)) (mutex-state gate))

;; 9. timed waits on the virtual clock: sleep, timed join with a default value, timed lock that fails
(define t9 (spawn (lambda () (let ((v (fresh 9))) (thread-sleep! 0.002) (garbage 5) v))))
(show 'timed-join (thread-join! t9 0.00001 (list 'timeout (number->string 9))) (sum-tree (thread-join! t9)))
(define held (make-mutex)) (mutex-lock! held)
(define t9b (spawn (lambda () (let ((v (fresh 19))) (list (mutex-lock! held 0.0005) (car v))))))
(show 'timed-lock (thread-join! t9b))
(mutex-unlock! held)

;; 10. deep recursion inside threads (each thread's stack grows: sexp_grow_stack on a thread context),
;;     continuations and dynamic-wind inside a thread, re-entered after switches
(define (deep n) (if (= n 0) (begin (thread-yield!) '()) (cons (number->string n) (deep (- n 1)))))
(define ds (map (lambda (i) (spawn (lambda () (length (deep (+ 300 (* 700 i))))))) (iota 3)))
(show 'deep (map thread-join! ds))
(define t10 (spawn (lambda ()
  (let ((trail '()))
    (let ((r (call-with-current-continuation (lambda (k) (dynamic-wind (lambda () (set! trail (cons (fresh 10) trail))) (lambda () (thread-yield!) (k (fresh 11))) (lambda () (thread-yield!) (set! trail (cons 'out trail))))))))
      (list (sum-tree r) (length trail) (sum-tree trail)))))))
(define saved-k #f) (define kcount 0)
(define t10b (spawn (lambda () (let ((x (+ 1 (call-with-current-continuation (lambda (k) (set! saved-k k) 1))))) (thread-yield!) (garbage 5) (if (< kcount 2) (begin (set! kcount (+ kcount 1)) (saved-k (* 10 kcount)))) (list x kcount)))))
(show 'continuations (thread-join! t10) (thread-join! t10b))

;; 11. the compiler, the reader, string ports and hash tables running inside threads
(define t11 (map (lambda (i) (spawn (lambda ()
  (let* ((e (eval (list 'lambda '(x) (list 'list 'x (list 'quote (fresh i)) (list '* 'x i)))))
         (p (open-output-string)) (h (make-hash-table)))
    (write (e (+ i 1)) p) (thread-yield!)
    (let lp ((j 0)) (if (< j 40) (begin (hash-table-set! h (number->string j) (list j i)) (if (= j 20) (thread-yield!)) (lp (+ j 1)))))
    (let ((back (read (open-input-string (get-output-string p)))))
      (list (sum-tree back) (hash-table-size h) (hash-table-ref/default h "39" #f))))))) (iota 3)))
(show 'eval-in-threads (map thread-join! t11))

;; 12. threads that create threads; termination of a runnable and of a blocked thread that hold data
(define t12 (spawn (lambda () (let ((kids (map (lambda (i) (spawn (lambda () (thread-yield!) (fresh (+ 120 i))))) (iota 3)))) (garbage 5) (map (lambda (t) (sum-tree (thread-join! t))) kids)))))
(show 'nested (thread-join! t12))
(define spin (spawn (lambda () (let lp ((keep (fresh 12)) (i 0)) (thread-yield!) (lp (if (= 0 (modulo i 7)) (fresh i) keep) (+ i 1))))))
(define stuck-m (make-mutex)) (mutex-lock! stuck-m)
(define stuck (spawn (lambda () (let ((v (fresh 13))) (mutex-lock! stuck-m) v))))
(thread-yield!) (garbage 10) (thread-yield!)
(thread-terminate! spin) (thread-terminate! stuck)
(garbage 20) (thread-yield!)
(show 'terminated (call-with-current-continuation (lambda (k) (with-exception-handler (lambda (e) (k 'raised)) (lambda () (thread-join! spin) 'returned)))))

;; 13. many live threads at once, each keeping data across several switches while everybody allocates
(define crowd (map (lambda (i) (spawn (lambda () (let lp ((r 0) (mine (list (fresh i)))) (if (< r 4) (begin (thread-yield!) (garbage 2) (lp (+ r 1) (cons (fresh (+ i r)) mine))) mine))))) (iota 12)))
(garbage 50)
(show 'crowd (map (lambda (t) (sum-tree (thread-join! t))) crowd))
(show 'done (length acc) (sum-tree acc))
