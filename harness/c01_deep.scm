;; C01 "deep data" stream: builders of deeply nested / very long data and one consumer call per process.
;; The plugin appends   (verif-deep (lambda () <consumer expression>))   after this prelude.
;; Outcome line:  "V <summary>"  a value,  "E <message>"  a Scheme error object delivered to the handler.
;; (an out-of-stack error leaves the VM loop and reaches chibi's top level: reported there, exit status 70)
(import (scheme base) (scheme write) (scheme read) (scheme eval) (scheme char) (scheme cxr)
        (only (srfi 69) hash)
        (rename (only (chibi) equal? read make-syntactic-closure current-environment) (equal? c-equal?) (read c-read)))

;; nesting through the car: ((((... leaf ...))))
(define (nest-car n leaf) (let lp ((i 0) (x leaf)) (if (= i n) x (lp (+ i 1) (list x)))))
;; through the car, with a cdr that is a fresh string: equal? cannot take its tail-call shortcut (sexp_equalp_bound
;; loops on the LAST differing slot and recurses on the others)
(define (nest-carstr n leaf) (let lp ((i 0) (x leaf)) (if (= i n) x (lp (+ i 1) (cons x (string #\a))))))
;; through the second element (the printer's cdr loop): (0 (0 (0 ... leaf)))
(define (nest-cadr n leaf) (let lp ((i 0) (x leaf)) (if (= i n) x (lp (+ i 1) (list 0 x)))))
;; through a dotted non-pair tail: (0 . #((0 . #( ... leaf))))
(define (nest-dot n leaf) (let lp ((i 0) (x leaf)) (if (= i n) x (lp (+ i 1) (cons 0 (vector x))))))
;; through slot POS of vectors of length LEN
(define (nest-vec n len pos leaf)
  (let lp ((i 0) (x leaf))
    (if (= i n) x (let ((v (make-vector len 0))) (vector-set! v pos x) (lp (+ i 1) v)))))
;; every kind of link in turn
(define (nest-mixed n leaf)
  (let lp ((i 0) (x leaf))
    (if (= i n) x
        (lp (+ i 1)
            (case (modulo i 6)
              ((0) (list x)) ((1) (vector x)) ((2) (list 0 x)) ((3) (vector 0 x 0)) ((4) (vector 0 0 x)) (else (cons 0 (vector x))))))))
;; long lists: proper, improper
(define (long-list n) (make-list n 1))
(define (long-improper n) (let lp ((i 0) (x 1)) (if (= i n) x (lp (+ i 1) (cons 0 x)))))
;; (scheme read)'s read is the Scheme-level SRFI 38 reader; c-read is the C reader sexp_read (also used by load)
;; cycles
(define (cycle-car) (let ((x (list 1 2))) (set-car! x x) x))
(define (cycle-cdr) (let ((x (list 1 2 3))) (set-cdr! (cddr x) x) x))
(define (cycle-vec pos) (let ((v (make-vector 3 0))) (vector-set! v pos v) v))
;; nested expressions
(define (nest-expr n head leaf) (let lp ((i 0) (x leaf)) (if (= i n) x (lp (+ i 1) (list head x)))))
(define (nest-expr2 n wrap leaf) (let lp ((i 0) (x leaf)) (if (= i n) x (lp (+ i 1) (wrap x)))))
(define (nest-synclo n leaf)
  (let ((env (current-environment)))
    (let lp ((i 0) (x leaf)) (if (= i n) x (lp (+ i 1) (make-syntactic-closure env '() x))))))
(define deep-env (environment '(scheme base)))

(define (printed f x) (let ((p (open-output-string))) (f x p) (string-length (get-output-string p))))

(define (summary x)
  (cond ((number? x) (if (and (exact? x) (< (abs x) 1000000000000)) x 'number))
        ((boolean? x) x) ((symbol? x) 'symbol) ((string? x) (list 'string (string-length x)))
        ((pair? x) 'pair) ((vector? x) 'vector) ((null? x) 'null) (else 'other)))

(define (verif-deep thunk)
  (let ((r (guard (e (#t (cons 'verif-error
                               (cond ((error-object? e) (error-object-message e))
                                     ((symbol? e) (symbol->string e))
                                     (else "non-condition")))))
             (list (summary (thunk))))))
    (cond ((and (pair? r) (eq? (car r) 'verif-error))
           (write-string "E ") (write-string (if (string? (cdr r)) (cdr r) "?")))
          (else (write-string "V ") (write-simple (car r))))
    (newline)
    (flush-output-port)))

;; printer truncation (compared with the extracted model run on the regenerated call-site table):
;; number of opening parentheses written and whether "..." was written
(define (trunc-info f x)
  (let ((p (open-output-string)))
    (f x p)
    (let lp ((ls (string->list (get-output-string p))) (opens 0) (dots #f))
      (cond ((null? ls) (list opens dots))
            ((char=? (car ls) #\() (lp (cdr ls) (+ opens 1) dots))
            ((and (char=? (car ls) #\.) (pair? (cdr ls)) (char=? (cadr ls) #\.) (pair? (cddr ls)) (char=? (caddr ls) #\.))
             (lp (cdddr ls) opens #t))
            (else (lp (cdr ls) opens dots))))))
