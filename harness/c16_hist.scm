;; C16 outer correspondence: interpret histories (the same op language as coq/C16/History.v) on the real
;; collector and print, after every G, what the property talks about:
;;   for each ephemeron ever made (oldest first): e<id>=<broken 0/1>,<key fingerprint>,<value fingerprint>
;;   |fds=<open descriptors minus the baseline of this history>
;; Ids are allocation sequence numbers within the history (hex), the same numbering the model uses.
;; Input: one history per line on stdin:  <nslots> <op>;<op>;...   ops: K,i C,i,a,b E,i,k,v D,i G O,i F,i P,i,f X,i
;; and the descriptor operations: W,i,f open-output-file-descriptor; XI,i / XO,i close-input-port / close-output-port;
;; Q,i,j open-pipe; Y,i close-file-descriptor on the fileno object; U,i,f duplicate-file-descriptor;
;; T,a,b duplicate-file-descriptor-to; R,a,b renumber-file-descriptor; Z,i,j write a line through the output port
;; R[j] and read it back through the input port R[i] (its own observation: Zok / Zbad:<why> / Zskip).
;; round 3: I,i,c R[i] := immediate number c (1 fixnum 17, 2 #t, 3 #\a, 4 '(), 5 fixnum 0; printed i<c> as key / value of an
;; ephemeron, #f inside pairs); S,i,j open-socket-pair; PS,i,f / WS,i,f ports opened with the shutdown flag
;; (open-input-file-descriptor f #t, as (chibi net) open-net-io does); N ignored (fresh context: embedding only).
;; YN,i (close-file-descriptor N) with N the integer held by the fileno R[i] (the object is not told).
;; After every G also |own=<slot>:<ok|bad>,... : for every slot holding a descriptor owner (fileno, port) whether
;; /proc/self/fd/<its number> still names the file it named when the owner was created.
(import (scheme base) (scheme char) (scheme write) (scheme read) (scheme file) (scheme process-context)
        (chibi weak) (chibi ast) (chibi filesystem) (only (chibi) fileno? port-fileno)
        (only (chibi net) open-socket-pair address-family/unix socket-type/stream))

(define (hex n) (number->string n 16))

(define (fd-count) (length (directory-files "/proc/self/fd")))

;; the number of a fileno object: it prints as #<fileno N>
(define (fileno-number f)
  (let ((o (open-output-string)))
    (write f o)
    (let* ((s (get-output-string o)) (n (string-length s)))
      (let lp ((i 0) (acc #f))
        (cond ((= i n) acc)
              ((char-numeric? (string-ref s i)) (lp (+ i 1) (+ (* 10 (or acc 0)) (digit-value (string-ref s i)))))
              (else (lp (+ i 1) acc)))))))
(define (link n) (and n (read-link (string-append "/proc/self/fd/" (number->string n)))))
(define files (vector "/dev/null" "/dev/zero" "/dev/full" "/dev/urandom"))

(define (split-string str ch)
  (let lp ((i 0) (start 0) (acc '()))
    (cond ((= i (string-length str)) (reverse (cons (substring str start i) acc)))
          ((char=? (string-ref str i) ch) (lp (+ i 1) (+ i 1) (cons (substring str start i) acc)))
          (else (lp (+ i 1) start acc)))))

(define (parse-op s)
  (let ((f (split-string s #\,)))
    (cons (string->symbol (car f)) (map string->number (cdr f)))))

;; obs: list of (id . ephemeron), newest first
(define (eph-id e obs)
  (cond ((null? obs) 0) ((eq? (cdar obs) e) (caar obs)) (else (eph-id e (cdr obs)))))

(define immediates (vector #f 17 #t #\a '() 0))
(define (immediate-code x)
  (let lp ((c 1)) (cond ((> c 5) #f) ((eqv? x (vector-ref immediates c)) c) (else (lp (+ c 1))))))

(define (fp x d obs)
  (cond ((not x) "#f")
        ((immediate-code x) => (lambda (c) (if (>= d 6) (string-append "i" (number->string c)) "#f")))
        ((ephemeron? x) (string-append "e" (hex (eph-id x obs))))
        ((pair? x) (if (<= d 0) "_"
                       (string-append "(" (fp (car x) (- d 1) obs) " . " (fp (cdr x) (- d 1) obs) ")")))
        ((vector? x) (if (and (>= (vector-length x) 1) (exact-integer? (vector-ref x 0)))
                         (string-append "k" (hex (vector-ref x 0)))
                         "?vector"))
        ((port? x) "p")
        ((fileno? x) "f")
        (else "?")))

(define (observe obs base out)
  (let lp ((ls (reverse obs)) (first #t))
    (cond ((pair? ls)
           (let ((id (caar ls)) (e (cdar ls)))
             (if (not first) (write-string ";" out))
             (write-string "e" out) (write-string (hex id) out) (write-string "=" out)
             (write-string (if (ephemeron-broken? e) "1" "0") out) (write-string "," out)
             (write-string (fp (ephemeron-key e) 6 obs) out) (write-string "," out)
             (write-string (fp (ephemeron-value e) 6 obs) out)
             (lp (cdr ls) #f)))))
  (write-string "|fds=" out)
  (write-string (number->string (- (fd-count) base)) out))

(define (observe-owners R NUM LNK out)
  (write-string "|own=" out)
  (let lp ((i 0) (first #t))
    (cond ((< i (vector-length R))
           (let ((x (vector-ref R i)))
             (cond ((and (vector-ref NUM i) (or (fileno? x) (port? x)))
                    (if (not first) (write-string "," out))
                    (write-string (number->string i) out)
                    (write-string (if (equal? (link (vector-ref NUM i)) (vector-ref LNK i)) ":ok" ":bad") out)
                    (lp (+ i 1) #f))
                   (else (lp (+ i 1) first))))))))

;; the collection is requested through a call that owns no references of its own; twice, so that anything
;; kept by a value that was itself only found dead in the first collection is gone as well
(define (collect!) (gc) (gc) #t)

(define (run-history nslots ops out)
  (collect!)     ; descriptors still owned by garbage of the previous history are released before the baseline is taken
  (let ((R (make-vector nslots #f)) (obs '()) (id 0) (base (fd-count)) (firstg #t)
        (NUM (make-vector nslots #f)) (LNK (make-vector nslots #f)) (zn 0)
        (PAIR (make-vector nslots #f)) (npairs 0))      ; PAIR: 2*(number of the pipe / socket pair) + end
    (define (fresh!) (set! id (+ id 1)) id)
    (define (put! i x) (vector-set! R i x) (vector-set! PAIR i #f))
    (define (set-owner! i n) (vector-set! NUM i n) (vector-set! LNK i (link n)))
    (define (sep!) (if (not firstg) (write-string "/" out)) (set! firstg #f))
    (define (two-ends! op p)
      (fresh!) (fresh!)
      (put! (cadr op) (car p)) (set-owner! (cadr op) (fileno-number (car p)))
      (put! (list-ref op 2) (cadr p)) (set-owner! (list-ref op 2) (fileno-number (cadr p)))
      (vector-set! PAIR (cadr op) (* 2 npairs)) (vector-set! PAIR (list-ref op 2) (+ 1 (* 2 npairs)))
      (set! npairs (+ npairs 1)))
    (for-each
     (lambda (op)
       (case (car op)
         ((N) #t)
         ((K H) (let ((n (fresh!))) (put! (cadr op) (make-vector 1 n))))
         ((I) (put! (cadr op) (vector-ref immediates (list-ref op 2))) (vector-set! NUM (cadr op) #f))
         ((B) (let* ((n (fresh!)) (v (make-vector (max 1 (list-ref op 2)) #f)))
                (vector-set! v 0 n) (put! (cadr op) v)))
         ((C) (fresh!) (put! (cadr op) (cons (vector-ref R (list-ref op 2)) (vector-ref R (list-ref op 3)))))
         ((E) (let* ((n (fresh!))
                     (e (make-ephemeron (vector-ref R (list-ref op 2)) (vector-ref R (list-ref op 3)))))
                (put! (cadr op) e)
                (set! obs (cons (cons n e) obs))))
         ((D) (put! (cadr op) #f) (vector-set! NUM (cadr op) #f))
         ((G) (let ((n (gc-count)))
                (collect!)
                (sep!)
                (observe obs base out)
                (write-string "|gc=" out) (write-string (number->string n) out)
                (observe-owners R NUM LNK out)))
         ((O) (fresh!) (let ((p (open-input-file "/dev/null")))
                         (put! (cadr op) p) (set-owner! (cadr op) (port-fileno p))))
         ((F) (let* ((n (fresh!)) (f (open (vector-ref files (modulo n 4)) open/read)))
                (put! (cadr op) f) (set-owner! (cadr op) (fileno-number f))))
         ((Q) (two-ends! op (open-pipe)))
         ((S) (two-ends! op (open-socket-pair address-family/unix socket-type/stream 0)))
         ((P W PS WS)
          (let ((f (vector-ref R (list-ref op 2))) (pr (vector-ref PAIR (list-ref op 2))))
            (if (fileno? f)
                (begin (fresh!)
                       (put! (cadr op)
                             (case (car op)
                               ((P) (open-input-file-descriptor f))
                               ((W) (open-output-file-descriptor f))
                               ((PS) (open-input-file-descriptor f #t))
                               (else (open-output-file-descriptor f #t))))
                       (vector-set! PAIR (cadr op) pr)
                       (set-owner! (cadr op) (fileno-number f))))))
         ((X) (let ((p (vector-ref R (cadr op))))
                (if (port? p) (close-port p))))
         ((XI) (let ((p (vector-ref R (cadr op))))
                 (if (port? p) (if (input-port? p) (close-input-port p) (close-port p)))))
         ((XO) (let ((p (vector-ref R (cadr op))))
                 (if (port? p) (if (output-port? p) (close-output-port p) (close-port p)))))
         ((Y) (let ((f (vector-ref R (cadr op))))
                (if (fileno? f) (close-file-descriptor f))))
         ;; close by raw INTEGER: the fileno object holding the number is not told (number-level model, coq/C16/NumOs.v)
         ((YN) (let ((f (vector-ref R (cadr op))))
                 (if (fileno? f) (close-file-descriptor (fileno-number f)))))
         ((U) (let ((f (vector-ref R (list-ref op 2))))
                (if (fileno? f)
                    (let ((g (duplicate-file-descriptor f)))
                      (fresh!)
                      (put! (cadr op) g)
                      (if (fileno? g) (set-owner! (cadr op) (fileno-number g)) (vector-set! NUM (cadr op) #f))))))
         ((T R) (let ((a (vector-ref R (cadr op))) (b (vector-ref R (list-ref op 2))))
                  (if (and (fileno? a) (fileno? b))
                      (begin
                        (if (eq? (car op) 'T) (duplicate-file-descriptor-to a b) (renumber-file-descriptor a b))
                        ;; the number of b now names a's file, for b and for every port over b
                        (let ((nb (vector-ref NUM (list-ref op 2))))
                          (let lp ((i 0))
                            (if (< i nslots)
                                (begin (if (and nb (equal? (vector-ref NUM i) nb))
                                           (begin (set-owner! i nb) (vector-set! PAIR i #f)))
                                       (lp (+ i 1))))))))))
         ((Z) (let ((in (vector-ref R (cadr op))) (o (vector-ref R (list-ref op 2)))
                    (pi (vector-ref PAIR (cadr op))) (po (vector-ref PAIR (list-ref op 2))))
                (sep!)
                (set! zn (+ zn 1))
                (if (and (port? in) (input-port? in) (port? o) (output-port? o)
                         ;; opposite ends of one pipe / socket pair
                         pi po (= (quotient pi 2) (quotient po 2)) (not (= pi po)))
                    (let ((msg (string-append "z" (number->string zn))))
                      (write-string
                       (guard (e (#t "Zbad:exception"))
                         (write-string msg o) (newline o) (flush-output-port o)
                         (if (char-ready? in)
                             (let ((l (read-line in)))
                               (if (equal? l msg) "Zok" "Zbad:other-data"))
                             "Zbad:nothing-to-read"))
                       out))
                    (write-string "Zskip" out))))
         (else (error "bad op" op))))
     ops)))

(let lp ((n 0))
  (let ((line (read-line)))
    (cond ((eof-object? line) (write-string "DONE\n"))
          ((string=? line "") (lp n))
          (else
           (let* ((sp (split-string line #\space))
                  (nslots (string->number (car sp)))
                  (ops (map parse-op (split-string (cadr sp) #\;)))
                  (out (open-output-string)))
             (run-history nslots ops out)
             (write-string "H ") (write-string (number->string n)) (write-string " ")
             (write-string (get-output-string out)) (newline)
             (flush-output-port)
             (lp (+ n 1)))))))
