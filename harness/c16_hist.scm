;; C16 outer correspondence: interpret histories (the same op language as coq/C16/History.v) on the real
;; collector and print, after every G, what the property talks about:
;;   for each ephemeron ever made (oldest first): e<id>=<broken 0/1>,<key fingerprint>,<value fingerprint>
;;   |fds=<open descriptors minus the baseline of this history>
;; Ids are allocation sequence numbers within the history (hex), the same numbering the model uses.
;; Input: one history per line on stdin:  <nslots> <op>;<op>;...   ops: K,i C,i,a,b E,i,k,v D,i G O,i F,i P,i,f X,i
(import (scheme base) (scheme write) (scheme read) (scheme file) (scheme process-context)
        (chibi weak) (chibi ast) (chibi filesystem) (only (chibi) fileno?))

(define (hex n) (number->string n 16))

(define (fd-count) (length (directory-files "/proc/self/fd")))

(define (split-string str ch)
  (let lp ((i 0) (start 0) (acc '()))
    (cond ((= i (string-length str)) (reverse (cons (substring str start i) acc)))
          ((char=? (string-ref str i) ch) (lp (+ i 1) (+ i 1) (cons (substring str start i) acc)))
          (else (lp (+ i 1) start acc)))))

(define (parse-op s)
  (let ((f (split-string s #\,)))
    (cons (string->symbol (car f)) (map string->number (cdr f)))))

;; obs: list of (id . ephemeron), newest first
(define (eph-id e obs)
  (cond ((null? obs) 0) ((eq? (cdar obs) e) (caar obs)) (else (eph-id e (cdr obs)))))

(define (fp x d obs)
  (cond ((not x) "#f")
        ((ephemeron? x) (string-append "e" (hex (eph-id x obs))))
        ((pair? x) (if (<= d 0) "_"
                       (string-append "(" (fp (car x) (- d 1) obs) " . " (fp (cdr x) (- d 1) obs) ")")))
        ((vector? x) (if (and (= (vector-length x) 1) (exact-integer? (vector-ref x 0)))
                         (string-append "k" (hex (vector-ref x 0)))
                         "?vector"))
        ((port? x) "p")
        ((fileno? x) "f")
        (else "?")))

(define (observe obs base out)
  (let lp ((ls (reverse obs)) (first #t))
    (cond ((pair? ls)
           (let ((id (caar ls)) (e (cdar ls)))
             (if (not first) (write-string ";" out))
             (write-string "e" out) (write-string (hex id) out) (write-string "=" out)
             (write-string (if (ephemeron-broken? e) "1" "0") out) (write-string "," out)
             (write-string (fp (ephemeron-key e) 6 obs) out) (write-string "," out)
             (write-string (fp (ephemeron-value e) 6 obs) out)
             (lp (cdr ls) #f)))))
  (write-string "|fds=" out)
  (write-string (number->string (- (fd-count) base)) out))

;; the collection is requested through a call that owns no references of its own; twice, so that anything
;; kept by a value that was itself only found dead in the first collection is gone as well
(define (collect!) (gc) (gc) #t)

(define (run-history nslots ops out)
  (collect!)     ; descriptors still owned by garbage of the previous history are released before the baseline is taken
  (let ((R (make-vector nslots #f)) (obs '()) (id 0) (base (fd-count)) (firstg #t))
    (define (fresh!) (set! id (+ id 1)) id)
    (for-each
     (lambda (op)
       (case (car op)
         ((K) (let ((n (fresh!))) (vector-set! R (cadr op) (make-vector 1 n))))
         ((C) (fresh!) (vector-set! R (cadr op) (cons (vector-ref R (list-ref op 2)) (vector-ref R (list-ref op 3)))))
         ((E) (let* ((n (fresh!))
                     (e (make-ephemeron (vector-ref R (list-ref op 2)) (vector-ref R (list-ref op 3)))))
                (vector-set! R (cadr op) e)
                (set! obs (cons (cons n e) obs))))
         ((D) (vector-set! R (cadr op) #f))
         ((G) (let ((n (gc-count)))
                (collect!)
                (if (not firstg) (write-string "/" out))
                (set! firstg #f)
                (observe obs base out)
                (write-string "|gc=" out) (write-string (number->string n) out)))
         ((O) (fresh!) (vector-set! R (cadr op) (open-input-file "/dev/null")))
         ((F) (fresh!) (vector-set! R (cadr op) (open "/dev/null" open/read)))
         ((P) (let ((f (vector-ref R (list-ref op 2))))
                (if (fileno? f)
                    (begin (fresh!) (vector-set! R (cadr op) (open-input-file-descriptor f))))))
         ((X) (let ((p (vector-ref R (cadr op))))
                (if (port? p) (close-input-port p))))
         (else (error "bad op" op))))
     ops)))

(let lp ((n 0))
  (let ((line (read-line)))
    (cond ((eof-object? line) (write-string "DONE\n"))
          ((string=? line "") (lp n))
          (else
           (let* ((sp (split-string line #\space))
                  (nslots (string->number (car sp)))
                  (ops (map parse-op (split-string (cadr sp) #\;)))
                  (out (open-output-string)))
             (run-history nslots ops out)
             (write-string "H ") (write-string (number->string n)) (write-string " ")
             (write-string (get-output-string out)) (newline)
             (flush-output-port)
             (lp (+ n 1)))))))
