/* C05: sexp_apply called again and again on ONE context (no fresh child stack as with sexp_eval).
   stdin, one request per line:
     DEF <scheme text>     evaluate definitions (sexp_eval)
     APPLY <name> <k>      res = sexp_apply(ctx, <global procedure name>, (k)) on the main context
   Answer to APPLY:  "V <fixnum>" | "E out-of-stack" | "E other", then " top=<context top> len=<stack length> t0=<value of global t0>"
   (t0 is set by the Scheme side to (verif-top) in the innermost frame).  Each answer ends with END. */
#include <chibi/eval.h>
#include <stdio.h>
#include <string.h>
#include <stdlib.h>

static sexp verif_top(sexp ctx, sexp self, sexp_sint_t n) {
  return sexp_make_fixnum(sexp_context_top(ctx));
}

int main(void) {
  static char line[100000];
  sexp ctx;
  sexp_scheme_init();
  ctx = sexp_make_eval_context(NULL, NULL, NULL, 0, 0);
  sexp_gc_var3(f, args, res);
  sexp_gc_preserve3(ctx, f, args, res);
  sexp_load_standard_env(ctx, NULL, SEXP_SEVEN);
  sexp_load_standard_ports(ctx, NULL, stdin, stdout, stderr, 1);
  sexp_define_foreign(ctx, sexp_context_env(ctx), "verif-top", 0, verif_top);
  printf("READY max-stack=%ld init-stack=%ld top=%ld\n", (long)SEXP_MAX_STACK_SIZE, (long)SEXP_INIT_STACK_SIZE,
         (long)sexp_context_top(ctx));
  fflush(stdout);
  while (fgets(line, sizeof line, stdin)) {
    size_t n = strlen(line);
    if (n && line[n-1] == '\n') line[--n] = 0;
    if (!strncmp(line, "DEF ", 4)) {
      res = sexp_eval_string(ctx, line + 4, -1, NULL);
      printf(sexp_exceptionp(res) ? "E definition failed\n" : "V ok\n");
    } else if (!strncmp(line, "APPLY ", 6)) {
      char *sp = strchr(line + 6, ' ');
      long k = sp ? atol(sp + 1) : 0;
      if (sp) *sp = 0;
      f = sexp_env_ref(ctx, sexp_context_env(ctx), sexp_intern(ctx, line + 6, -1), SEXP_FALSE);
      args = sexp_list1(ctx, sexp_make_fixnum(k));
      res = sexp_apply(ctx, f, args);
      if (sexp_exceptionp(res)) printf("E %s", res == sexp_global(ctx, SEXP_G_OOS_ERROR) ? "out-of-stack" : "other");
      else if (sexp_fixnump(res)) printf("V %ld", (long)sexp_unbox_fixnum(res));
      else printf("V ?");
      f = sexp_env_ref(ctx, sexp_context_env(ctx), sexp_intern(ctx, "t0", -1), SEXP_ZERO);
      printf(" top=%ld len=%ld t0=%ld\n", (long)sexp_context_top(ctx), (long)sexp_stack_length(sexp_context_stack(ctx)),
             sexp_fixnump(f) ? (long)sexp_unbox_fixnum(f) : -1L);
    } else {
      printf("E unknown request\n");
    }
    printf("END\n");
    fflush(stdout);
  }
  sexp_gc_release3(ctx);
  sexp_destroy_context(ctx);
  return 0;
}
