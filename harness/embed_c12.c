/* Inner correspondence for C12: calls the UTF-8 leaf functions and the string primitives of sexp.c /
   eval.c on explicit (store bytes, offset, size) triples.  Protocol = ocaml/C12_driver.ml (one request
   per line, hex numbers, byte lists comma separated, "_" = empty).  A store is the n+1 bytes of a bytes
   object of length n (the last one is the hidden terminator slot). */
#include <chibi/eval.h>
#include <stdio.h>
#include <string.h>
#include <stdlib.h>

static sexp ctx;

static int parse_bytes(char *ws, unsigned char *out, int max) {
  int n = 0; char *p = ws;
  if (strcmp(ws, "_") == 0) return 0;
  while (*p && n < max) { out[n++] = (unsigned char) strtoul(p, &p, 16); if (*p == ',') p++; }
  return n;
}

static long parse_z(const char *s) { return (s[0] == '-') ? -strtol(s + 1, NULL, 16) : strtol(s, NULL, 16); }

static sexp mkbytes(unsigned char *b, int n) {      /* n >= 1 bytes of store => bytes object of length n-1 */
  sexp r = sexp_make_bytes(ctx, sexp_make_fixnum(n - 1), SEXP_VOID);
  memcpy(sexp_bytes_data(r), b, n);
  return r;
}

static sexp mkstr(sexp bytes, long off, long size, int cow) {
  sexp s = sexp_alloc_type(ctx, string, SEXP_STRING);
  sexp_string_bytes(s) = bytes;
  sexp_string_offset(s) = off;
  sexp_string_size(s) = size;
  sexp_copy_on_writep(s) = cow;
  return s;
}

static void prstore(sexp b) {
  long n = sexp_bytes_length(b) + 1;
  for (long i = 0; i < n; i++) printf("%s%x", i ? "," : "", (unsigned char) sexp_bytes_data(b)[i]);
}

static const char *errkind(sexp e) {
  sexp m = sexp_exception_message(e);
  if (sexp_stringp(m) && (strstr(sexp_string_data(m), "invalid utf8") || strstr(sexp_string_data(m), "truncated utf8"))) return "utf8";
  return "range";
}

int main(int argc, char **argv) {
  static char line[400000];
  static unsigned char buf[100000], buf2[100000];
  sexp_scheme_init();
  ctx = sexp_make_eval_context(NULL, NULL, NULL, 0, 0);
  sexp_gc_var5(b, s, r, b2, s2);
  sexp_gc_preserve5(ctx, b, s, r, b2, s2);
  while (fgets(line, sizeof line, stdin)) {
    char *f[80]; int nf = 0; char *tok = strtok(line, " \n");
    while (tok && nf < 80) { f[nf++] = tok; tok = strtok(NULL, " \n"); }
    if (nf == 0) { printf("\n"); continue; }
    if (!strcmp(f[0], "leaf") && nf >= 3) {
      if (!strcmp(f[1], "ibc")) printf("%x", sexp_utf8_initial_byte_count((int) parse_z(f[2])));
      else if (!strcmp(f[1], "cbc")) printf("%x", sexp_utf8_char_byte_count((int) parse_z(f[2])));
      else if (!strcmp(f[1], "enc")) {
        int c = (int) parse_z(f[2]), n = sexp_utf8_char_byte_count(c);
        unsigned char e[8]; memset(e, 0, sizeof e);
        sexp_utf8_encode_char(e, n, c);
        for (int i = 0; i < n; i++) printf("%s%x", i ? "," : "", e[i]);
      } else if (!strcmp(f[1], "dec") && (nf == 6 || nf == 7)) {
        /* leaf dec b0 b1 b2 b3 [size]: the string is the first size (default 4) of the four bytes */
        unsigned char e[8]; memset(e, 0, sizeof e);
        long sz = nf == 7 ? parse_z(f[6]) : 4;
        for (int i = 0; i < 4; i++) e[i] = (unsigned char) parse_z(f[2 + i]);
        b = mkbytes(e, 5); s = mkstr(b, 0, sz, 0);
        r = sexp_string_utf8_ref(ctx, s, sexp_make_string_cursor(0));
        if (sexp_exceptionp(r)) printf("ERR utf8"); else printf("OK %x", (unsigned) sexp_unbox_character(r));
      } else printf("ERR unknown leaf");
    } else if ((!strcmp(f[0], "len")) && nf == 4) {
      int n = parse_bytes(f[1], buf, sizeof buf);
      b = mkbytes(buf, n); s = mkstr(b, parse_z(f[2]), parse_z(f[3]), 0);
      printf("OK %lx", (unsigned long) sexp_string_length(s));
    } else if ((!strcmp(f[0], "i2c") || !strcmp(f[0], "c2i") || !strcmp(f[0], "ref") || !strcmp(f[0], "next") || !strcmp(f[0], "prev")) && nf == 5) {
      int n = parse_bytes(f[1], buf, sizeof buf);
      long i = parse_z(f[4]);
      b = mkbytes(buf, n); s = mkstr(b, parse_z(f[2]), parse_z(f[3]), 0);
      if (!strcmp(f[0], "i2c")) {
        r = sexp_string_index_to_cursor(ctx, NULL, 2, s, sexp_make_fixnum(i));
        if (sexp_exceptionp(r)) printf("ERR %s", errkind(r)); else printf("OK %lx", (long) sexp_unbox_string_cursor(r));
      } else if (!strcmp(f[0], "c2i")) {
        r = sexp_string_cursor_to_index(ctx, NULL, 2, s, sexp_make_string_cursor(i));
        if (sexp_exceptionp(r)) printf("ERR %s", errkind(r)); else printf("OK %lx", (long) sexp_unbox_fixnum(r));
      } else if (!strcmp(f[0], "ref")) {
        r = sexp_string_utf8_index_ref(ctx, NULL, 2, s, sexp_make_fixnum(i));
        if (sexp_exceptionp(r)) printf("ERR %s", errkind(r)); else printf("OK %x", (unsigned) sexp_unbox_character(r));
      } else if (!strcmp(f[0], "next")) {
        r = sexp_string_cursor_next(s, sexp_make_string_cursor(i));
        printf("OK %lx", (long) sexp_unbox_string_cursor(r));
      } else {
        r = sexp_string_cursor_prev(s, sexp_make_string_cursor(i));
        long v = (long) sexp_unbox_string_cursor(r);
        if (v < 0) printf("OK -%lx", -v); else printf("OK %lx", v);
      }
    } else if (!strcmp(f[0], "set") && nf == 7) {
      int n = parse_bytes(f[1], buf, sizeof buf);
      b = mkbytes(buf, n); s = mkstr(b, parse_z(f[2]), parse_z(f[3]), f[4][0] == '1');
      r = sexp_string_utf8_index_set(ctx, NULL, 3, s, sexp_make_fixnum(parse_z(f[5])), sexp_make_character(parse_z(f[6])));
      if (sexp_exceptionp(r)) printf("ERR %s", errkind(r));
      else {
        int fresh = sexp_string_bytes(s) != b;
        printf("OK %d %lx %lx ", fresh, (long) sexp_string_offset(s), (long) sexp_string_size(s));
        prstore(b); printf(" ");
        if (fresh) prstore(sexp_string_bytes(s)); else printf("-");
      }
    } else if (!strcmp(f[0], "sub") && nf == 6) {
      int n = parse_bytes(f[1], buf, sizeof buf);
      b = mkbytes(buf, n); s = mkstr(b, parse_z(f[2]), parse_z(f[3]), 0);
      r = sexp_utf8_substring_op(ctx, NULL, 3, s, sexp_make_fixnum(parse_z(f[4])),
                                 strcmp(f[5], "_") ? sexp_make_fixnum(parse_z(f[5])) : SEXP_FALSE);
      if (sexp_exceptionp(r)) printf("ERR range");
      else { printf("OK %lx ", (long) sexp_string_size(r)); prstore(sexp_string_bytes(r)); }
    } else if (!strcmp(f[0], "cat") && nf == 7) {
      int n = parse_bytes(f[1], buf, sizeof buf), n2 = parse_bytes(f[4], buf2, sizeof buf2);
      b = mkbytes(buf, n); s = mkstr(b, parse_z(f[2]), parse_z(f[3]), 0);
      b2 = mkbytes(buf2, n2); s2 = mkstr(b2, parse_z(f[5]), parse_z(f[6]), 0);
      r = sexp_list2(ctx, s, s2);
      r = sexp_string_concatenate_op(ctx, NULL, 2, r, SEXP_FALSE);
      if (sexp_exceptionp(r)) printf("ERR range");
      else { printf("OK %lx ", (long) sexp_string_size(r)); prstore(sexp_string_bytes(r)); }
    } else if (!strcmp(f[0], "join") && nf >= 5 && nf == 5 + 3 * (int) parse_z(f[1])) {
      /* join <n> <sepstore|#> <off> <size> {<store> <off> <size>}*n : sexp_string_concatenate_op(list, sep) */
      int k = (int) parse_z(f[1]);
      r = SEXP_NULL;
      for (int j = k - 1; j >= 0; j--) {
        int n = parse_bytes(f[5 + 3 * j], buf, sizeof buf);
        b = mkbytes(buf, n); s = mkstr(b, parse_z(f[6 + 3 * j]), parse_z(f[7 + 3 * j]), 0);
        r = sexp_cons(ctx, s, r);
      }
      if (strcmp(f[2], "#")) {
        int n2 = parse_bytes(f[2], buf2, sizeof buf2);
        b2 = mkbytes(buf2, n2); s2 = mkstr(b2, parse_z(f[3]), parse_z(f[4]), 0);
      } else s2 = SEXP_FALSE;
      r = sexp_string_concatenate_op(ctx, NULL, 2, r, s2);
      if (sexp_exceptionp(r)) printf("ERR range");
      else { printf("OK %lx ", (long) sexp_string_size(r)); prstore(sexp_string_bytes(r)); }
    } else if (!strcmp(f[0], "mk") && nf == 3) {
      r = sexp_make_string_op(ctx, NULL, 2, sexp_make_fixnum(parse_z(f[1])), sexp_make_character(parse_z(f[2])));
      if (sexp_exceptionp(r)) printf("ERR range");
      else { printf("OK %lx ", (long) sexp_string_size(r)); prstore(sexp_string_bytes(r)); }
    } else {
      printf("ERR unknown request");
    }
    printf("\n");
  }
  sexp_gc_release5(ctx);
  sexp_destroy_context(ctx);
  return 0;
}
