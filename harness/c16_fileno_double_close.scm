(import (scheme base) (scheme write) (chibi filesystem) (chibi ast) (scheme file))
;; explicit close of a fileno object, then its finalizer must not close the (reused) number again
(define (make-garbage) (let ((p (open-pipe))) (close-file-descriptor (car p)) (close-file-descriptor (cadr p)) #f))
(make-garbage)
(define p2 (open-pipe))   ; reuses the same descriptor numbers
(define out (open-output-file-descriptor (cadr p2)))
(define in (open-input-file-descriptor (car p2)))
(gc) (gc)
(write-string "hello\n" out) (flush-output-port out)
(write (read-line in)) (newline)
