;; C02 outer correspondence, dense schedules: touches the allocating C primitives and opcodes that are
;; reachable without importing any library (core environment after sexp_load_standard_env), so that
;; the forced-collection numbering (which starts when the standard environment is loaded) covers
;; only this program and collections can be forced before every single allocation.
;; Every result is printed; the output must not depend on the collection schedule.
(define (show . xs) (for-each (lambda (x) (write x) (display " ")) xs) (newline))
(define (iota* n) (let lp ((i (- n 1)) (acc '())) (if (< i 0) acc (lp (- i 1) (cons i acc)))))
(define l1 (iota* 12))
(define l2 (map (lambda (i) (number->string (* i 1000003))) l1))
;; lists
(show (append l1 (list 'a 'b) l2))
(show (append (iota* 30) (iota* 3)))
(show (reverse l2) (list-copy l1) (length (append l2 l2 l2)))
(show (list->vector l2) (vector->list (make-vector 5 "v")) (list->string (list #\a #\b #\c)) (string->list "hello"))
(show (apply + l1) (apply list 1 2 l2))
(show (assoc "3000009" (map (lambda (s) (cons s (string-length s))) l2)) (member "5000015" l2))
(show (list-tail l2 4) (memq 'c '(a b c d)) (assq 'b '((a . 1) (b . 2))))
;; strings and symbols
(show (string-append "abc" (number->string 12345678901234567890) "def") (substring "hello world" 3 8))
(show (string->symbol (string-append "sy" "mbol")) (symbol->string 'abcdef) (string-copy "copy me"))
(show (string->number "123456789012345678901234567890") (string->number "1.5e10") (string->number "#xff") (number->string 255 16))
(show (make-string 5 #\z) (string<? "a" "b"))
(show (let ((s (make-string 3 #\a))) (string-set! s 1 #\x3bb) s))
(show (string-cursor->index "abc" (string-cursor-end "abc")))
;; numbers: fixnum overflow into bignums, ratios, flonums
(show (* 4611686018427387903 4611686018427387903) (expt 3 150) (quotient (expt 10 40) 7) (remainder (expt 10 40) 7))
(show (+ (expt 2 62) (expt 2 62)) (- (expt 2 100)) (/ (expt 10 20) (expt 6 10)) (exact->inexact (/ 1 3)))
(show (inexact->exact (floor 1e15)) (sqrt 16) (sqrt 2) (number->string (/ 22 7)))
(show (gcd (expt 2 80) (expt 6 40)) (lcm 123456789 987654321) (modulo (- (expt 10 30)) 97) (abs (- (expt 2 70))))
(show (exact->inexact (expt 2 70)) (round 2.5) (truncate -2.7) (max 1 2.0) (min (expt 2 65) 3))
;; vectors and bytevectors
(show (make-vector 4 (list 1 2)) (vector 1 "two" 'three 4.0) (vector-length (make-vector 1000 0)))
(show (let ((v (make-vector 6 0))) (vector-fill! v 'f) (vector-set! v 2 (list 'x)) v))
(show (make-bytevector 4 7) (bytevector-length (make-bytevector 100 0)) (bytevector-u8-ref (make-bytevector 3 9) 1))
;; closures, varargs, named let, deep recursion
(define (count-up n) (let lp ((i 0) (acc '())) (if (< i n) (lp (+ i 1) (cons (lambda () i) acc)) (map (lambda (f) (f)) acc))))
(show (count-up 20))
(define (va a . rest) (list a rest))
(show (va 1) (va 1 2 3) (apply va l1))
(define (deep n) (if (= n 0) '() (cons (make-vector 2 n) (deep (- n 1)))))
(show (length (deep 200)))
;; continuations, dynamic-wind, exceptions, parameters, promises
(show (call-with-current-continuation (lambda (k) (dynamic-wind (lambda () (list 'in)) (lambda () (k (list 'escaped (iota* 5)))) (lambda () (list 'out))))))
(define k2 #f)
(define n2 0)
(show (list 'resumed (call-with-current-continuation (lambda (k) (set! k2 k) 0))))
(if (< n2 2) (begin (set! n2 (+ n2 1)) (k2 (list n2 (make-string n2 #\k)))))
(show (call-with-current-continuation (lambda (k) (with-exception-handler (lambda (e) (k (list 'caught (pair? (list e))))) (lambda () (error "boom" (iota* 4) "str"))))))
(show (call-with-current-continuation (lambda (k) (with-exception-handler (lambda (e) (k 'type-error)) (lambda () (car 5))))))
(show (let ((p (delay (iota* 6)))) (list (force p) (force p))))
(show (call-with-values (lambda () (values (list 1) (list 2) "three")) list))
;; ports, reader, writer
(show (let ((p (open-input-string "(a (b . c) #(1 2 3) \"str\" 12345678901234567890 1.5 #\\x |odd sym| #t)"))) (read p)))
(show (let ((p (open-output-string))) (write (list 1.5 "q\"uote" #\a 'sym (expt 2 90)) p) (display (iota* 20) p) (get-output-string p)))
(show (let ((p (open-input-string "abc"))) (let* ((a (read-char p)) (b (peek-char p)) (c (read-char p)) (d (read-char p))) (list a b c d (eof-object? (read-char p))))))
;; eval and the compiler
(show (eval '(let loop ((i 0) (acc '())) (if (< i 10) (loop (+ i 1) (cons (* i i) acc)) acc))))
(show ((eval '(lambda (x . r) (let ((y (list x r))) (lambda () (cons 'closed y))))) 1 2 3))
(show (eval '(let-syntax ((sw (syntax-rules () ((_ a b) (list b a))))) (sw 1 2))))
(define-syntax my-or (syntax-rules () ((_) #f) ((_ e) e) ((_ e r ...) (let ((t e)) (if t t (my-or r ...))))))
(show (let ((t 5)) (my-or #f t)) (my-or #f #f (list 'last)))
;; equal? on fresh structures, hashing of strings
(show (equal? (list 1 (vector 2 "x") 3.5) (list 1 (vector 2 "x") 3.5)) (eqv? (expt 2 70) (expt 2 70)) (eq? 'a (string->symbol "a")))
;; association of everything kept until the end
(define everything (list l1 l2 (deep 30) (count-up 5) (expt 7 77)))
(show (length everything) (car (reverse everything)))
