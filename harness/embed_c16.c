/* C16 layout correspondence: the heap part of the history language of coq/C16/History.v (K C E D G, plus the
   placeholder H = K) interpreted through the C API on a BARE context (sexp_make_context: no standard
   environment, no interpreter running), so that nothing but the history allocates: allocation is first-fit from
   one coalesced free chunk, the address of every object is known, and a hole opened by dropping a placeholder
   and collecting is exactly where the next allocation of that size lands.  This is how the generator of
   props/C16.py realises every relative ADDRESS order of {ephemeron, its value, dependent ephemeron, its key}
   -- the order in which sexp_mark_weak_extras meets them.  The achieved addresses are printed (line "A") and
   checked by the plugin, which also replays the heap dumps (CHIBI_VERIF_TRACE / CHIBI_VERIF_DUMP hooks of gc.c).
   input : one history per line:  <nslots> <op>;<op>;...   ops: K,i  H,i  C,i,a,b  E,i,k,v  D,i  G  B,i,n  O,i
           (B: a vector of n slots, an ordinary object for the model; O: a stream port on /dev/null, as in c16_hist.scm)
           round 3: N (first op only: throw the context away and make a FRESH one, so that the history's first ephemeron is
           the first ephemeron of the context: SEXP_G_WEAK_OBJECTS_PRESENT is still off);  I,i,c  R[i] := immediate number c
           (1 fixnum 17, 2 #t, 3 #\a, 4 '(), 5 fixnum 0; printed i<c> as key / value of an ephemeron, #f inside pairs);
           F,i fileno on /dev/null;  S,i,j socketpair(AF_UNIX, SOCK_STREAM): two filenos;  Q,i,j pipe;  P,i,f / W,i,f input /
           output port on fileno R[f];  PS,i,f / WS,i,f the same with the shutdown flag (as (chibi net) open-net-io);
           X,i close-port;  Z,i,j write a line through output port R[j], read it through input port R[i]
           (observation Zok / Zbad:<why> / Zskip);  after every G also |own=<slot>:<ok|bad>,... as in c16_hist.scm
           round 4: a leading A on an allocating op (AK,i  AC,i,a,b  AE,i,k,v): the op's allocation TRIGGERS an automatic
           collection -- the heap is first filled with unreferenced objects of the same size until no free chunk can hold one
           more, so sexp_alloc's first-fit search fails inside the operation itself (inside sexp_make_ephemeron for AE) and
           sexp_gc runs there, with the operands held only by the history's slots; no observation is printed for it.  Whether
           exactly one collection happened inside each such operation is reported on the T line.
   output: H <n> <observation>/<observation>...      one observation per G, same text as harness/c16_hist.scm:
               e<id>=<broken>,<key fingerprint>,<value fingerprint>;...|fds=<open descriptors - baseline>|gc=<number of the G's first collection>
           A <n> <id>:<heap index>:<offset>,...       address of every object the history allocated
           T <n> <achieved>/<requested>               automatic collections that happened exactly inside an A-prefixed operation
           DONE */
#include <stdio.h>
#include <stdlib.h>
#include <string.h>
#include <dirent.h>
#include <unistd.h>
#include <fcntl.h>
#include <poll.h>
#include <sys/socket.h>
#include <chibi/eval.h>

#define MAXSLOTS 256
#define MAXOBS 1024
#define MAXIDS 4096

static sexp ctx;
static sexp R, OBS;                 /* roots, preserved */
static long obs_id[MAXOBS]; static int nobs;
static int addr_heap[MAXIDS]; static unsigned long addr_off[MAXIDS]; static long nids;

static long fd_count (void) {
  long n = 0; DIR *d = opendir("/proc/self/fd"); struct dirent *e;
  if (!d) return -1;
  while ((e = readdir(d))) n++;
  closedir(d);
  return n;
}
static long fd_base;
static unsigned long ctx_size;
static int own_num[MAXSLOTS]; static char own_lnk[MAXSLOTS][64]; static int own_pair[MAXSLOTS]; static int npairs, zn;

static void new_context (void) {
  if (ctx) sexp_destroy_context(ctx);
  ctx = sexp_make_context(NULL, ctx_size, 0);
  if (!ctx || sexp_exceptionp(ctx)) { fprintf(stderr, "no context\n"); exit(2); }
  R = sexp_make_vector(ctx, sexp_make_fixnum(MAXSLOTS), SEXP_FALSE); sexp_preserve_object(ctx, R);
  OBS = sexp_make_vector(ctx, sexp_make_fixnum(MAXOBS), SEXP_FALSE); sexp_preserve_object(ctx, OBS);
}

static void fd_link (int n, char *buf) {
  char path[64]; ssize_t k;
  snprintf(path, sizeof path, "/proc/self/fd/%d", n);
  k = readlink(path, buf, 63);
  buf[k < 0 ? 0 : k] = 0;
}
static void set_owner (long i, int n, int pair) {
  if (i < 0 || i >= MAXSLOTS) return;
  own_num[i] = n; own_pair[i] = pair; fd_link(n, own_lnk[i]);
}
static sexp immediate (long c) {
  switch (c) {
  case 1: return sexp_make_fixnum(17);
  case 2: return SEXP_TRUE;
  case 3: return sexp_make_character('a');
  case 4: return SEXP_NULL;
  case 5: return SEXP_ZERO;
  default: return SEXP_FALSE;
  }
}
static int immediate_code (sexp x) {
  int c;
  for (c = 1; c <= 5; c++) if (x == immediate(c)) return c;
  return 0;
}

static int locate (sexp x, unsigned long *off) {
  sexp_heap h; int hi = 0;
  for (h = sexp_context_heap(ctx); h; h = h->next, hi++)
    if ((char*)x >= (char*)h->data && (char*)x < (char*)h->data + h->size) { *off = (unsigned long)((char*)x - (char*)h->data); return hi; }
  *off = 0; return -1;
}

/* is x inside a free chunk (a dangling reference: what the property forbids for a retained value) */
static int in_free_chunk (sexp x) {
  sexp_heap h; sexp_free_list q;
  for (h = sexp_context_heap(ctx); h; h = h->next)
    if ((char*)x >= (char*)h->data && (char*)x < (char*)h->data + h->size)
      for (q = h->free_list->next; q; q = q->next)
        if ((char*)x >= (char*)q && (char*)x < (char*)q + q->size) return 1;
  return 0;
}

static void fp (sexp x, int d, FILE *out) {
  int i;
  if (x == SEXP_FALSE) { fputs("#f", out); return; }
  if (!sexp_pointerp(x)) {
    if (immediate_code(x)) { if (d >= 6) fprintf(out, "i%d", immediate_code(x)); else fputs("#f", out); }
    else fputs("?imm", out);
    return;
  }
  if (in_free_chunk(x)) { fputs("DANGLING", out); return; }
  if (sexp_ephemeronp(x)) {
    for (i = 0; i < nobs; i++)
      if (sexp_vector_ref(OBS, sexp_make_fixnum(i)) == x) { fprintf(out, "e%lx", obs_id[i]); return; }
    fputs("e0", out); return;
  }
  if (sexp_pairp(x)) {
    if (d <= 0) { fputs("_", out); return; }
    fputs("(", out); fp(sexp_car(x), d - 1, out); fputs(" . ", out); fp(sexp_cdr(x), d - 1, out); fputs(")", out);
    return;
  }
  if (sexp_portp(x)) { fputs("p", out); return; }
  if (sexp_filenop(x)) { fputs("f", out); return; }
  if (sexp_vectorp(x) && sexp_vector_length(x) >= 1 && sexp_fixnump(sexp_vector_ref(x, SEXP_ZERO))) {
    fprintf(out, "k%lx", (long)sexp_unbox_fixnum(sexp_vector_ref(x, SEXP_ZERO))); return;
  }
  fprintf(out, "?tag%d", (int)sexp_pointer_tag(x));
}

static void observe (FILE *out, unsigned long gcno) {
  int i; sexp e;
  for (i = 0; i < nobs; i++) {
    e = sexp_vector_ref(OBS, sexp_make_fixnum(i));
    if (i) fputs(";", out);
    fprintf(out, "e%lx=%d,", obs_id[i], sexp_brokenp(e) ? 1 : 0);
    fp(sexp_ephemeron_key(e), 6, out); fputs(",", out); fp(sexp_ephemeron_value(e), 6, out);
  }
  fprintf(out, "|fds=%ld|gc=%lu|own=", fd_count() - fd_base, gcno);
  { int first = 1; char now[64];
    for (i = 0; i < MAXSLOTS; i++) {
      e = sexp_vector_ref(R, sexp_make_fixnum(i));
      if (own_num[i] >= 0 && sexp_pointerp(e) && (sexp_portp(e) || sexp_filenop(e))) {
        fd_link(own_num[i], now);
        fprintf(out, "%s%d:%s", first ? "" : ",", i, strcmp(now, own_lnk[i]) ? "bad" : "ok");
        first = 0;
      }
    }
  }
}

static sexp slot (long i) { return (i >= 0 && i < MAXSLOTS) ? sexp_vector_ref(R, sexp_make_fixnum(i)) : SEXP_FALSE; }
static void set_slot (long i, sexp x) { if (i >= 0 && i < MAXSLOTS) { sexp_vector_set(R, sexp_make_fixnum(i), x); own_num[i] = -1; own_pair[i] = -1; } }
static void record (long id, sexp x) {
  if (id < MAXIDS) addr_heap[id] = locate(x, &addr_off[id]);
}

/* write a line through the output port, read it back through the input port */
static const char* transfer (sexp in, sexp o, int n) {
  char msg[32], got[64]; int k = 0, c; struct pollfd pf;
  if (!sexp_port_openp(in) || !sexp_port_openp(o)) return "Zbad:port-closed";
  snprintf(msg, sizeof msg, "z%d\n", n);
  sexp_write_string(ctx, msg, o);
  sexp_flush_forced(ctx, o);
  if (sexp_port_offset(in) >= sexp_port_size(in)) {         /* nothing buffered: is there anything to read? */
    pf.fd = sexp_port_fileno(in); pf.events = POLLIN; pf.revents = 0;
    if (poll(&pf, 1, 300) <= 0 || !(pf.revents & POLLIN)) return "Zbad:nothing-to-read";
  }
  while (k < 60) {
    c = sexp_read_char(ctx, in);
    if (c == EOF || c < 0) return "Zbad:eof";
    got[k++] = (char)c;
    if (c == '\n') break;
  }
  got[k] = 0;
  return strcmp(got, msg) ? "Zbad:other-data" : "Zok";
}

/* round 4: fill the heap with garbage of `need` bytes per object until sexp_try_alloc (first fit: a chunk of size >= need)
   must fail for one more; returns 0 if a collection happened while filling (then the fill itself was the trigger) */
static long auto_req, auto_ok;
static int fits (size_t need) {
  sexp_heap h; sexp_free_list q;
  for (h = sexp_context_heap(ctx); h; h = h->next)
    for (q = h->free_list->next; q; q = q->next)
      if (q->size >= need) return 1;
  return 0;
}
static int fill_heap (int vec) {
  size_t need = sexp_heap_align(vec ? sexp_sizeof(vector) + sizeof(sexp) : sexp_sizeof(pair)) + SEXP_GC_PAD;
  unsigned long g0 = (unsigned long)sexp_context_gc_count(ctx); long guard = 0;
  while (fits(need) && guard++ < 100000000L) {
    if (vec) sexp_make_vector(ctx, SEXP_ONE, SEXP_FALSE); else sexp_cons(ctx, SEXP_FALSE, SEXP_FALSE);
  }
  return (unsigned long)sexp_context_gc_count(ctx) == g0;
}

static int run_history (char *ops, FILE *out) {
  char *save = NULL, *tok; long a[4]; int na, first = 1, i, nop = 0; char name[8]; sexp x, y; unsigned long gcno;
  if (!strncmp(ops, "N", 1) && (ops[1] == ';' || !ops[1])) new_context();
  for (i = 0; i < MAXSLOTS; i++) set_slot(i, SEXP_FALSE);
  for (i = 0; i < MAXOBS; i++) sexp_vector_set(OBS, sexp_make_fixnum(i), SEXP_FALSE);
  nobs = 0; nids = 0; npairs = 0; zn = 0;
  sexp_gc(ctx, NULL);           /* everything of the previous history is gone: one coalesced free chunk behind the roots */
  fd_base = fd_count();
  for (tok = strtok_r(ops, ";", &save); tok; tok = strtok_r(NULL, ";", &save), nop++) {
    char *p = tok;
    for (i = 0; *p && *p != ',' && i < 7; ) name[i++] = *p++;
    name[i] = 0; na = 0;
    while (*p == ',' && na < 4) a[na++] = strtol(p + 1, &p, 10);
    int autop = 0, filled = 0; unsigned long g_before = 0;
    if (name[0] == 'A' && (name[1] == 'K' || name[1] == 'C' || name[1] == 'E') && !name[2]) {
      autop = 1; memmove(name, name + 1, strlen(name));
      auto_req++;
      filled = fill_heap(name[0] == 'K');
      g_before = (unsigned long)sexp_context_gc_count(ctx);
    }
#define OP(s) (!strcmp(name, s))
    if (OP("N")) {
      if (nop != 0) return 0;
    } else if (OP("K") || OP("H")) {
      x = sexp_make_vector(ctx, SEXP_ONE, SEXP_FALSE);
      if (sexp_exceptionp(x)) return 0;
      nids++; sexp_vector_set(x, SEXP_ZERO, sexp_make_fixnum(nids)); record(nids, x); set_slot(a[0], x);
    } else if (OP("I")) {
      set_slot(a[0], immediate(a[1]));
    } else if (OP("C")) {
      x = sexp_cons(ctx, slot(a[1]), slot(a[2]));
      if (sexp_exceptionp(x)) return 0;
      nids++; record(nids, x); set_slot(a[0], x);
    } else if (OP("E")) {
      x = sexp_make_ephemeron(ctx, slot(a[1]), slot(a[2]));
      if (sexp_exceptionp(x) || nobs >= MAXOBS) return 0;
      nids++; record(nids, x); set_slot(a[0], x);
      obs_id[nobs] = nids; sexp_vector_set(OBS, sexp_make_fixnum(nobs), x); nobs++;
    } else if (OP("B")) {           /* a big block of a[1] slots (dropped later: a large free chunk in the middle of the heap) */
      x = sexp_make_vector(ctx, sexp_make_fixnum(na > 1 && a[1] > 0 ? a[1] : 1), SEXP_FALSE);
      if (sexp_exceptionp(x)) return 0;
      nids++; sexp_vector_set(x, SEXP_ZERO, sexp_make_fixnum(nids)); record(nids, x); set_slot(a[0], x);
    } else if (OP("O")) {           /* (open-input-file "/dev/null"): a stream port owning a descriptor */
      FILE *f = fopen("/dev/null", "r");
      if (!f) return 0;
      x = sexp_make_input_port(ctx, f, SEXP_FALSE);
      if (sexp_exceptionp(x)) return 0;
      nids++; record(nids, x); set_slot(a[0], x); set_owner(a[0], fileno(f), -1);
    } else if (OP("F")) {           /* (open "/dev/null" open/read): a fileno object owning a descriptor */
      int fd = open("/dev/null", O_RDONLY);
      if (fd < 0) return 0;
      x = sexp_make_fileno(ctx, sexp_make_fixnum(fd), SEXP_FALSE);
      if (!sexp_filenop(x)) return 0;
      nids++; record(nids, x); set_slot(a[0], x); set_owner(a[0], fd, -1);
    } else if (OP("S") || OP("Q")) { /* socketpair / pipe: two fileno objects */
      int fds[2];
      if ((OP("S") ? socketpair(AF_UNIX, SOCK_STREAM, 0, fds) : pipe(fds)) != 0) return 0;
      x = sexp_make_fileno(ctx, sexp_make_fixnum(fds[0]), SEXP_FALSE);
      if (!sexp_filenop(x)) return 0;
      nids++; record(nids, x); set_slot(a[0], x); set_owner(a[0], fds[0], 2 * npairs);
      y = sexp_make_fileno(ctx, sexp_make_fixnum(fds[1]), SEXP_FALSE);
      if (!sexp_filenop(y)) return 0;
      nids++; record(nids, y); set_slot(a[1], y); set_owner(a[1], fds[1], 2 * npairs + 1);
      npairs++;
    } else if (OP("P") || OP("W") || OP("PS") || OP("WS")) {
      sexp f = slot(a[1]); int pr = (a[1] >= 0 && a[1] < MAXSLOTS) ? own_pair[a[1]] : -1;
      if (sexp_pointerp(f) && sexp_filenop(f)) {
        sexp sh = name[1] == 'S' ? SEXP_TRUE : SEXP_FALSE;
        x = name[0] == 'P' ? sexp_open_input_file_descriptor(ctx, NULL, 2, f, sh) : sexp_open_output_file_descriptor(ctx, NULL, 2, f, sh);
        if (sexp_exceptionp(x)) return 0;
        nids++; record(nids, x); set_slot(a[0], x); set_owner(a[0], sexp_fileno_fd(f), pr);
      }
    } else if (OP("X") || OP("XI") || OP("XO")) {
      x = slot(a[0]);
      if (sexp_pointerp(x) && sexp_portp(x)) sexp_close_port(ctx, x);
    } else if (OP("Z")) {
      sexp in = slot(a[0]), o = slot(a[1]);
      if (!first) fputs("/", out);
      first = 0; zn++;
      if (sexp_pointerp(in) && sexp_iportp(in) && sexp_pointerp(o) && sexp_oportp(o) && a[0] < MAXSLOTS && a[1] < MAXSLOTS
          && own_pair[a[0]] >= 0 && own_pair[a[1]] >= 0 && (own_pair[a[0]] ^ own_pair[a[1]]) == 1)
        fputs(transfer(in, o, zn), out);
      else
        fputs("Zskip", out);
    } else if (OP("D")) {
      set_slot(a[0], SEXP_FALSE);
    } else if (OP("G")) {
      gcno = (unsigned long)sexp_context_gc_count(ctx);     /* the number of the first of the two collections */
      sexp_gc(ctx, NULL); sexp_gc(ctx, NULL);
      if (!first) fputs("/", out);
      first = 0;
      observe(out, gcno);
    } else return 0;
    if (autop && filled && (unsigned long)sexp_context_gc_count(ctx) == g_before + 1) auto_ok++;
  }
  return 1;
}

int main (int argc, char **argv) {
  static char line[1 << 20]; long n = 0, id; char *sp; int ok;
  ctx_size = argc > 1 ? strtoul(argv[1], NULL, 0) : (1UL << 20);
  new_context();
  while (fgets(line, sizeof line, stdin)) {
    line[strcspn(line, "\n")] = 0;
    if (!line[0]) continue;
    sp = strchr(line, ' ');
    if (!sp) continue;
    printf("H %ld ", n);
    auto_req = auto_ok = 0;
    ok = run_history(sp + 1, stdout);
    printf("%s\n", ok ? "" : "|ERROR");
    printf("A %ld ", n);
    for (id = 1; id <= nids && id < MAXIDS; id++) printf("%s%lx:%d:%lu", id > 1 ? "," : "", id, addr_heap[id], addr_off[id]);
    printf("\n");
    if (auto_req) printf("T %ld %ld/%ld\n", n, auto_ok, auto_req);
    fflush(stdout);
    n++;
  }
  printf("DONE\n");
  return 0;
}
