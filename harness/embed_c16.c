/* C16 layout correspondence: the heap part of the history language of coq/C16/History.v (K C E D G, plus the
   placeholder H = K) interpreted through the C API on a BARE context (sexp_make_context: no standard
   environment, no interpreter running), so that nothing but the history allocates: allocation is first-fit from
   one coalesced free chunk, the address of every object is known, and a hole opened by dropping a placeholder
   and collecting is exactly where the next allocation of that size lands.  This is how the generator of
   props/C16.py realises every relative ADDRESS order of {ephemeron, its value, dependent ephemeron, its key}
   -- the order in which sexp_mark_weak_extras meets them.  The achieved addresses are printed (line "A") and
   checked by the plugin, which also replays the heap dumps (CHIBI_VERIF_TRACE / CHIBI_VERIF_DUMP hooks of gc.c).
   input : one history per line:  <nslots> <op>;<op>;...   ops: K,i  H,i  C,i,a,b  E,i,k,v  D,i  G  B,i,n  O,i
           (B: a vector of n slots, an ordinary object for the model; O: a stream port on /dev/null, as in c16_hist.scm)
   output: H <n> <observation>/<observation>...      one observation per G, same text as harness/c16_hist.scm:
               e<id>=<broken>,<key fingerprint>,<value fingerprint>;...|fds=<open descriptors - baseline>|gc=<number of the G's first collection>
           A <n> <id>:<heap index>:<offset>,...       address of every object the history allocated
           DONE */
#include <stdio.h>
#include <stdlib.h>
#include <string.h>
#include <dirent.h>
#include <chibi/eval.h>

#define MAXSLOTS 256
#define MAXOBS 1024
#define MAXIDS 4096

static sexp ctx;
static sexp R, OBS;                 /* roots, preserved */
static long obs_id[MAXOBS]; static int nobs;
static int addr_heap[MAXIDS]; static unsigned long addr_off[MAXIDS]; static long nids;

static long fd_count (void) {
  long n = 0; DIR *d = opendir("/proc/self/fd"); struct dirent *e;
  if (!d) return -1;
  while ((e = readdir(d))) n++;
  closedir(d);
  return n;
}
static long fd_base;

static int locate (sexp x, unsigned long *off) {
  sexp_heap h; int hi = 0;
  for (h = sexp_context_heap(ctx); h; h = h->next, hi++)
    if ((char*)x >= (char*)h->data && (char*)x < (char*)h->data + h->size) { *off = (unsigned long)((char*)x - (char*)h->data); return hi; }
  *off = 0; return -1;
}

/* is x inside a free chunk (a dangling reference: what the property forbids for a retained value) */
static int in_free_chunk (sexp x) {
  sexp_heap h; sexp_free_list q;
  for (h = sexp_context_heap(ctx); h; h = h->next)
    if ((char*)x >= (char*)h->data && (char*)x < (char*)h->data + h->size)
      for (q = h->free_list->next; q; q = q->next)
        if ((char*)x >= (char*)q && (char*)x < (char*)q + q->size) return 1;
  return 0;
}

static void fp (sexp x, int d, FILE *out) {
  int i;
  if (x == SEXP_FALSE) { fputs("#f", out); return; }
  if (!sexp_pointerp(x)) { fputs("?imm", out); return; }
  if (in_free_chunk(x)) { fputs("DANGLING", out); return; }
  if (sexp_ephemeronp(x)) {
    for (i = 0; i < nobs; i++)
      if (sexp_vector_ref(OBS, sexp_make_fixnum(i)) == x) { fprintf(out, "e%lx", obs_id[i]); return; }
    fputs("e0", out); return;
  }
  if (sexp_pairp(x)) {
    if (d <= 0) { fputs("_", out); return; }
    fputs("(", out); fp(sexp_car(x), d - 1, out); fputs(" . ", out); fp(sexp_cdr(x), d - 1, out); fputs(")", out);
    return;
  }
  if (sexp_portp(x)) { fputs("p", out); return; }
  if (sexp_vectorp(x) && sexp_vector_length(x) >= 1 && sexp_fixnump(sexp_vector_ref(x, SEXP_ZERO))) {
    fprintf(out, "k%lx", (long)sexp_unbox_fixnum(sexp_vector_ref(x, SEXP_ZERO))); return;
  }
  fprintf(out, "?tag%d", (int)sexp_pointer_tag(x));
}

static void observe (FILE *out, unsigned long gcno) {
  int i; sexp e;
  for (i = 0; i < nobs; i++) {
    e = sexp_vector_ref(OBS, sexp_make_fixnum(i));
    if (i) fputs(";", out);
    fprintf(out, "e%lx=%d,", obs_id[i], sexp_brokenp(e) ? 1 : 0);
    fp(sexp_ephemeron_key(e), 6, out); fputs(",", out); fp(sexp_ephemeron_value(e), 6, out);
  }
  fprintf(out, "|fds=%ld|gc=%lu", fd_count() - fd_base, gcno);
}

static sexp slot (long i) { return (i >= 0 && i < MAXSLOTS) ? sexp_vector_ref(R, sexp_make_fixnum(i)) : SEXP_FALSE; }
static void set_slot (long i, sexp x) { if (i >= 0 && i < MAXSLOTS) sexp_vector_set(R, sexp_make_fixnum(i), x); }
static void record (long id, sexp x) {
  if (id < MAXIDS) addr_heap[id] = locate(x, &addr_off[id]);
}

static int run_history (char *ops, FILE *out) {
  char *save = NULL, *tok; long a[4]; int na, first = 1, i; char kind; sexp x; unsigned long gcno;
  for (i = 0; i < MAXSLOTS; i++) set_slot(i, SEXP_FALSE);
  for (i = 0; i < MAXOBS; i++) sexp_vector_set(OBS, sexp_make_fixnum(i), SEXP_FALSE);
  nobs = 0; nids = 0;
  sexp_gc(ctx, NULL);           /* everything of the previous history is gone: one coalesced free chunk behind the roots */
  fd_base = fd_count();
  for (tok = strtok_r(ops, ";", &save); tok; tok = strtok_r(NULL, ";", &save)) {
    char *p = tok + 1;
    kind = tok[0]; na = 0;
    while (*p == ',' && na < 4) a[na++] = strtol(p + 1, &p, 10);
    switch (kind) {
    case 'K': case 'H':
      x = sexp_make_vector(ctx, SEXP_ONE, SEXP_FALSE);
      if (sexp_exceptionp(x)) return 0;
      nids++; sexp_vector_set(x, SEXP_ZERO, sexp_make_fixnum(nids)); record(nids, x); set_slot(a[0], x);
      break;
    case 'C':
      x = sexp_cons(ctx, slot(a[1]), slot(a[2]));
      if (sexp_exceptionp(x)) return 0;
      nids++; record(nids, x); set_slot(a[0], x);
      break;
    case 'E':
      x = sexp_make_ephemeron(ctx, slot(a[1]), slot(a[2]));
      if (sexp_exceptionp(x) || nobs >= MAXOBS) return 0;
      nids++; record(nids, x); set_slot(a[0], x);
      obs_id[nobs] = nids; sexp_vector_set(OBS, sexp_make_fixnum(nobs), x); nobs++;
      break;
    case 'B':                     /* a big block of a[1] slots (dropped later: a large free chunk in the middle of the heap) */
      x = sexp_make_vector(ctx, sexp_make_fixnum(na > 1 && a[1] > 0 ? a[1] : 1), SEXP_FALSE);
      if (sexp_exceptionp(x)) return 0;
      nids++; sexp_vector_set(x, SEXP_ZERO, sexp_make_fixnum(nids)); record(nids, x); set_slot(a[0], x);
      break;
    case 'O': {                   /* (open-input-file "/dev/null"): a stream port owning a descriptor */
      FILE *f = fopen("/dev/null", "r");
      if (!f) return 0;
      x = sexp_make_input_port(ctx, f, SEXP_FALSE);
      if (sexp_exceptionp(x)) return 0;
      nids++; record(nids, x); set_slot(a[0], x);
      break; }
    case 'D': set_slot(a[0], SEXP_FALSE); break;
    case 'G':
      gcno = (unsigned long)sexp_context_gc_count(ctx);     /* the number of the first of the two collections */
      sexp_gc(ctx, NULL); sexp_gc(ctx, NULL);
      if (!first) fputs("/", out);
      first = 0;
      observe(out, gcno);
      break;
    default: return 0;
    }
  }
  return 1;
}

int main (int argc, char **argv) {
  static char line[1 << 20]; long n = 0, id; char *sp; int ok;
  unsigned long size = argc > 1 ? strtoul(argv[1], NULL, 0) : (1UL << 20);
  ctx = sexp_make_context(NULL, size, 0);
  if (!ctx || sexp_exceptionp(ctx)) { fprintf(stderr, "no context\n"); return 2; }
  R = sexp_make_vector(ctx, sexp_make_fixnum(MAXSLOTS), SEXP_FALSE); sexp_preserve_object(ctx, R);
  OBS = sexp_make_vector(ctx, sexp_make_fixnum(MAXOBS), SEXP_FALSE); sexp_preserve_object(ctx, OBS);
  while (fgets(line, sizeof line, stdin)) {
    line[strcspn(line, "\n")] = 0;
    if (!line[0]) continue;
    sp = strchr(line, ' ');
    if (!sp) continue;
    printf("H %ld ", n);
    ok = run_history(sp + 1, stdout);
    printf("%s\n", ok ? "" : "|ERROR");
    printf("A %ld ", n);
    for (id = 1; id <= nids && id < MAXIDS; id++) printf("%s%lx:%d:%lu", id > 1 ? "," : "", id, addr_heap[id], addr_off[id]);
    printf("\n");
    fflush(stdout);
    n++;
  }
  printf("DONE\n");
  return 0;
}
