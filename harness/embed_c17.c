/* Inner correspondence for C17: calls the seven C entry points of lib/srfi/151/bit.so (dlopen'ed, path
   in argv[1]) on fixnums and on bignum word arrays built word by word (so spare high zero words and
   unnormalised lengths are possible).  Protocol = ocaml/C17_driver.ml:
   number = f<signed hex> | b<sign>:<w0,w1,...>;  requests: and|ior|xor X Y, shift X <signed hex>, count X,
   length X, bitset <hex> X.  The operands are re-printed after the call when they changed (aliasing). */
#include <chibi/eval.h>
#include <stdio.h>
#include <string.h>
#include <stdlib.h>
#include <dlfcn.h>

typedef sexp (*fn2)(sexp, sexp, sexp_sint_t, sexp, sexp);
typedef sexp (*fn1)(sexp, sexp, sexp_sint_t, sexp);

static long long parse_shex(const char *s) {
  int neg = (*s == '-'); if (neg) s++;
  unsigned long long v = strtoull(s, NULL, 16);
  return neg ? -(long long)v : (long long)v;
}

static sexp mknum(sexp ctx, char *s) {
  if (s[0] == 'f') return sexp_make_fixnum(parse_shex(s + 1));
  if (s[0] != 'b') return SEXP_VOID;
  char *colon = strchr(s, ':'); if (!colon) return SEXP_VOID;
  *colon = 0;
  int neg = (s[1] == '-');
  static sexp_uint_t vals[4096]; int n = 0; char *p = colon + 1;
  if (strcmp(p, "_") != 0)
    while (*p && n < 4096) { vals[n++] = strtoull(p, &p, 16); if (*p == ',') p++; }
  *colon = ':';
  sexp r = sexp_make_bignum(ctx, n);
  for (int i = 0; i < n; i++) sexp_bignum_data(r)[i] = vals[i];
  sexp_bignum_sign(r) = neg ? -1 : 1;
  return r;
}

static void prnum(sexp x) {
  if (sexp_fixnump(x)) {
    long long v = sexp_unbox_fixnum(x);
    if (v < 0) printf("f-%llx", (unsigned long long)(-v)); else printf("f%llx", (unsigned long long)v);
    return;
  }
  if (sexp_exceptionp(x)) { printf("ERR exception"); return; }
  if (x == SEXP_TRUE) { printf("1"); return; }
  if (x == SEXP_FALSE) { printf("0"); return; }
  if (!sexp_bignump(x)) { printf("ERR not-a-number"); return; }
  printf("b%s:", sexp_bignum_sign(x) < 0 ? "-1" : "1");
  sexp_uint_t n = sexp_bignum_length(x);
  if (n == 0) printf("_");
  for (sexp_uint_t i = 0; i < n; i++) printf("%s%lx", i ? "," : "", (unsigned long)sexp_bignum_data(x)[i]);
}

static int same(sexp a, sexp b) {       /* bit-identical numbers */
  if (sexp_fixnump(a) || sexp_fixnump(b)) return a == b;
  if (sexp_bignum_sign(a) != sexp_bignum_sign(b) || sexp_bignum_length(a) != sexp_bignum_length(b)) return 0;
  return !memcmp(sexp_bignum_data(a), sexp_bignum_data(b), sexp_bignum_length(a) * sizeof(sexp_uint_t));
}

int main(int argc, char **argv) {
  static char line[400000], copy[400000];
  if (argc < 2) { fprintf(stderr, "usage: embed_c17 <path to srfi/151/bit.so>\n"); return 2; }
  void *h = dlopen(argv[1], RTLD_NOW | RTLD_GLOBAL);
  if (!h) { fprintf(stderr, "dlopen: %s\n", dlerror()); return 2; }
  fn2 f_and = (fn2)dlsym(h, "sexp_bit_and"), f_ior = (fn2)dlsym(h, "sexp_bit_ior"), f_xor = (fn2)dlsym(h, "sexp_bit_xor"),
      f_shift = (fn2)dlsym(h, "sexp_arithmetic_shift"), f_set = (fn2)dlsym(h, "sexp_bit_set_p");
  fn1 f_count = (fn1)dlsym(h, "sexp_bit_count"), f_len = (fn1)dlsym(h, "sexp_integer_length");
  if (!f_and || !f_ior || !f_xor || !f_shift || !f_set || !f_count || !f_len) { fprintf(stderr, "dlsym failed\n"); return 2; }
  sexp_scheme_init();
  sexp ctx = sexp_make_eval_context(NULL, NULL, NULL, 0, 0);
  sexp_gc_var5(a, b, r, a0, b0);
  sexp_gc_preserve5(ctx, a, b, r, a0, b0);
  while (fgets(line, sizeof line, stdin)) {
    char *f[4]; int nf = 0;
    strcpy(copy, line);
    char *tok = strtok(copy, " \n");
    while (tok && nf < 4) { f[nf++] = tok; tok = strtok(NULL, " \n"); }
    if (nf == 0) { printf("\n"); continue; }
    a = b = r = a0 = b0 = SEXP_VOID;
    int binop = (!strcmp(f[0], "and") || !strcmp(f[0], "ior") || !strcmp(f[0], "xor"));
    if (binop && nf == 3) {
      a = mknum(ctx, f[1]); b = mknum(ctx, f[2]); a0 = mknum(ctx, f[1]); b0 = mknum(ctx, f[2]);
      fn2 fn = f[0][0] == 'a' ? f_and : f[0][0] == 'i' ? f_ior : f_xor;
      r = fn(ctx, SEXP_FALSE, 2, a, b);
      prnum(r);
      if (!same(a, a0) || !same(b, b0)) printf(" OPERAND-MUTATED");
    } else if (!strcmp(f[0], "shift") && nf == 3) {
      a = mknum(ctx, f[1]); a0 = mknum(ctx, f[1]);
      r = f_shift(ctx, SEXP_FALSE, 2, a, sexp_make_fixnum(parse_shex(f[2])));
      prnum(r);
      if (r != a && !same(a, a0)) printf(" OPERAND-MUTATED");
    } else if (!strcmp(f[0], "count") && nf == 2) {
      a = mknum(ctx, f[1]); r = f_count(ctx, SEXP_FALSE, 1, a); prnum(r);
    } else if (!strcmp(f[0], "length") && nf == 2) {
      a = mknum(ctx, f[1]); r = f_len(ctx, SEXP_FALSE, 1, a); prnum(r);
    } else if (!strcmp(f[0], "bitset") && nf == 3) {
      a = mknum(ctx, f[2]); r = f_set(ctx, SEXP_FALSE, 2, sexp_make_fixnum(parse_shex(f[1])), a); prnum(r);
    } else {
      printf("ERR unknown request");
    }
    printf("\n");
  }
  sexp_gc_release5(ctx);
  sexp_destroy_context(ctx);
  return 0;
}
