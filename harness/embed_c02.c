/* Inner correspondence for C02: raw heap dumps around collections made of the real
   sexp_mark / sexp_reset_weak_references / sexp_finalize / sexp_sweep (the body of sexp_gc, gc.c:776-823),
   triggered from Scheme by (verif-gc) at any depth of the running VM.

   usage: embed_c02 <workload.scm> <dump file> [probe]
     probe: print the type table of a fresh context (used by gen/c02_layout.py) and exit.

   dump records (hex unless noted):
     T <num_types dec> <SEXP_CONTEXT tag dec> <gc# dec>
     t <tag dec> <field_base> <field_eq_len_base> <field_len_base> <field_len_off> <field_len_scale>
                 <size_base> <size_off> <size_scale> <weak_base> <weak_len_base> <weak_len_off>
                 <weak_len_scale> <weak_len_extra>     (all dec, as the C integer types hold them)
     R <root address>
     O <addr> <tag dec> <marked dec> <slot base word index dec> <num_slots dec, as the C macro computes it, signed>
       <alloc size dec> <nwords dec> <w0> <w1> ... [| <save> ...]
         words are the raw 8-byte words of the chunk; in word 0 the mark byte is masked out; for
         contexts the words of the inline mark stack and its pointer are printed as 0 (the mark
         stack is separate state in the model) and the registered C locals follow the '|'
     M <addr> ...      the marked objects after sexp_mark(ctx, ctx)
     E pre|post        end of a heap dump
*/
#include <chibi/eval.h>
#include <stdio.h>
#include <stdlib.h>
#include <string.h>
#include <stddef.h>

int sexp_reset_weak_references(sexp ctx);
sexp_uint_t sexp_allocated_bytes (sexp ctx, sexp x);

static FILE *out;
static unsigned long ngc = 0;
static sexp_uint_t mark_mask;

static void dump_types (sexp ctx) {
  int i, n = sexp_context_num_types(ctx);
  fprintf(out, "T %d %d %lu\n", n, (int)SEXP_CONTEXT, ngc);
  for (i = 0; i < n; i++) {
    sexp t = sexp_type_by_index(ctx, i);
    if (!t || !sexp_pointerp(t) || !sexp_typep(t)) { fprintf(out, "t %d -\n", i); continue; }
    fprintf(out, "t %d %ld %ld %ld %ld %ld %ld %ld %ld %ld %ld %ld %ld %ld\n", i,
            (long)sexp_type_field_base(t), (long)sexp_type_field_eq_len_base(t), (long)sexp_type_field_len_base(t),
            (long)sexp_type_field_len_off(t), (long)sexp_type_field_len_scale(t),
            (long)sexp_type_size_base(t), (long)sexp_type_size_off(t), (long)sexp_type_size_scale(t),
            (long)sexp_type_weak_base(t), (long)sexp_type_weak_len_base(t), (long)sexp_type_weak_len_off(t),
            (long)sexp_type_weak_len_scale(t), (long)sexp_type_weak_len_extra(t));
  }
}

/* walk every chunk of every heap exactly as sexp_sweep does */
#define WALK(ctx, p, size, BODY) do { \
  sexp_heap h_; sexp end_; sexp_free_list q_, r_; \
  for (h_ = sexp_context_heap(ctx); h_; h_ = h_->next) { \
    p = sexp_heap_first_block(h_); q_ = h_->free_list; end_ = sexp_heap_end(h_); \
    while (p < end_) { \
      for (r_ = q_->next; r_ && ((char*)r_ < (char*)p); q_ = r_, r_ = r_->next) ; \
      if ((char*)r_ == (char*)p) { p = (sexp) (((char*)p) + r_->size); continue; } \
      size = sexp_heap_align(sexp_allocated_bytes(ctx, p)); \
      if (size == 0) { fprintf(out, "X zero-size object\n"); break; } \
      BODY \
      p = (sexp) (((char*)p) + size); \
    } } } while (0)

static void dump_heap (sexp ctx, const char *phase) {
  sexp p, t; size_t size, i, nw; struct sexp_gc_var_t *saves;
  size_t ms_lo = offsetof(struct sexp_struct, value.context.mark_stack) / sizeof(sexp);
  size_t ms_hi = (offsetof(struct sexp_struct, value.context.mark_stack_ptr) + sizeof(void*)) / sizeof(sexp);
  dump_types(ctx);
  fprintf(out, "R %lx\n", (unsigned long)ctx);
  WALK(ctx, p, size, {
    t = sexp_object_type(ctx, p);
    nw = size / sizeof(sexp);
    fprintf(out, "O %lx %d %d %ld %ld %lu %lu", (unsigned long)p, (int)sexp_pointer_tag(p), (int)sexp_markedp(p),
            (long)(sexp_type_field_base(t) / (long)sizeof(sexp)), (long)(sexp_sint_t)sexp_type_num_slots_of_object(t, p),
            (unsigned long)size, (unsigned long)nw);
    for (i = 0; i < nw; i++) {
      sexp_uint_t w = ((sexp_uint_t*)p)[i];
      if (i == 0) w &= mark_mask;
      if (sexp_contextp(p) && i >= ms_lo && i < ms_hi) w = 0;
      fprintf(out, " %lx", (unsigned long)w);
    }
    if (sexp_contextp(p)) {
      fprintf(out, " |");
      for (saves = sexp_context_saves(p); saves; saves = saves->next)
        if (saves->var) fprintf(out, " %lx", (unsigned long)*(saves->var));
    }
    fprintf(out, "\n");
  });
  fprintf(out, "E %s\n", phase);
}

static void dump_marks (sexp ctx) {
  sexp p; size_t size;
  fprintf(out, "M");
  WALK(ctx, p, size, { if (sexp_markedp(p)) fprintf(out, " %lx", (unsigned long)p); });
  fprintf(out, "\n");
}

/* the body of sexp_gc (gc.c:793-804) with dumps in between */
static sexp verif_gc (sexp ctx, sexp self, sexp_sint_t n) {
  dump_heap(ctx, "pre");
  sexp_mark(ctx, ctx);
  dump_marks(ctx);
  sexp_reset_weak_references(ctx);
  sexp_finalize(ctx);
  sexp_sweep(ctx, NULL);
  dump_heap(ctx, "post");
  fflush(out);
  ngc++;
  return sexp_make_fixnum(ngc);
}

int main (int argc, char **argv) {
  sexp ctx, res;
  struct sexp_struct probe;
  if (argc < 3) { fprintf(stderr, "usage: embed_c02 <workload.scm> <dump file> [probe]\n"); return 2; }
  memset(&probe, 0, sizeof probe);
  sexp_markedp(&probe) = (char)0xFF;
  mark_mask = ~(((sexp_uint_t*)&probe)[0]);
  out = fopen(argv[2], "w");
  if (!out) { perror(argv[2]); return 2; }
  sexp_scheme_init();
  ctx = sexp_make_eval_context(NULL, NULL, NULL, 0, 0);
  if (argc > 3 && !strcmp(argv[3], "probe")) {
    fprintf(out, "K num_core_types %d\nK context_tag %d\nK mark_mask %lx\nK sizeof_sexp %d\nK heap_align_1 %d\n",
            (int)SEXP_NUM_CORE_TYPES, (int)SEXP_CONTEXT, (unsigned long)mark_mask, (int)sizeof(sexp), (int)sexp_heap_align(1));
    dump_types(ctx);
    fclose(out);
    return 0;
  }
  {
    sexp_gc_var2(path, env);
    sexp_gc_preserve2(ctx, path, env);
    if (!getenv("C02_NO_BOOT_GC")) verif_gc(ctx, NULL, 0);     /* the heap of a fresh context (core types, opcodes, primitive env) */
    sexp_load_standard_env(ctx, NULL, SEXP_SEVEN);
    sexp_load_standard_ports(ctx, NULL, stdin, stdout, stderr, 1);
    env = sexp_context_env(ctx);
    if (!getenv("C02_NO_BOOT_GC")) verif_gc(ctx, NULL, 0);     /* ... and after the standard environment is loaded */
    sexp_define_foreign(ctx, env, "verif-gc", 0, verif_gc);
    path = sexp_c_string(ctx, argv[1], -1);
    res = sexp_load(ctx, path, NULL);
    if (sexp_exceptionp(res)) {
      sexp_print_exception(ctx, res, sexp_current_error_port(ctx));
      fclose(out);
      return 3;
    }
    sexp_gc_release2(ctx);
  }
  fflush(stdout);
  fclose(out);
  return 0;
}
