/* Inner correspondence for C02: raw heap dumps around collections made of the real
   sexp_mark / sexp_reset_weak_references / sexp_finalize / sexp_sweep (the body of sexp_gc, gc.c:776-823),
   triggered from Scheme by (verif-gc) at any depth of the running VM.

   usage: embed_c02 <workload.scm> <dump file> [probe | gcmacros]
     probe: print the type table of a fresh context (used by gen/c02_layout.py) and exit.
     gcmacros: for K = 1..7 use sexp_gc_var<K> / sexp_gc_preserve<K> / sexp_gc_release<K> as compiled from the tree's
       sexp.h around a real sexp_gc and print on stdout, per arity,
         G <K> chain=<i,...> intact=<K digits> release=<0|1>
       (preceded by  I <K> init=<K digits>: digit i is 1 when the i-th variable holds SEXP_VOID right after sexp_gc_var<K>)
       chain = the context's saves list as the marker walks it (gc.c:264-267) after preserve<K>: 1-based position of the
       registered variable among the K arguments (-1: some other variable), 0 = reached the list the caller had, ? = ended
       in NULL / longer than 64 records without reaching it; intact: digit i is 1 when the fresh object held only by the
       i-th variable is still the same string after the collection and 3000 further allocations; release: the saves list
       is the caller's again after release<K>.  Compared by props/C02.py with the extracted model run on the table
       regenerated from the same header (coq/C02/GcMacros.v, macro_report).

   dump records (hex unless noted):
     T <num_types dec> <SEXP_CONTEXT tag dec> <gc# dec>
     t <tag dec> <field_base> <field_eq_len_base> <field_len_base> <field_len_off> <field_len_scale>
                 <size_base> <size_off> <size_scale> <weak_base> <weak_len_base> <weak_len_off>
                 <weak_len_scale> <weak_len_extra>     (all dec, as the C integer types hold them)
     R <root address>
     O <addr> <tag dec> <marked dec> <slot base word index dec> <num_slots dec, as the C macro computes it, signed>
       <alloc size dec> <nwords dec> <w0> <w1> ... [| <save> ...]
         words are the raw 8-byte words of the chunk; in word 0 the mark byte is masked out; for
         contexts the words of the inline mark stack and its pointer are printed as 0 (the mark
         stack is separate state in the model) and the registered C locals follow the '|'
     M <addr> ...      the marked objects after sexp_mark(ctx, ctx)
     E pre|post        end of a heap dump
*/
#include <chibi/eval.h>
#include <stdio.h>
#include <stdlib.h>
#include <string.h>
#include <stddef.h>

int sexp_reset_weak_references(sexp ctx);
sexp_uint_t sexp_allocated_bytes (sexp ctx, sexp x);

static FILE *out;
static unsigned long ngc = 0;
static sexp_uint_t mark_mask;

static void dump_types (sexp ctx) {
  int i, n = sexp_context_num_types(ctx);
  fprintf(out, "T %d %d %lu\n", n, (int)SEXP_CONTEXT, ngc);
  for (i = 0; i < n; i++) {
    sexp t = sexp_type_by_index(ctx, i);
    if (!t || !sexp_pointerp(t) || !sexp_typep(t)) { fprintf(out, "t %d -\n", i); continue; }
    fprintf(out, "t %d %ld %ld %ld %ld %ld %ld %ld %ld %ld %ld %ld %ld %ld\n", i,
            (long)sexp_type_field_base(t), (long)sexp_type_field_eq_len_base(t), (long)sexp_type_field_len_base(t),
            (long)sexp_type_field_len_off(t), (long)sexp_type_field_len_scale(t),
            (long)sexp_type_size_base(t), (long)sexp_type_size_off(t), (long)sexp_type_size_scale(t),
            (long)sexp_type_weak_base(t), (long)sexp_type_weak_len_base(t), (long)sexp_type_weak_len_off(t),
            (long)sexp_type_weak_len_scale(t), (long)sexp_type_weak_len_extra(t));
  }
}

/* walk every chunk of every heap exactly as sexp_sweep does */
#define WALK(ctx, p, size, BODY) do { \
  sexp_heap h_; sexp end_; sexp_free_list q_, r_; \
  for (h_ = sexp_context_heap(ctx); h_; h_ = h_->next) { \
    p = sexp_heap_first_block(h_); q_ = h_->free_list; end_ = sexp_heap_end(h_); \
    while (p < end_) { \
      for (r_ = q_->next; r_ && ((char*)r_ < (char*)p); q_ = r_, r_ = r_->next) ; \
      if ((char*)r_ == (char*)p) { p = (sexp) (((char*)p) + r_->size); continue; } \
      size = sexp_heap_align(sexp_allocated_bytes(ctx, p)); \
      if (size == 0) { fprintf(out, "X zero-size object\n"); break; } \
      BODY \
      p = (sexp) (((char*)p) + size); \
    } } } while (0)

static void dump_heap (sexp ctx, const char *phase) {
  sexp p, t; size_t size, i, nw; struct sexp_gc_var_t *saves;
  size_t ms_lo = offsetof(struct sexp_struct, value.context.mark_stack) / sizeof(sexp);
  size_t ms_hi = (offsetof(struct sexp_struct, value.context.mark_stack_ptr) + sizeof(void*)) / sizeof(sexp);
  dump_types(ctx);
  fprintf(out, "R %lx\n", (unsigned long)ctx);
  WALK(ctx, p, size, {
    t = sexp_object_type(ctx, p);
    nw = size / sizeof(sexp);
    fprintf(out, "O %lx %d %d %ld %ld %lu %lu", (unsigned long)p, (int)sexp_pointer_tag(p), (int)sexp_markedp(p),
            (long)(sexp_type_field_base(t) / (long)sizeof(sexp)), (long)(sexp_sint_t)sexp_type_num_slots_of_object(t, p),
            (unsigned long)size, (unsigned long)nw);
    for (i = 0; i < nw; i++) {
      sexp_uint_t w = ((sexp_uint_t*)p)[i];
      if (i == 0) w &= mark_mask;
      if (sexp_contextp(p) && i >= ms_lo && i < ms_hi) w = 0;
      fprintf(out, " %lx", (unsigned long)w);
    }
    if (sexp_contextp(p)) {
      fprintf(out, " |");
      for (saves = sexp_context_saves(p); saves; saves = saves->next)
        if (saves->var) fprintf(out, " %lx", (unsigned long)*(saves->var));
    }
    fprintf(out, "\n");
  });
  fprintf(out, "E %s\n", phase);
}

static void dump_marks (sexp ctx) {
  sexp p; size_t size;
  fprintf(out, "M");
  WALK(ctx, p, size, { if (sexp_markedp(p)) fprintf(out, " %lx", (unsigned long)p); });
  fprintf(out, "\n");
}

/* the body of sexp_gc (gc.c:793-804) with dumps in between */
static sexp verif_gc (sexp ctx, sexp self, sexp_sint_t n) {
  dump_heap(ctx, "pre");
  sexp_mark(ctx, ctx);
  dump_marks(ctx);
  sexp_reset_weak_references(ctx);
  sexp_finalize(ctx);
  sexp_sweep(ctx, NULL);
  dump_heap(ctx, "post");
  fflush(out);
  ngc++;
  return sexp_make_fixnum(ngc);
}

/* ---- mode gcmacros: the compiled macro families around a real collection ---- */
static sexp gcm_fresh (sexp ctx, int k, int i) {
  char buf[64];
  snprintf(buf, sizeof buf, "gcm-%d-%d-abcdefghijklmnopqrstuvwxyz", k, i);
  return sexp_c_string(ctx, buf, -1);
}
static int gcm_in_free_chunk (sexp ctx, sexp x) {        /* is the address inside a chunk of a free list (= swept)? */
  sexp_heap h; sexp_free_list q;
  for (h = sexp_context_heap(ctx); h; h = h->next)
    for (q = h->free_list->next; q; q = q->next)
      if ((char*)x >= (char*)q && (char*)x < (char*)q + q->size) return 1;
  return 0;
}
static int gcm_intact (sexp ctx, sexp x, int k, int i) {
  char buf[64];
  if (x && sexp_pointerp(x) && gcm_in_free_chunk(ctx, x)) return 0;
  snprintf(buf, sizeof buf, "gcm-%d-%d-abcdefghijklmnopqrstuvwxyz", k, i);
  return x && sexp_pointerp(x) && sexp_stringp(x) && sexp_string_size(x) == strlen(buf) && !strncmp(sexp_string_data(x), buf, strlen(buf));
}
static void gcm_churn (sexp ctx, int n) {
  int i; sexp_gc_var1(junk); sexp_gc_preserve1(ctx, junk);
  junk = SEXP_NULL;
  for (i = 0; i < n; i++) junk = (i % 50 == 0) ? SEXP_NULL : sexp_cons(ctx, sexp_make_fixnum(i), junk);
  sexp_gc_release1(ctx);
}
static void gcm_report (sexp ctx, int k, sexp **v, struct sexp_gc_var_t *before) {
  struct sexp_gc_var_t *s; int i, n = 0;
  printf("G %d chain=", k);
  for (s = sexp_context_saves(ctx); s && s != before && n < 64; s = s->next, n++) {
    int idx = -1;
    for (i = 0; i < k; i++) if (s->var == v[i]) idx = i + 1;
    if (s->var) printf("%d,", idx);
  }
  printf("%s", (s == before && n < 64) ? "0" : "?");
}
/* leave pointer-like junk in the stack area the next frame will use: a gc var that sexp_gc_var<K> does not initialise
   then holds something the marker would follow */
static void __attribute__((noinline)) gcm_dirty_stack (void) {
  volatile sexp a[192]; int i;
  for (i = 0; i < 192; i++) a[i] = (sexp)0x4141414141414140UL;
  (void)a[7];
}
#define GCM_TEST(K, DECL, PRES, REL, ...) \
static void __attribute__((noinline)) gcm_test##K (sexp ctx) { \
  struct sexp_gc_var_t *before = sexp_context_saves(ctx); int i, ok[8]; \
  DECL \
  sexp *v[] = { __VA_ARGS__ }; \
  printf("I %d init=", K); \
  for (i = 0; i < K; i++) printf("%d", *v[i] == SEXP_VOID); \
  printf("\n"); \
  PRES; \
  for (i = 0; i < K; i++) { gcm_churn(ctx, 7 * i + 3); *v[i] = gcm_fresh(ctx, K, i); } \
  gcm_report(ctx, K, v, before); \
  sexp_gc(ctx, NULL); \
  for (i = 0; i < K; i++) ok[i] = gcm_intact(ctx, *v[i], K, i); \
  gcm_churn(ctx, 3000); \
  printf(" intact="); \
  for (i = 0; i < K; i++) printf("%d", ok[i] && gcm_intact(ctx, *v[i], K, i)); \
  REL; \
  printf(" release=%d\n", sexp_context_saves(ctx) == before); \
}
GCM_TEST(1, sexp_gc_var1(a), sexp_gc_preserve1(ctx, a), sexp_gc_release1(ctx), &a)
GCM_TEST(2, sexp_gc_var2(a, b), sexp_gc_preserve2(ctx, a, b), sexp_gc_release2(ctx), &a, &b)
GCM_TEST(3, sexp_gc_var3(a, b, c), sexp_gc_preserve3(ctx, a, b, c), sexp_gc_release3(ctx), &a, &b, &c)
GCM_TEST(4, sexp_gc_var4(a, b, c, d), sexp_gc_preserve4(ctx, a, b, c, d), sexp_gc_release4(ctx), &a, &b, &c, &d)
GCM_TEST(5, sexp_gc_var5(a, b, c, d, e), sexp_gc_preserve5(ctx, a, b, c, d, e), sexp_gc_release5(ctx), &a, &b, &c, &d, &e)
GCM_TEST(6, sexp_gc_var6(a, b, c, d, e, f), sexp_gc_preserve6(ctx, a, b, c, d, e, f), sexp_gc_release6(ctx), &a, &b, &c, &d, &e, &f)
GCM_TEST(7, sexp_gc_var7(a, b, c, d, e, f, g), sexp_gc_preserve7(ctx, a, b, c, d, e, f, g), sexp_gc_release7(ctx), &a, &b, &c, &d, &e, &f, &g)

/* ---- sexp_preserve_object / sexp_release_object (gc.c:116-129), the other half of the preservation interface ----
   argv[4] = sequences separated by ';', each a list of p<id> / r<id> (ids 1..9) separated by ','; every sequence starts from an
   empty preservatives list; prints  P <sequence> list=<ids on the list, head first>  per sequence, then
   Q intact=<3 digits> after=<3 digits> list=<n>: three fresh strings held ONLY through the preservatives list survive a collection;
   after releasing the middle one and collecting again it is swept (0) and the other two are intact. */
static void gcm_preservatives (sexp ctx, const char *seqs) {
  int i, id; const char *s = seqs; sexp ls; sexp a, b, c; int r1[3], r2[3];
  sexp_gc_var2(objs, saved);
  sexp_gc_preserve2(ctx, objs, saved);
  saved = sexp_global(ctx, SEXP_G_PRESERVATIVES);
  objs = sexp_make_vector(ctx, sexp_make_fixnum(10), SEXP_FALSE);
  for (i = 0; i < 10; i++) sexp_vector_set(objs, sexp_make_fixnum(i), gcm_fresh(ctx, 100, i));
  while (s && *s) {
    const char *e = strchr(s, ';'); size_t n = e ? (size_t)(e - s) : strlen(s); size_t k;
    sexp_global(ctx, SEXP_G_PRESERVATIVES) = SEXP_NULL;
    printf("P %.*s list=", (int)n, s);
    for (k = 0; k + 1 < n; ) {
      char op = s[k]; id = s[k + 1] - '0';
      if (id >= 0 && id <= 9) {
        if (op == 'p') sexp_preserve_object(ctx, sexp_vector_ref(objs, sexp_make_fixnum(id)));
        else if (op == 'r') sexp_release_object(ctx, sexp_vector_ref(objs, sexp_make_fixnum(id)));
      }
      k += 2; if (k < n && s[k] == ',') k++;
    }
    for (ls = sexp_global(ctx, SEXP_G_PRESERVATIVES), i = 0; sexp_pairp(ls) && i < 64; ls = sexp_cdr(ls), i++) {
      for (id = 0; id < 10; id++) if (sexp_car(ls) == sexp_vector_ref(objs, sexp_make_fixnum(id))) break;
      printf("%s%d", i ? "," : "", id < 10 ? id : -1);
    }
    printf("%s\n", (ls == SEXP_NULL) ? "" : ",?");
    s = e ? e + 1 : NULL;
  }
  sexp_global(ctx, SEXP_G_PRESERVATIVES) = SEXP_NULL;
  a = gcm_fresh(ctx, 200, 1); sexp_preserve_object(ctx, a);
  b = gcm_fresh(ctx, 200, 2); sexp_preserve_object(ctx, b);
  c = gcm_fresh(ctx, 200, 3); sexp_preserve_object(ctx, c);
  sexp_gc(ctx, NULL);
  r1[0] = gcm_intact(ctx, a, 200, 1); r1[1] = gcm_intact(ctx, b, 200, 2); r1[2] = gcm_intact(ctx, c, 200, 3);
  sexp_release_object(ctx, b);
  sexp_gc(ctx, NULL);
  r2[0] = gcm_intact(ctx, a, 200, 1); r2[1] = !gcm_in_free_chunk(ctx, b); r2[2] = gcm_intact(ctx, c, 200, 3);
  printf("Q intact=%d%d%d after=%d%d%d list=%d\n", r1[0], r1[1], r1[2], r2[0], r2[1], r2[2], (int)sexp_unbox_fixnum(sexp_length(ctx, sexp_global(ctx, SEXP_G_PRESERVATIVES))));
  sexp_global(ctx, SEXP_G_PRESERVATIVES) = saved;
  sexp_gc_release2(ctx);
}

int main (int argc, char **argv) {
  sexp ctx, res;
  struct sexp_struct probe;
  if (argc < 3) { fprintf(stderr, "usage: embed_c02 <workload.scm> <dump file> [probe]\n"); return 2; }
  memset(&probe, 0, sizeof probe);
  sexp_markedp(&probe) = (char)0xFF;
  mark_mask = ~(((sexp_uint_t*)&probe)[0]);
  out = fopen(argv[2], "w");
  if (!out) { perror(argv[2]); return 2; }
  sexp_scheme_init();
  ctx = sexp_make_eval_context(NULL, NULL, NULL, 0, 0);
  if (argc > 3 && !strcmp(argv[3], "probe")) {
    fprintf(out, "K num_core_types %d\nK context_tag %d\nK mark_mask %lx\nK sizeof_sexp %d\nK heap_align_1 %d\n",
            (int)SEXP_NUM_CORE_TYPES, (int)SEXP_CONTEXT, (unsigned long)mark_mask, (int)sizeof(sexp), (int)sexp_heap_align(1));
    dump_types(ctx);
    fclose(out);
    return 0;
  }
  if (argc > 3 && !strcmp(argv[3], "gcmacros")) {
    /* nested inside a frame that has its own registered local, so that "the caller's list" is not NULL */
    sexp_gc_var1(outer);
    sexp_gc_preserve1(ctx, outer);
    setvbuf(stdout, NULL, _IONBF, 0);      /* the lines printed before a crash must survive it */
    outer = gcm_fresh(ctx, 0, 0);
    gcm_dirty_stack(); gcm_test1(ctx); gcm_dirty_stack(); gcm_test2(ctx); gcm_dirty_stack(); gcm_test3(ctx); gcm_dirty_stack(); gcm_test4(ctx);
    gcm_dirty_stack(); gcm_test5(ctx); gcm_dirty_stack(); gcm_test6(ctx); gcm_dirty_stack(); gcm_test7(ctx);
    printf("G 0 outer=%d\n", gcm_intact(ctx, outer, 0, 0));
    if (argc > 4) gcm_preservatives(ctx, argv[4]);
    sexp_gc_release1(ctx);
    fflush(stdout);
    fclose(out);
    return 0;
  }
  {
    sexp_gc_var2(path, env);
    sexp_gc_preserve2(ctx, path, env);
    if (!getenv("C02_NO_BOOT_GC")) verif_gc(ctx, NULL, 0);     /* the heap of a fresh context (core types, opcodes, primitive env) */
    sexp_load_standard_env(ctx, NULL, SEXP_SEVEN);
    sexp_load_standard_ports(ctx, NULL, stdin, stdout, stderr, 1);
    env = sexp_context_env(ctx);
    if (!getenv("C02_NO_BOOT_GC")) verif_gc(ctx, NULL, 0);     /* ... and after the standard environment is loaded */
    sexp_define_foreign(ctx, env, "verif-gc", 0, verif_gc);
    path = sexp_c_string(ctx, argv[1], -1);
    res = sexp_load(ctx, path, NULL);
    if (sexp_exceptionp(res)) {
      sexp_print_exception(ctx, res, sexp_current_error_port(ctx));
      fclose(out);
      return 3;
    }
    sexp_gc_release2(ctx);
  }
  fflush(stdout);
  fclose(out);
  return 0;
}
