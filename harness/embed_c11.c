/* C11 outer/inner correspondence harness: loads a Scheme file once, then runs one expression per
   request line under its own schedule, so thousands of schedules cost one start-up.
   request (tab separated):  <CHIBI_VERIF_SCHED or -> \t <CHIBI_VERIF_SCHED_CLOCK or -> \t <trace file or -> \t <expr>
   answer: one line, the written value of <expr> ("EXC <message>" for an exception).
   usage: embed_c11 <file.scm> [seconds per request]   (SIGALRM kills a hanging request) */
#include <chibi/eval.h>
#include <stdio.h>
#include <string.h>
#include <stdlib.h>
#include <unistd.h>

extern void sexp_verif_sched_reset (void);

static void set_or_unset (const char *name, const char *val) {
  if (val && strcmp(val, "-") != 0) setenv(name, val, 1); else unsetenv(name);
}

int main (int argc, char **argv) {
  static char line[1 << 20];
  char *f[4], *p;
  int i, limit = (argc > 2) ? atoi(argv[2]) : 10;
  sexp ctx, env, str;
  sexp_gc_var1(res);     /* the eval result is reachable from nothing else while it is written */
  sexp_scheme_init();
  ctx = sexp_make_eval_context(NULL, NULL, NULL, 0, 0);
  sexp_gc_preserve1(ctx, res);   /* never released: the context lives until exit */
  sexp_load_standard_env(ctx, NULL, SEXP_SEVEN);
  sexp_load_standard_ports(ctx, NULL, stdin, stdout, stderr, 1);
  env = sexp_context_env(ctx);
  res = sexp_eval_string(ctx, "(import (chibi) (srfi 18) (srfi 39))", -1, env);
  if (sexp_exceptionp(res)) { sexp_print_exception(ctx, res, sexp_current_error_port(ctx)); return 2; }
  env = sexp_context_env(ctx);
  if (argc > 1) {
    sexp_gc_var1(path);
    sexp_gc_preserve1(ctx, path);
    path = sexp_c_string(ctx, argv[1], -1);
    res = sexp_load(ctx, path, NULL);
    if (sexp_exceptionp(res)) { sexp_print_exception(ctx, res, sexp_current_error_port(ctx)); return 2; }
    sexp_gc_release1(ctx);
  }
  while (fgets(line, sizeof(line), stdin)) {
    line[strcspn(line, "\n")] = 0;
    for (i = 0, p = line; i < 4; i++) {
      f[i] = p;
      if (i < 3) { p = strchr(p, '\t'); if (!p) break; *p++ = 0; }
    }
    if (i < 4) { printf("ERR bad request\n"); fflush(stdout); continue; }
    set_or_unset("CHIBI_VERIF_SCHED", f[0]);
    set_or_unset("CHIBI_VERIF_SCHED_CLOCK", f[1]);
    set_or_unset("CHIBI_VERIF_SCHED_TRACE", f[2]);
    sexp_verif_sched_reset();
    alarm(limit);
    res = sexp_eval_string(ctx, f[3], -1, sexp_context_env(ctx));
    alarm(0);
    unsetenv("CHIBI_VERIF_SCHED");
    sexp_verif_sched_reset();     /* closes the trace */
#if SEXP_USE_GREEN_THREADS
    /* threads a request leaves behind (blocked for ever by design, or lost by a broken scheduler) must not
       leak into the next request: empty the scheduler's lists and reset the root thread's wait fields */
    sexp_global(ctx, SEXP_G_THREADS_FRONT) = SEXP_NULL;
    sexp_global(ctx, SEXP_G_THREADS_BACK) = SEXP_NULL;
    sexp_global(ctx, SEXP_G_THREADS_PAUSED) = SEXP_NULL;
    sexp_context_waitp(ctx) = 0;
    sexp_context_timeoutp(ctx) = 0;
    sexp_context_event(ctx) = SEXP_FALSE;
    sexp_context_timeval(ctx).tv_sec = 0;
    sexp_context_timeval(ctx).tv_usec = 0;
#endif
    if (sexp_exceptionp(res)) {
      printf("EXC ");
      str = sexp_exception_message(res);
      if (sexp_stringp(str)) printf("%s", sexp_string_data(str));
      printf("\n");
    } else {
      str = sexp_write_to_string(ctx, res);
      printf("%s\n", sexp_stringp(str) ? sexp_string_data(str) : "?");
    }
    fflush(stdout);
  }
  sexp_destroy_context(ctx);
  return 0;
}
