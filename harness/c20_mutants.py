"""C20 level-2 validation: apply hand-made breaking changes to lib/chibi/regexp.scm of a scratch worktree, one at a time,
run ./check C20 on it and print the verdict and the first failing case per signature; the file is restored afterwards.
usage:  python3 harness/c20_mutants.py [name ...]        (environment: WT = worktree with the C20 fix patches applied,
        default /tmp/wt-C20; VERIF_SCRATCH default /var/tmp/verif-C20).  Expected: rc 1 for every mutant."""
import subprocess, sys, json, glob, os, shutil
WT=os.environ.get('WT','/tmp/wt-C20')
F=WT+'/lib/chibi/regexp.scm'
MUTS={
 'M5b-submatch-end-first-wins': ("""            (regexp-match-set! matches index i))))))
      ;; Follow transitions.""","""            (regexp-match-set! matches index
                               (if (and (> index 1) (odd? index) (regexp-match-ref matches index))
                                   (regexp-match-ref matches index)
                                   i)))))))
      ;; Follow transitions."""),
 'M13-eos-ignores-end-argument': ("""(define (match/eos str i ch start end matches)
  (string-cursor>=? i end))""","""(define (match/eos str i ch start end matches)
  (string-cursor>=? i (string-cursor-end str)))"""),
 'M9-split-piece-ends-at-match-end': ("""                   (cons (substring str (car a) i) (cdr a))))))
     (cons start '())""","""                   (cons (substring str (car a) j) (cdr a))))))
     (cons start '())"""),
 'M12-fold-always-steps': ("""               (lp (if (and (string-cursor=? i j) (string-cursor<? j end))""","""               (lp (if (string-cursor<? j end)"""),
 'M1-prefer-shorter': ("""                             (string-cursor>?
                              (regexp-match-ref m2 (+ i 1))
                              (regexp-match-ref m1 (+ i 1)))""","""                             (string-cursor<?
                              (regexp-match-ref m2 (+ i 1))
                              (regexp-match-ref m1 (+ i 1)))"""),
 'M2-rep-off-by-one': ("""              (if (>= i to)
                  (reverse (cons `(? ,sre) res))""","""              (if (> i to)
                  (reverse (cons `(? ,sre) res))"""),
 'M3-bol-looks-at-current-char': ("""      (eqv? #\\newline (string-cursor-ref str (string-cursor-prev str i)))))
(define (match/eol""","""      (and (string-cursor<? i end) (eqv? #\\newline (string-cursor-ref str i)))))
(define (match/eol"""),
 'M4-nocase-downcase-only': ("""     (char-set-adjoin! (char-set-adjoin! res (char-upcase ch))
                       (char-downcase ch)))""","""     (char-set-adjoin! (char-set-adjoin! res ch)
                       (char-downcase ch)))"""),
 'M8-search-stops-early': ("""                      (string-cursor>? (searcher-start-match searcher)
                                       accept-start))""","""                      (string-cursor>=? (searcher-start-match searcher)
                                        accept-start))"""),
}
which = sys.argv[1:] or list(MUTS)
orig=open(F).read()
env=dict(os.environ, VERIF_REPO=WT, VERIF_SCRATCH=os.environ.get('VERIF_SCRATCH','/var/tmp/verif-C20'))
for name in which:
    a,b=MUTS[name]
    assert orig.count(a)==1, name
    open(F,'w').write(orig.replace(a,b))
    try:
        r=subprocess.run(['./check','C20'],cwd=os.path.dirname(os.path.dirname(os.path.abspath(__file__))),env=env,capture_output=True,text=True,timeout=1500)
        print('==',name,'rc',r.returncode, r.stdout.strip().split('\n')[-1])
        for f in sorted(glob.glob(os.path.join(os.path.dirname(os.path.dirname(os.path.abspath(__file__))),'evidence','replay','C20-*.json'))):
            j=json.load(open(f))
            if 'signature' in j:
                c=j['failing_cases'][0]
                print('    ',j['signature'], j['count'], c['input'].get('sre'), c['input'].get('string'), 'obs', c['observed'], 'exp', c['expected'])
            else:
                print('    UNPROVED', [u['name'] for u in j['no_longer_checks']][:5])
    finally:
        open(F,'w').write(orig)
    sys.stdout.flush()
