"""C20 level-2 validation: apply hand-made breaking changes to lib/chibi/regexp.scm of a scratch worktree, one at a time,
run ./check C20 on it and print the verdict and the first failing case per signature; the file is restored afterwards.
usage:  python3 harness/c20_mutants.py [name ...]        (environment: WT = worktree with the C20 fix patches applied,
        default /tmp/wt-C20; VERIF_SCRATCH default /var/tmp/verif-C20; evidence goes to $VERIF_SCRATCH/evidence, never to
        /verif/evidence).  Expected: rc 1 for every mutant.
   R* = regression of change classes written by others and caught; E* = round-3 changes aimed at the engine."""
import subprocess, sys, json, glob, os, shutil
WT=os.environ.get('WT','/tmp/wt-C20')
F=WT+'/lib/chibi/regexp.scm'
MUTS={
 'M5b-submatch-end-first-wins': ("""            (regexp-match-set! matches index i))))))
      ;; Follow transitions.""","""            (regexp-match-set! matches index
                               (if (and (> index 1) (odd? index) (regexp-match-ref matches index))
                                   (regexp-match-ref matches index)
                                   i)))))))
      ;; Follow transitions."""),
 'M13-eos-ignores-end-argument': ("""(define (match/eos str i ch start end matches)
  (string-cursor>=? i end))""","""(define (match/eos str i ch start end matches)
  (string-cursor>=? i (string-cursor-end str)))"""),
 'M9-split-piece-ends-at-match-end': ("""                   (cons (substring str (car a) i) (cdr a))))))
     (cons start '())""","""                   (cons (substring str (car a) j) (cdr a))))))
     (cons start '())"""),
 'M12-fold-always-steps': ("""               (lp (if (and (string-cursor=? i j) (string-cursor<? j end))""","""               (lp (if (string-cursor<? j end)"""),
 'M1-prefer-shorter': ("""                             (string-cursor>?
                              (regexp-match-ref m2 (+ i 1))
                              (regexp-match-ref m1 (+ i 1)))""","""                             (string-cursor<?
                              (regexp-match-ref m2 (+ i 1))
                              (regexp-match-ref m1 (+ i 1)))"""),
 'M2-rep-off-by-one': ("""              (if (>= i to)
                  (reverse (cons `(? ,sre) res))""","""              (if (> i to)
                  (reverse (cons `(? ,sre) res))"""),
 'M3-bol-looks-at-current-char': ("""      (eqv? #\\newline (string-cursor-ref str (string-cursor-prev str i)))))
(define (match/eol""","""      (and (string-cursor<? i end) (eqv? #\\newline (string-cursor-ref str i)))))
(define (match/eol"""),
 'M4-nocase-downcase-only': ("""     (char-set-adjoin! (char-set-adjoin! res (char-upcase ch))
                       (char-downcase ch)))""","""     (char-set-adjoin! (char-set-adjoin! res ch)
                       (char-downcase ch)))"""),
 'M8-search-stops-early': ("""                      (string-cursor>? (searcher-start-match searcher)
                                       accept-start))""","""                      (string-cursor>=? (searcher-start-match searcher)
                                        accept-start))"""),
 'R1-or-right-to-left': ("""           (let* ((n1 (->rx (cadr sre) flags next))
                  (n2 (->rx (cons 'or (cddr sre)) flags next)))
             (make-fork-state n1 n2 (next-id))))))""","""           (let* ((n2 (->rx (cons 'or (cddr sre)) flags next))
                  (n1 (->rx (cadr sre) flags next)))
             (make-fork-state n1 n2 (next-id))))))"""),
 'R2-strip-submatches-first-element-only': ("""        (($ submatch) (strip-submatches (cons ': (cdr sre))))""","""        (($ submatch) (strip-submatches (list ': (cadr sre))))"""),
 'E1-star-prefers-skipping': ("""                (n1 (make-fork-state (->rx (cons 'seq (cdr sre)) flags n2)
                                     n2 (next-id))))
           (state-next2-set! n2 n1)
           n1))
        ((+ one-or-more)""","""                (body (->rx (cons 'seq (cdr sre)) flags n2))
                (n1 (make-fork-state n2 body (next-id))))
           (state-next2-set! n2 n1)
           n1))
        ((+ one-or-more)"""),
 'E3-no-start-searcher-at-end-of-string': ("""       ((or search? (and init? (string-cursor=? i from)))
        (posse-advance! searchers1""","""       ((or (and search? (string-cursor<? i end)) (and init? (string-cursor=? i from)))
        (posse-advance! searchers1"""),
 'E5-merge-first-arrival-wins': ("""  (let ((m (regexp-match-max (searcher-matches sr1) (searcher-matches sr2))))
    (if (not (eq? m (searcher-matches sr1)))""","""  (let ((m (searcher-matches sr1)))
    (if (not (eq? m (searcher-matches sr1)))"""),
 'E9-epsilons-not-cleared-between-searchers': ("""               (posse-advance! searchers2 epsilons state sr str i2 start end
                               (not search?))
               (posse-clear! epsilons))))""","""               (posse-advance! searchers2 epsilons state sr str i2 start end
                               (not search?)))))"""),
 'E10-plus-loops-to-second-state': ("""                (n1 (->rx (cons 'seq (cdr sre)) flags n2)))
           (state-next2-set! n2 n1)
           n1))""","""                (n1 (->rx (cons 'seq (cdr sre)) flags n2)))
           (state-next2-set! n2 (or (and n1 (not (state-chars n1)) (not (state-match n1)) (state-next1 n1)) n1))
           n1))"""),
 # the accepted unspecified corner (C20-b3): difference / intersection under w/nocase fold the RESULT instead of the operands (the same for
 # complement would fold a 1.1 M character set per regexp and never finish).  Expected rc 0:
 # the check must not compare exactly the cases on which the two readings differ (and only those).
 'U1-set-algebra-under-nocase-folds-result': ("""            ((& and) (apply char-set-intersection (map ->cs (cdr sre))))
            ((|\\|| or) (apply char-set-union (map ->cs (cdr sre))))
            ((~ complement) (char-set-complement (->cs `(or ,@(cdr sre)))))
            ((- difference) (char-set-difference (->cs (cadr sre))
                                                 (->cs `(or ,@(cddr sre)))))""","""            ((& and) (maybe-ci (apply char-set-intersection (map (lambda (x) (sre->char-set x (flag-clear flags ~ci?))) (cdr sre)))))
            ((|\\|| or) (apply char-set-union (map ->cs (cdr sre))))
            ((~ complement) (char-set-complement (->cs `(or ,@(cdr sre)))))
            ((- difference) (maybe-ci (char-set-difference (sre->char-set (cadr sre) (flag-clear flags ~ci?))
                                                 (sre->char-set `(or ,@(cddr sre)) (flag-clear flags ~ci?)))))"""),
 # ---- round 4: char-set construction (lib/chibi/iset/constructors.scm) and the PCRE front end; third element = file relative to WT
 'C1-merge-left-looks-at-left-child-only': ("""           (> (iset-start b) (iset-max-end (iset-left a))))))""","""           (> (iset-start b) (iset-end (iset-left a))))))""", 'lib/chibi/iset/constructors.scm'),
 'C3-pcre-brace-binds-to-literal-run': ("""             (let ((res (collect/single)))
               (cond
                ((null? res)
                 (error "{ can't follow empty pattern"))""","""             (let ((res (collect)))
               (cond
                ((null? res)
                 (error "{ can't follow empty pattern"))""", 'lib/chibi/regexp/pcre.scm'),
 'I1-merge-right-looks-at-right-child-only': ("""           (< (iset-end b) (iset-min-start (iset-right a))))))""","""           (< (iset-end b) (iset-start (iset-right a))))))""", 'lib/chibi/iset/constructors.scm'),
 'I2-merge-left-gap-of-one-without-bitmap': ("""(define (iset-merge-left! a b)
  (if (or (iset-bits a) (iset-bits b)
          (< (+ 1 (iset-end b)) (iset-start a)))""","""(define (iset-merge-left! a b)
  (if (or (iset-bits a) (iset-bits b)
          (< (+ 2 (iset-end b)) (iset-start a)))""", 'lib/chibi/iset/constructors.scm'),
 'I3-split-right-piece-starts-one-late': ("""             (iset-node-extract node (+ end 1) (iset-end node)))))""","""             (iset-node-extract node (+ end 2) (iset-end node)))))""", 'lib/chibi/iset/constructors.scm'),
 'I4-intersection-drops-rest-of-a-node': ("""        (lp (if a-right (cons a-right (cdr nodes-a)) (cdr nodes-a))
            (if b-right (cons b-right (cdr nodes-b)) (cdr nodes-b))
            (cons a res)))))))""","""        (lp (cdr nodes-a)
            (if b-right (cons b-right (cdr nodes-b)) (cdr nodes-b))
            (cons a res)))))))""", 'lib/chibi/iset/constructors.scm'),
 'I5-node-extract-mask-one-short': ("""                  (arithmetic-shift node-bits (- (iset-start node) start))
                  (range->bits start end)))""","""                  (arithmetic-shift node-bits (- (iset-start node) start))
                  (range->bits start (max start (- end 1)))))""", 'lib/chibi/iset/constructors.scm'),
}
which = sys.argv[1:] or list(MUTS)
SCR=os.environ.get('VERIF_SCRATCH','/var/tmp/verif-C20')
EVD=os.path.join(SCR,'evidence')
env=dict(os.environ, VERIF_REPO=WT, VERIF_SCRATCH=SCR, VERIF_EVIDENCE_DIR=EVD)
env.setdefault('VERIF_SEED','1')
REGEXP_SCM=F
for name in which:
    a,b=MUTS[name][:2]
    F=os.path.join(WT,MUTS[name][2]) if len(MUTS[name])>2 else REGEXP_SCM
    orig=open(F).read()
    assert orig.count(a)==1, name
    open(F,'w').write(orig.replace(a,b))
    try:
        for f in glob.glob(os.path.join(EVD,'replay','C20-*.json')):
            os.unlink(f)
        r=subprocess.run(['./check','C20','--tier','quick'],cwd=os.path.dirname(os.path.dirname(os.path.abspath(__file__))),env=env,capture_output=True,text=True,timeout=1500)
        print('==',name,'rc',r.returncode, r.stdout.strip().split('\n')[-1])
        for f in sorted(glob.glob(os.path.join(EVD,'replay','C20-*.json')))[:12]:
            j=json.load(open(f))
            if 'signature' in j:
                c=j['failing_cases'][0]
                print('    ',j['signature'], j['count'], c['input'].get('sre'), c['input'].get('string'), 'obs', c['observed'], 'exp', c['expected'])
            else:
                print('    UNPROVED', [(u['name'], u.get('reason','')[:300]) for u in j['no_longer_checks']][:3])
    finally:
        open(F,'w').write(orig)
    sys.stdout.flush()
