"""C17 extra coverage (called from props/C17.py's run(ctx)):

   wrappers(ctx, d, exe, rng, lat)   K-outer of the libraries that WRAP (srfi 151) with their own argument conventions,
        (srfi 33) and (srfi 142), and of the list / vector / higher-order / n-ary forms of (srfi 151) that outer() does
        not compare.  Oracle = python integer semantics written from the SRFI 33 / 142 / 151 texts (never the
        implementation).  Integer results must be canonical (fixnum iff the value fits).
   errors(ctx, rng)                  type-error / range-error behaviour of the seven C entry points of lib/srfi/151/bit.c
        under the ASan build: a value or a Scheme error, never a crash / sanitizer report / hang; a value that comes back
        for exact integer arguments must be the mathematically right one.

   Everything runs in subprocesses with a timeout and a memory cap; temporary files live under vlib.build.SCRATCH."""
import os, resource, subprocess, tempfile
from vlib import build as B, scm

FIXMAX = (1 << 62) - 1
FIXMIN = -(1 << 62)
BOUNDS = [0, 1, 2, 61, 62, 63, 64, 65, 66, 126, 127, 128, 129, 130, 191, 192, 193, 200, 256, 257]
SIZES = [0, 1, 2, 3, 61, 62, 63, 64, 65, 127, 128, 129]

# errors(): also provoke an allocation failure inside bit-and / bit-ior / bit-xor / arithmetic-shift (see there)
OOM_CASES = True


# ------------------------------------------------------------------------------------------------ small helpers
def fits(v):
    return FIXMIN <= v <= FIXMAX


def cls(v):
    return ("n" if v < 0 else "p") + ("f" if fits(v) else "b")


def zhex(z):
    return ("-%x" % -z) if z < 0 else ("%x" % z)


def lit(v):
    if isinstance(v, bool):
        return "#t" if v else "#f"
    return scm.hexlit(v)


def show(v):
    """the canonical text vlib.scm's verif-show prints for the expected value v
    (bool, int, list of bool = Scheme list, tuple of bool = Scheme vector)"""
    if isinstance(v, bool):
        return "#t" if v else "#f"
    if isinstance(v, int):
        return ("f" if fits(v) else "b") + zhex(v)
    if isinstance(v, list):
        return "(" + " ".join(show(x) for x in v) + ")"
    if isinstance(v, tuple):
        return "#(" + " ".join(show(x) for x in v) + ")"
    raise TypeError(v)


def agree(want, got):
    """-> (ok, why)"""
    if got is None:
        return False, "no output"
    if got == "SKIPPED":
        return True, ""
    if got.startswith(("ERR", "CRASH", "TIMEOUT")):
        return False, "error where a value is defined"
    if got == show(want):
        return True, ""
    if isinstance(want, int) and not isinstance(want, bool):
        p = scm.parse_int(got)
        if p is not None and p[1] == want:
            return False, "not canonical (fixnum iff it fits)"
    return False, "value"


def mask(n):
    return (1 << n) - 1


def ilen(v):
    return (v if v >= 0 else ~v).bit_length()


def popcount(v):
    return bin(v if v >= 0 else ~v).count("1")


def fsb(v):
    return -1 if v == 0 else (v & -v).bit_length() - 1


def bits_of(v, n):
    return [bool((v >> k) & 1) for k in range(n)]


def of_bits(bs):
    return sum(1 << k for k, b in enumerate(bs) if b)


# ------------------------------------------------------------------------------------------------ the batch runner
def _limit(mem_mb):
    def f():
        if mem_mb:
            resource.setrlimit(resource.RLIMIT_AS, (mem_mb << 20, mem_mb << 20))
        resource.setrlimit(resource.RLIMIT_CORE, (0, 0))
    return f


# chibi's stdout is block-buffered on a pipe: without the flush a dying process loses the answers of the cases before
# the fatal one and the crash would be blamed on an innocent earlier case
FLUSHING_CASE = "(define-syntax c17-case (syntax-rules () ((_ n expr) (begin (verif-case n expr) (flush-output-port)))))"


def run_batch(d, exprs, imports, prelude_extra="", env=None, mem_mb=None, timeout=180, chunk=500, max_deaths=6):
    """like vlib.scm.run_cases (one result string per expression: the written value, 'ERR msg', 'CRASH rc=.. stderr',
    'TIMEOUT'), plus an address-space cap for the child (mem_mb; NOT usable with ASan, see errors()) and the stderr of a
    dying process kept in the CRASH text."""
    res = [None] * len(exprs)
    os.makedirs(B.SCRATCH, exist_ok=True)
    deaths = [0]        # after max_deaths dead / hung processes the rest is 'SKIPPED' (each hang costs a full timeout)

    def run_range(lo, hi):
        if deaths[0] >= max_deaths:
            for i in range(lo, hi):
                res[i] = "SKIPPED"
            return
        body = [scm.PRELUDE, imports, prelude_extra, FLUSHING_CASE]
        for i in range(lo, hi):
            body.append("(c17-case %d %s)" % (i, exprs[i]))
        body.append('(write-string "DONE")(newline)')
        with tempfile.NamedTemporaryFile("w", suffix=".scm", prefix="c17x-", dir=B.SCRATCH, delete=False) as fh:
            fh.write("\n".join(body))
            path = fh.name
        try:
            try:
                r = subprocess.run([os.path.join(d, "chibi-scheme"), path], capture_output=True, text=True, timeout=timeout,
                                   env=B.chibi_env(d, env), preexec_fn=_limit(mem_mb), errors="replace")
                out, rc, err = r.stdout, r.returncode, r.stderr
            except subprocess.TimeoutExpired as e:
                out = e.stdout.decode(errors="replace") if isinstance(e.stdout, bytes) else (e.stdout or "")
                rc, err = "TIMEOUT", ""
        finally:
            os.unlink(path)
        done, last = False, lo - 1
        for line in out.split("\n"):
            if line == "DONE":
                done = True
                continue
            sp = line.find(" ")
            if sp > 0 and line[:sp].isdigit() and lo <= int(line[:sp]) < hi:
                i = int(line[:sp])
                res[i] = line[sp + 1:]
                last = max(last, i)
            elif line and last >= lo and res[last] is not None and not done:
                res[last] += "\n" + line
        if not done:
            bad = last + 1
            deaths[0] += 1
            if bad < hi:
                res[bad] = "TIMEOUT" if rc == "TIMEOUT" else "CRASH rc=%s %s" % (rc, " | ".join((err or "").strip().split("\n")[:12])[:1500])
                if bad + 1 < hi:
                    run_range(bad + 1, hi)

    for lo in range(0, len(exprs), chunk):
        run_range(lo, min(len(exprs), lo + chunk))
    return res


# ------------------------------------------------------------------------------------------------ (A) wrappers
class Cases:
    def __init__(self, lib):
        self.lib, self.rows = lib, []
        self.neg_fold = []      # bitwise-fold / bitwise-for-each over a NEGATIVE integer: run apart (see wrappers)

    def add(self, name, expr, want, ints, tag=None):
        """name = exported name (+ '/variant'); ints = the integer operands (for the class and the non-trivial rule);
        tag replaces the operand classes in the signature when given"""
        self.rows.append((name, expr, want, tuple(ints), tag))


def _pick(rng, lat, other=None):
    if other is not None and rng.random() < 0.2:
        return rng.choice([other, -other, ~other, other + 1, other - 1, -other - 1])
    return rng.choice(lat)


def _field(rng):
    pos = rng.choice(BOUNDS + [rng.randrange(0, 260)])
    size = rng.choice(SIZES + [rng.randrange(0, 140)])
    return size, pos


NARY = {"bitwise-and": (-1, lambda a, b: a & b), "bitwise-ior": (0, lambda a, b: a | b), "bitwise-xor": (0, lambda a, b: a ^ b),
        # SRFI 33 / 142 / 151: n-ary eqv = left fold of the binary (associative) eqv from its identity -1
        "bitwise-eqv": (-1, lambda a, b: ~(a ^ b))}
BINARY = {"bitwise-nand": lambda a, b: ~(a & b), "bitwise-nor": lambda a, b: ~(a | b), "bitwise-andc1": lambda a, b: ~a & b,
          "bitwise-andc2": lambda a, b: a & ~b, "bitwise-orc1": lambda a, b: ~a | b, "bitwise-orc2": lambda a, b: a | ~b}


def _gen_nary(c, rng, lat, name=None, k=None):
    name = name or rng.choice(sorted(NARY))
    k = rng.choice([0, 1, 2, 3, 4, 5]) if k is None else k
    ident, op = NARY[name]
    args, prev, want = [], None, ident
    for _ in range(k):
        prev = _pick(rng, lat, prev)
        args.append(prev)
        want = op(want, prev)
    c.add(name + "/nary", "(%s)" % " ".join([name] + [lit(a) for a in args]), want, args, tag=str(k))


def _gen_common(c, rng, lat):
    """names that (srfi 33), (srfi 142) and (srfi 151) share with one meaning"""
    r = rng.random()
    a = _pick(rng, lat)
    b = _pick(rng, lat, a)
    if r < 0.25:
        _gen_nary(c, rng, lat)
    elif r < 0.5:
        name = rng.choice(sorted(BINARY))
        c.add(name, "(%s %s %s)" % (name, lit(a), lit(b)), BINARY[name](a, b), [a, b])
    elif r < 0.6:
        c.add("bitwise-not", "(bitwise-not %s)" % lit(a), ~a, [a])
    elif r < 0.7:
        L = ilen(a)
        n = rng.choice([1, 2, 62, 63, 64, 65, 127, 128, 129, max(1, L - 1), max(1, L), L + 1, rng.randrange(1, 300)])
        n = n if rng.random() < 0.4 else -n
        c.add("arithmetic-shift", "(arithmetic-shift %s %d)" % (lit(a), n), (a << n) if n >= 0 else (a >> -n), [a])
    elif r < 0.78:
        c.add("bit-count", "(bit-count %s)" % lit(a), popcount(a), [a])
    elif r < 0.86:
        c.add("integer-length", "(integer-length %s)" % lit(a), ilen(a), [a])
    elif r < 0.93:
        # SRFI 33: "first-set-bit i: index of the first (smallest index) 1 bit; -1 if i is zero"
        a = rng.choice([a, a << rng.choice([1, 61, 62, 63, 64, 65, 128]), 0])
        c.add("first-set-bit", "(first-set-bit %s)" % lit(a), fsb(a), [a])
    else:
        i = rng.choice(BOUNDS + [rng.randrange(0, 300)])
        c.add("bit-set?", "(bit-set? %d %s)" % (i, lit(a)), bool((a >> i) & 1), [a])


def _gen33(c, rng, lat):
    r = rng.random()
    if r < 0.22:
        return _gen_common(c, rng, lat)
    a = _pick(rng, lat)
    b = _pick(rng, lat, a)
    size, pos = _field(rng)
    fm = mask(size) << pos
    if r < 0.32:
        # SRFI 33: bitwise-merge mask i0 i1 -- bit k of the result is bit k of i0 where bit k of mask is 0, else of i1
        m = _pick(rng, lat, a)
        c.add("bitwise-merge", "(bitwise-merge %s %s %s)" % (lit(m), lit(a), lit(b)), (~m & a) | (m & b), [m, a, b])
    elif r < 0.38:
        c.add("any-bits-set?", "(any-bits-set? %s %s)" % (lit(a), lit(b)), (a & b) != 0, [a, b])
    elif r < 0.44:
        t = rng.choice([a, a & b, b & mask(rng.choice(BOUNDS))])
        c.add("all-bits-set?", "(all-bits-set? %s %s)" % (lit(t), lit(b)), (t & b) == t, [t, b])
    elif r < 0.56:
        # SRFI 33: "size and position specify the field: the size bits from bit position to bit position+size-1"
        c.add("extract-bit-field", "(extract-bit-field %d %d %s)" % (size, pos, lit(a)), (a >> pos) & mask(size), [a])
    elif r < 0.67:
        c.add("test-bit-field?", "(test-bit-field? %d %d %s)" % (size, pos, lit(a)), ((a >> pos) & mask(size)) != 0, [a])
    elif r < 0.78:
        c.add("clear-bit-field", "(clear-bit-field %d %d %s)" % (size, pos, lit(a)), a & ~fm, [a])
    elif r < 0.9:
        if rng.random() < 0.8:
            nf = rng.choice([b & mask(size), mask(size), 0, rng.getrandbits(size) if size else 0])
            c.add("replace-bit-field", "(replace-bit-field %d %d %s %s)" % (size, pos, lit(nf), lit(a)), (a & ~fm) | (nf << pos), [nf, a])
        else:
            # a new-field wider than size (or negative): SRFI 33's reference text masks it,
            # (bitwise-ior (bitwise-and n (bitwise-not m)) (bitwise-and (arithmetic-shift newfield position) m))
            nf = rng.choice([b, -1, mask(size + 1), 1 << size, -(1 << size) - 1])
            c.add("replace-bit-field/wide-newfield", "(replace-bit-field %d %d %s %s)" % (size, pos, lit(nf), lit(a)),
                  (a & ~fm) | ((nf << pos) & fm), [nf, a])
    else:
        # copy-bit-field size position from to: the field of `to` replaced by the same field of `from`
        c.add("copy-bit-field", "(copy-bit-field %d %d %s %s)" % (size, pos, lit(a), lit(b)), (b & ~fm) | (a & fm), [a, b])


def _blist(bs):
    return "(list %s)" % " ".join(lit(x) for x in bs) if bs else "'()"


def _bvec(bs):
    return "(vector %s)" % " ".join(lit(x) for x in bs)


def _gen_conv(c, rng, lat, names):
    """bits->list & co. under the names of the library (names = dict generic -> exported)"""
    r = rng.random()
    a = _pick(rng, lat)
    if r < 0.3:
        fn = rng.choice(["bits->list", "bits->vector"])
        wrap = (lambda bs: bs) if fn == "bits->list" else tuple
        if rng.random() < 0.4:
            a = abs(a)      # SRFI 151: without a length, the bits of the non-negative i up to its integer-length
            c.add(names[fn], "(%s %s)" % (names[fn], lit(a)), wrap(bits_of(a, ilen(a))), [a])
        else:
            L = ilen(a)
            n = rng.choice([0, 1, 62, 63, 64, 65, 128, max(0, L - 1), L, L + 1, L + 64, L + 70, rng.randrange(0, 330)])
            c.add(names[fn] + "/len", "(%s %s %d)" % (names[fn], lit(a), n), wrap(bits_of(a, n)), [a])
    elif r < 0.6:
        n = rng.choice([0, 1, 2, 61, 62, 63, 64, 65, 66, 127, 128, 129, rng.randrange(0, 270)])
        bs = bits_of(rng.choice([abs(a), rng.getrandbits(n) if n else 0, mask(n), (1 << n) >> 1]), n)
        fn = rng.choice(["list->bits", "vector->bits", "bits"])
        e = {"list->bits": "(%s %s)" % (names[fn], _blist(bs)), "vector->bits": "(%s %s)" % (names[fn], _bvec(bs)),
             "bits": "(%s)" % " ".join([names[fn]] + [lit(x) for x in bs])}[fn]
        c.add(names[fn], e, of_bits(bs), [of_bits(bs)], tag="len%s/%s" % (("%d" % n) if n < 3 else "62-" if n < 63 else "63+", cls(of_bits(bs))))
    else:
        _gen_higher(c, rng, lat, a)


def _gen_higher(c, rng, lat, a):
    r = rng.random()
    bs = bits_of(a, ilen(a))
    if r < 0.55:
        # bitwise-fold proc seed i: (proc b r) for each bit b of i from bit 0 to bit (integer-length i) exclusive, negative
        # i included (-6 = ...11010 has the three bits #f #t #f); bitwise-for-each proc i: the same bits in the same order
        if r < 0.2:
            row = ("bitwise-fold/cons", "(bitwise-fold cons '() %s)" % lit(a), bs[::-1], (a,), None)
        elif r < 0.3:
            want = 0
            for b in bs:
                want = 2 * want + (1 if b else 0)
            row = ("bitwise-fold/reverse", "(bitwise-fold (lambda (b acc) (+ (* 2 acc) (if b 1 0))) 0 %s)" % lit(a), want, (a,), None)
        elif r < 0.35:
            row = ("bitwise-fold/count", "(bitwise-fold (lambda (b acc) (if b (+ acc 1) acc)) 0 %s)" % lit(a), sum(bs), (a,), None)
        else:
            row = ("bitwise-for-each", "(let ((l '())) (bitwise-for-each (lambda (b) (set! l (cons b l))) %s) (reverse l))" % lit(a), bs, (a,), None)
        (c.neg_fold if a < 0 else c.rows).append(row)
    elif r < 0.75:
        # bitwise-unfold stop? mapper successor seed: bit 0 first, a true mapper value is a 1 bit
        n = rng.choice([0, 1, 61, 62, 63, 64, 65, 128, ilen(a), ilen(a) + 1, ilen(a) + 5, rng.randrange(0, 300)])
        if rng.random() < 0.5:
            bs = bits_of(a, n)
            # "interpreting a true value as a 1 bit": half of the time the mapper answers the index (0 included) for a 1 bit
            mapper = rng.choice(["(vector-ref v i)", "(and (vector-ref v i) i)"])
            c.add("bitwise-unfold/vector", "(let ((v %s)) (bitwise-unfold (lambda (i) (= i %d)) (lambda (i) %s) (lambda (i) (+ i 1)) 0))" % (_bvec(bs), n, mapper),
                  a & mask(n), [a & mask(n)])
        else:
            c.add("bitwise-unfold/shift", "(bitwise-unfold (lambda (s) (= (car s) %d)) (lambda (s) (odd? (cdr s))) (lambda (s) (cons (+ (car s) 1) (quotient (- (cdr s) (modulo (cdr s) 2)) 2))) (cons 0 %s))" % (n, lit(a)),
                  a & mask(n), [a])
    else:
        # make-bitwise-generator i: "generates all the bits of i starting with bit 0 ... the generator is infinite":
        # beyond the integer-length it yields the sign bit for ever
        k = rng.choice([0, 1, 63, 64, 65, ilen(a), ilen(a) + 1, ilen(a) + 64, ilen(a) + 70, rng.randrange(0, 330)])
        c.add("make-bitwise-generator", "(let ((g (make-bitwise-generator %s))) (let lp ((k 0) (acc '())) (if (= k %d) (reverse acc) (lp (+ k 1) (cons (g) acc)))))" % (lit(a), k),
              bits_of(a, k), [a])


N151 = {"bits->list": "bits->list", "bits->vector": "bits->vector", "list->bits": "list->bits", "vector->bits": "vector->bits", "bits": "bits"}
N142 = {"bits->list": "integer->list", "bits->vector": "integer->vector", "list->bits": "list->integer", "vector->bits": "vector->integer", "bits": "bits"}


def _gen151(c, rng, lat):
    if rng.random() < 0.3:
        # the n-ary forms with 0..5 arguments (eqv twice as often: the complement of the n-ary xor is NOT the n-ary eqv)
        _gen_nary(c, rng, lat, name=rng.choice(["bitwise-eqv", "bitwise-eqv", "bitwise-and", "bitwise-ior", "bitwise-xor"]))
    else:
        _gen_conv(c, rng, lat, N151)


def _gen142(c, rng, lat):
    r = rng.random()
    a = _pick(rng, lat)
    b = _pick(rng, lat, a)
    s = rng.choice(BOUNDS)
    e = s + rng.choice([0, 1, 2, 62, 63, 64, 65, 127, 128, 129, rng.randrange(0, 140)])
    fm = mask(e - s) << s
    if r < 0.25:
        # SRFI 142 keeps SRFI 33's order (SRFI 151: "bitwise-if has the argument ordering of SLIB, SRFI 60 and R6RS rather
        # than the ordering of SRFI 33"): bit k of the result is bit k of i where bit k of mask is 0, else of j
        m = _pick(rng, lat, a)
        c.add("bitwise-if", "(bitwise-if %s %s %s)" % (lit(m), lit(a), lit(b)), (~m & a) | (m & b), [m, a, b])
    elif r < 0.6:
        _gen_conv(c, rng, lat, N142)
    elif r < 0.75:
        _gen_common(c, rng, lat)
    else:
        # a sample of the re-exported field operations (argument order n start end, as in SRFI 151)
        k = rng.randrange(9)
        if k == 0:
            c.add("bit-field", "(bit-field %s %d %d)" % (lit(a), s, e), (a >> s) & mask(e - s), [a])
        elif k == 1:
            c.add("bit-field-any?", "(bit-field-any? %s %d %d)" % (lit(a), s, e), ((a >> s) & mask(e - s)) != 0, [a])
        elif k == 2:
            c.add("bit-field-every?", "(bit-field-every? %s %d %d)" % (lit(a), s, e), ((a >> s) & mask(e - s)) == mask(e - s), [a])
        elif k == 3:
            c.add("bit-field-clear", "(bit-field-clear %s %d %d)" % (lit(a), s, e), a & ~fm, [a])
        elif k == 4:
            c.add("bit-field-set", "(bit-field-set %s %d %d)" % (lit(a), s, e), a | fm, [a])
        elif k == 5:
            c.add("bit-field-replace", "(bit-field-replace %s %s %d %d)" % (lit(a), lit(b), s, e), (a & ~fm) | ((b << s) & fm), [a, b])
        elif k == 6:
            c.add("bit-field-replace-same", "(bit-field-replace-same %s %s %d %d)" % (lit(a), lit(b), s, e), (a & ~fm) | (b & fm), [a, b])
        elif k == 7:
            bit = rng.random() < 0.5
            c.add("copy-bit", "(copy-bit %d %s %s)" % (s, lit(a), lit(bit)), (a | (1 << s)) if bit else (a & ~(1 << s)), [a])
        else:
            c.add("any/every-bit-set?", "(list (any-bit-set? %s %s) (every-bit-set? %s %s))" % (lit(a), lit(b), lit(a), lit(b)),
                  [(a & b) != 0, (a & b) == a], [a, b])


def wrappers(ctx, d, exe, rng, lat):
    """K-outer of (srfi 33), (srfi 142) and the list / vector / higher-order / n-ary forms of (srfi 151);
    python oracle from the SRFI texts.  exe (the extracted model driver) is not needed here."""
    n = 40000 if ctx.thorough else 2000
    libs = [("srfi33", "(import (srfi 33))", _gen33, int(n * 0.4)),
            ("srfi142", "(import (srfi 142))", _gen142, int(n * 0.2)),
            ("srfi151", "(import (srfi 151))", _gen151, int(n * 0.4))]
    first = True
    for lib, imports, gen, k in libs:
        c = Cases(lib)
        # fixed regression rows first: every arity of every n-ary operation on small and on bignum operands
        for name in sorted(NARY):
            for argc in range(6):
                _gen_nary(c, rng, [3, 5, -6, 9, (1 << 64) + 3, -(1 << 65) - 1], name=name, k=argc)
                _gen_nary(c, rng, lat, name=name, k=argc)
        while len(c.rows) < k:
            gen(c, rng, lat)
        if c.neg_fold:
            c.rows += _fold_negative(ctx, d, lib, imports, c.neg_fold)
        exprs = [row[1] for row in c.rows]
        # 1 GB of address space is plenty for 300-bit operands; it turns an accidental (arithmetic-shift 1 <operand>)
        # -- e.g. a wrapper that passes its arguments in the wrong order -- into "out of memory" instead of gigabytes
        got = run_batch(d, exprs, imports, mem_mb=1024, timeout=120, chunk=500)
        libname = "(srfi %s)" % lib[4:]
        for (name, e, want, ints, tag), g in zip(c.rows, got):
            ctx.count(1, key=(lib, e), nontrivial=any(z < 0 or not fits(z) for z in ints))
            ok, why = agree(want, g)
            if not ok:
                classes = tag if tag is not None else "/".join(cls(z) for z in ints[:4])
                ctx.violation("%s:%s:%s" % (lib, name, classes), input=e, expected=show(want), observed=(g or "")[:400], why=why,
                              replay="echo '(import (scheme base) (scheme write) %s) (write %s)' | chibi-scheme /dev/stdin" % (libname, e))
        if first and c.rows:
            j = len(c.rows) // 2
            ctx.sample(dict(kind="wrappers", lib=libname, expr=c.rows[j][1][:300], oracle=show(c.rows[j][2])[:300], impl=(got[j] or "")[:300]))
            first = False


_fold_ok = {}


def _fold_negative(ctx, d, lib, imports, rows):
    """the pinned bitwise.scm loops `until i = 0`, which a negative i never reaches (it conses for ever): ONE call per
    procedure is tried first in its own process (3 s, 512 MB); only when it comes back are the negative rows returned to
    be run with the others.  A probe that hangs / dies is the violation <lib>:<proc>:negative-nontermination."""
    probes = {"bitwise-fold": ("(bitwise-fold cons '() -6)", [False, True, False]),
              "bitwise-for-each": ("(let ((l '())) (bitwise-for-each (lambda (b) (set! l (cons b l))) #x-10000000000000000) (length l))", 64)}
    keep = []
    for proc, (e, want) in probes.items():
        if (d, lib, proc) not in _fold_ok:
            g = run_batch(d, [e], imports, mem_mb=512, timeout=3)[0]
            ctx.count(1, key=(lib, e), nontrivial=True)
            ok, why = agree(want, g)
            dead = g is None or g.startswith(("TIMEOUT", "CRASH")) or "memory" in g
            _fold_ok[(d, lib, proc)] = not dead
            if not ok:
                ctx.violation("%s:%s:%s" % (lib, proc, "negative-nontermination" if dead else "negative"), input=e, expected=show(want),
                              observed=(g or "")[:300], why="SRFI 151: each bit of i from bit 0 to (integer-length i) exclusive" + (
                                  "; no answer within 3 s / 512 MB" if dead else "; " + why),
                              replay="echo '(import (scheme base) (scheme write) (srfi %s)) (write %s)' | (ulimit -v 524288; timeout 5 chibi-scheme /dev/stdin)" % (lib[4:], e))
        if _fold_ok[(d, lib, proc)]:
            keep += [r for r in rows if r[0].split("/")[0] == proc]
    return keep


# ------------------------------------------------------------------------------------------------ (B) errors
HOSTILE = [("bool", "#f"), ("string", '"x"'), ("symbol", "'a"), ("flonum", "1.5"), ("ratio", "1/2"), ("inf", "+inf.0"), ("nan", "+nan.0"),
           ("null", "'()"), ("char", "#\\a"), ("vector", "(vector 1 2)"), ("flonum-integer", "4.0"), ("flonum-integer", "-4.0"),
           ("flonum-integer", "1e30"), ("complex", "(make-rectangular 1 2)"), ("bool", "#t"), ("eof", "(eof-object)")]
PARTNERS = [5, -5, 0, -1, FIXMAX, FIXMIN, (1 << 100) + 1, -(1 << 100) - 1, 1 << 64, -(1 << 64), (1 << 62), FIXMIN - 1]
SHIFT_VALUES = [0, 1, -1, 5, -5, FIXMAX, FIXMIN, 1 << 62, FIXMIN - 1, (1 << 64) - 1, -(1 << 64), 1 << 100, -(1 << 100) - 1,
                (1 << 200) + 12345, -(1 << 200) - 12345, -(1 << 128), (1 << 63), -(1 << 63)]
SHIFT_COUNTS = [-61, -62, -63, -64, -65, -127, -128, -129, -1000, -(1 << 31), -(1 << 32), -(1 << 61), FIXMIN + 1, FIXMIN,
                FIXMIN - 1, -(1 << 63), -(1 << 64), -(1 << 70), 1 << 70, 1 << 62, 1 << 63, 1 << 64, (1 << 64) + 5]
INDEXES = [0, 1, 61, 62, 63, 64, 65, 127, 128, 129, 199, 200, 201, 1 << 31, 1 << 32, 1 << 61, FIXMAX, 1 << 62, 1 << 70,
           -1, -64, FIXMIN, -(1 << 70)]
BITSET_VALUES = SHIFT_VALUES + [-2, -(1 << 63) - 1, -(1 << 64) + 1, -(1 << 128) + 1, (1 << 128) - 1, -(1 << 127)]
# ASan cannot run under `ulimit -v` / RLIMIT_AS (it reserves ~14 TB of shadow address space at start-up and aborts with
# "ReserveShadowMemoryRange failed ... Perhaps you're using ulimit -v"), so for the ASan build the refused malloc is
# produced by the allocator itself: max_allocation_size_mb=4096 makes malloc of more than 4 GB fail,
# allocator_may_return_null=1 makes that failure a NULL return (what a real malloc does under ulimit -v) instead of an
# abort, hard_rss_limit_mb is the safety net should something still touch gigabytes, detect_leaks=0 because chibi does
# not free its heap at exit.  The memory-hungry cases additionally run on the default build under a real RLIMIT_AS of 4 GB.
ASAN_OPTS = "detect_leaks=0:allocator_may_return_null=1:max_allocation_size_mb=4096:hard_rss_limit_mb=6144:abort_on_error=0:exitcode=97"
SUMMARY = "(define (c17-sum r) (if (and (exact-integer? r) (> (integer-length r) 4096)) (list 'big (integer-length r) (bit-count r) (first-set-bit r)) r))"
C_NAME = {"bitwise-and": "bit-and", "bitwise-ior": "bit-ior", "bitwise-xor": "bit-xor", "arithmetic-shift": "arithmetic-shift",
          "bit-count": "bit-count", "integer-length": "integer-length", "bit-set?": "bit-set?"}


def _shift_oracle(a, c):
    """-> ('val', expected text) | ('err-only', why) for (arithmetic-shift a c) on exact integers"""
    if c <= 0:
        return "val", show(a >> -c)
    if a == 0:
        return "val", show(0)
    if c > (1 << 34):
        return "err-only", "the result would need more than 2^31 bytes"
    if ilen(a) + c > 4096:
        return "val", "(big %d %d %d)" % (ilen(a) + c, popcount(a) + (c if a < 0 else 0), fsb(a) + c)
    return "val", show(a << c)


def _is_crash(res, stderr=""):
    return (res or "").startswith("CRASH") or any(s in stderr for s in ("ERROR: AddressSanitizer", "runtime error", "SEGV", "SUMMARY: AddressSanitizer"))


def errors(ctx, rng):
    """hostile arguments to the seven C entry points of bit.c under ASan (see module doc)"""
    da = ctx.build("asan")
    dd = ctx.build("default")
    rows = []       # (fn, expr, arg class, oracle) ; oracle: None = anything but a crash, ('val', text) = error or that value, ('err-only', why)

    def row(fn, args, klass, oracle=None):
        rows.append((fn, "(c17-sum (%s %s))" % (fn, " ".join(args)), klass, oracle))

    pl = [lit(p) for p in PARTNERS]
    for klass, h in HOSTILE:
        for fn in ("bitwise-and", "bitwise-ior", "bitwise-xor"):
            for p, z in zip(pl, PARTNERS):
                row(fn, [h, p], "%s/%s" % (klass, cls(z)))
                row(fn, [p, h], "%s/%s" % (cls(z), klass))
            k2, h2 = rng.choice(HOSTILE)
            row(fn, [h, h2], "%s/%s" % (klass, k2))
        for cnt in ("0", "1", "-1", "64", "-64", "100", "#x10000000000000000"):
            row("arithmetic-shift", [h, cnt], "%s/count" % klass)
        for p, z in zip(pl, PARTNERS):
            row("arithmetic-shift", [p, h], "%s/%s" % (cls(z), klass))
            row("bit-set?", [h, p], "%s/%s" % (klass, cls(z)))
        for i in ("0", "5", "63", "64", "100", "#x10000000000000000"):
            row("bit-set?", [i, h], "index/%s" % klass)
        row("bit-count", [h], klass)
        row("integer-length", [h], klass)
    # exact integers everywhere: shift counts and bit indexes far outside the word size, of either representation
    for a in SHIFT_VALUES:
        for c in SHIFT_COUNTS:
            kc = ("bignum-count" if not fits(c) else "count<=-64" if c <= -64 else "count")
            row("arithmetic-shift", [lit(a), lit(c)], "%s/%s" % (cls(a), kc), _shift_oracle(a, c))
        for c in (100000, (1 << 20) + 3, (1 << 24) - 1):
            row("arithmetic-shift", [lit(a), lit(c)], "%s/large-left" % cls(a), _shift_oracle(a, c))
    for i in INDEXES:
        for v in BITSET_VALUES:
            ki = "negative-index" if i < 0 else "bignum-index" if not fits(i) else "huge-index" if i > (1 << 30) else "index"
            # SRFI 151 requires a non-negative index: bit.c answers "index must be non-negative"; a VALUE would come from
            # 1 << negative / a word read below the bignum, so only an error is accepted; else #t/#f by sign extension
            row("bit-set?", [lit(i), lit(v)], "%s/%s" % (ki, cls(v)),
                ("err-only", "the index is negative") if i < 0 else ("val", show(bool((v >> i) & 1) if i < (1 << 40) else v < 0)))
    for v in BITSET_VALUES:
        row("bit-count", [lit(v)], cls(v), ("val", show(popcount(v))))
        row("integer-length", [lit(v)], cls(v), ("val", show(ilen(v))))
        for w in (v, ~v, 5, -5, FIXMIN, -(1 << 64)):
            for fn, op in (("bitwise-and", lambda x, y: x & y), ("bitwise-ior", lambda x, y: x | y), ("bitwise-xor", lambda x, y: x ^ y)):
                row(fn, [lit(v), lit(w)], "%s/%s" % (cls(v), cls(w)), ("val", show(op(v, w))))
    if ctx.thorough:
        for _ in range(6000):
            a = rng.choice(SHIFT_VALUES + BITSET_VALUES) + rng.choice([0, 0, 1, -1, rng.getrandbits(70)])
            c = rng.choice(SHIFT_COUNTS) + rng.choice([0, 1, -1, rng.randrange(-70, 70)])
            row("arithmetic-shift", [lit(a), lit(c)], "%s/%s" % (cls(a), "bignum-count" if not fits(c) else "count"), _shift_oracle(a, c))
            i = abs(rng.choice(INDEXES)) + rng.randrange(0, 70)
            row("bit-set?", [lit(i), lit(a)], "%s/%s" % ("bignum-index" if not fits(i) else "index", cls(a)), ("val", show(bool((a >> i) & 1) if i < (1 << 40) else a < 0)))
    env = {"ASAN_OPTIONS": ASAN_OPTS}
    got = run_batch(da, [r[1] for r in rows], "(import (srfi 151))", prelude_extra=SUMMARY, env=env, timeout=30, chunk=1500)
    envtxt = "ASAN_OPTIONS=%s LD_LIBRARY_PATH=%s CHIBI_MODULE_PATH=%s/lib CHIBI_IGNORE_SYSTEM_PATH=1" % (ASAN_OPTS, da, da)
    nval = 0
    for (fn, e, klass, oracle), g in zip(rows, got):
        ctx.count(1, key=("err", e), nontrivial=True)
        _judge(ctx, fn, e, klass, oracle, g, "", "echo '(import (scheme base) (scheme write) (srfi 151)) %s (write %s)' | %s %s/chibi-scheme /dev/stdin" % (SUMMARY, e, envtxt, da))
        if oracle is None and g is not None and not g.startswith(("ERR", "CRASH", "TIMEOUT")):
            nval += 1
    if nval:
        ctx.note("bit.c hostile arguments: %d calls with a non-integer argument returned a value instead of a type error "
                 "(e.g. (arithmetic-shift \"x\" 0) => \"x\": the count 0 shortcut precedes the type test); not a crash, not counted as a violation" % nval)
    # the memory-hungry calls, each in its own process, under ASan (allocation cap) and on the default build (RLIMIT_AS)
    plain = "LD_LIBRARY_PATH=%s CHIBI_MODULE_PATH=%s/lib CHIBI_IGNORE_SYSTEM_PATH=1" % (dd, dd)
    jobs = []          # (fn, expr, class, oracle, variant, build dir, run_batch keywords, replay)

    def solo(fn, e, klass, oracle, asan_cap_mb, as_mb):
        opts = ASAN_OPTS.replace("max_allocation_size_mb=4096", "max_allocation_size_mb=%d" % asan_cap_mb)
        text = "echo '(import (scheme base) (scheme write) (srfi 151)) %s (write %s)' | " % (SUMMARY, e)
        jobs.append((fn, e, klass, oracle, "asan", da, dict(env={"ASAN_OPTIONS": opts}),
                     "%s%s timeout 20 %s/chibi-scheme /dev/stdin" % (text, envtxt.replace(ASAN_OPTS, opts), da)))
        jobs.append((fn, e, klass, oracle, "default", dd, dict(mem_mb=as_mb),
                     "(ulimit -v %d; %s%s timeout 20 %s/chibi-scheme /dev/stdin)" % (as_mb << 10, text, plain, dd)))

    big = [(1, 1 << 40), (1, FIXMAX), (1 << 100, 1 << 45), (0, 1 << 50), (0, FIXMAX), (-1, 1 << 40), (-1, FIXMAX), (-(1 << 100), 1 << 45),
           (1, 1 << 36), (12345, 1 << 61), (FIXMIN, 1 << 50)]
    for a, c in big:
        solo("arithmetic-shift", "(c17-sum (arithmetic-shift %s %s))" % (lit(a), lit(c)), "%s/huge-left" % cls(a), _shift_oracle(a, c), 4096, 4096)
    if OOM_CASES:
        # allocation failure INSIDE an entry point: x = 2^(2^28) (32 MB; the heap grows by 64 MB for it) is built first, the
        # operation then needs a second 32 MB object, for which the heap would have to grow by 128 MB -- refused by the cap
        # (ASan: no single malloc above 100 MB; default build: 192 MB of address space).  Acceptable: "out of memory" (or the
        # right value, should the allocation succeed under another growth policy); not acceptable: writing through the
        # shared out-of-memory exception object as if it were the fresh bignum.
        N = 1 << 28
        oom = [("bitwise-ior", "x 1", "pb/pf", (N + 1, 2, 0)), ("bitwise-ior", "x x", "pb/pb", (N + 1, 1, N)), ("bitwise-and", "x -2", "pb/nf", (N + 1, 1, N)),
               ("bitwise-and", "x x", "pb/pb", (N + 1, 1, N)), ("bitwise-xor", "x 1", "pb/pf", (N + 1, 2, 0)), ("bitwise-xor", "x -1", "pb/nf", (N + 1, 1, 0)),
               ("arithmetic-shift", "x 1", "pb/count", (N + 2, 1, N + 1)), ("arithmetic-shift", "x -1", "pb/count", (N, 1, N - 1)),
               ("arithmetic-shift", "x 64", "pb/count", (N + 65, 1, N + 64))]
        for fn, args, klass, (il, bc, fs) in oom:
            # (integer-length r, bit-count r, first-set-bit r) of the right result r; x xor -1 = -(x+1) has ONE zero bit
            solo(fn, "(let ((x (arithmetic-shift 1 %d))) (c17-sum (%s %s)))" % (N, fn, args), "oom/" + klass,
                 ("val", "(big %d %d %d)" % (il, bc, fs)), 100, 192)
    import concurrent.futures
    with concurrent.futures.ThreadPoolExecutor(max_workers=4) as pool:
        outs = list(pool.map(lambda j: run_batch(j[5], [j[1]], "(import (srfi 151))", prelude_extra=SUMMARY, timeout=20, **j[6])[0], jobs))
    for (fn, e, klass, oracle, variant, d, kw, rep), g in zip(jobs, outs):
        ctx.count(1, key=("err", variant, e), nontrivial=True)
        _judge(ctx, fn, e, klass, oracle, g, variant, rep)
    ctx.sample(dict(kind="errors", expr=rows[0][1], impl=(got[0] or "")[:200]))


def _judge(ctx, fn, e, klass, oracle, g, variant, replay):
    cfn = C_NAME[fn]
    v = (":" + variant) if variant == "default" else ""
    if g == "SKIPPED":
        return
    if g is None:
        g = "CRASH no output"
    if g == "TIMEOUT":
        ctx.violation("bit.c:%s:hang:%s%s" % (cfn, klass, v), input=e, observed="no answer within the timeout", replay=replay)
    elif _is_crash(g):
        ctx.violation("bit.c:%s:crash:%s%s" % (cfn, klass, v), input=e, observed=g[:1500], replay=replay)
    elif g.startswith("ERR"):
        pass                                   # a Scheme error is always acceptable for a hostile call
    elif oracle is None:
        pass
    elif oracle[0] == "err-only":
        ctx.violation("bit.c:%s:value:%s%s" % (cfn, klass, v), input=e, expected="an error (%s)" % oracle[1], observed=g[:300], replay=replay)
    elif g != oracle[1]:
        ctx.violation("bit.c:%s:value:%s%s" % (cfn, klass, v), input=e, expected=oracle[1], observed=g[:300], replay=replay)
