"""C13 workloads: Scheme programs (sequences of top-level forms; the value of the last form is the result) that a
fresh parent-less context evaluates.  Every template is deterministic in a single context (no clocks, no
addresses, no unseeded randomness), allocates enough to collect (naturally and through (gc)), and most of them
load C-backed libraries.  `make(rng, n)` returns [(template name, text)] with differing parameters."""

GC = "(import (only (chibi ast) gc))"
PRELUDE = "(import (scheme base))"


def w_hash(rng):
    n, m, k = rng.randrange(300, 3000), rng.randrange(2, 9), rng.randrange(1, 1000)
    return ("hash-srfi69", """(import (srfi 69)) %s
(define h (make-hash-table equal?))
(do ((i 0 (+ i 1))) ((= i %d)) (hash-table-set! h (string-append "k" (number->string (* i %d))) (* i i)))
(do ((i 0 (+ i %d))) ((>= i %d)) (hash-table-delete! h (string-append "k" (number->string (* i %d)))))
(gc)
(define s (make-hash-table eq?))
(do ((i 0 (+ i 1))) ((= i 500)) (hash-table-update!/default s (string->symbol (string-append "s" (number->string (modulo (* i %d) 37)))) (lambda (x) (+ x i)) 0))
(list (hash-table-size h) (hash-table-fold h (lambda (k v a) (+ v a)) 0) (hash-table-size s)
      (hash-table-ref/default s 's0 #f) (hash "abc") (string-hash "%d"))""" % (GC, n, k, m, n, k, k, k))


def w_bignum(rng):
    a, b = rng.randrange(150, 600), rng.randrange(40, 90)
    return ("bignum", """(define (fact n) (if (< n 2) 1 (* n (fact (- n 1)))))
(define (fib n) (let lp ((a 0) (b 1) (i 0)) (if (= i n) a (lp b (+ a b) (+ i 1)))))
(define f (fact %d))
(define g (fib %d))
(list (string-length (number->string f)) (modulo f 1000000007) (quotient f (fact %d)) (call-with-values (lambda () (exact-integer-sqrt g)) list)
      (number->string (fib %d) 16) (gcd f (fib %d)) (exact->inexact (/ (fib %d) (fib %d))) (string->number "%d.5e3"))"""
            % (a, a * 3, a - 3, b, b * 2, b + 1, b, a))


def w_strings(rng):
    n, c = rng.randrange(200, 2000), rng.choice(["x", "\\x3bb;", "\\x1F600;", "ab"])
    return ("strings-io", """(import (scheme char) (chibi io) (chibi string))
(define (build n) (call-with-output-string (lambda (out) (do ((i 0 (+ i 1))) ((= i n)) (write i out) (write-string "%s" out) (if (= 0 (modulo i 17)) (newline out))))))
(define s (build %d))
(define lines (port->string-list (open-input-string s)))
(define syms (map (lambda (l) (string->symbol (string-append "l" (number->string (string-length l))))) lines))
(list (string-length s) (length lines) (string-cursor->index s (string-find s #\\7)) (length (string-split s #\\7))
      (symbol->string (car (reverse syms))) (string-upcase (substring s 0 12)) (read (open-input-string "(1 #(2 \\"three\\") . 4.5)"))
      (let ((in (open-input-string s))) (read-string 5 in) (read-line in)))""" % (c, n))


def w_bits(rng):
    a, b, k = rng.getrandbits(90), rng.getrandbits(70), rng.randrange(3, 80)
    return ("bits-srfi151", """(import (srfi 151))
(list (bitwise-and %d %d) (bitwise-ior %d %d) (bitwise-xor %d %d) (arithmetic-shift %d %d) (arithmetic-shift %d -%d)
      (bit-count %d) (integer-length %d) (bit-set? %d %d) (first-set-bit %d)
      (let lp ((i 0) (acc 0)) (if (= i 2000) acc (lp (+ i 1) (bitwise-xor (arithmetic-shift acc 1) (* i %d))))))"""
            % (a, b, a, b, a, b, a, k, a, k, a, b, k % 60, a, a | 1 << k, b | 1))


def w_sort(rng):
    n, m, s = rng.randrange(200, 3000), rng.randrange(7, 1000), rng.randrange(1, 10 ** 6)
    return ("sort-lists", """(import (srfi 1) (srfi 95))
(define (rnd-list n seed) (let lp ((i 0) (x seed) (acc '())) (if (= i n) acc (lp (+ i 1) (modulo (+ (* x 1103515245) 12345) 2147483648) (cons (modulo x %d) acc)))))
(define l (rnd-list %d %d))
(define sl (sort l <))
(define v (sort (list->vector (map (lambda (x) (cons x (number->string x))) l)) (lambda (a b) (< (car a) (car b)))))
(list (take sl 5) (last sl) (fold + 0 l) (length (delete-duplicates sl)) (vector-ref v 0) (vector-ref v (- (vector-length v) 1))
      (list-index even? l) (apply max l) (length (filter odd? l)) (sort (map number->string (take l 6)) string<?))""" % (m, n, s))


def w_green(rng):
    n, k = rng.randrange(3, 9), rng.randrange(500, 5000)
    return ("green-threads-srfi18", """(import (srfi 18))
(define m (make-mutex))
(define total 0)
(define (worker id) (lambda () (let lp ((i 0) (acc 0)) (if (= i %d) (begin (mutex-lock! m) (set! total (+ total acc)) (mutex-unlock! m) (* id acc)) (begin (if (= 0 (modulo i 97)) (thread-yield!)) (lp (+ i 1) (+ acc (modulo (* i id) 7))))))))
(define ts (let lp ((i 1) (acc '())) (if (> i %d) (reverse acc) (lp (+ i 1) (cons (make-thread (worker i)) acc)))))
(for-each thread-start! ts)
(define rs (map thread-join! ts))
(list total rs (thread? (current-thread)) (mutex-state m) (mutex? m))""" % (k, n))


def w_symbols(rng):
    n, p = rng.randrange(500, 4000), rng.choice(["sym", "a-rather-long-symbol-prefix-for-c13-", "q"])
    return ("symbols-records", """(import (srfi 1) (srfi 9)) %s
(define-record-type <point%d> (make-point x y) point? (x px set-px!) (y py))
(define syms (let lp ((i 0) (acc '())) (if (= i %d) acc (lp (+ i 1) (cons (string->symbol (string-append "%s" (number->string i))) acc)))))
(gc)
(define again (map (lambda (s) (string->symbol (symbol->string s))) syms))
(define pts (map (lambda (s i) (make-point s i)) syms (iota %d)))
(set-px! (car pts) 'changed)
(list (length syms) (let lp ((a syms) (b again) (ok #t)) (if (null? a) ok (lp (cdr a) (cdr b) (and ok (eq? (car a) (car b))))))
      (eq? (car syms) (string->symbol "%s%d")) (px (car pts)) (py (cadr pts)) (point? (car pts)) (point? 'x)
      (symbol->string (list-ref syms %d)) (eq? 'car (string->symbol "car")))""" % (GC, n % 97, n, p, n, p, n - 1, n // 3))


def w_gc(rng):
    n, m = rng.randrange(20, 80), rng.randrange(1000, 20000)
    return ("gc-churn", """%s
(define keep (make-vector 64 '()))
(define (churn round)
  (do ((i 0 (+ i 1))) ((= i %d))
    (vector-set! keep (modulo (* i 7) 64) (cons (make-vector (modulo (* i round) 97) i) (make-string (modulo i 50) #\\a)))
    (if (= 0 (modulo i 4000)) (gc))))
(do ((r 1 (+ r 1))) ((> r %d)) (churn r))
(gc)
(list (vector-length (car (vector-ref keep 5))) (string-length (cdr (vector-ref keep 9)))
      (let lp ((i 0) (a 0)) (if (= i 64) a (lp (+ i 1) (+ a (vector-length (car (vector-ref keep i)))))))
      (length (let lp ((i 0) (acc '())) (if (= i 100000) acc (lp (+ i 1) (cons i acc))))))""" % (GC, m, n))


def w_control(rng):
    n, d = rng.randrange(10, 200), rng.randrange(1000, 30000)
    return ("control", """(define trace '())
(define (note x) (set! trace (cons x trace)))
(define k2 #f)
(define r (call-with-current-continuation (lambda (k) (dynamic-wind (lambda () (note 'in)) (lambda () (k (* 2 %d))) (lambda () (note 'out))))))
(define (deep n) (if (= n 0) 0 (+ 1 (deep (- n 1)))))
(define g (guard (e (#t (list 'caught (error-object? e)))) (vector-ref (vector 1 2) %d)))
(define p (make-parameter 10 (lambda (x) (* x 2))))
(define e2 (guard (e ((symbol? e) (list 'sym e))) (raise 'boom-%d)))
(list r (reverse trace) (deep %d) (car g) (parameterize ((p %d)) (p)) (p) e2
      (call-with-values (lambda () (values 1 2 %d)) list) (let-values (((q r) (floor/ %d 7))) (list q r)))""" % (n, n + 2, n, d, n, n, d))


def w_math(rng):
    a = rng.randrange(2, 50)
    return ("flonum-math-srfi144", """(import (srfi 144) (scheme inexact))
(define xs (let lp ((i 1) (acc '())) (if (> i 400) acc (lp (+ i 1) (cons (/ i %d.0) acc)))))
(list (exact (flround (* 1e6 (fl+ (flsqrt %d.0) (flexp 1.5)))))
      (exact (round (* 1000 (apply + (map (lambda (x) (* (sin x) (cos x))) xs)))))
      (number->string (/ 1.0 %d)) (exact (floor (flhypot 3.0 %d.0))) (string->number (number->string (sqrt %d))))""" % (a, a, a, a, a))


def w_bytevectors(rng):
    n, k = rng.randrange(100, 3000), rng.randrange(1, 255)
    return ("bytevectors-uvectors", """(import (scheme bytevector) (srfi 160 u8) (chibi bytevector))
(define bv (make-bytevector %d 0))
(do ((i 0 (+ i 1))) ((= i %d)) (bytevector-u8-set! bv i (modulo (* i %d) 256)))
(define s (utf8->string (bytevector 206 187 97 98)))
(list (bytevector-u8-ref bv %d) (bytevector-length (bytevector-append bv bv)) (bytevector-u16-ref bv 2 (endianness little))
      (bytevector-u32-ref bv 4 (endianness big)) s (string->utf8 s) (u8vector-length (make-u8vector 10 1))
      (let lp ((i 0) (a 0)) (if (= i %d) a (lp (+ i 1) (+ a (bytevector-u8-ref bv i))))))""" % (n, n, k, n // 2, n))


def w_eval_env(rng):
    a = rng.randrange(1, 1000)
    return ("eval-modules", """(import (scheme eval) (srfi 1) (srfi 69))
(define e (environment '(scheme base) '(srfi 1)))
(define f (eval '(lambda (n) (fold + 0 (iota n))) e))
(eval '(define c13-in-env %d) (interaction-environment))
(list (f %d) c13-in-env (eval '(let loop ((i 0) (a 1)) (if (= i 20) a (loop (+ i 1) (* a 3)))) e)
      (procedure? (eval 'hash-table-ref (environment '(srfi 69)))) (guard (x (#t 'unbound)) (eval 'c13-in-env e)))""" % (a, a))


def w_time_process(rng):
    """C-backed (chibi time), (scheme time), (chibi process), (chibi system), (chibi filesystem): results that do
    not depend on the clock; exercises their library initialisation (process-wide tables) in every context"""
    a = rng.randrange(1, 50)
    return ("system-libs", """(import (chibi time) (scheme time) (chibi process) (chibi system) (chibi filesystem) (srfi 98))
(list (< 0 (current-seconds)) (exact? (current-jiffy)) (= (jiffies-per-second) (jiffies-per-second)) (integer? (current-process-id))
      (string? (user-name (user-information (current-user-id)))) (file-exists? "/") (file-directory? "/")
      (integer? signal/term) (procedure? set-signal-action!) (string? (get-environment-variable "PATH")) (+ %d 1))""" % a)


TEMPLATES = [w_hash, w_bignum, w_strings, w_bits, w_sort, w_green, w_symbols, w_gc, w_control, w_math, w_bytevectors, w_eval_env,
             w_time_process]


def shifter(rng):
    """record types defined before the workload's own imports: shifts the type ids that libraries loaded afterwards
    get in this context, so contexts alive at the same time disagree about them"""
    k = rng.choice([0, 0, 1, 2, 3, 5])
    if k == 0:
        return ""
    return "(import (srfi 9)) " + " ".join("(define-record-type <shift%d> (mk-shift%d a) shift%d? (a shift%d-a))" % (i, i, i, i) for i in range(k))


def make(rng, n):
    out = []
    for i in range(n):
        t = TEMPLATES[i % len(TEMPLATES)]
        name, text = t(rng)
        out.append((name, PRELUDE + " " + shifter(rng) + " " + " ".join(text.split("\n"))))
    return out


# ---------------------------------------------------------------------------------------------------------------
# round 4: "same library call, different arguments" workloads.  Every instance calls C-backed library procedures of
# (chibi time) / (chibi system) / (chibi filesystem) / (chibi ast) / (srfi 144) / (srfi 98) / (chibi temp-file) many
# times with arguments that are SPECIFIC to the instance and reports, per argument, the list of DISTINCT results it
# saw (alone: exactly one per argument).  State hidden inside the C library (static result buffers of ctime /
# localtime / getpwuid / strerror / lgamma's signgam ...) or a name space shared through the file system shows as a
# result that belongs to another instance's argument.  `(c13-barrier)` is interpreted by the harness: all OS threads
# of the run start their loops together.

DISTINCT = ("(define (distinct f n args) (map (lambda (a) (let lp ((i 0) (seen '())) (if (= i n) (reverse seen) "
            "(let ((r (guard (e (#t (list 'raised (if (error-object? e) (error-object-message e) e)))) (f a)))) "
            "(lp (+ i 1) (if (member r seen) seen (cons r seen))))))) args))")


def lc_time(rng, k, scale, env):
    secs = sorted(rng.randrange(0, 2 ** 31 - 1) for _ in range(3))
    n = 6000 * scale
    return ("libc-time", """(import (chibi time)) %s
(define args '(%s))
(c13-barrier)
(list (distinct seconds->string %d args) (distinct (lambda (s) (time->string (seconds->time s))) %d args)
      (distinct (lambda (s) (let ((tm (seconds->time s))) (list (time-year tm) (time-month tm) (time-day tm) (time-hour tm) (time-minute tm) (time->seconds tm)))) %d args))"""
            % (DISTINCT, " ".join(map(str, secs)), n, n, n))


def lc_system(rng, k, scale, env):
    uids, gids = env["uids"], env["gids"]
    mine_u = [uids[(k * 3 + j) % len(uids)] for j in range(3)]
    mine_g = [gids[(k * 3 + j) % len(gids)] for j in range(3)]
    n = 1500 * scale
    return ("libc-system", """(import (chibi system)) %s
(c13-barrier)
(list (distinct (lambda (u) (let ((i (user-information u))) (list (user-name i) (user-id i) (user-home i) (user-shell i)))) %d '(%s))
      (distinct (lambda (g) (let ((i (group-information g))) (list (group-name i) (group-id i)))) %d '(%s))
      (distinct (lambda (x) (string? (get-host-name))) 50 '(0)))"""
            % (DISTINCT, n, " ".join(map(str, mine_u)), n, " ".join(map(str, mine_g))))


def lc_fs(rng, k, scale, env):
    dirs = env["dirs"]
    mine = [dirs[(k * 2 + j) % len(dirs)] for j in range(2)]
    n = 700 * scale
    return ("libc-filesystem", """(import (chibi filesystem) (srfi 95)) %s
(c13-barrier)
(list (distinct (lambda (d) (sort (directory-files d) string<?)) %d '(%s))
      (distinct (lambda (d) (map (lambda (f) (file-size (string-append d "/" f))) (sort (directory-files d) string<?))) %d '(%s))
      (distinct (lambda (d) (list (file-directory? d) (file-regular? d) (file-exists? (string-append d "/nope")) (string? (current-directory)))) %d '(%s)))"""
            % (DISTINCT, n, " ".join('"%s"' % d for d in mine), n // 4, " ".join('"%s"' % d for d in mine), n, " ".join('"%s"' % d for d in mine)))


def lc_errno_math_env(rng, k, scale, env):
    errs = sorted(rng.sample(range(1, 120), 3)) + [100000 + 37 * k, 200000 + k]
    xs = rng.sample(["-0.5", "-1.5", "-2.5", "-3.5", "0.5", "3.25", "-0.25", "-1.25", "7.5", "-4.75"], 4)
    names = rng.sample(["PATH", "HOME", "CHIBI_MODULE_PATH", "LD_LIBRARY_PATH", "C13_NOT_SET_%d" % k, "CHIBI_IGNORE_SYSTEM_PATH"], 3)
    n = 2000 * scale
    return ("libc-errno-math-env", """(import (only (chibi ast) integer->error-string) (srfi 144) (srfi 98)) %s
(c13-barrier)
(list (distinct integer->error-string %d '(%s))
      (distinct (lambda (x) (call-with-values (lambda () (flloggamma x)) list)) %d '(%s))
      (distinct get-environment-variable %d '(%s)))"""
            % (DISTINCT, n, " ".join(map(str, errs)), n, " ".join(xs), n, " ".join('"%s"' % s for s in names)))


def lc_tempfile(rng, k, scale, env):
    """M temporary files and directories from ONE template shared by all instances of the run (the names are derived from the
    process id and the clock, which independent contexts of one process share): every context must read back its own data"""
    # kept files of ALL contexts of a run share one candidate sequence (same template, pid, second) and the library gives up
    # after 100 candidates: keep the total well below that
    m = max(2, min(6 * scale, 48 // env.get("threads", 6)))
    ns, nd = 6 * scale, 30 * scale
    return ("ns-temp-file", """(import (chibi temp-file) (chibi filesystem) (chibi io) (srfi 1))
(define me "instance-%d-%d")
(define (slurp path) (guard (e (#t 'unreadable)) (call-with-input-file path (lambda (in) (let ((l (read-line in))) (if (eof-object? l) "" l))))))
(define (msg e) (if (error-object? e) (error-object-message e) e))
(define (make-kept j) (guard (e (#t (list 'raised (msg e))))
  (call-with-temp-file "%s.dat" (lambda (path out preserve) (preserve) (let ((line (string-append me "-" (number->string j)))) (write-string line out) (newline out) (flush-output out)
     (list path line (slurp path)))))))
(define (make-scratch j) (guard (e (#t (list 'raised (msg e))))
  (call-with-temp-file "%s-s.dat" (lambda (path out preserve) (let ((line (string-append me "-s" (number->string j)))) (write-string line out) (newline out) (flush-output out)
     (equal? line (slurp path)))))))
(define (make-dir j) (guard (e (#t (list 'raised (msg e))))
  (call-with-temp-dir "%s-d" (lambda (path preserve) (let ((f (string-append path "/owner")))
     (call-with-output-file f (lambda (out) (write-string me out) (newline out)))
     (let lp ((i 0)) (if (< i 200) (lp (+ i 1))))
     (equal? me (slurp f)))))))
(c13-barrier)
(define kept (map make-kept (iota %d)))
(define scratch (map make-scratch (iota %d)))
(define dirs (map make-dir (iota %d)))
(define (bad l) (filter (lambda (x) (not (eq? x #t))) l))
(define now (map (lambda (r) (if (eq? (car r) 'raised) r (equal? (cadr r) (car (cddr r))))) kept))
(define later (map (lambda (r) (if (eq? (car r) 'raised) r (equal? (cadr r) (slurp (car r))))) kept))
(c13-barrier)
(for-each (lambda (r) (if (string? (car r)) (guard (e (#t #f)) (delete-file (car r))))) kept)
(list 'files %d 'read-back-at-once (bad now) 'read-back-at-end (bad later) 'scratch-files (bad scratch) 'temp-dirs (bad dirs))"""
            % (k, rng.randrange(10 ** 6), env["token"], env["token"], env["token"], m, ns, nd, m))


LIBCALLS = [lc_time, lc_system, lc_fs, lc_errno_math_env, lc_tempfile]
LIBCALL_BARRIERS = {"ns-temp-file": 2}


def make_libcalls(rng, template, n, scale, env):
    """n instances of one template with instance-specific arguments -> [(name, text)]"""
    out = []
    for k in range(n):
        name, text = template(rng, k, scale, env)
        out.append((name, PRELUDE + " " + " ".join(text.split("\n"))))
    return out
