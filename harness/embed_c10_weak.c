/* C10 closedness exerciser: histories with ephemerons (the only weak objects of chibi-scheme: SEXP_EPHEMERON,
   (chibi weak), the file-descriptor table) on a BARE context, so that nothing but the history allocates and the
   address of every object is under the history's control: a hole opened by dropping a placeholder and collecting
   is where the next allocation of that size lands (all objects of a history are one allocation unit: a 1-slot
   vector, a pair, an ephemeron).  props/C10.py uses this to place chains of ephemerons (the key of one reachable
   only through the value of another) in EVERY address order; the technique is that of harness/embed_c16.c, the
   observation is different: after every operation that ran a collection the harness audits the whole heap
   through the public heap structures -- every strong, weak and extra (ephemeron value) slot of every object that
   survived must designate the start of an object that survived (C10's closedness clause) -- independently of
   the audit hook inside gc.c (CHIBI_VERIF_AUDIT), whose verdict the plugin also reads.
   input : one history per line:  <nslots> <op>;<op>;...
           ops: K,i (1-slot vector -> root slot i)  H,i (placeholder = K)  C,i,a,b (cons of slots a b)
                E,i,k,v (ephemeron key=slot k value=slot v)  S,i,j (vector-set! slot i's vector, element 0 := slot j)
                D,i (drop slot i)  G (collect once)  B,i,n (vector of n slots)  Z (fill the low holes of the heap)
                W,n (allocate n garbage pairs: makes natural collections happen inside sexp_alloc)
   output: per history  "A <n> id:heap:off,..."  addresses in allocation order (ids from 1),
           "WAUDIT FAIL hist=<n> op=<k> gc=<count>: <why>" for every audit failure, "H <n> ok|ERROR gcs=<first>-<last>", then DONE */
#include <stdio.h>
#include <stdlib.h>
#include <string.h>
#include <chibi/eval.h>

extern sexp_uint_t sexp_allocated_bytes (sexp ctx, sexp x);   /* SEXP_API in gc.c, not declared in a header */

#define MAXSLOTS 256
#define MAXIDS 4096

static sexp ctx;
static sexp R, FILL;
static int addr_heap[MAXIDS]; static unsigned long addr_off[MAXIDS]; static long nids;
static unsigned long audit_failures = 0;

static int locate (sexp x, unsigned long *off) {
  sexp_heap h; int hi = 0;
  for (h = sexp_context_heap(ctx); h; h = h->next, hi++)
    if ((char*)x >= (char*)h->data && (char*)x < (char*)h->data + h->size) { *off = (unsigned long)((char*)x - (char*)h->data); return hi; }
  *off = 0; return -1;
}

static int cmp_ptr (const void *a, const void *b) { return (*(char**)a < *(char**)b) ? -1 : (*(char**)a > *(char**)b); }

/* the closedness clause of C10, on the heap as it is now: returns the number of slots that designate something
   which is not the start of an object of the heap (a free chunk, the middle of an object) */
static int audit (long hist, long opno) {
  sexp_heap h; sexp p, end, t; sexp_free_list q, r; size_t size; sexp *v; sexp_sint_t i, n, wn; int bad = 0, pass;
  char **starts; size_t nstarts = 0, cap = 4096; void *key; unsigned long off, off2; int hi, hi2;
  starts = (char**) malloc(cap * sizeof(char*));
  for (pass = 0; pass < 2; pass++) {
    if (pass == 1) qsort(starts, nstarts, sizeof(char*), cmp_ptr);
    for (h = sexp_context_heap(ctx); h; h = h->next) {
      p = sexp_heap_first_block(h); q = h->free_list; end = sexp_heap_end(h);
      while (p < end) {
        for (r = q->next; r && ((char*)r < (char*)p); q = r, r = r->next) ;
        if ((char*)r == (char*)p) { p = (sexp) (((char*)p) + r->size); continue; }
        size = sexp_heap_align(sexp_allocated_bytes(ctx, p));
        if (size == 0) { printf("WAUDIT FAIL hist=%ld op=%ld gc=%lu: zero-size object\n", hist, opno, (unsigned long)sexp_context_gc_count(ctx)); free(starts); return 1; }
        if (pass == 0) {
          if (nstarts == cap) { cap *= 2; starts = (char**) realloc(starts, cap * sizeof(char*)); }
          starts[nstarts++] = (char*)p;
        } else {
          int k;
          t = sexp_object_type(ctx, p);
          for (k = 0; k < 2; k++) {
            if (k == 0) { n = sexp_type_num_slots_of_object(t, p); v = (sexp*) (((char*)p) + sexp_type_field_base(t)); }
            else if (sexp_type_weak_base(t) > 0) {
              wn = sexp_type_num_weak_slots_of_object(t, p); n = wn + sexp_type_weak_len_extra(t);
              v = (sexp*) (((char*)p) + sexp_type_weak_base(t));
            } else break;
            for (i = 0; i < n; i++)
              if (v[i] && sexp_pointerp(v[i])) {
                hi2 = locate(v[i], &off2);
                if (hi2 < 0) continue;      /* static object outside the heaps */
                key = (void*)v[i];
                if (!bsearch(&key, starts, nstarts, sizeof(char*), cmp_ptr)) {
                  hi = locate(p, &off);
                  printf("WAUDIT FAIL hist=%ld op=%ld gc=%lu: %s slot %d of the live object %d:%lu (tag %d) designates %d:%lu, which is a free chunk / not the start of an object\n",
                         hist, opno, (unsigned long)sexp_context_gc_count(ctx), k == 0 ? "strong" : (i < wn ? "weak" : "extra (ephemeron value)"),
                         (int)i, hi, off, (int)sexp_pointer_tag(p), hi2, off2);
                  bad++;
                }
              }
          }
        }
        p = (sexp) (((char*)p) + size);
      }
    }
  }
  free(starts);
  return bad;
}

static sexp slot (long i) { return (i >= 0 && i < MAXSLOTS) ? sexp_vector_ref(R, sexp_make_fixnum(i)) : SEXP_FALSE; }
static void set_slot (long i, sexp x) { if (i >= 0 && i < MAXSLOTS) sexp_vector_set(R, sexp_make_fixnum(i), x); }
static void record (sexp x) { nids++; if (nids < MAXIDS) addr_heap[nids] = locate(x, &addr_off[nids]); }

static int run_history (long hist, char *ops) {
  char *save = NULL, *tok; long a[4], opno = 0, k; int na, i, run; char kind; sexp x; unsigned long gc0, off, last;
  for (i = 0; i < MAXSLOTS; i++) set_slot(i, SEXP_FALSE);
  sexp_vector_set(FILL, SEXP_ZERO, SEXP_NULL);
  nids = 0;
  sexp_gc(ctx, NULL);
  for (tok = strtok_r(ops, ";", &save); tok; tok = strtok_r(NULL, ";", &save), opno++) {
    char *p = tok + 1;
    kind = tok[0]; na = 0;
    while (*p == ',' && na < 4) a[na++] = strtol(p + 1, &p, 10);
    gc0 = (unsigned long)sexp_context_gc_count(ctx);
    switch (kind) {
    case 'K': case 'H':
      x = sexp_make_vector(ctx, SEXP_ONE, SEXP_FALSE);
      if (sexp_exceptionp(x)) return 0;
      record(x); sexp_vector_set(x, SEXP_ZERO, sexp_make_fixnum(nids)); set_slot(a[0], x);
      break;
    case 'C':
      x = sexp_cons(ctx, slot(a[1]), slot(a[2]));
      if (sexp_exceptionp(x)) return 0;
      record(x); set_slot(a[0], x);
      break;
    case 'E':
      x = sexp_make_ephemeron(ctx, slot(a[1]), slot(a[2]));
      if (sexp_exceptionp(x)) return 0;
      record(x); set_slot(a[0], x);
      break;
    case 'S':
      if (sexp_vectorp(slot(a[0])) && sexp_vector_length(slot(a[0])) > 0) sexp_vector_set(slot(a[0]), SEXP_ZERO, slot(a[1]));
      break;
    case 'B':
      x = sexp_make_vector(ctx, sexp_make_fixnum(na > 1 && a[1] > 0 ? a[1] : 1), SEXP_FALSE);
      if (sexp_exceptionp(x)) return 0;
      record(x); set_slot(a[0], x);
      break;
    case 'Z':   /* fill the low holes: allocate rooted pairs until 8 consecutive allocations are address-adjacent */
      for (run = 0, last = 0, k = 0; run < 8 && k < 100000; k++) {
        x = sexp_cons(ctx, SEXP_FALSE, sexp_vector_ref(FILL, SEXP_ZERO));
        if (sexp_exceptionp(x)) return 0;
        sexp_vector_set(FILL, SEXP_ZERO, x);
        locate(x, &off);
        run = (off == last + sexp_heap_align(sexp_sizeof(pair))) ? run + 1 : 0;
        last = off;
      }
      break;
    case 'W':
      for (k = 0; k < a[0]; k++) { x = sexp_cons(ctx, SEXP_FALSE, SEXP_FALSE); if (sexp_exceptionp(x)) return 0; }
      break;
    case 'D': set_slot(a[0], SEXP_FALSE); break;
    case 'G': sexp_gc(ctx, NULL); break;
    default: return 0;
    }
    if ((unsigned long)sexp_context_gc_count(ctx) != gc0)      /* a collection ran (explicit or inside sexp_alloc) */
      audit_failures += audit(hist, opno);
  }
  return 1;
}

int main (int argc, char **argv) {
  static char line[1 << 20]; long n = 0, id; char *sp; int ok; unsigned long g0;
  unsigned long size = argc > 1 ? strtoul(argv[1], NULL, 0) : (1UL << 18);
  ctx = sexp_make_context(NULL, size, 0);
  if (!ctx || sexp_exceptionp(ctx)) { fprintf(stderr, "no context\n"); return 2; }
  R = sexp_make_vector(ctx, sexp_make_fixnum(MAXSLOTS), SEXP_FALSE); sexp_preserve_object(ctx, R);
  FILL = sexp_make_vector(ctx, SEXP_ONE, SEXP_NULL); sexp_preserve_object(ctx, FILL);
  while (fgets(line, sizeof line, stdin)) {
    line[strcspn(line, "\n")] = 0;
    if (!line[0]) continue;
    sp = strchr(line, ' ');
    if (!sp) continue;
    g0 = (unsigned long)sexp_context_gc_count(ctx);
    ok = run_history(n, sp + 1);
    printf("A %ld ", n);
    for (id = 1; id <= nids && id < MAXIDS; id++) printf("%s%ld:%d:%lu", id > 1 ? "," : "", id, addr_heap[id], addr_off[id]);
    printf("\nH %ld %s gcs=%lu-%lu\n", n, ok ? "ok" : "ERROR", g0, (unsigned long)sexp_context_gc_count(ctx) - 1);
    fflush(stdout);
    n++;
  }
  printf("DONE audit_failures=%lu\n", audit_failures);
  return 0;
}
