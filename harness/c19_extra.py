"""C19 extra -- K-outer round-trip / totality coverage for codec entry points that props/C19.py does not model.

    from harness import c19_extra
    still_open = c19_extra.check_extra(ctx, d)      # d = scratch build directory; returns list[str]

Everything runs on the real binary through vlib.scm.run_cases (one chibi process per library); the oracle is
Python (str.encode / int.to_bytes / a direct transcription of the documented behaviour), never a Gallina model.
All expressions of one library go through ONE chibi process (class Batch); the quick tier is ~2800 expressions, 8-9 s.
Every case is counted with ctx.count(1, key=..., nontrivial=True); every disagreement is a ctx.violation with a
NARROW signature (library:aspect:input-class) and a paste-able replay.  At most MAX_PER_SIG violations are
recorded per signature (the total per signature is in the closing note).  Generation depends on ctx.rng only.

What is asserted
----------------
1. (scheme bytevector)  [lib/scheme/bytevector.sld, lib/scheme/bytevector.stub]
   * string->utf16 / string->utf32, endianness big, little and default (= big): the bytes equal Python's
     s.encode('utf-16-be' | 'utf-16-le' | 'utf-32-be' | 'utf-32-le')             sig  utfN:encode:<class>
   * (utfN->string (string->utfN s e) e) = s, also with endianness-mandatory? = #t   sig  utfN:roundtrip:<class>
     classes: empty, ascii, latin1, bmp (0x100..0xFFFF incl. 0xD7FF 0xE000 0xFFFD 0xFFFF), astral (0x10000..0x10FFFF),
     leading-bom-char (string starts with U+FEFF / U+FFFE: only asserted with endianness-mandatory? #t, because
     R6RS makes the non-mandatory decoder eat a leading BOM)
   * R6RS BOM rule of the decoders: without endianness-mandatory? a leading BOM (FE FF / FF FE, 00 00 FE FF /
     FF FE 00 00) selects the byte order, overrides the endianness argument and is dropped; with
     endianness-mandatory? #t the argument decides and the BOM stays as a character.  BOM-only input -> "".
                                                                                   sig  utfN:bom:<be|le>-bom:arg-<..>
   * uint-list->bytevector / bytevector->uint-list / sint-list->bytevector / bytevector->sint-list for sizes
     1 2 3 4 8 (16 in the thorough tier), both endiannesses, boundary values: bytes = int.to_bytes, list = int.from_bytes,
     both round trips; bytevector->u8-list / u8-list->bytevector likewise        sig  uint-list:* sint-list:* u8-list:*
   * hostile: odd lengths, lone / reversed / truncated surrogates, UTF-32 units > 0x10FFFF and in the surrogate range,
     BOM only, random bytes; out-of-range list elements, size 0 / negative, length not a multiple of size:
     a value or a Scheme error, never CRASH / TIMEOUT                              sig  bytevector:hostile-crash
2. (chibi uri) record API  [lib/chibi/uri.scm]
   * (uri->string (string->uri s)) = s (scheme lower-cased) for generated well-formed URIs
     scheme ":" ["//" [user "@"] host [":" port]] path ["?" query] ["#" fragment], empty components included
                              sig  uri:roundtrip:<basic|userinfo|ipv6-host|port-then-empty-path|http-no-authority|empty-port>
   * the seven components of the parsed record equal the generated ones where the permissive parser is
     unambiguous (non-empty path, or neither query nor fragment; no "?" inside the fragment)  sig  uri:components:<class>
   * make-uri (all arities) / uri-with-{scheme,user,host,path,query,fragment}: uri->string equals the Python
     composition, an updater changes exactly its field                       sig  uri:make-uri  uri:uri-with-<field>
   * string->path-uri with default scheme and the decode? / decode-query? flags     sig  uri:string->path-uri
   * (uri->string (string->uri s #t) #t) = s for s whose escapes are canonical        sig  uri:roundtrip:decode-encode
   * (uri-query->alist (uri-alist->query al p) p) = al, p = #f and #t, keys/values over ASCII (incl. & = + % ; space,
     controls) and Latin-1 (nothing >= U+0100: known finding F-C19-1); for pure ASCII alists the query text is also compared with a Python
     transcription of uri-encode.  Entries with value #f ("key" without "=") are generated too
                           sig  uri:query-alist:<roundtrip|text|valueless-key-not-last>
   * uri-resolve on the RFC 3986 5.4 cases that need no dot-segment removal               sig  uri:resolve
   * hostile strings through string->uri (no flag, decode, decode + query alist) and uri-resolve: a uri, #f, a string
     or a Scheme error, never CRASH / TIMEOUT                                              sig  uri:hostile-crash
3. (chibi json) make-json-reader  [lib/chibi/json.scm]
   specs: a record type; (rtd (field . spec) ...) with nested record, predicate and #(rtd); aliasing with strict?;
   #(predicate); #() -- the text is produced by json->string from a generated matching value, the reader must
   return a record whose fields are the generated ones (omitted fields: anything), unknown fields are ignored
   unless strict? (then: error)                       sig  json-reader:<spec>  json-reader:strict  json-reader:mismatch-accepted
   hostile texts (truncated, wrong shape, deep nesting, bad escapes): value or ERR        sig  json-reader:hostile-crash
   plus one json->string / string->json case met on the way: the most negative fixnum is written exactly and must be
   read back exactly                                                                      sig  json:roundtrip:min-fixnum
4. (chibi mime)  [lib/chibi/mime.scm]  with (chibi base64) / (chibi quoted-printable)
   * mime-decode-header o base64-encode-header / quoted-printable-encode-header = id for generated UTF-8 text,
     bare and embedded in "Subject: ... tail", asserted when the encoder produced ONE encoded word (no line fold)
                                          sig  mime:decode-header:<arity-error|raises|roundtrip>:<b64|qp>
     Folded multi-word output is only required to give a value or ERR: the decoder keeps the "\\r\\n\\t" between
     adjacent encoded words (RFC 2047 6.2 says drop it) and the Q encoder folds inside a multi-byte character,
     so neither text nor even valid UTF-8 can be expected back.
   * mime-message->sxml on a single part message with Content-Transfer-Encoding base64 / quoted-printable whose
     body came from base64-encode-string / quoted-printable-encode-string (text/plain -> string,
     application/octet-stream -> bytevector), source = string and source = binary port, plain and wrapped in a
     one-part multipart/mixed: the body equals the original         sig  mime:message:<cte>:<text|binary>:<string|port>[:multipart]
   * hostile messages (truncated base64, trailing "=", missing / never closed / empty boundary, huge header line,
     no header, random mutations): value or ERR                                             sig  mime:hostile-crash
"""
import base64 as pyb64
import os
from vlib import scm

MAX_PER_SIG = 3

# Round 4 triage (lead's hygiene item): there is no private table of "known" signatures any more.  What the library does BY DESIGN is
# predicted exactly by the oracle (so a change of that behaviour is still noticed); what is a defect has a fix patch:
#   uri:roundtrip:http-no-authority  uri->string writes an http / https uri without host as a relative reference (the part after
#                                    "scheme:"), lib/chibi/uri.scm:199-201: by design -> the oracle expects exactly that string
#   uri:roundtrip:empty-port         "host:" (empty port) is normalised away (RFC 3986 6.2.3), uri.scm:162-164 -> the oracle expects s without the ':'
#   uri:roundtrip:decode-encode      uri->string with encode? #t escaped the '/' separators of the path ("http://h/a/b" -> "http://h%2fa%2fb", a
#                                    different URI: host "h%2fa%2fb", no path): DEFECT against "encoders emit only text the format allows / decoding
#                                    the encoding returns the value", repaired by fixes/C19-uri-encode-path-segments.patch; the oracle expects the
#                                    segment-wise escaping (non-canonical escapes such as %7e / %2f inside a segment are normalised by decode? -> expected so)
KNOWN_ON_PINNED = {}

# json:roundtrip:min-fixnum was listed above until round 4: repaired by fixes/C19-json-read-min-fixnum.patch, now a VIOLATION when it fails.
# repaired by fixes/C19-*.patch of round 3 (a reappearance is a VIOLATION):
FIXED_IN_ROUND3 = {
    "utf16:roundtrip:astral": "utf16->string truncates a decoded surrogate pair to 16 bits (U+10000 -> U+0000): `uint16_t ch` holds 0x10000 + ...; lib/scheme/bytevector.stub:213 (assignments :231 :245)",
    "utf16:bom:le-bom": "utf16->string: a BOM that reads as 0xFEFF in native order sets start=2 but leaves swap as derived from the endianness argument, so FF FE + little-endian data is decoded big-endian unless the argument is 'little; lib/scheme/bytevector.stub:222-223",
    "utf32:bom:le-bom": "utf32->string: same as utf16 for FF FE 00 00; lib/scheme/bytevector.stub:267-268",
    "uri:roundtrip:userinfo": "string->uri: string-find-right returns the cursor AFTER the '@', the code uses it as the position OF the '@': user = \"user@\", host loses its first character; lib/chibi/uri.scm:138 and :153-158",
    "uri:roundtrip:ipv6-host": "string->uri: the port colon is searched from the start of the host, so an IP-literal [::1] is cut at its first ':'; lib/chibi/uri.scm:139-144",
    "uri:roundtrip:port-then-empty-path": "string->uri: the authority is taken to end at the first '/', not at the first of / ? #; with a port and an empty path the ?query#fragment lands in string->number and is lost; lib/chibi/uri.scm:137 and :162-164",
    "uri:query-alist:valueless-key-not-last": "uri-query->alist compares the position of '=' with the end of the STRING instead of the end of the current pair: \"a&b=c\" raises bad index range; lib/chibi/uri.scm:317",
    "mime:decode-header:arity-error": "mime-decode-header calls (string-cursor-back end 8) and (string-cursor-forward k 2) without the string argument: EVERY call raises \"not enough args\"; lib/chibi/mime.scm:220 and :248 (then :249 hands a string to ces-convert -> utf8->string, :96-99)",
    "mime:message:base64:text:port": "mime-convert-part calls base64-decode-string on the bytevector read from a binary port for text/* parts: \"invalid type, expected String\"; lib/chibi/mime.scm:343-344",
}

PRE = r"""
(define (hexval c) (let ((i (char->integer c))) (if (< i 58) (- i 48) (- i 87))))
(define (hx s)
  (if (equal? s "_") (bytevector)
      (let ((in (open-input-string s)) (out (open-output-bytevector)))
        (let lp ()
          (let ((a (read-char in)))
            (if (eof-object? a) (get-output-bytevector out)
                (let ((b (read-char in)))
                  (write-u8 (+ (* 16 (hexval a)) (hexval b)) out)
                  (lp))))))))
(define hexdigits "0123456789abcdef")
(define (xh bv)
  (cond ((not (bytevector? bv)) 'not-a-bytevector)
        ((zero? (bytevector-length bv)) '_)
        (else
         (let ((n (bytevector-length bv)) (out (open-output-string)))
           (write-char #\x out)
           (do ((i 0 (+ i 1))) ((= i n) (string->symbol (get-output-string out)))
             (let ((b (bytevector-u8-ref bv i)))
               (write-char (string-ref hexdigits (quotient b 16)) out)
               (write-char (string-ref hexdigits (remainder b 16)) out)))))))
(define (cps . l) (list->string (map integer->char l)))
(define (sx s) (cond ((string? s) (xh (string->utf8 s))) ((bytevector? s) (xh s)) (else s)))
(define-syntax try
  (syntax-rules () ((_ e) (guard (x (#t (list 'ERR (if (and (error-object? x) (string? (error-object-message x))) (error-object-message x) "?")))) e))))
"""

PRE_URI = r"""
(define (uparts u) (if (uri? u) (list (uri-scheme u) (uri-user u) (uri-host u) (uri-port u) (uri-path u) (uri-query u) (uri-fragment u)) (list 'not-a-uri u)))
(define (qshow al) (if (list? al) (map (lambda (p) (if (pair? p) (cons (sx (car p)) (sx (cdr p))) p)) al) al))
(define (ukind u) (cond ((uri? u) (let ((s (try (uri->string u)))) (if (string? s) 'uri s))) ((string? u) 'string) (else u)))
"""

PRE_JSON = r"""
(define-record-type Employee (make-employee name id title) employee? (name employee-name) (id employee-id) (title employee-title))
(define-record-type Team (make-team name lead devs) team? (name team-name) (lead team-lead) (devs team-devs))
(define (fld v) (cond ((string? v) (sx v)) ((and (number? v) (exact? v)) v) ((boolean? v) v) ((eq? v 'null) v) (else '?)))
(define (emp e) (if (employee? e) (list 'E (fld (employee-name e)) (fld (employee-id e)) (fld (employee-title e))) (if (vector? e) 'vec (if (pair? e) 'alist '?))))
(define (team t) (if (team? t) (list 'T (fld (team-name t)) (emp (team-lead t)) (let ((d (team-devs t))) (if (vector? d) (vector-map emp d) '?))) 'not-team))
(define read-emp (make-json-reader Employee))
(define read-emp-strict (make-json-reader Employee #t))
(define read-team (make-json-reader (list Team (cons 'lead Employee) (cons 'name string?) (cons 'devs (vector Employee)))))
(define read-alias (make-json-reader (list Employee (cons 'nm 'name) (cons 'ident 'id)) #t))
(define read-ints (make-json-reader (vector (lambda (x) (and (exact? x) (integer? x))))))
(define read-anyvec (make-json-reader (vector)))
(define (rd r s) (r (open-input-string s)))
(define (rdv r v) (r (open-input-string (json->string v))))
(define (vshow v) (if (vector? v) (vector-map fld v) 'not-a-vector))
"""

PRE_MIME = r"""
(define (body x) (if (and (pair? x) (eq? (car x) 'mime)) (let ((l (car (reverse x)))) (if (and (pair? l) (eq? (car l) 'mime)) (body l) (if (and (pair? l) (eq? (car l) '@)) 'no-body (sx l)))) 'not-sxml))
(define (crlf . l) (let lp ((l l) (acc "")) (if (null? l) acc (lp (cdr l) (string-append acc (car l) "\r\n")))))
(define (msg ctype cte b) (string-append (crlf (string-append "Content-Type: " ctype) (string-append "Content-Transfer-Encoding: " cte) "") b))
(define (mpmsg ctype cte b) (string-append (crlf "Content-Type: multipart/mixed; boundary=\"XyZ\"" "" "preamble" "--XyZ" (string-append "Content-Type: " ctype) (string-append "Content-Transfer-Encoding: " cte) "") b (crlf "" "--XyZ--" "epilogue")))
(define (src port? s) (if port? (open-input-bytevector (string->utf8 s)) s))
(define (kind x) (cond ((pair? x) 'sxml) ((string? x) 'string) (else x)))
"""

LIB_BV = "(scheme bytevector)"
LIB_URI = "(chibi uri)"
LIB_JSON = "(chibi json)"
LIB_MIME = "(chibi mime) (chibi base64) (chibi quoted-printable)"


def bad(i):
    return i is None or i.startswith("CRASH") or i == "TIMEOUT"


def hexs(bs):
    return bs.hex() if bs else "_"


def xs(bs):
    return "x" + bs.hex() if bs else "_"


def cpl(cps):
    return ",".join("%x" % c for c in cps) if cps else "_"


def sstr(s):
    """a Scheme expression for the string s: a literal when that is unambiguous, (cps ...) otherwise"""
    if all(0x20 <= ord(c) <= 0x7e and c not in '"\\' for c in s):
        return '"%s"' % s
    return "(cps %s)" % " ".join(str(ord(c)) for c in s)


def swrite(s):
    """how `write` shows an ASCII string without quote / backslash"""
    return '"%s"' % s


def one_line(p):
    return " ".join(l.strip() for l in p.split("\n") if l.strip())


def replay(libs, expr, *preludes):
    text = "(import (scheme base) (scheme write) %s) %s (write %s)" % (libs, " ".join(one_line(p) for p in preludes), expr)
    if len(text) > 6000:
        text = text[:6000] + " ...[cut]"
    return "echo '%s' | chibi-scheme /dev/stdin" % text.replace("'", "'\\''")


class Reporter:
    def __init__(self, ctx):
        self.ctx, self.per_sig, self.cases, self.pending = ctx, {}, {}, {}
        self.strict = os.environ.get("C19_EXTRA_STRICT") == "1"

    def count(self, lib, key):
        self.cases[lib] = self.cases.get(lib, 0) + 1
        self.ctx.count(1, key=(lib,) + tuple(key), nontrivial=True)

    def violation(self, sig, **kw):
        self.per_sig[sig] = self.per_sig.get(sig, 0) + 1
        if not self.strict and any(sig.startswith(p) for p in KNOWN_ON_PINNED):
            self.pending.setdefault(sig, kw)
            return
        if self.per_sig[sig] <= MAX_PER_SIG:
            for k in ("input", "expected", "observed"):
                if isinstance(kw.get(k), str) and len(kw[k]) > 1500:
                    kw[k] = kw[k][:1500] + "...[cut]"
            self.ctx.violation(sig, **kw)


class Batch:
    """collects (expressions, result processor) pairs of one library and evaluates them in ONE chibi process"""
    def __init__(self):
        self.parts = []

    def add(self, exprs, proc):
        self.parts.append((list(exprs), proc))

    def flush(self, d, libs, *preludes, timeout=120):
        exprs = [e for ex, _ in self.parts for e in ex]
        io = scm.run_cases(d, exprs, prelude_extra="\n".join(preludes), imports="(import %s)" % libs, timeout=timeout, chunk=1000)
        k = 0
        for ex, proc in self.parts:
            proc(io[k:k + len(ex)])
            k += len(ex)
        self.parts = []


# ------------------------------------------------------------------------------------------ (scheme bytevector)
def _leading_bom(cps):
    return bool(cps) and cps[0] in (0xfeff, 0xfffe)


def _cls(cps):
    if not cps:
        return "empty"
    m = max(cps)
    return "astral" if m >= 0x10000 else "leading-bom-char" if _leading_bom(cps) else "bmp" if m >= 0x100 else "latin1" if m >= 0x80 else "ascii"


def bvlit(bs):
    return "(bytevector%s)" % "".join(" %d" % b for b in bs)


def strlit_cps(cps):
    return "(list->string (map integer->char (list%s)))" % "".join(" %d" % c for c in cps)


def _codec(n, little):
    return "utf-%d-%s" % (n, "le" if little else "be")


CP_EDGE = [0x41, 0x7f, 0x80, 0xff, 0x100, 0x7ff, 0x800, 0xd7ff, 0xe000, 0xfffd, 0xffff, 0x10000, 0x10ffff, 0x1f600, 0xfeff, 0xfffe, 0x1, 0x20ac, 0xffff0 >> 4, 0x103ff, 0x10400, 0xfffff, 0x100000]


def _gen_cps(rng):
    k = rng.random()
    n = rng.choice([1, 2, 3, 5, 9, 17])
    if k < 0.2:
        return [rng.randrange(0x20, 0x7f) for _ in range(n)]
    if k < 0.35:
        return [rng.randrange(0x20, 0x100) for _ in range(n)]
    if k < 0.55:
        return [rng.choice([rng.randrange(0x100, 0xd800), rng.randrange(0xe000, 0x10000)]) for _ in range(n)]
    if k < 0.75:
        return [rng.randrange(0x10000, 0x110000) for _ in range(n)]
    return [rng.choice(CP_EDGE) if rng.random() < 0.6 else rng.randrange(0x20, 0x7f) for _ in range(n)]


def check_bytevector(ctx, d, rep):
    rng, batch, cases = ctx.rng, Batch(), None
    strs = [[]] + [[c] for c in CP_EDGE] + [[0x41, 0x10000, 0x42], [0xd7ff, 0xe000], [0xffff, 0x10000], [0x10ffff, 0x10ffff], [0x41, 0xfeff], [0x10000] * 5,
                                            [0xfeff, 0x41], [0xfffe, 0x41], [0xfeff, 0x4e2d, 0xfeff], list(range(0x20, 0x7f)), [0xe9, 0x4e2d, 0x1f600, 0x7a]]
    for _ in range(24 if not ctx.thorough else 3000):
        strs.append(_gen_cps(rng))
    cases, exprs = [], []
    for cps in strs:
        py = "".join(map(chr, cps))
        for n in (16, 32):
            for e in (None, "big", "little"):
                for mand in (False, True):
                    if _leading_bom(cps) and not mand:
                        continue
                    if mand and not _leading_bom(cps) and rng.random() < (0.5 if _cls(cps) in ("astral", "bmp") else 0.8):
                        continue
                    ea = "" if e is None else " '" + e
                    da = (" '" + (e or "big") + " #t") if mand else ea
                    exprs.append("(let* ((s (cps %s)) (b (string->utf%d s%s)) (r (utf%d->string b%s))) (list (xh b) (sx r)))" % (" ".join(map(str, cps)), n, ea, n, da))
                    cases.append((n, cps, e, mand, py.encode(_codec(n, e == "little"))))
    def proc(io, cases=cases, exprs=exprs):
        for (n, cps, e, mand, enc), ex, i in zip(cases, exprs, io):
            rep.count("bytevector", ("utf", n, tuple(cps), e, mand))
            want = "(%s %s)" % (xs(enc), xs("".join(map(chr, cps)).encode("utf-8")))
            if i == want:
                continue
            cls = _cls(cps)
            ea = "" if e is None else " '" + e
            rp = replay(LIB_BV, "(let* ((s %s) (b (string->utf%d s%s))) (list b (map char->integer (string->list (utf%d->string b%s)))))"
                        % (strlit_cps(cps), n, ea, n, (" '" + (e or "big") + " #t") if mand else ea))
            if bad(i) or i.startswith("ERR"):
                rep.violation("utf%d:roundtrip:%s:%s" % (n, "crash" if bad(i) else "raises", cls), input=cpl(cps), endianness=e or "default", expected=want, observed=i, replay=rp)
            elif i.split(" ")[0] != "(" + xs(enc):
                rep.violation("utf%d:encode:%s" % (n, cls), input=cpl(cps), endianness=e or "default", expected=want, observed=i, replay=rp,
                              why="string->utf%d differs from Python's %s" % (n, _codec(n, e == "little")))
            else:
                rep.violation("utf%d:roundtrip:%s" % (n, cls), input=cpl(cps), endianness=e or "default", expected=want, observed=i, replay=rp,
                              why="the encoder is right (= Python), (utf%d->string (string->utf%d s e) e) is not s" % (n, n))
        ctx.sample(dict(kind="utf16-roundtrip", expr=exprs[40][:200], impl=io[40]))
    batch.add(exprs, proc)

    # R6RS BOM rule of the decoders
    cases, exprs = [], []
    payloads = ["", "A", "A\u00e9\u4e2d\ufffd"]
    for n in (16, 32):
        for bom_little in (False, True):
            for pl in payloads:
                data = "\ufeff".encode(_codec(n, bom_little)) + pl.encode(_codec(n, bom_little))
                for args, arg_little, mand in (("", False, False), (" 'big", False, False), (" 'little", True, False), (" 'big #f", False, False), (" 'little #f", True, False),
                                               (" 'big #t", False, True), (" 'little #t", True, True)):
                    if mand and n == 32 and arg_little != bom_little:
                        continue                              # the swapped BOM is the unit 0xFFFE0000: not a code point (hostile stream)
                    want = data.decode(_codec(n, arg_little), "surrogatepass") if mand else pl
                    exprs.append('(sx (utf%d->string (hx "%s")%s))' % (n, hexs(data), args))
                    cases.append((n, bom_little, pl, args, mand, want, data))
    def proc(io, cases=cases, exprs=exprs):
        for (n, bl, pl, args, mand, want, data), ex, i in zip(cases, exprs, io):
            rep.count("bytevector", ("bom", n, bl, pl, args))
            w = xs(want.encode("utf-8", "surrogatepass"))
            if i != w:
                sig = "utf%d:bom%s:%s-bom:arg-%s" % (n, "-mandatory" if mand else "", "le" if bl else "be", args.strip().replace("'", "").replace(" ", "-").replace("#", "") or "default")
                rep.violation(sig, input=ex, expected=w, observed=i, replay=replay(LIB_BV, "(map char->integer (string->list (utf%d->string %s%s)))" % (n, bvlit(data), args)),
                              expected_code_points=[ord(c) for c in want], why="R6RS: without endianness-mandatory? a BOM decides the byte order and is dropped; with it the argument decides and the BOM stays")
    batch.add(exprs, proc)

    # integer lists
    cases, exprs = [], []
    sizes = [1, 2, 3, 4, 8] + ([16, 5] if ctx.thorough else [])
    for k in sizes:
        top = 1 << (8 * k)
        uvals = [0, 1, top // 2 - 1, top // 2, top - 1, top - 2, 0x80, 0xff % top, 0x0102030405060708090a0b0c0d0e0f10 % top]
        svals = [-(top // 2), -(top // 2) + 1, -1, 0, 1, top // 2 - 1, top // 2 - 2, -0x80 if k > 1 else -0x7f, 0x0102030405060708090a0b0c0d0e0f10 % (top // 2)]
        for e in ("big", "little"):
            for signed, vals in ((False, uvals), (True, svals)):
                nm = "sint" if signed else "uint"
                lists = [[], vals] + [[v] for v in vals[:5]] + [[(rng.randrange(-(top // 2), top // 2) if signed else rng.randrange(top)) for _ in range(rng.randrange(1, 6))] for _ in range(3 if not ctx.thorough else 40)]
                for l in lists:
                    bs = b"".join(v.to_bytes(k, e, signed=signed) for v in l)
                    exprs.append("(let* ((l (list %s)) (b (%s-list->bytevector l '%s %d)) (r (bytevector->%s-list b '%s %d))) (list (xh b) r))" % (" ".join(map(str, l)), nm, e, k, nm, e, k))
                    cases.append((nm, "list->bytevector->list", k, e, l, "(%s (%s))" % (xs(bs), " ".join(map(str, l))) if l else "(_ ())"))
                for _ in range(2 if not ctx.thorough else 20):
                    bs = bytes(rng.choice([0, 0x7f, 0x80, 0xff, rng.getrandbits(8)]) for _ in range(k * rng.randrange(1, 5)))
                    l = [int.from_bytes(bs[j:j + k], e, signed=signed) for j in range(0, len(bs), k)]
                    exprs.append('(let* ((b (hx "%s")) (l (bytevector->%s-list b \'%s %d)) (r (%s-list->bytevector l \'%s %d))) (list l (xh r)))' % (hexs(bs), nm, e, k, nm, e, k))
                    cases.append((nm, "bytevector->list->bytevector", k, e, bs.hex(), "((%s) %s)" % (" ".join(map(str, l)), xs(bs))))
    for bs in [b"", b"\x00", b"\xff\x00\x80\x7f", bytes(range(256))] + [bytes(rng.getrandbits(8) for _ in range(rng.randrange(1, 40))) for _ in range(6)]:
        exprs.append('(let* ((b (hx "%s")) (l (bytevector->u8-list b)) (r (u8-list->bytevector l))) (list l (xh r)))' % hexs(bs))
        cases.append(("u8", "bytevector->list->bytevector", 1, "-", bs.hex(), "((%s) %s)" % (" ".join(map(str, bs)), xs(bs)) if bs else "(() _)"))
    def proc(io, cases=cases, exprs=exprs):
        for (nm, dirn, k, e, inp, want), ex, i in zip(cases, exprs, io):
            rep.count("bytevector", ("intlist", nm, dirn, k, e, str(inp)))
            if i != want:
                rep.violation("%s-list:%s:size-%d" % (nm, dirn, k), input=str(inp), endianness=e, expected=want, observed=i, replay=replay(LIB_BV, ex, PRE))
        ctx.sample(dict(kind="uint-list", expr=exprs[5][:200], impl=io[5]))
    batch.add(exprs, proc)

    # hostile
    H16 = [b"\x41", b"\x00\x41\x00", b"\xd8\x00", b"\xdc\x00", b"\xd8\x00\x00\x41", b"\xdc\x00\xd8\x00", b"\xd8\x00\xdc", b"\xd8\x00\xd8\x00\xdc\x00", b"\xdb\xff\xdf\xff\xdf", b"\xfe\xff", b"\xff\xfe",
           b"\xfe\xff\xd8\x00", b"\xff\xfe\x00\xd8", b"\xff", b"\xfe", b"\xff\xff\xff\xff", b"\xff\xfe\xff\xfe", b"\x00\x00", b"\x00\xd8\x00\xdc", b"\xd8" * 9]
    H32 = [b"\x00", b"\x00\x00\x41", b"\x00\x00\x00\x41\x00", b"\x00\x11\x00\x00", b"\x00\x00\x11\x00", b"\xff\xff\xff\xff", b"\x7f\xff\xff\xff", b"\x80\x00\x00\x00", b"\x00\x00\xd8\x00", b"\x00\x00\xdf\xff",
           b"\x00\x00\xfe\xff", b"\xff\xfe\x00\x00", b"\x00\x00\xfe", b"\xff\xfe\x00", b"\xff\xfe\x00\x00\x00\x00\x11\x00", b"\x00\x00\xfe\xff\xff\xff\xff\xff", b"\x00\x20\x00\x00", b"\x00\x00\x00\x00",
           b"\x00\x00\x11\x00" * 5, b"\xff" * 7]
    for _ in range(30 if not ctx.thorough else 1500):
        (H16 if rng.random() < 0.5 else H32).append(bytes(rng.choice([0, 0, 0xd8, 0xdc, 0xdb, 0xdf, 0xfe, 0xff, 0x10, 0x11, 0x41, rng.getrandbits(8)]) for _ in range(rng.randrange(0, 14))))
    exprs = []
    for n, hs in ((16, H16), (32, H32)):
        for bs in hs:
            allargs = ("", " 'little", " 'big #t", " 'little #t")
            for args in (allargs if ctx.thorough or len(bs) < 3 else rng.sample(allargs, 2)):
                exprs.append('(sx (utf%d->string (hx "%s")%s))' % (n, hexs(bs), args))
    for k in (1, 2, 3, 8):
        top = 1 << (8 * k)
        for e in ("big", "little"):
            exprs += ["(xh (uint-list->bytevector (list %d) '%s %d))" % (v, e, k) for v in (top, top + 1, -1, -top, top * top)]
            exprs += ["(xh (sint-list->bytevector (list %d) '%s %d))" % (v, e, k) for v in (top // 2, -(top // 2) - 1, top, -top)]
    exprs += ["(xh (uint-list->bytevector (list 1 2) 'big 0))", "(xh (uint-list->bytevector (list 1 2) 'big -1))", "(xh (sint-list->bytevector (list 1) 'little 0))", "(bytevector->uint-list (bytevector 1 2 3) 'big 2)",
              "(bytevector->sint-list (bytevector 1 2 3) 'little 2)", "(bytevector->uint-list (bytevector 1 2 3) 'big 0)", "(bytevector->uint-list (bytevector 1 2 3) 'big -1)", "(bytevector->uint-list (bytevector) 'big 4)",
              "(bytevector->uint-list (bytevector 1 2) 'middle 2)", "(xh (uint-list->bytevector (list 1 2) 'middle 2))", "(xh (uint-list->bytevector 5 'big 2))", "(xh (uint-list->bytevector (list 1.5) 'big 2))",
              "(xh (uint-list->bytevector (list 'a) 'big 2))", "(xh (u8-list->bytevector (list 256)))", "(xh (u8-list->bytevector (list -1)))", "(xh (u8-list->bytevector 7))", "(bytevector->u8-list \"abc\")",
              "(bytevector->uint-list (bytevector 1 2 3 4) 'big 100)", "(xh (uint-list->bytevector (list 1) 'big 100))", "(sx (utf16->string \"abc\"))", "(xh (string->utf16 (bytevector 1 2)))",
              "(sx (utf16->string (bytevector 0 65) 'middle))", "(xh (string->utf32 \"abc\" 'middle))", "(xh (string->utf16 \"abc\" 5))"]
    def proc(io, cases=cases, exprs=exprs):
        for ex, i in zip(exprs, io):
            rep.count("bytevector", ("hostile", ex))
            if bad(i):
                rep.violation("bytevector:hostile-crash", input=ex, expected="a value or a Scheme error", observed=i, replay=replay(LIB_BV, ex, PRE))
    batch.add(exprs, proc)
    batch.flush(d, LIB_BV, PRE)


# ------------------------------------------------------------------------------------------ (chibi uri)
URI_SAFE = set("abcdefghijklmnopqrstuvwxyzABCDEFGHIJKLMNOPQRSTUVWXYZ0123456789-_.!~*'()")


def py_uri_encode(s, plus):
    """transcription of uri-encode (lib/chibi/uri.scm) for ASCII strings"""
    out = []
    for c in s:
        if c in URI_SAFE:
            out.append(c)
        elif plus and c == " ":
            out.append("+")
        else:
            out.append("%%%02x" % ord(c))
    return "".join(out)


def py_alist_query(al, plus):
    return "&".join(py_uri_encode(k, plus) + ("" if v is None else "=" + py_uri_encode(v, plus)) for k, v in al)


def compose_uri(scheme, user, host, port, path, query, fragment):
    """what uri->string documents: scheme ":" ["//" [user "@"] host [":" port]] path ["?" query] ["#" fragment]"""
    s = "" if (host is None and scheme in ("http", "https")) else scheme + ":"
    if user is not None or host is not None or port is not None:
        s += "//"
    if user is not None:
        s += user + "@"
    s += host or ""
    if port is not None:
        s += ":%d" % port
    s += path or ""
    if query is not None:
        s += "?" + query
    if fragment is not None:
        s += "#" + fragment
    return s


def wr(v):
    """`write` form of a component: #f, an integer, a symbol or an ASCII string"""
    if v is None:
        return "#f"
    if isinstance(v, int):
        return str(v)
    return swrite(v)


def wparts(p):
    return "(%s %s)" % (p[0], " ".join(wr(v) for v in p[1:]))


SCHEMES = ["http", "https", "ftp", "file", "x", "a+b-c.d", "z39.50r", "ws", "HTTP", "Ftp"]
USERS = [None, None, None, "user", "u:pw", "a.b-c_d", "", "u%40v"]
HOSTS = ["host", "example.com", "a-b.c.d", "127.0.0.1", "localhost", "h", "xn--bcher-kva.example", "H.Example.ORG"]
PORTS = [None, None, None, 0, 1, 80, 8080, 65535, 443]
PATHS = ["", "/", "/a", "/a/b/c", "/a%20b/c", "/a;p=1/b", "/a:b@c", "/~u/(x)/*!'", "//double", "/a/", "/a.b/c-d_e", "/%7e/%41", "/a+b,c$d&e=f"]
QUERIES = [None, None, "", "q", "a=b", "a=b&c=d", "a=%26&b=%3d", "x?y/z:@", "a=b;c=d", "a+b=c+d", "&&", "=", "a=b=c"]
FRAGS = [None, None, "", "frag", "a/b", "sec-1.2", "%23", "a=b&c", "!$'()*+,;"]


def gen_uri(rng):
    return (rng.choice(SCHEMES), rng.choice(USERS), rng.choice(HOSTS), rng.choice(PORTS), rng.choice(PATHS), rng.choice(QUERIES), rng.choice(FRAGS))


def check_uri(ctx, d, rep):
    rng, batch, cases = ctx.rng, Batch(), None
    L, P = LIB_URI, (PRE, PRE_URI)
    comps = [("http", None, "host", None, "", None, None), ("http", None, "host", None, "/", None, None), ("http", "user", "host", 80, "/p/q", "a=b&c", "frag"), ("http", "", "host", None, "/", None, None),
             ("http", "u:p", "host", 8080, "/", "", ""), ("ftp", None, "h", 21, "/a", None, ""), ("http", None, "host", None, "", "q", None), ("http", None, "host", None, "", None, "f"),
             ("http", None, "host", 80, "", "q", "f"), ("file", None, "", None, "/etc/passwd", None, None), ("x", None, "", None, "", None, None), ("http", None, "h", None, "/p", None, "a?b"),
             ("http", None, "[::1]", 80, "/x", None, None), ("http", None, "[2001:db8::7]", None, "/x", "q", None), ("http", "me", "[::1]", None, "/", None, None)]
    for _ in range(60 if not ctx.thorough else 4000):
        comps.append(gen_uri(rng))
    cases, exprs = [], []
    for c in comps:
        s = compose_uri(c[0], *c[1:])                         # generated scheme has an authority: compose_uri keeps the scheme
        cls = "ipv6-host" if c[2].startswith("[") else "userinfo" if c[1] is not None else "port-then-empty-path" if (c[3] is not None and c[4] == "" and (c[5], c[6]) != (None, None)) else "basic"
        cases.append((s, (c[0].lower(),) + c[1:], cls))
    # without authority: scheme ":" path-rootless / path-absolute / empty
    for s, sch, path, q, f in [("mailto:a@b.c", "mailto", "a@b.c", None, None), ("urn:isbn:0-486-27557-4", "urn", "isbn:0-486-27557-4", None, None), ("x:", "x", None, None, None), ("x:/a/b", "x", "/a/b", None, None),
                               ("tel:+1-816-555-1212", "tel", "+1-816-555-1212", None, None), ("news:comp.lang.scheme", "news", "comp.lang.scheme", None, None), ("data:text/plain;base64,aGk=", "data", "text/plain;base64,aGk=", None, None),
                               ("x:a?q#f", "x", None, None, None), ("MAILTO:a@b", "mailto", "a@b", None, None)]:
        cases.append((s, None if (q, f, path) == (None, None, None) and "?" in s else (sch, None, None, None, path, q, f), "basic"))
    want_string = {}
    for s in ("http:foo", "http:/foo/bar", "https:foo?x", "HTTP:foo"):
        cases.append((s, None, "http-no-authority"))
        want_string[s] = s[s.index(":") + 1:]                 # by design: an http(s) uri without host is written as a relative reference
    for s in ("http://host:/x", "ftp://h:/", "http://u@host:/x?q#f"):
        cases.append((s, None, "empty-port"))
        a = s.index("://") + 3
        want_string[s] = s[:a] + s[a:].replace(":/", "/", 1)          # RFC 3986 6.2.3: the empty port is normalised away
    for s, parts, cls in cases:
        exprs.append("(let ((u (string->uri %s))) (if (uri? u) (list (sx (uri->string u)) (uparts u)) (list 'not-a-uri u)))" % sstr(s))
    odd_components = []
    def proc(io, cases=cases, exprs=exprs):
        for (s, parts, cls), ex, i in zip(cases, exprs, io):
            rep.count("uri", ("string->uri", s))
            lower = s if ":" not in s else s[:s.index(":")].lower() + s[s.index(":"):]
            lower = want_string.get(s, lower)
            wstr = xs(lower.encode())
            rp = replay(L, "(let ((u (string->uri %s))) (list (uri->string u) (uri-scheme u) (uri-user u) (uri-host u) (uri-port u) (uri-path u) (uri-query u) (uri-fragment u)))" % sstr(s))
            if bad(i) or i is None or not i.startswith("(" + wstr + " "):
                rep.violation("uri:roundtrip:" + cls, input=s, expected=lower, observed=i, replay=rp, why="(uri->string (string->uri s)) is not s" if s not in want_string else "(uri->string (string->uri s)) is not the documented normalisation of s")
                continue
            if parts is None:
                continue
            unambiguous = (parts[4] not in (None, "") or (parts[5] is None and parts[6] is None)) and "?" not in (parts[6] or "")
            norm = parts[:4] + (parts[4] or None,) + parts[5:]
            want = "(%s %s)" % (wstr, wparts(norm))
            if i != want:
                if unambiguous:
                    rep.violation("uri:components:" + cls, input=s, expected=want, observed=i, replay=rp, why="the string round trip holds but the record components are not the generated ones")
                else:
                    odd_components.append((s, i))
        ctx.sample(dict(kind="uri-roundtrip", expr=exprs[2][:200], impl=io[2]))
    batch.add(exprs, proc)

    # make-uri, uri-with-*, string->path-uri, decode/encode flags, uri-resolve
    cases, exprs = [], []

    def case(sig, expr, want, inp=None):
        cases.append((sig, want, inp or expr)); exprs.append(expr)

    def lit(v):
        return "#f" if v is None else str(v) if isinstance(v, int) else sstr(v)

    for c in comps[:45 if not ctx.thorough else 1500]:
        c = (c[0].lower(),) + c[1:]
        args = [lit(v) for v in c[1:]]
        case("uri:make-uri", "(sx (uri->string (make-uri '|%s| %s)))" % (c[0], " ".join(args)), xs(compose_uri(*c).encode()))
        fld = rng.choice(["scheme", "user", "host", "path", "query", "fragment"])
        idx = ["scheme", "user", "host", "port", "path", "query", "fragment"].index(fld)
        new = {"scheme": "gopher", "user": "newuser", "host": "new.host", "path": "/new/path", "query": "new=1", "fragment": "newfrag"}[fld] if rng.random() < 0.8 or fld == "scheme" else None
        c2 = c[:idx] + (new,) + c[idx + 1:]
        case("uri:uri-with-" + fld, "(uparts (uri-with-%s (make-uri '|%s| %s) %s))" % (fld, c[0], " ".join(args), "'gopher" if fld == "scheme" else lit(new)), wparts(c2))
    for k in range(0, 7):
        c = ("x", "u", "h", 8, "/p", "q", "f")[:k + 1] + (None,) * (6 - k)
        case("uri:make-uri", "(uparts (make-uri 'x %s))" % " ".join(lit(v) for v in c[1:k + 1]), wparts(c))
    case("uri:make-uri", "(sx (uri->string (make-uri 'http \"u\" \"h\" 8080 \"/p\" (list (cons \"a\" \"b c\") (cons \"d\" #f) (cons \"e&\" \"=\")) \"f\")))", xs(b"http://u@h:8080/p?a=b%20c&d&e%26=%3d#f"))
    case("uri:uri->string:string-argument", '(sx (uri->string "http://already/a string"))', xs(b"http://already/a string"))
    case("uri:string->uri:uri-argument", '(uparts (string->uri (make-uri \'x #f "h")))', wparts(("x", None, "h", None, None, None, None)))
    for s, args, want in [("/a/b?c#d", "", ("http", None, None, None, "/a/b", "c", "d")), ("a/b", "", ("http", None, None, None, "a/b", None, None)), ("", "", ("http", None, None, None, "", None, None)),
                          ("/a%20b?x=%31&y#f%23", "", ("http", None, None, None, "/a%20b", "x=%31&y", "f%23")), ("/a%20b?x=%31#f%23", " #t", ("http", None, None, None, "/a b", "x=1", "f#")),
                          ("ftp://h/p?q", "", ("ftp", None, "h", None, "/p", "q", None)), ("/p?a+b=c", " #t", ("http", None, None, None, "/p", "a+b=c", None))]:
        case("uri:string->path-uri", "(uparts (string->path-uri 'http %s%s))" % (sstr(s), args), wparts(want))
    case("uri:string->path-uri", '(uparts (string->path-uri \'http "/a%20b?x%3d=%31&z=a+b;y#f%23" #t #t))', '(http #f #f #f "/a b" (("x=" . "1") ("z" . "a b") ("y" . #f)) "f#")')
    case("uri:string->path-uri", '(uparts (string->path-uri \'http "/p?a=b&c=d" #f #t))', '(http #f #f #f "/p" (("a" . "b") ("c" . "d")) #f)')
    case("uri:string->path-uri", '(uparts (string->uri "http://h/p?a=%20b&c=d" #t #t))', '(http #f "h" #f "/p" (("a" . " b") ("c" . "d")) #f)')
    case("uri:uri-has-scheme?", '(list (uri-has-scheme? "http://a/") (uri-has-scheme? "/a/b") (uri-has-scheme? "a:b") (uri-has-scheme? "a/b:c"))', "(#t #f #t #f)")
    for s, want in (("http://h/a%20b", None), ("x://h/p#f%23g", None), ("http://h/a/b/c", None), ("http://h/", None), ("http://h", None), ("http://h/a%20b/c%3fd/?q#f%2f", None), ("http://h//x/", None),
                    ("http://u%40x@h:8/p%23", None), ("ftp://h/%7euser/x%2fy", "ftp://h/~user/x/y")):      # last: %7e and %2f are not canonical / not representable after decode?: normalised
        case("uri:roundtrip:decode-encode", "(sx (uri->string (string->uri %s #t) #t))" % sstr(s), xs((want or s).encode()), inp=s)
    for ref, base, want in [("g", "http://a/b/c/d;p?q", "http://a/b/c/g"), ("/g", "http://a/b/c/d;p?q", "http://a/g"), ("g:h", "http://a/b/c/d;p?q", "g:h"), ("g", "http://a/b/c/", "http://a/b/c/g"),
                            ("http://x/y?z#w", "http://a/b", "http://x/y?z#w"), ("g/h", "http://a:8/b/c", "http://a:8/b/g/h")]:
        case("uri:resolve", "(let ((r (uri-resolve %s %s))) (sx (if (uri? r) (uri->string r) r)))" % (sstr(ref), sstr(base)), xs(want.encode()), inp="%s against %s" % (ref, base))
    case("uri:resolve", '(sx (uri-resolve "g" "nouri/x"))', xs(b"nouri/x/g"))
    def proc(io, cases=cases, exprs=exprs):
        for (sig, want, inp), ex, i in zip(cases, exprs, io):
            rep.count("uri", ("api", ex))
            if i != want:
                rep.violation(sig, input=inp, expected=want, observed=i, replay=replay(L, ex, *P))
    batch.add(exprs, proc)

    # query <-> alist
    pool = [ord(c) for c in "&=+%; &=+%;"] + list(range(1, 0x80)) + [0x80, 0xa0, 0xa7, 0xd7, 0xe9, 0xf7, 0xff, 0xaa, 0xb5, 0xbf] 
    alists = [[("a", "b")], [("a", "b"), ("c", "d")], [("a b", "c+d&e=f;g%"), ("", "")], [("", "")], [("", ""), ("", "")], [("k", "")], [("", "v")], [("a", "b"), ("c", None)], [("c", None)],
              [("a", None), ("b", "c")], [("a", None), ("b", None)], [("x", "1"), ("y", None), ("z", "2")], [("%41", "%"), ("+", " ")], [("a=b", "c=d")], [("\u00e9", "\u00ff\u00a0"), ("\u00b5", "\u00d7\u00f7")]]
    for _ in range(40 if not ctx.thorough else 3000):
        al = []
        for _ in range(rng.randrange(1, 4)):
            k = "".join(chr(rng.choice(pool)) for _ in range(rng.randrange(0, 5)))
            v = "".join(chr(rng.choice(pool)) for _ in range(rng.randrange(0, 6)))
            if rng.random() < 0.08 and k:
                v = None
            al.append((k, v))
        alists.append(al)
    cases, exprs = [], []
    for al in alists:
        for plus in (False, True):
            sal = "(list %s)" % " ".join("(cons %s %s)" % (sstr(k), "#f" if v is None else sstr(v)) for k, v in al)
            ex = "(let* ((al %s) (q (uri-alist->query al %s)) (r (uri-query->alist q %s))) (list (sx q) (qshow r)))" % (sal, "#t" if plus else "#f", "#t" if plus else "#f")
            exprs.append(ex); cases.append((al, plus))
    def proc(io, cases=cases, exprs=exprs):
        for (al, plus), ex, i in zip(cases, exprs, io):
            rep.count("uri", ("query", repr(al), plus))
            ascii_only = all(ord(c) < 128 for k, v in al for c in k + (v or ""))
            shown = "(%s)" % " ".join("(%s . %s)" % (xs(k.encode()), "#f" if v is None else xs(v.encode())) for k, v in al)
            valueless_inner = any(v is None for k, v in al[:-1])
            rp = replay(L, ex, PRE, PRE_URI)
            if bad(i) or i is None or i.startswith("ERR"):
                rep.violation("uri:query-alist:" + ("valueless-key-not-last" if valueless_inner else "crash" if bad(i) else "raises"), input=repr(al), plus=plus, expected=shown, observed=i, replay=rp,
                              why="(uri-query->alist (uri-alist->query al)) does not give al back")
                continue
            q, _, r = i[1:-1].partition(" ")
            if r != shown:
                rep.violation("uri:query-alist:" + ("valueless-key-not-last" if valueless_inner else "roundtrip"), input=repr(al), plus=plus, expected=shown, observed=i, replay=rp)
            elif ascii_only and q != xs(py_alist_query(al, plus).encode()):
                rep.violation("uri:query-alist:text", input=repr(al), plus=plus, expected=py_alist_query(al, plus), observed=i, replay=rp, why="uri-alist->query differs from the transcription of uri-encode")
        ctx.sample(dict(kind="uri-query-alist", expr=exprs[4][:300], impl=io[4]))
    batch.add(exprs, proc)

    # hostile
    alpha = ":/?#@[]%&=+;. aZ09-" + "\u0080\u03bb\u0000\u20ac"
    hostile = ["", ":", "://", ":///", "a:", "a://", "a://@", "a://:", "a://@:", "a://@:/", "a://:@", "a://u@", "a://u@:1", "a://h:1:2/", "a://h:-1/", "a://h:1e3/", "a://h:99999999999999999999/", "a://h:#x10/",
               "a://[", "a://]", "a://[::", "%", "a:%", "a://h/%", "a://h/%4", "a://h/%zz", "a://h/%-1", "a://h?%", "a://h/?%zz=%", "a://h/#%", "a://%@h/", "a://h/?&&==;;", "a://h/?=", "a://h/?&", "a://h/?a&b=c",
               "?", "#", "?#", "#?", "a?b:c", "/:", "1:", "+:", "-.:", "a b:c", "\u03bb:x", "a://\u03bb/\u20ac?\u0080#\u0000", "a:" + "/" * 300, "a://" + "@" * 50, "a://" + ":" * 50, "a" * 5000 + "://h", "a://" + "h" * 5000 + "/" + "?x=y" * 500]
    for _ in range(70 if not ctx.thorough else 5000):
        hostile.append("".join(rng.choice(alpha) for _ in range(rng.randrange(0, 14))))
    exprs = []
    for s in hostile:
        for args in (("", " #t", " #t #t") if ctx.thorough or len(s) < 12 else ("", " #t #t")):
            exprs.append("(ukind (string->uri %s%s))" % (sstr(s), args))
    for s in hostile[10:50] if not ctx.thorough else hostile[:400]:
        exprs.append('(ukind (uri-resolve %s "http://a/b/c/d;p?q"))' % sstr(s))
        exprs.append('(ukind (uri-resolve "../g" %s))' % sstr(s))
        exprs.append("(qshow (uri-query->alist %s #t))" % sstr(s))
    exprs += ["(ukind (make-uri 'x 1 2 3 4 5 6))", "(ukind (make-uri \"x\"))", "(ukind (make-uri 'x #f \"h\" \"80\"))", "(ukind (make-uri 'x #f #f #f #f (list 1 2)))", "(uri-alist->query (list 1))", "(uri-alist->query (list (cons 1 2)))",
              "(uri-alist->query 5)", "(uri-query->alist 5)", "(ukind (string->uri 5))", "(uri->string 5)", "(ukind (uri-with-host 5 \"h\"))", "(ukind (string->path-uri #f \"/a\"))", "(ukind (string->path-uri 5 \"/a\"))"]
    def proc(io, cases=cases, exprs=exprs):
        for ex, i in zip(exprs, io):
            rep.count("uri", ("hostile", ex))
            if bad(i):
                rep.violation("uri:hostile-crash", input=ex[:500], expected="a uri, #f, a string or a Scheme error", observed=i, replay=replay(L, ex, *P))
    batch.add(exprs, proc)
    # is uri-with-port (defined in uri.scm) reachable?
    obs = dict(odd_components=odd_components, uri_with_port_exported=False)
    exprs = ["(procedure? uri-with-port)"]
    def proc(io, cases=cases, exprs=exprs):
        for i in io:
            obs["uri_with_port_exported"] = (i == "#t")
    batch.add(exprs, proc)
    batch.flush(d, L, *P)
    return obs


# ------------------------------------------------------------------------------------------ (chibi json) make-json-reader
def _jstr(rng):
    pools = ["abc xyz", "a\"b\\c/d", "\u00e9\u00ff", "\u03bb\u4e2d\ufffd", "\U0001f600\U00010000", "\n\t\r\b\f", "\u0001\u001f\u007f", "", "Bob", "x" * 40]
    return rng.choice(pools) if rng.random() < 0.7 else "".join(chr(rng.choice([rng.randrange(0x20, 0x7f), rng.randrange(0xa0, 0x800), rng.randrange(0x800, 0xd800), rng.randrange(0x10000, 0x10ffff), 0x22, 0x5c])) for _ in range(rng.randrange(0, 8)))


class Obj(list):
    """a JSON object as an ordered list of (key, value) pairs (duplicates allowed); plain lists are arrays"""


def _jlit(v):
    """Scheme expression building a JSON value in the (chibi json) representation: dict -> alist, list -> vector"""
    if v is None:
        return "'null"
    if v is True:
        return "#t"
    if v is False:
        return "#f"
    if isinstance(v, int):
        return str(v)
    if isinstance(v, str):
        return sstr(v)
    if not isinstance(v, Obj):
        return "(vector %s)" % " ".join(_jlit(x) for x in v)
    return "(list %s)" % " ".join("(cons '|%s| %s)" % (k, _jlit(x)) for k, x in v)      


def _fld(v):
    return "?" if v is _MISSING else "null" if v is None else "#t" if v is True else "#f" if v is False else str(v) if isinstance(v, int) else xs(v.encode("utf-8"))


_MISSING = object()


def _last(pairs, k):
    r = _MISSING
    for kk, v in pairs:
        if kk == k:
            r = v
    return r


def _emp_want(pairs, names=("name", "id", "title")):
    return "(E %s)" % " ".join(_fld(_last(pairs, n)) for n in names)


def _gen_emp(rng, extra=False):
    p = []
    if rng.random() < 0.9:
        p.append(("name", _jstr(rng)))
    if rng.random() < 0.8:
        p.append(("id", rng.choice([0, 1, -1, 7, 321, (1 << 53) + 1, -(1 << 62) + 1, (1 << 62) - 1])))
    if rng.random() < 0.6:
        p.append(("title", rng.choice([None, True, False, _jstr(rng)])))
    if extra:
        p.insert(rng.randrange(len(p) + 1), ("extra", rng.choice([1, "x", None, [1, 2], Obj([("name", "inner")])])))
    rng.shuffle(p)
    return Obj(p)


def check_json_reader(ctx, d, rep):
    rng, batch, cases = ctx.rng, Batch(), None
    L, P = LIB_JSON, (PRE, PRE_JSON)
    cases, exprs = [], []

    def case(sig, expr, want):
        cases.append((sig, want)); exprs.append(expr)

    n = 15 if not ctx.thorough else 1500
    for _ in range(n):
        e = _gen_emp(rng)
        case("json-reader:record-type", "(emp (rdv read-emp %s))" % _jlit(e), _emp_want(e))
        case("json-reader:record-type", "(emp (rdv read-emp-strict %s))" % _jlit(e), _emp_want(e))
        x = _gen_emp(rng, extra=True)
        case("json-reader:record-type", "(emp (rdv read-emp %s))" % _jlit(x), _emp_want(x))                      # unknown field ignored
        case("json-reader:strict", "(emp (rdv read-emp-strict %s))" % _jlit(x), "ERR")
        a = Obj(({"name": "nm", "id": "ident"}[k], v) for k, v in e if k in ("name", "id"))
        case("json-reader:alias", "(emp (rdv read-alias %s))" % _jlit(a), "(E %s %s ?)" % (_fld(_last(a, "nm")), _fld(_last(a, "ident"))))
        lead, devs = _gen_emp(rng), [_gen_emp(rng) for _ in range(rng.randrange(0, 4))]
        t = [("name", _jstr(rng)), ("lead", lead), ("devs", devs)]
        rng.shuffle(t)
        case("json-reader:nested", "(team (rdv read-team %s))" % _jlit(Obj(t)), "(T %s %s #(%s))" % (_fld(_last(t, "name")), _emp_want(lead), " ".join(_emp_want(x) for x in devs)))
        ints = [rng.choice([0, -1, 1 << 40, rng.randrange(-1000, 1000)]) for _ in range(rng.randrange(0, 6))]
        case("json-reader:vector-of-predicate", "(vshow (rdv read-ints %s))" % _jlit(ints), "#(%s)" % " ".join(map(str, ints)))
        mixed = [rng.choice([1, None, True, "s", _jstr(rng)]) for _ in range(rng.randrange(0, 5))]
        case("json-reader:any-vector", "(vshow (rdv read-anyvec %s))" % _jlit(mixed), "#(%s)" % " ".join(_fld(x) for x in mixed))
    case("json-reader:record-type", '(emp (rd read-emp "{}"))', "(E ? ? ?)")
    case("json-reader:record-type", '(emp (rd read-emp " { \\"name\\" : \\"x\\" , \\"name\\" : \\"y\\" } "))', "(E %s ? ?)" % xs(b"y"))
    case("json-reader:nested", '(team (rd read-team "{\\"devs\\":[]}"))', "(T ? ? #())")
    # not a reader case, but seen through it: the most negative fixnum is written exactly and must be read back exactly
    case("json:roundtrip:min-fixnum", "(let ((v (string->json (json->string -4611686018427387904)))) (list (exact? v) v))", "(#t -4611686018427387904)")
    # shape mismatches: must be errors
    for r, txt in [("read-emp", "[1]"), ("read-emp", "3"), ("read-emp", '"s"'), ("read-emp", "null"), ("read-emp", "true"), ("read-team", '{"name":5}'), ("read-team", '{"devs":{}}'), ("read-team", '{"devs":[1]}'),
                   ("read-team", '{"lead":[]}'), ("read-team", '{"lead":"x"}'), ("read-team", '{"devs":[{"name":"a"},2]}'), ("read-alias", '{"name":"z"}'), ("read-alias", '{"nm":"z","id":1}'), ("read-ints", "[1,2.5]"),
                   ("read-ints", '[1,"2"]'), ("read-ints", "{}"), ("read-ints", "1"), ("read-anyvec", "1"), ("read-anyvec", "{}"), ("read-emp-strict", '{"Name":"x"}')]:
        case("json-reader:mismatch-accepted", "(let ((v (rd %s %s))) (if (vector? v) 'a-vector (if (employee? v) 'an-employee (if (team? v) 'a-team v))))" % (r, sstr(txt)), "ERR")
    for spec in ("5", "'(5)", "(list Employee (cons 'nosuch 'nosuch))", "(list Employee (cons 'nosuch string?))", "\"Employee\"", "(vector 5)", "(list Employee 5)"):
        case("json-reader:bad-spec-accepted", "(procedure? (make-json-reader %s))" % spec, "ERR*")
    def proc(io, cases=cases, exprs=exprs):
        for (sig, want), ex, i in zip(cases, exprs, io):
            rep.count("json-reader", (ex,))
            rp = replay(L, ex, *P)
            if bad(i):
                rep.violation(sig + ":crash", input=ex, expected=want, observed=i, replay=rp)
            elif want == "ERR*":
                pass                                            # a bad spec may be rejected at construction or at use: value or error
            elif want == "ERR":
                if not i.startswith("ERR"):
                    rep.violation(sig, input=ex, expected="a Scheme error", observed=i, replay=rp)
            elif i != want:
                rep.violation(sig, input=ex, expected=want, observed=i, replay=rp)
        ctx.sample(dict(kind="json-reader", expr=exprs[5][:300], impl=io[5]))
    batch.add(exprs, proc)
    # hostile texts
    base = ['{"name":"Bob","id":7,"title":null}', '{"name":"A","lead":{"name":"H","id":1},"devs":[{"name":"B","id":2},{"name":"M"}]}', "[1,2,3]", '[1,"a",null,{"x":[]}]']
    texts = ["", " ", "{", "}", "[", "]", '{"name":', '{"name"', '{"name":"x"', '{"name":"x",}', "{,}", '{"a" "b"}', '{name:1}', "{1:2}", '{"a":1,"a"}', "[1,", "[,1]", "[1 2]", '"abc', '"\\u12', '"\\ud800"', '"\\udc00\\ud800"', '"\\x"',
             "nul", "tru", "-", "1e", "1e999999", "-" + "9" * 400, "0." + "1" * 400, "[" * 2000, "[" * 2000 + "]" * 2000, '{"a":' * 1000, '{"a":' * 500 + "1" + "}" * 500, "\x00", '{"\x00":1}', '{"na\\u0000me":1}', "\ufeff{}", "{}{}", "{} x",
             '{"devs":[[[[[[]]]]]]}', '{"lead":{"lead":{"lead":{}}}}', '{"id":{"name":1}}', '{"":1}', '{"name":"\\ud83d\\ude00"}']
    for _ in range(40 if not ctx.thorough else 3000):
        b = bytearray(rng.choice(base).encode())
        for _ in range(rng.randrange(1, 4)):
            k = rng.randrange(4)
            if k == 0 and b:
                del b[rng.randrange(len(b)):]
            elif k == 1 and b:
                b[rng.randrange(len(b))] = rng.choice(b'{}[]",:\\ 0e-nt\x00\x7f')
            elif k == 2:
                p = rng.randrange(len(b) + 1)
                b[p:p] = rng.choice([b"{", b"[", b'"', b",", b":", b"\\u", b"\\", b"]", b"}", b"null", b"1e5"])
            elif b:
                p = rng.randrange(len(b))
                del b[p:p + rng.randrange(1, 4)]
        texts.append(b.decode("latin-1"))
    exprs = []
    for t in texts:
        readers = ("read-emp", "read-emp-strict", "read-team", "read-alias", "read-ints", "read-anyvec")
        for r in (readers if ctx.thorough else ("read-emp", "read-team", rng.choice(readers[1:2] + readers[3:]))):
            if len(t) > 500 and r not in ("read-emp", "read-team"):
                continue
            exprs.append("(let ((v (rd %s %s))) (cond ((employee? v) (emp v)) ((team? v) (team v)) ((vector? v) 'a-vector) (else 'other)))" % (r, sstr(t)))
    def proc(io, cases=cases, exprs=exprs):
        for ex, i in zip(exprs, io):
            rep.count("json-reader", ("hostile", ex))
            if bad(i):
                rep.violation("json-reader:hostile-crash", input=ex[:600], expected="a value or a Scheme error", observed=i, replay=replay(L, ex, *P))
    batch.add(exprs, proc)
    batch.flush(d, L, *P)


# ------------------------------------------------------------------------------------------ (chibi mime)
def _text(rng, maxbytes):
    pools = ["hello", "hello world", "Gr\u00fc\u00dfe aus K\u00f6ln", "\u65e5\u672c\u8a9e", "a_b?c=d", "=?utf-8?Q?x?=", "\u03bb" * 7, "\U0001f600 ok", "tab\there", " lead", "trail ", "?", "=", "_", "a", "\u00ff\u0100"]
    if rng.random() < 0.5:
        s = rng.choice(pools)
    else:
        s = "".join(chr(rng.choice([rng.randrange(0x20, 0x7f), rng.randrange(0x20, 0x7f), rng.randrange(0xa0, 0x800), rng.randrange(0x800, 0xd800), rng.randrange(0x10000, 0x20000), 0x3d, 0x3f, 0x5f, 0x20])) for _ in range(rng.randrange(1, 16)))
    while len(s.encode()) > maxbytes:
        s = s[:-1]
    return s


def _body_text(rng):
    k = rng.random()
    if k < 0.15:
        return rng.choice(["", "a", "hello\r\n", "\r\n", "=", "x=y", " ", "line one\r\nline two  \r\n\r\n", "From me\r\n.\r\n--XyZ-not\r\n"])
    lines = []
    for _ in range(rng.randrange(1, 6)):
        lines.append("".join(chr(rng.choice([rng.randrange(0x20, 0x7f)] * 6 + [rng.randrange(0xa0, 0x800), rng.randrange(0x800, 0xd800), rng.randrange(0x10000, 0x20000), 0x3d, 0x20, 0x9])) for _ in range(rng.choice([0, 3, 20, 75, 76, 77, 120, 200]))))
    return rng.choice(["\r\n", "\n"]).join(lines) + rng.choice(["", "\r\n", "  ", "\t\r\n"])


def check_mime(ctx, d, rep):
    rng, batch, cases = ctx.rng, Batch(), None
    L, P = LIB_MIME, (PRE, PRE_MIME)
    # ---- RFC 2047 encoded words
    texts = ["hello", "hello world", "Gr\u00fc\u00dfe_a?b=c", "\u65e5\u672c\u8a9e", "a", "=", "?", "_", " ", "x" * 48, "x" * 49, "\u03bb" * 24, "\u03bb" * 25, "\u03bb" * 100, "long " * 40, "\u00e9" * 60]
    for _ in range(24 if not ctx.thorough else 2000):
        texts.append(_text(rng, rng.choice([8, 20, 45, 48, 120])))
    cases, exprs = [], []
    for t in texts:
        for enc, fn in (("b64", "base64-encode-header"), ("qp", "quoted-printable-encode-header")):
            for ctxt in (False, True):
                if ctxt and rng.random() < 0.5:
                    continue
                h = '(%s "utf-8" %s)' % (fn, sstr(t))
                hh = '(string-append "Subject: " %s " tail")' % h if ctxt else h
                exprs.append("(let ((h %s)) (list (sx h) (try (sx (mime-decode-header h)))))" % hh)
                cases.append((t, enc, ctxt))
    folded = dict(n=0, text_back=0, err=0)
    def proc(io, cases=cases, exprs=exprs):
        for (t, enc, ctxt), ex, i in zip(cases, exprs, io):
            rep.count("mime", ("header", t, enc, ctxt))
            rp = replay(L, ex, *P)
            if bad(i) or not i.startswith("("):
                rep.violation("mime:decode-header:crash", input=t, expected="value or error", observed=i, replay=rp)
                continue
            hdr, _, res = i[1:-1].partition(" ")
            try:
                hb = bytes.fromhex(hdr[1:]) if hdr != "_" else b""
            except ValueError:
                hb = None
            if hb is None:
                rep.violation("mime:encode-header:" + enc, input=t, expected="a string", observed=i, replay=rp)
                continue
            full = ("Subject: " + t + " tail") if ctxt else t
            want = xs(full.encode())
            if b"\r\n" in hb:                                   # folded into several encoded words: value or error only
                folded["n"] += 1
                folded["text_back"] += res == want
                folded["err"] += res.startswith("(ERR")
                continue
            if enc == "b64":
                hw = b"=?utf-8?B?" + pyb64.b64encode(t.encode()) + b"?="
                hw = (b"Subject: " + hw + b" tail") if ctxt else hw
                if hb != hw:
                    rep.violation("mime:encode-header:b64", input=t, expected=hw.decode(), observed=hb.decode("latin-1"), replay=rp, why="single encoded word differs from =?utf-8?B? + base64 + ?=")
                    continue
            if res == want:
                continue
            if res.startswith("(ERR"):
                sig = "mime:decode-header:arity-error:" + enc if "not enough args" in res else "mime:decode-header:raises:" + enc
                rep.violation(sig, input=hb.decode("latin-1"), expected=want, observed=res, replay=rp, why="mime-decode-header raises on a well-formed single encoded word made by the library's own encoder")
            else:
                rep.violation("mime:decode-header:roundtrip:" + enc, input=hb.decode("latin-1"), expected=want, observed=res, replay=rp)
        ctx.sample(dict(kind="mime-decode-header", expr=exprs[0][:300], impl=io[0]))
    batch.add(exprs, proc)

    # ---- transfer encodings through mime-message->sxml
    bodies = ["", "hello", "Gr\u00fc\u00dfe aus K\u00f6ln \u2014 \u65e5\u672c\u8a9e = ok?\r\nline two  \r\n", "a" * 300, "=" * 80, ("x" * 75 + "\r\n") * 3, "\u03bb" * 200]
    for _ in range(14 if not ctx.thorough else 600):
        bodies.append(_body_text(rng))
    blobs = [b"", b"\x00", bytes(range(256)), b"\xff" * 100, b"\r\n--XyZ\r\n"] + [bytes(rng.getrandbits(8) for _ in range(rng.choice([1, 2, 3, 57, 58, 200]))) for _ in range(5 if not ctx.thorough else 200)]
    cases, exprs = [], []
    for payload, text in [(b, True) for b in bodies] + [(b, False) for b in blobs]:
        raw = payload.encode() if text else payload
        data = "(utf8->string (hx \"%s\"))" % hexs(raw) if text else '(hx "%s")' % hexs(raw)
        for cte, encfn in (("base64", "base64-encode-string" if text else "(lambda (b) (utf8->string (base64-encode-bytevector b)))"),
                           ("quoted-printable", "quoted-printable-encode-string" if text else "(lambda (b) (utf8->string (quoted-printable-encode-bytevector b)))")):
            for port in (False, True):
                for mp in (False, True):
                    if (mp or port) and len(cases) > 40 and rng.random() < 0.4:
                        continue
                    ctype = "text/plain; charset=utf-8" if text else "application/octet-stream"
                    ex = '(body (mime-message->sxml (src %s (%s "%s" "%s" (%s %s)))))' % ("#t" if port else "#f", "mpmsg" if mp else "msg", ctype, cte, encfn, data)
                    exprs.append(ex)
                    cases.append((raw, text, cte, port, mp))
    def proc(io, cases=cases, exprs=exprs):
        for (raw, text, cte, port, mp), ex, i in zip(cases, exprs, io):
            rep.count("mime", ("message", raw, text, cte, port, mp))
            want = xs(raw)
            if i != want:
                sig = "mime:message:%s:%s:%s%s" % (cte, "text" if text else "binary", "port" if port else "string", ":multipart" if mp else "")
                rep.violation(sig + (":crash" if bad(i) else ""), input=hexs(raw), expected=want, observed=i, replay=replay(L, ex, *P),
                              why="the body of a %s part written by the library's encoder does not come back through mime-message->sxml" % cte)
        ctx.sample(dict(kind="mime-message", expr=exprs[9][:300], impl=io[9]))
    batch.add(exprs, proc)

    # ---- hostile
    hdr_b64 = "Content-Type: text/plain\r\nContent-Transfer-Encoding: base64\r\n\r\n"
    hdr_qp = "Content-Type: application/octet-stream\r\nContent-Transfer-Encoding: quoted-printable\r\n\r\n"
    mp = "Content-Type: multipart/mixed; boundary=XX\r\n\r\n"
    hostile = ["", "\r\n", "\n\n", "no header", ":", ": x\r\n\r\nb", "=x\r\n\r\nb", hdr_b64, hdr_b64 + "aGVsbG8", hdr_b64 + "aGVsbG8=", hdr_b64 + "aGVsbG8====", hdr_b64 + "a", hdr_b64 + "=", hdr_b64 + "====", hdr_b64 + "a=b=c", hdr_b64 + "\xff\xfe",
               hdr_b64 + "/w==", hdr_b64 + "/////w==", hdr_b64 + "aGVs\r\nbG8=\r\n", hdr_qp, hdr_qp + "abc=", hdr_qp + "abc=4", hdr_qp + "=", hdr_qp + "=\r\n", hdr_qp + "=zz", hdr_qp + "a=\r\n=\r\n=", hdr_qp + "=FF=FE",
               hdr_qp.replace("application/octet-stream", "text/plain") + "=FF=FE", hdr_qp.replace("application/octet-stream", "text/plain") + "abc=",
               mp + "no boundary at all", mp + "--XX\r\nA: b\r\n\r\nnever closed", mp + "--XX", mp + "--XX--", mp + "--XX--\r\n--XX\r\n", mp + "--XX\r\n--XX\r\n--XX\r\n", mp + "--XX\r\n\r\n--XX--", mp + "--XX\r\n" + mp + "--XX\r\n" + mp,
               "Content-Type: multipart/mixed\r\n\r\n--XX\r\nA: b\r\n\r\nx", "Content-Type: multipart/mixed; boundary=\r\n\r\n--\r\nA: b\r\n\r\nx\r\n----\r\n", "Content-Type: multipart/mixed; boundary=\"\r\n\r\nxx",
               "Content-Type: multipart/mixed; boundary=\"\"\r\n\r\nxx", "Content-Type: ;;;=\r\n\r\nx", "Content-Type: =\r\n\r\nx", "Content-Type: text/plain; charset\r\n\r\nx", "Content-Type\r\n\r\nx", "Content-Type:\r\n\r\nx",
               "Content-Transfer-Encoding:\r\n\r\nx", "Content-Transfer-Encoding: BASE64\r\nContent-Type: TEXT/PLAIN\r\n\r\naGk=", "X: " + "a" * 10000 + "\r\n\r\nbody", "a" * 10000 + ": x\r\n\r\nbody", "X: a\r\n" + " folded\r\n" * 3000 + "\r\nb",
               "X: a\r\n" * 3000 + "\r\nb", "From me@x Thu Jan  1 00:00:00 1970\r\nA: b\r\n\r\nx", "From \r\n", "From x", "\x00: \x00\r\n\r\n\x00", "A: b\r\n\tc\r\n d\r\n\r\n", "A: b\rC: d\r\r"]
    nest = "".join("Content-Type: multipart/mixed; boundary=B%d\r\n\r\n--B%d\r\n" % (k, k) for k in range(200))
    hostile += [nest, nest + "A: b\r\n\r\nx\r\n" + "".join("--B%d--\r\n" % k for k in reversed(range(200)))]
    seeds = [hdr_b64 + "aGVsbG8gd29ybGQ=", hdr_qp + "a=3Db=\r\nc", mp + "pre\r\n--XX\r\nContent-Transfer-Encoding: base64\r\n\r\naGk=\r\n--XX\r\nA: b\r\n\r\nx\r\n--XX--\r\nepi\r\n"]
    for _ in range(30 if not ctx.thorough else 3000):
        b = list(rng.choice(seeds))
        for _ in range(rng.randrange(1, 4)):
            k = rng.randrange(4)
            if k == 0 and b:
                del b[rng.randrange(len(b)):]
            elif k == 1 and b:
                b[rng.randrange(len(b))] = rng.choice("=-:;\r\n \t\"Xa\x00\xff")
            elif k == 2:
                p = rng.randrange(len(b) + 1)
                b[p:p] = list(rng.choice(["--XX", "--XX--", "\r\n", "=", "==", ":", ";", "\"", "boundary=", "\r\n\r\n", "\n"]))
            elif b:
                p = rng.randrange(len(b))
                del b[p:p + rng.randrange(1, 6)]
        hostile.append("".join(b))
    exprs = []
    for m in hostile:
        lit = "(utf8->string (hx \"%s\"))" % hexs(m.encode("utf-8")) if len(m) > 200 else sstr(m)
        exprs.append("(kind (mime-message->sxml %s))" % lit)
        exprs.append("(kind (mime-message->sxml (open-input-bytevector (hx \"%s\"))))" % hexs(m.encode("latin-1") if all(ord(c) < 256 for c in m) else m.encode("utf-8")))
    hh = ["", "a", "=?", "=?a?B?a", "=?aaaaaaaaaaaaaaaa", "=?a?B?aaaaaaaaaaaaa", "=?a?B?aaaaaaaaaaaaa?", "aaaaaaaaaaaaaaaaaaaa=?", "aaaaaaaaaaaaaaaaaaaa=?a?", "=?a?B?YQ==?=", "=?a?Q??=", "=??Q?abc?=     ", "=?a?X?abc?=     ",
          "=?a?Q?=zz?=       ", "=?a?Q?=?=          ", "=?a?B?=?=          ", "=?a?B?\xff?=          ", "=?a?Q?=FF=FE?=      ", "=?a?B?//8=?=         ", "=?" * 200, "=?a?Q?" * 100 + "?=" * 100, "=?utf-8?Q?a?= =?utf-8?Q?b?=",
          "=?utf-8?B?" + "QUJD" * 5000 + "?=", "?=?=?=?=?=?=?=?=", "\u03bb=?\u03bb?Q?\u03bb?=\u03bb\u03bb\u03bb\u03bb\u03bb\u03bb\u03bb\u03bb"]
    for _ in range(20 if not ctx.thorough else 2000):
        hh.append("".join(rng.choice("=?QBqb_ autf8-=?=?\u03bb") for _ in range(rng.randrange(0, 30))))
    for h in hh:
        exprs.append("(kind (mime-decode-header %s))" % (sstr(h) if len(h) < 300 else "(utf8->string (hx \"%s\"))" % hexs(h.encode())))
    exprs += ["(mime-parse-content-type %s)" % sstr(s) for s in ("", ";", "=", "a=", "a=\"", "a=\"\"", "text/html; CHARSET=UTF-8; filename=index.html", ";;;,,,", "a;b=\"c;d\"", " x = y ; z")]
    exprs += ["(mime-headers->list %s)" % sstr(s) for s in ("", "A: b", "A: b\r\n c\r\n\r\n", ": b\r\n", "A\r\nB: c\r\n", "From a b\r\nA: b\r\n")] + ["(mime-headers->list \"A: b\\r\\nC: d\\r\\nE: f\\r\\n\" 1)"]
    def proc(io, cases=cases, exprs=exprs):
        for ex, i in zip(exprs, io):
            rep.count("mime", ("hostile", ex))
            if bad(i):
                rep.violation("mime:hostile-crash", input=ex[:600], expected="a value or a Scheme error", observed=i, replay=replay(L, ex, *P))
    batch.add(exprs, proc)
    batch.flush(d, L, *P)
    return folded


# ------------------------------------------------------------------------------------------ entry point
def check_extra(ctx, d):
    """run all four groups on the scratch build `d`; returns the list of things still not exercised"""
    rep = Reporter(ctx)
    check_bytevector(ctx, d, rep)
    uri_obs = check_uri(ctx, d, rep)
    check_json_reader(ctx, d, rep)
    folded = check_mime(ctx, d, rep)
    viol = ", ".join("%s x%d" % kv for kv in sorted(rep.per_sig.items())) or "none"
    ctx.note("c19_extra (K-outer, Python oracle, no model): cases per library: %s; disagreements by signature (at most %d recorded each): %s; "
             "RFC 2047 headers folded into several encoded words: %d (text back unchanged: %d, error: %d; not asserted); "
             "URIs whose string round trip holds but whose components differ from RFC 3986 in the classes left unasserted (empty path before ?/#, ? inside fragment): %d; "
             "uri-with-port reachable through (chibi uri): %s"
             % (", ".join("%s %d" % kv for kv in sorted(rep.cases.items())), MAX_PER_SIG, viol, folded["n"], folded["text_back"], folded["err"],
                len(uri_obs["odd_components"]), "yes" if uri_obs["uri_with_port_exported"] else "no (defined in uri.scm, missing from the export list of uri.sld)"))
    still = [
        "(scheme bytevector): utf16->string / utf32->string on well-formed input are only checked as inverses of the encoders and on the BOM rule, not against an independent decoder for arbitrary unit sequences (lone surrogates: value-or-error only)",
        "(scheme bytevector): string->utf16 / string->utf32 on strings holding invalid UTF-8 (only constructible through the C API) are not exercised; no asan run of the hostile decoder stream here",
        "(scheme bytevector): uint-list->bytevector accepts 2^(8*size) (off by one, wraps to 0): observed, value-or-error, not asserted",
        "(chibi uri): uri-resolve dot-segment removal (RFC 3986 5.2.4: ./g ../g g/) and bases without a path are totality-only; uri-with-port is not exported and cannot be exercised",
        "(chibi uri): component-level parse of URIs with an empty path followed by ?query / #fragment and of fragments containing '?' is not asserted (the permissive parser folds them into host / path); non-ASCII hosts and paths only in the hostile stream",
        "(chibi uri): query alists with characters >= U+0100 that are not alphanumeric are excluded (known finding F-C19-1)",
        "(chibi json): make-json-reader specs are fixed (6 readers over 2 record types); no generated spec trees, no record-type inheritance, no reading of several values from one port",
        "(chibi mime): RFC 2047 output folded into several encoded words is value-or-error only (separator kept, Q folds inside UTF-8 sequences); charsets other than utf-8 go through the dummy ces-convert and are not exercised",
        "(chibi mime): 7bit / 8bit / binary bodies, nested multiparts with real content, mime-header-fold limit / kons-from, mime-write-headers and mime-type-from-extension are not asserted (hostile stream: totality only)",
    ]
    return still
