/* Inner correspondence for C04: calls the digit-level functions of bignum.c on word arrays.
   protocol (one request per line):  <fn> <args...>   words = comma separated hex, low word first,
   "_" = empty; sign = 1 | -1.  Output mirrors ocaml/C04_driver.ml. */
#include <chibi/eval.h>
#include <stdio.h>
#include <string.h>
#include <stdlib.h>

/* not declared in the public headers */
sexp sexp_bignum_add_digits (sexp ctx, sexp dst, sexp a, sexp b);
sexp sexp_bignum_sub_digits (sexp ctx, sexp dst, sexp a, sexp b);
sexp_sint_t sexp_bignum_compare_abs (sexp a, sexp b);
sexp sexp_bignum_quot_rem (sexp ctx, sexp *rem, sexp a, sexp b);
sexp sexp_bignum_fxrem (sexp ctx, sexp a, sexp_sint_t b);

static sexp ctx;

static sexp mkbig(sexp ctx, const char *sign, char *ws) {
  sexp_uint_t vals[4096]; int n = 0; char *p = ws;
  if (strcmp(ws, "_") != 0) {
    while (*p && n < 4096) {
      vals[n++] = strtoull(p, &p, 16);
      if (*p == ',') p++;
    }
  }
  sexp r = sexp_make_bignum(ctx, n);
  for (int i = 0; i < n; i++) sexp_bignum_data(r)[i] = vals[i];
  sexp_bignum_sign(r) = (sign && sign[0] == '-') ? -1 : 1;
  return r;
}

static void prwords(sexp x) {
  if (sexp_fixnump(x)) { printf("fix:%ld", (long)sexp_unbox_fixnum(x)); return; }
  if (!sexp_bignump(x)) { printf("ERR not-a-bignum"); return; }
  sexp_uint_t n = sexp_bignum_length(x);
  if (n == 0) printf("_");
  for (sexp_uint_t i = 0; i < n; i++) printf("%s%lx", i ? "," : "", (unsigned long)sexp_bignum_data(x)[i]);
}

static void prz(long v) { if (v < 0) printf("-%lx", -v); else printf("%lx", v); }

int main(int argc, char **argv) {
  char line[200000];
  sexp_scheme_init();
  ctx = sexp_make_eval_context(NULL, NULL, NULL, 0, 0);
  sexp_gc_var3(a, b, r);
  sexp_gc_preserve3(ctx, a, b, r);
  while (fgets(line, sizeof line, stdin)) {
    char *f[8]; int nf = 0; char *tok = strtok(line, " \n");
    while (tok && nf < 8) { f[nf++] = tok; tok = strtok(NULL, " \n"); }
    if (nf == 0) { printf("\n"); continue; }
    if (!strcmp(f[0], "add_digits") && nf == 3) {
      a = mkbig(ctx, "1", f[1]); b = mkbig(ctx, "1", f[2]);
      r = sexp_bignum_add_digits(ctx, NULL, a, b); prwords(r);
    } else if (!strcmp(f[0], "sub_digits") && nf == 3) {
      a = mkbig(ctx, "1", f[1]); b = mkbig(ctx, "1", f[2]);
      r = sexp_bignum_sub_digits(ctx, NULL, a, b); prwords(r);
    } else if (!strcmp(f[0], "compare_abs") && nf == 3) {
      a = mkbig(ctx, "1", f[1]); b = mkbig(ctx, "1", f[2]);
      prz((long)sexp_bignum_compare_abs(a, b));
    } else if (!strcmp(f[0], "bignum_add") && nf == 5) {
      a = mkbig(ctx, f[1], f[2]); b = mkbig(ctx, f[3], f[4]);
      r = sexp_bignum_add(ctx, NULL, a, b); prz(sexp_bignum_sign(r)); printf(" "); prwords(r);
    } else if (!strcmp(f[0], "bignum_sub") && nf == 5) {
      a = mkbig(ctx, f[1], f[2]); b = mkbig(ctx, f[3], f[4]);
      r = sexp_bignum_sub(ctx, NULL, a, b); prz(sexp_bignum_sign(r)); printf(" "); prwords(r);
    } else {
      printf("ERR unknown request");
    }
    printf("\n");
  }
  sexp_gc_release3(ctx);
  sexp_destroy_context(ctx);
  return 0;
}
