/* Inner correspondence for C04: calls the digit-level functions of bignum.c on word arrays.
   protocol (one request per line):  <fn> <args...>   words = comma separated hex, low word first,
   "_" = empty; sign = 1 | -1.  Output mirrors ocaml/C04_driver.ml. */
#include <chibi/eval.h>
#include <stdio.h>
#include <string.h>
#include <stdlib.h>
#include <math.h>

/* not declared in the public headers */
sexp sexp_bignum_add_digits (sexp ctx, sexp dst, sexp a, sexp b);
sexp sexp_bignum_sub_digits (sexp ctx, sexp dst, sexp a, sexp b);
sexp_sint_t sexp_bignum_compare_abs (sexp a, sexp b);
sexp sexp_bignum_quot_rem (sexp ctx, sexp *rem, sexp a, sexp b);
sexp sexp_bignum_fxrem (sexp ctx, sexp a, sexp_sint_t b);
sexp sexp_bignum_fxadd (sexp ctx, sexp a, sexp_uint_t b);
sexp sexp_bignum_fxsub (sexp ctx, sexp a, sexp_uint_t b);
sexp sexp_bignum_fxmul (sexp ctx, sexp d, sexp a, sexp_uint_t b, int offset);
sexp_uint_t sexp_bignum_fxdiv (sexp ctx, sexp a, sexp_uint_t b, int offset);
sexp sexp_bignum_mul (sexp ctx, sexp dst, sexp a, sexp b);
sexp sexp_bignum_normalize (sexp a);
sexp sexp_bignum_expt (sexp ctx, sexp a, sexp b);
sexp sexp_write_bignum (sexp ctx, sexp a, sexp out, sexp_uint_t base);
sexp sexp_read_number (sexp ctx, sexp in, int base, int exactp);
sexp sexp_bignum_sqrt (sexp ctx, sexp a, sexp* rem_out);
sexp sexp_ratio_add (sexp ctx, sexp a, sexp b);
sexp sexp_ratio_mul (sexp ctx, sexp a, sexp b);
sexp sexp_ratio_div (sexp ctx, sexp a, sexp b);
sexp sexp_ratio_compare (sexp ctx, sexp a, sexp b);
sexp sexp_ratio_normalize (sexp ctx, sexp rat, sexp in);
sexp sexp_make_ratio (sexp ctx, sexp num, sexp den);
sexp sexp_ratio_round (sexp ctx, sexp a);
sexp sexp_ratio_trunc (sexp ctx, sexp a);
sexp sexp_ratio_floor (sexp ctx, sexp a);
sexp sexp_ratio_ceiling (sexp ctx, sexp a);

static sexp ctx;

/* operands of the pure functions must come back untouched: snapshot before, compare after */
typedef struct { int isbig; int sign; sexp_uint_t n; sexp_uint_t w[4100]; } snap_t;
static snap_t snaps[4]; static sexp snapobj[4]; static int nsnap;
static void snap(snap_t *s, sexp x) {
  s->isbig = (x && sexp_bignump(x));
  if (!s->isbig) return;
  s->sign = sexp_bignum_sign(x); s->n = sexp_bignum_length(x);
  if (s->n > 4096) s->n = 4096;
  memcpy(s->w, sexp_bignum_data(x), s->n * sizeof(sexp_uint_t));
}
static int same(snap_t *s, sexp x) {
  if (!s->isbig) return 1;
  if (!sexp_bignump(x) || sexp_bignum_sign(x) != s->sign) return 0;
  if (sexp_bignum_length(x) < s->n) return 0;
  return memcmp(s->w, sexp_bignum_data(x), s->n * sizeof(sexp_uint_t)) == 0;
}

static sexp mkbig(sexp ctx, const char *sign, char *ws) {
  sexp_uint_t vals[4096]; int n = 0; char *p = ws;
  if (strcmp(ws, "_") != 0) {
    while (*p && n < 4096) {
      vals[n++] = strtoull(p, &p, 16);
      if (*p == ',') p++;
    }
  }
  sexp r = sexp_make_bignum(ctx, n);
  for (int i = 0; i < n; i++) sexp_bignum_data(r)[i] = vals[i];
  sexp_bignum_sign(r) = (sign && sign[0] == '-') ? -1 : 1;
  if (nsnap < 4) { snapobj[nsnap] = r; snap(&snaps[nsnap++], r); }
  return r;
}

static void prwords(sexp x) {
  if (sexp_fixnump(x)) { printf("fix:%ld", (long)sexp_unbox_fixnum(x)); return; }
  if (!sexp_bignump(x)) { printf("ERR not-a-bignum"); return; }
  sexp_uint_t n = sexp_bignum_length(x);
  if (n == 0) printf("_");
  for (sexp_uint_t i = 0; i < n; i++) printf("%s%lx", i ? "," : "", (unsigned long)sexp_bignum_data(x)[i]);
}

/* a number: f:<signed hex> | b:<sign>:<words> */
static sexp mknum(sexp ctx, char *t) {
  if (t[0] == 'f') {
    char *p = t + 2; int neg = (*p == '-'); if (neg) p++;
    sexp_sint_t v = (sexp_sint_t)strtoull(p, NULL, 16);
    return sexp_make_fixnum(neg ? -v : v);
  } else {
    char *p = t + 2; char *c = strchr(p, ':'); *c = 0;
    return mkbig(ctx, p, c + 1);
  }
}
static void prnum(sexp x) {
  if (sexp_fixnump(x)) { long v = (long)sexp_unbox_fixnum(x); if (v < 0) printf("f:-%lx", -(unsigned long)v); else printf("f:%lx", v); }
  else if (sexp_bignump(x)) { printf("b:%d:", (int)sexp_bignum_sign(x)); prwords(x); }
  else if (sexp_exceptionp(x)) printf("EXC");
  else printf("ERR not-a-number");
}

static void prrat(sexp x) {
  if (sexp_ratiop(x)) { printf("R "); prnum(sexp_ratio_numerator(x)); printf(" "); prnum(sexp_ratio_denominator(x)); }
  else prnum(x);
}

static void prz(long v) { if (v < 0) printf("-%lx", -v); else printf("%lx", v); }

int main(int argc, char **argv) {
  char line[200000]; int inplace = 0;
  setvbuf(stdout, NULL, _IOLBF, 0);   /* a request that hangs must not hide the answers before it */
  sexp_scheme_init();
  ctx = sexp_make_eval_context(NULL, NULL, NULL, 0, 0);
  sexp vmadd, vmsub, vmquo, vmrem, vmmul;
  sexp_gc_var6(a, b, r, procs, ra, rb);
  sexp_gc_preserve6(ctx, a, b, r, procs, ra, rb);
  sexp_load_standard_env(ctx, NULL, SEXP_SEVEN);
  procs = sexp_eval_string(ctx, "(vector (lambda (a b) (+ a b)) (lambda (a b) (- a b)) (lambda (a b) (quotient a b)) (lambda (a b) (remainder a b)) (lambda (a b) (* a b)) (lambda (a b) (= a b)) (lambda (a b) (< a b)) (lambda (a b) (> a b)) (lambda (a b) (<= a b)) (lambda (a b) (>= a b)))", -1, NULL);
  if (!sexp_vectorp(procs)) { fprintf(stderr, "cannot compile vm probes\n"); sexp_print_exception(ctx, procs, sexp_current_error_port(ctx)); return 3; }
  vmadd = sexp_vector_ref(procs, SEXP_ZERO); vmsub = sexp_vector_ref(procs, SEXP_ONE);
  vmquo = sexp_vector_ref(procs, SEXP_TWO); vmrem = sexp_vector_ref(procs, SEXP_THREE); vmmul = sexp_vector_ref(procs, SEXP_FOUR);
  if (!sexp_procedurep(vmadd) || !sexp_procedurep(vmsub)) { fprintf(stderr, "cannot compile vm probes\n"); return 3; }
  while (fgets(line, sizeof line, stdin)) {
    char *f[8]; int nf = 0; char *tok = strtok(line, " \n");
    while (tok && nf < 8) { f[nf++] = tok; tok = strtok(NULL, " \n"); }
    if (nf == 0) { printf("\n"); continue; }
    a = b = SEXP_FALSE; inplace = 0; nsnap = 0;
    if (!strcmp(f[0], "add_digits") && nf == 3) {
      a = mkbig(ctx, "1", f[1]); b = mkbig(ctx, "1", f[2]);
      r = sexp_bignum_add_digits(ctx, NULL, a, b); prwords(r);
    } else if (!strcmp(f[0], "sub_digits") && nf == 3) {
      a = mkbig(ctx, "1", f[1]); b = mkbig(ctx, "1", f[2]);
      r = sexp_bignum_sub_digits(ctx, NULL, a, b); prwords(r);
    } else if (!strcmp(f[0], "compare_abs") && nf == 3) {
      a = mkbig(ctx, "1", f[1]); b = mkbig(ctx, "1", f[2]);
      prz((long)sexp_bignum_compare_abs(a, b));
    } else if (!strcmp(f[0], "bignum_add") && nf == 5) {
      a = mkbig(ctx, f[1], f[2]); b = mkbig(ctx, f[3], f[4]);
      r = sexp_bignum_add(ctx, NULL, a, b); prz(sexp_bignum_sign(r)); printf(" "); prwords(r);
    } else if (!strcmp(f[0], "bignum_sub") && nf == 5) {
      a = mkbig(ctx, f[1], f[2]); b = mkbig(ctx, f[3], f[4]);
      r = sexp_bignum_sub(ctx, NULL, a, b); prz(sexp_bignum_sign(r)); printf(" "); prwords(r);
    } else if (!strcmp(f[0], "fxadd") && nf == 3) {
      inplace = 1;
      a = mkbig(ctx, "1", f[1]);
      r = sexp_bignum_fxadd(ctx, a, strtoull(f[2], NULL, 16)); prwords(r);
    } else if (!strcmp(f[0], "fxsub") && nf == 4) {
      inplace = 1;
      a = mkbig(ctx, f[1], f[2]);
      r = sexp_bignum_fxsub(ctx, a, strtoull(f[3], NULL, 16)); prz(sexp_bignum_sign(r)); printf(" "); prwords(r);
    } else if (!strcmp(f[0], "fxmul") && nf == 4) {
      a = mkbig(ctx, "1", f[1]);
      r = sexp_bignum_fxmul(ctx, NULL, a, strtoull(f[2], NULL, 16), atoi(f[3])); prwords(r);
    } else if (!strcmp(f[0], "fxdiv") && nf == 4) {
      inplace = 1;
      a = mkbig(ctx, "1", f[1]);
      sexp_uint_t rr = sexp_bignum_fxdiv(ctx, a, strtoull(f[2], NULL, 16), atoi(f[3]));
      prwords(a); printf(" %lx", (unsigned long)rr);
    } else if (!strcmp(f[0], "fxrem") && nf == 4) {
      a = mkbig(ctx, f[1], f[2]);
      { char *p = f[3]; int neg = (*p == '-'); if (neg) p++;
        sexp_sint_t bv = (sexp_sint_t)strtoull(p, NULL, 16);
        r = sexp_bignum_fxrem(ctx, a, neg ? -bv : bv); prnum(r); }
    } else if (!strcmp(f[0], "normalize") && nf == 3) {
      a = mkbig(ctx, f[1], f[2]); r = sexp_bignum_normalize(a); prnum(r);
    } else if (!strcmp(f[0], "bignum_mul") && nf == 5) {
      a = mkbig(ctx, f[1], f[2]); b = mkbig(ctx, f[3], f[4]);
      r = sexp_bignum_mul(ctx, NULL, a, b); prz(sexp_bignum_sign(r)); printf(" "); prwords(r);
    } else if (!strcmp(f[0], "quot_rem") && nf == 5) {
      a = mkbig(ctx, f[1], f[2]); b = mkbig(ctx, f[3], f[4]);
      { sexp rem = SEXP_VOID; r = sexp_bignum_quot_rem(ctx, &rem, a, b);
        if (sexp_exceptionp(r)) { printf("DIVZERO\n"); continue; }
        prnum(r); printf(" "); prnum(rem);
        /* operands must be untouched */
        printf(" | "); prz(sexp_bignum_sign(a)); printf(" "); prwords(a); printf(" "); prz(sexp_bignum_sign(b)); printf(" "); prwords(b); }
    } else if ((!strcmp(f[0], "num_add") || !strcmp(f[0], "num_sub") || !strcmp(f[0], "num_mul")) && nf == 3) {
      a = mknum(ctx, f[1]); b = mknum(ctx, f[2]);
      r = f[0][4] == 'a' ? sexp_add(ctx, a, b) : f[0][4] == 's' ? sexp_sub(ctx, a, b) : sexp_mul(ctx, a, b);
      prnum(r);
    } else if ((!strcmp(f[0], "vm_add") || !strcmp(f[0], "vm_sub") || !strcmp(f[0], "vm_mul")) && nf == 3) {
      /* through the VM opcode: a compiled (lambda (a b) (+ a b)) applied to the two numbers */
      a = mknum(ctx, f[1]); b = mknum(ctx, f[2]);
      r = sexp_list2(ctx, a, b);
      r = sexp_apply(ctx, f[0][3] == 'a' ? vmadd : f[0][3] == 's' ? vmsub : vmmul, r); prnum(r);
    } else if ((!strcmp(f[0], "num_quotient") || !strcmp(f[0], "num_remainder")) && nf == 3) {
      a = mknum(ctx, f[1]); b = mknum(ctx, f[2]);
      r = f[0][4] == 'q' ? sexp_quotient(ctx, a, b) : sexp_remainder(ctx, a, b);
      prnum(r);
    } else if ((!strcmp(f[0], "vm_quotient") || !strcmp(f[0], "vm_remainder")) && nf == 3) {
      a = mknum(ctx, f[1]); b = mknum(ctx, f[2]);
      r = sexp_list2(ctx, a, b);
      r = sexp_apply(ctx, f[0][3] == 'q' ? vmquo : vmrem, r); prnum(r);
    } else if (!strcmp(f[0], "bignum_expt") && nf == 4) {
      a = mkbig(ctx, f[1], f[2]);
      r = sexp_bignum_expt(ctx, a, sexp_make_fixnum(atol(f[3]))); prnum(r);
    } else if (!strcmp(f[0], "write_bignum") && nf == 3) {
      a = mkbig(ctx, "1", f[1]);
      b = sexp_open_output_string(ctx);
      sexp_write_bignum(ctx, a, b, strtoul(f[2], NULL, 10));
      r = sexp_get_output_string(ctx, b);
      if (sexp_stringp(r)) printf("%s", sexp_string_data(r)); else printf("ERR no-string");
    } else if (!strcmp(f[0], "read_number") && nf == 3) {
      a = sexp_c_string(ctx, f[2], -1);
      b = sexp_open_input_string(ctx, a);
      r = sexp_read_number(ctx, b, atoi(f[1]), 0); prnum(r);
    } else if (!strcmp(f[0], "num_compare") && nf == 3) {
      a = mknum(ctx, f[1]); b = mknum(ctx, f[2]);
      r = sexp_compare(ctx, a, b);
      if (!sexp_fixnump(r)) printf("ERR not-a-fixnum"); else prz(sexp_unbox_fixnum(r) > 0 ? 1 : sexp_unbox_fixnum(r) < 0 ? -1 : 0);
    } else if ((!strcmp(f[0], "x_compare") || !strncmp(f[0], "vm_cmp", 6)) && nf == 7) {
      /* round 3: sexp_compare / the VM comparison opcodes on any pair of real operands.
         operand: n <num> - | q <num> <den> | d <bits of a double> - | i +/- - | x - - */
      int side;
      for (side = 0; side < 2; side++) {
        char **o = f + 1 + 3 * side; sexp v;
        if (o[0][0] == 'n') v = mknum(ctx, o[1]);
        else if (o[0][0] == 'q') { a = mknum(ctx, o[1]); b = mknum(ctx, o[2]); v = sexp_make_ratio(ctx, a, b); }
        else if (o[0][0] == 'd') { union { double d; unsigned long long u; } cv; cv.u = strtoull(o[1], NULL, 16); v = sexp_make_flonum(ctx, cv.d); }
        else if (o[0][0] == 'i') v = sexp_make_flonum(ctx, o[1][0] == '-' ? -INFINITY : INFINITY);
        else v = sexp_make_flonum(ctx, NAN);
        if (side == 0) ra = v; else rb = v;
      }
      if (f[0][0] == 'x') {
        r = sexp_compare(ctx, ra, rb);
        if (sexp_exceptionp(r)) printf(sexp_stringp(sexp_exception_message(r)) && !strcmp("can't compare NaN", sexp_string_data(sexp_exception_message(r))) ? "NAN" : "EXC");
        else if (!sexp_fixnump(r)) printf("ERR not-a-fixnum");
        else prz(sexp_unbox_fixnum(r) > 0 ? 1 : sexp_unbox_fixnum(r) < 0 ? -1 : 0);
      } else {
        r = sexp_cons(ctx, rb, SEXP_NULL); r = sexp_cons(ctx, ra, r);
        r = sexp_apply(ctx, sexp_vector_ref(procs, sexp_make_fixnum(5 + (f[0][6] - '0'))), r);
        printf(r == SEXP_TRUE ? "B 1" : r == SEXP_FALSE ? "B 0" : "EXC");
      }
    } else if (!strcmp(f[0], "bignum_sqrt") && nf == 2) {
      a = mkbig(ctx, "1", f[1]);
      { sexp rem = SEXP_VOID; r = sexp_bignum_sqrt(ctx, a, &rem); prnum(r); printf(" "); prnum(rem); }
    } else if ((!strcmp(f[0], "ratio_round") || !strcmp(f[0], "ratio_trunc") || !strcmp(f[0], "ratio_floor") || !strcmp(f[0], "ratio_ceiling")) && nf == 3) {
      a = mknum(ctx, f[1]); b = mknum(ctx, f[2]); ra = sexp_make_ratio(ctx, a, b);
      r = f[0][6] == 'r' ? sexp_ratio_round(ctx, ra) : f[0][6] == 't' ? sexp_ratio_trunc(ctx, ra) : f[0][6] == 'f' ? sexp_ratio_floor(ctx, ra) : sexp_ratio_ceiling(ctx, ra);
      prnum(r);
    } else if (!strcmp(f[0], "ratio_sub") && nf == 5) {
      a = mknum(ctx, f[1]); b = mknum(ctx, f[2]); ra = sexp_make_ratio(ctx, a, b);
      a = mknum(ctx, f[3]); b = mknum(ctx, f[4]); rb = sexp_make_ratio(ctx, a, b);
      r = sexp_sub(ctx, ra, rb); prrat(r);
    } else if (!strcmp(f[0], "ratio_normalize") && nf == 3) {
      a = mknum(ctx, f[1]); b = mknum(ctx, f[2]);
      r = sexp_make_ratio(ctx, a, b);
      r = sexp_ratio_normalize(ctx, r, SEXP_FALSE); prrat(r);
    } else if ((!strcmp(f[0], "ratio_add") || !strcmp(f[0], "ratio_mul") || !strcmp(f[0], "ratio_div") || !strcmp(f[0], "ratio_compare")) && nf == 5) {
      a = mknum(ctx, f[1]); b = mknum(ctx, f[2]); ra = sexp_make_ratio(ctx, a, b);
      a = mknum(ctx, f[3]); b = mknum(ctx, f[4]); rb = sexp_make_ratio(ctx, a, b);
      if (f[0][6] == 'c') {
        r = sexp_ratio_compare(ctx, ra, rb);
        if (!sexp_fixnump(r)) printf("ERR not-a-fixnum"); else prz(sexp_unbox_fixnum(r) > 0 ? 1 : sexp_unbox_fixnum(r) < 0 ? -1 : 0);
      } else {
        r = f[0][6] == 'a' ? sexp_ratio_add(ctx, ra, rb) : f[0][6] == 'm' ? sexp_ratio_mul(ctx, ra, rb) : sexp_ratio_div(ctx, ra, rb);
        prrat(r);
      }
    } else {
      printf("ERR unknown request");
    }
    if (!inplace) { int k; for (k = 0; k < nsnap; k++) if (!same(&snaps[k], snapobj[k])) printf(" MUTATED-operand-%d", k); }
    printf("\n");
  }
  sexp_gc_release6(ctx);
  sexp_destroy_context(ctx);
  return 0;
}
