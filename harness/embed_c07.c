/* Inner correspondence for C07: builds environment chains, syntactic closures and rename entries with
   the real constructors (sexp_extend_env, sexp_env_push, sexp_env_rename, sexp_make_synclo_op), sets the
   compile context's free-variable list, and answers every lookup with the real sexp_env_cell /
   sexp_identifier_eq_op.  Line protocol = the environment-script part of ocaml/C07_driver.ml; every line
   gets exactly one answer line. */
#include <chibi/eval.h>
#include <stdio.h>
#include <string.h>
#include <stdlib.h>

#define MAXO 4096
static sexp ctx, store;   /* store: idents [0,MAXO), envs [MAXO,2MAXO), cells [2MAXO,3MAXO) */

static sexp get(int base, int i) { return sexp_vector_ref(store, sexp_make_fixnum(base * MAXO + i)); }
static void put(int base, int i, sexp v) { sexp_vector_set(store, sexp_make_fixnum(base * MAXO + i), v); }
#define IDENT(i) get(0, i)
#define ENV(i) get(1, i)
#define CELL(i) get(2, i)

int main(int argc, char **argv) {
  static char line[200000];
  sexp_scheme_init();
  ctx = sexp_make_eval_context(NULL, NULL, NULL, 0, 0);
  sexp_gc_var3(a, b, tmp);
  sexp_gc_preserve3(ctx, a, b, tmp);
  store = sexp_make_vector(ctx, sexp_make_fixnum(3 * MAXO), SEXP_FALSE);
  sexp_preserve_object(ctx, store);
  while (fgets(line, sizeof line, stdin)) {
    char *f[600]; int nf = 0; char *tok = strtok(line, " \n");
    while (tok && nf < 600) { f[nf++] = tok; tok = strtok(NULL, " \n"); }
    if (nf == 0) { printf("\n"); continue; }
    if (!strcmp(f[0], "config")) {
      printf("rename_bindings=%d strict_toplevel=%d flat_synclos=%d unwrapped_toplevel=%d",
             SEXP_USE_RENAME_BINDINGS, SEXP_USE_STRICT_TOPLEVEL_BINDINGS,
             SEXP_USE_FLAT_SYNTACTIC_CLOSURES, SEXP_USE_UNWRAPPED_TOPLEVEL_BINDINGS);
    } else if (!strcmp(f[0], "reset")) {
      for (int i = 0; i < 3 * MAXO; i++) sexp_vector_set(store, sexp_make_fixnum(i), SEXP_FALSE);
      sexp_context_fv(ctx) = SEXP_NULL;
      printf("ok");
    } else if (!strcmp(f[0], "sym") && nf == 3) {
      char nm[64]; snprintf(nm, sizeof nm, "s%s", f[2]);
      put(0, atoi(f[1]), sexp_intern(ctx, nm, -1));
      printf("ok");
    } else if (!strcmp(f[0], "env") && nf == 3) {
      int k = atoi(f[1]), p = atoi(f[2]);
      if (p < 0) {
        a = sexp_alloc_type(ctx, env, SEXP_ENV);
        sexp_env_parent(a) = NULL; sexp_env_lambda(a) = NULL;
        sexp_env_bindings(a) = SEXP_NULL; sexp_env_renames(a) = SEXP_NULL;
      } else {
        a = sexp_extend_env(ctx, ENV(p), SEXP_NULL, SEXP_FALSE);
        sexp_env_lambda(a) = NULL;
      }
      put(1, k, a);
      printf("ok");
    } else if (!strcmp(f[0], "bind") && nf == 4) {
      a = ENV(atoi(f[1]));
      sexp_env_push(ctx, a, tmp, IDENT(atoi(f[2])), sexp_make_fixnum(atoi(f[3])));
      put(2, atoi(f[3]), tmp);                 /* the cell is the (key . value) pair itself */
      printf("ok");
    } else if (!strcmp(f[0], "ren") && nf == 4) {
      sexp_env_rename(ctx, ENV(atoi(f[1])), IDENT(atoi(f[2])), CELL(atoi(f[3])));
      printf("ok");
    } else if (!strcmp(f[0], "clo") && nf >= 5) {
      int j = atoi(f[1]), k = atoi(f[2]), n = atoi(f[3]);
      a = SEXP_NULL;
      for (int i = n - 1; i >= 0; i--) a = sexp_cons(ctx, IDENT(atoi(f[4 + i])), a);
      b = sexp_make_synclo_op(ctx, NULL, 3, ENV(k), a, IDENT(atoi(f[4 + n])));
      put(0, j, b);
      printf("ok");
    } else if (!strcmp(f[0], "fv") && nf >= 2) {
      int n = atoi(f[1]);
      a = SEXP_NULL;
      for (int i = n - 1; i >= 0; i--) {
        char *it = f[2 + i];
        a = sexp_cons(ctx, it[0] == 'i' ? IDENT(atoi(it + 1)) : ENV(atoi(it + 1)), a);
      }
      sexp_context_fv(ctx) = a;
      printf("ok");
    } else if (!strcmp(f[0], "cell") && nf == 4) {
      sexp c = sexp_env_cell(ctx, ENV(atoi(f[1])), IDENT(atoi(f[2])), atoi(f[3]));
      if (!c) printf("-");
      else if (sexp_pairp(c) && sexp_fixnump(sexp_cdr(c))) printf("%ld", (long)sexp_unbox_fixnum(sexp_cdr(c)));
      else printf("ERR not-a-cell");
    } else if (!strcmp(f[0], "ideq") && nf == 5) {
      sexp r = sexp_identifier_eq_op(ctx, NULL, 4, ENV(atoi(f[1])), IDENT(atoi(f[2])), ENV(atoi(f[3])), IDENT(atoi(f[4])));
      printf("%s", r == SEXP_TRUE ? "1" : r == SEXP_FALSE ? "0" : "ERR");
    } else if (!strcmp(f[0], "name") && nf == 2) {
      sexp r = sexp_strip_synclos(ctx, NULL, 1, IDENT(atoi(f[1])));
      if (sexp_symbolp(r)) { a = sexp_symbol_to_string(ctx, r); printf("%s", sexp_string_data(a) + 1); }
      else printf("?");
    } else {
      printf("ERR unknown request");
    }
    printf("\n");
  }
  fflush(stdout);
  sexp_gc_release3(ctx);
  sexp_destroy_context(ctx);
  return 0;
}
