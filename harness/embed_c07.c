/* Inner correspondence for C07 (round 3 additions: form / xenv / ana / strip): builds environment chains, syntactic closures and rename entries with
   the real constructors (sexp_extend_env, sexp_env_push, sexp_env_rename, sexp_make_synclo_op), sets the
   compile context's free-variable list, and answers every lookup with the real sexp_env_cell /
   sexp_identifier_eq_op.  Line protocol = the environment-script part of ocaml/C07_driver.ml; every line
   gets exactly one answer line. */
#include <chibi/eval.h>
#include <stdio.h>
#include <string.h>
#include <stdlib.h>

extern sexp sexp_extend_synclo_env (sexp ctx, sexp env);   /* eval.c:235, not static, not in eval.h */
#define MAXO 4096
#define STKN 400000
static sexp ctx, store, stk;   /* stk: rooted construction stack of the datum builder */
static int sp;
static sexp env0;

/* ---- data for sexp_strip_synclos: prefix notation  S<n> symbol | L<n> fixnum | N nil | P a d | V<k> e1..ek | C e */
static char *nexttok(char **p) {
  char *s = *p, *t;
  while (*s == ' ' || *s == '\n') s++;
  if (!*s) return NULL;
  t = s;
  while (*s && *s != ' ' && *s != '\n') s++;
  if (*s) *s++ = 0;
  *p = s;
  return t;
}
#define STK(i) sexp_vector_ref(stk, sexp_make_fixnum(i))
#define PUSH(v) (sexp_vector_set(stk, sexp_make_fixnum(sp), (v)), sp++)
/* builds one datum, leaves it on top of stk, returns its index; -1 on a malformed line */
static int build(char **p) {
  char *t = nexttok(p);
  int base = sp, ia, id, k, i;
  sexp r;
  if (!t || sp >= STKN - 2) return -1;
  switch (t[0]) {
  case 'S': { char nm[64]; snprintf(nm, sizeof nm, "s%s", t + 1); r = sexp_intern(ctx, nm, -1); PUSH(r); return base; }
  case 'L': PUSH(sexp_make_fixnum(atoi(t + 1))); return base;
  case 'N': PUSH(SEXP_NULL); return base;
  case 'P':
    if ((ia = build(p)) < 0 || (id = build(p)) < 0) return -1;
    r = sexp_cons(ctx, STK(ia), STK(id));
    sp = base; PUSH(r); return base;
  case 'V':
    k = atoi(t + 1);
    for (i = 0; i < k; i++) if (build(p) < 0) return -1;
    r = sexp_make_vector(ctx, sexp_make_fixnum(k), SEXP_FALSE);
    for (i = 0; i < k; i++) sexp_vector_set(r, sexp_make_fixnum(i), STK(base + i));
    sp = base; PUSH(r); return base;
  case 'C':
    if ((ia = build(p)) < 0) return -1;
    r = sexp_make_synclo_op(ctx, NULL, 3, env0, SEXP_NULL, STK(ia));
    sp = base; PUSH(r); return base;
  }
  return -1;
}
static void show(sexp x) {
  if (sexp_synclop(x)) { printf("C "); show(sexp_synclo_expr(x)); }
  else if (sexp_pairp(x)) { printf("P "); show(sexp_car(x)); printf(" "); show(sexp_cdr(x)); }
  else if (sexp_nullp(x)) printf("N");
  else if (sexp_fixnump(x)) printf("L%ld", (long)sexp_unbox_fixnum(x));
  else if (sexp_symbolp(x)) { sexp s = sexp_symbol_to_string(ctx, x); printf("S%s", sexp_string_data(s) + 1); }
  else if (sexp_vectorp(x)) {
    int i, n = sexp_vector_length(x);
    printf("V%d", n);
    for (i = 0; i < n; i++) { printf(" "); show(sexp_vector_ref(x, sexp_make_fixnum(i))); }
  } else printf("?");
}
/* the analysed form: application = list, reference = its cell number ("-": no cell / created undefined) */
static void show_ast(sexp x) {
  if (sexp_pairp(x)) {
    printf("(");
    for ( ; sexp_pairp(x); x = sexp_cdr(x)) { show_ast(sexp_car(x)); if (sexp_pairp(sexp_cdr(x))) printf(" "); }
    printf(")");
  } else if (sexp_refp(x)) {
    sexp c = sexp_ref_cell(x);
    if (c && sexp_pairp(c) && sexp_fixnump(sexp_cdr(c))) printf("%ld", (long)sexp_unbox_fixnum(sexp_cdr(c)));
    else printf("-");
  } else if (sexp_exceptionp(x)) printf("ERR");
  else printf("?");
}
   /* store: idents [0,MAXO), envs [MAXO,2MAXO), cells [2MAXO,3MAXO) */

static sexp get(int base, int i) { return sexp_vector_ref(store, sexp_make_fixnum(base * MAXO + i)); }
static void put(int base, int i, sexp v) { sexp_vector_set(store, sexp_make_fixnum(base * MAXO + i), v); }
#define IDENT(i) get(0, i)
#define ENV(i) get(1, i)
#define CELL(i) get(2, i)

int main(int argc, char **argv) {
  static char line[200000];
  sexp_scheme_init();
  ctx = sexp_make_eval_context(NULL, NULL, NULL, 0, 0);
  sexp_gc_var3(a, b, tmp);
  sexp_gc_preserve3(ctx, a, b, tmp);
  store = sexp_make_vector(ctx, sexp_make_fixnum(3 * MAXO), SEXP_FALSE);
  sexp_preserve_object(ctx, store);
  stk = sexp_make_vector(ctx, sexp_make_fixnum(STKN), SEXP_FALSE);
  sexp_preserve_object(ctx, stk);
  env0 = sexp_context_env(ctx);
  while (fgets(line, sizeof line, stdin)) {
    if (!strncmp(line, "strip ", 6)) {
      /* strip <datum>: the real sexp_strip_synclos (predicate + copy) on a datum built with real pairs,
         vectors and syntactic closures */
      char *p = line + 6; int i;
      sp = 0;
      i = build(&p);
      if (i < 0) printf("ERR malformed");
      else { a = sexp_strip_synclos(ctx, NULL, 1, STK(i)); show(a); }
      printf("\n");
      for (i = 0; i < sp; i++) sexp_vector_set(stk, sexp_make_fixnum(i), SEXP_FALSE);
      continue;
    }
    char *f[600]; int nf = 0; char *tok = strtok(line, " \n");
    while (tok && nf < 600) { f[nf++] = tok; tok = strtok(NULL, " \n"); }
    if (nf == 0) { printf("\n"); continue; }
    if (!strcmp(f[0], "config")) {
      printf("rename_bindings=%d strict_toplevel=%d flat_synclos=%d unwrapped_toplevel=%d strip_bound=%d",
             SEXP_USE_RENAME_BINDINGS, SEXP_USE_STRICT_TOPLEVEL_BINDINGS,
             SEXP_USE_FLAT_SYNTACTIC_CLOSURES, SEXP_USE_UNWRAPPED_TOPLEVEL_BINDINGS, SEXP_STRIP_SYNCLOS_BOUND);
    } else if (!strcmp(f[0], "reset")) {
      for (int i = 0; i < 3 * MAXO; i++) sexp_vector_set(store, sexp_make_fixnum(i), SEXP_FALSE);
      sexp_context_fv(ctx) = SEXP_NULL;
      printf("ok");
    } else if (!strcmp(f[0], "sym") && nf == 3) {
      char nm[64]; snprintf(nm, sizeof nm, "s%s", f[2]);
      put(0, atoi(f[1]), sexp_intern(ctx, nm, -1));
      printf("ok");
    } else if (!strcmp(f[0], "env") && nf == 3) {
      int k = atoi(f[1]), p = atoi(f[2]);
      if (p < 0) {
        a = sexp_alloc_type(ctx, env, SEXP_ENV);
        sexp_env_parent(a) = NULL; sexp_env_lambda(a) = NULL;
        sexp_env_bindings(a) = SEXP_NULL; sexp_env_renames(a) = SEXP_NULL;
      } else {
        a = sexp_extend_env(ctx, ENV(p), SEXP_NULL, SEXP_FALSE);
        sexp_env_lambda(a) = NULL;
      }
      put(1, k, a);
      printf("ok");
    } else if (!strcmp(f[0], "bind") && nf == 4) {
      a = ENV(atoi(f[1]));
      sexp_env_push(ctx, a, tmp, IDENT(atoi(f[2])), sexp_make_fixnum(atoi(f[3])));
      put(2, atoi(f[3]), tmp);                 /* the cell is the (key . value) pair itself */
      printf("ok");
    } else if (!strcmp(f[0], "ren") && nf == 4) {
      sexp_env_rename(ctx, ENV(atoi(f[1])), IDENT(atoi(f[2])), CELL(atoi(f[3])));
      printf("ok");
    } else if (!strcmp(f[0], "clo") && nf >= 5) {
      int j = atoi(f[1]), k = atoi(f[2]), n = atoi(f[3]);
      a = SEXP_NULL;
      for (int i = n - 1; i >= 0; i--) a = sexp_cons(ctx, IDENT(atoi(f[4 + i])), a);
      b = sexp_make_synclo_op(ctx, NULL, 3, ENV(k), a, IDENT(atoi(f[4 + n])));
      put(0, j, b);
      printf("ok");
    } else if (!strcmp(f[0], "form") && nf >= 3) {
      /* form J n x1 .. xn : identifier slot J := the list (x1 .. xn) of other slots (a combination) */
      int j = atoi(f[1]), n = atoi(f[2]);
      a = SEXP_NULL;
      for (int i = n - 1; i >= 0; i--) a = sexp_cons(ctx, IDENT(atoi(f[3 + i])), a);
      put(0, j, a);
      printf("ok");
    } else if (!strcmp(f[0], "xenv") && nf == 4) {
      /* xenv K2 K CE : env K2 := sexp_extend_synclo_env(ctx with context env CE and the current fv list, env K) */
      tmp = sexp_context_env(ctx);
      sexp_context_env(ctx) = ENV(atoi(f[3]));
      a = sexp_extend_synclo_env(ctx, ENV(atoi(f[2])));
      sexp_context_env(ctx) = tmp;
      put(1, atoi(f[1]), a);
      printf("ok");
    } else if (!strcmp(f[0], "ana") && nf == 3) {
      /* ana CE J : the real analyze of form J in a context whose environment is CE (current fv list);
         syntactic closures around combinations go through eval.c:1216-1224 + sexp_extend_synclo_env */
      tmp = sexp_context_env(ctx);
      b = sexp_context_fv(ctx);
      sexp_context_env(ctx) = ENV(atoi(f[1]));
      a = sexp_analyze(ctx, IDENT(atoi(f[2])));
      sexp_context_env(ctx) = tmp;
      sexp_context_fv(ctx) = b;
      show_ast(a);
    } else if (!strcmp(f[0], "fv") && nf >= 2) {
      int n = atoi(f[1]);
      a = SEXP_NULL;
      for (int i = n - 1; i >= 0; i--) {
        char *it = f[2 + i];
        a = sexp_cons(ctx, it[0] == 'i' ? IDENT(atoi(it + 1)) : ENV(atoi(it + 1)), a);
      }
      sexp_context_fv(ctx) = a;
      printf("ok");
    } else if (!strcmp(f[0], "cell") && nf == 4) {
      sexp c = sexp_env_cell(ctx, ENV(atoi(f[1])), IDENT(atoi(f[2])), atoi(f[3]));
      if (!c) printf("-");
      else if (sexp_pairp(c) && sexp_fixnump(sexp_cdr(c))) printf("%ld", (long)sexp_unbox_fixnum(sexp_cdr(c)));
      else printf("ERR not-a-cell");
    } else if (!strcmp(f[0], "ideq") && nf == 5) {
      sexp r = sexp_identifier_eq_op(ctx, NULL, 4, ENV(atoi(f[1])), IDENT(atoi(f[2])), ENV(atoi(f[3])), IDENT(atoi(f[4])));
      printf("%s", r == SEXP_TRUE ? "1" : r == SEXP_FALSE ? "0" : "ERR");
    } else if (!strcmp(f[0], "name") && nf == 2) {
      sexp r = sexp_strip_synclos(ctx, NULL, 1, IDENT(atoi(f[1])));
      if (sexp_symbolp(r)) { a = sexp_symbol_to_string(ctx, r); printf("%s", sexp_string_data(a) + 1); }
      else printf("?");
    } else {
      printf("ERR unknown request");
    }
    printf("\n");
  }
  fflush(stdout);
  sexp_gc_release3(ctx);
  sexp_destroy_context(ctx);
  return 0;
}
