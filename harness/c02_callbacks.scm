;; C02 K-outer, dense schedules: C code of the compiled libraries that CALLS BACK INTO SCHEME while it holds heap pointers in C
;; locals -- lib/srfi/69/hash.c with a user-supplied hash procedure (sexp_get_bucket -> sexp_apply, also for every entry of
;; every old chain while the table is RESIZED) and a user-supplied equality (sexp_scan_bucket -> sexp_apply per chain element),
;; lib/srfi/95/qsort.c with closure comparators and key procedures (sexp_apply per comparison), on lists and vectors.
;; The callbacks allocate, so under a dense schedule a collection falls inside the callback for the 2nd, 3rd, ... element of a
;; chain / in the middle of a partition: whatever the C code holds only in a local at that point (the rest of an old chain
;; after its first pair was moved: seed C02-c2; the pivot; the key values) is swept.  Weak hash functions (3 and 5 distinct
;; values) give chains of >= 2 entries in every bucket; the sizes cross several regrow thresholds.  Every table is verified
;; entry by entry afterwards, after enough fresh allocation to reuse whatever was wrongly reclaimed.
;; The forced-collection schedule is started after the imports (CHIBI_VERIF_GC_START, computed by the plugin).
(import (chibi) (srfi 1) (srfi 69) (srfi 95))
(define (show . xs) (for-each (lambda (x) (write x) (display " ")) xs) (newline))
(define sink #f)
(define (churn n) (let lp ((i 0) (acc '())) (if (< i n) (lp (+ i 1) (cons (vector i i) acc)) (set! sink (length acc)))))
;; user hash procedures: allocate, few distinct values
(define (weak-hash m)
  (lambda (key . o)
    (let ((bound (if (pair? o) (car o) 1000003)))
      (set! sink (list key (make-vector 3 key) (number->string (if (number? key) key 0))))
      (modulo (modulo (if (number? key) key (string-length key)) m) bound))))
(define (alloc= a b) (let ((p (list a b))) (set! sink p) (equal? (car p) (cadr p))))
(define (val i) (list 'value i (number->string i)))
(define (verify ht n key)
  (churn 60)
  (let lp ((i 0) (bad '()))
    (if (< i n)
        (lp (+ i 1) (if (equal? (hash-table-ref/default ht (key i) #f) (val i)) bad (cons i bad)))
        (list (hash-table-size ht) (length (hash-table-keys ht)) bad))))
;; 1. built-in equality (= / eqv?), user hash: only the RESIZE and the bucket lookup call back
(define (fill! ht n key) (do ((i 0 (+ i 1))) ((= i n)) (hash-table-set! ht (key i) (val i))))
(let ((ht (make-hash-table eqv? (weak-hash 3))))
  (fill! ht 40 (lambda (i) i))
  (show 'h1 (verify ht 40 (lambda (i) i))))
;; 2. user equality and user hash: every chain element calls back on lookup, insert, update, delete
(let ((ht (make-hash-table alloc= (weak-hash 5))))
  (fill! ht 26 (lambda (i) i))
  (show 'h2 (verify ht 26 (lambda (i) i)))
  (do ((i 0 (+ i 3))) ((>= i 26)) (hash-table-update! ht i (lambda (v) (append v (list i))) (lambda () 'none)))
  (do ((i 1 (+ i 4))) ((>= i 26)) (hash-table-delete! ht i))
  (churn 40)
  (show 'h2b (hash-table-size ht) (hash-table-ref/default ht 3 #f) (hash-table-ref/default ht 5 #f) (hash-table-ref/default ht 4 #f)
        (fold + 0 (map car (hash-table->alist ht)))))
;; 3. string keys, hash on the length only, tables that start small and regrow several times; copy regrows too
(let ((ht (make-hash-table string=? (weak-hash 4))))
  (fill! ht 28 (lambda (i) (make-string (+ 1 (modulo (* i 7) 23)) (integer->char (+ 97 (modulo i 26))))))
  (let ((c (hash-table-copy ht)))
    (churn 40)
    (show 'h3 (hash-table-size ht) (hash-table-size c)
          (sort (map string-length (hash-table-keys c)) <)
          (equal? (sort (map cadr (hash-table-values ht)) <) (sort (map cadr (hash-table-values c)) <)))))
;; 4. sort: allocating comparators and key procedures, lists and vectors, stable and in-place variants
(define (alloc< a b) (let ((p (cons a b))) (set! sink p) (< (car p) (cdr p))))
(define (alloc-key x) (let ((p (list x x))) (set! sink p) (modulo (* (car p) 7919) 1009)))
(define data (map (lambda (i) (modulo (* i 7919) 257)) (iota 20)))
(show 's1 (sort data alloc<))
(show 's2 (sort (list->vector data) alloc<))
(show 's3 (sort data < alloc-key))
(show 's4 (sort! (list->vector (map (lambda (i) (list i (number->string i))) data)) (lambda (a b) (alloc< (car a) (car b)))))
(show 's5 (sort (map (lambda (i) (number->string (* i 1000003))) data) (lambda (a b) (string<? (string-append a "") b))))
(show 's6 (sort (list->vector (map (lambda (i) (* i (expt 2 70))) data)) (lambda (a b) (< (+ a 1) (+ b 1)))))
