"""C13 round 2: scripted multi-context scenarios for `embed_c13 ops`.

(A) resources(): random interleavings of context creation (the three ways an embedder hands over the standard
    streams), file ports opened by a context, writes to current-output/error-port, imports of and calls into
    C-backed libraries, and destroys — as ABSTRACT operations of the Coq model coq/C13/Res.v plus the concrete
    script line(s) that perform each of them.  judge_resources() compares, operation by operation, the trace of
    the EXTRACTED model (success flag, set of open resources, set of mapped libraries) with what the harness
    observed (bytes that reached descriptor 1/2, /proc/self/fd, /proc/self/maps).
(B) diff_scripts(): for one library, two parent-less contexts with DIFFERENT prior state (numbers of record
    types / symbols defined before the import) that import it and then call its exports (enumerated from the
    module system, arguments from a small pool, objects made BEFORE the other context imported the library
    included), and the single-context baselines of the same programs."""
import re

# C-backed libraries whose primary shared object is loaded by nothing else in the list, with a call that
# enters C code of that object
RES_LIBS = [
    ("(srfi 27)", "srfi/27/rand.so", "(integer? (random-integer 10))", "#t"),
    ("(srfi 69)", "srfi/69/hash.so", "(hash \"abc\" 1000003)", None),
    ("(srfi 151)", "srfi/151/bit.so", "(bit-count 255)", "8"),
    ("(srfi 98)", "srfi/98/env.so", "(string? (get-environment-variable \"PATH\"))", "#t"),
    ("(srfi 144)", "srfi/144/math.so", "(flonum? (flgamma 3.5))", "#t"),
    ("(srfi 18)", "srfi/18/threads.so", "(mutex? (make-mutex))", "#t"),
    ("(chibi time)", "chibi/time.so", "(integer? (current-seconds))", "#t"),
]
PRELUDE = "(import (scheme base) (scheme file) (scheme write))"


def resources(rng, tmpdir, nctx, nops, tag):
    """-> (abstract ops [str for the model driver], script text, per-op metadata)"""
    ops, lines, meta = [], [], []
    live, mode, imported, nfile, nwrite = [], {}, {}, [0], [0]
    ever = set()

    def add(op, script, **m):
        ops.append(op)
        m["first_line"] = len(lines) + 1
        lines.extend(script)
        lines.append("fds")
        lines.append("maps")
        m["fds_line"], m["maps_line"] = len(lines) - 1, len(lines)
        m["op"] = op
        meta.append(m)

    def new(i):
        m = rng.choice(["s", "s", "s", "d", "d", "p"])
        mode[i] = m
        imported[i] = []
        live.append(i)
        ever.add(i)
        add("n:%d:%s" % (i, m), ["new\tc%d\t%s\t%d" % (i, {"s": "std1", "d": "dup0", "p": "plain"}[m], rng.choice([0, 0, 1 << 20])),
                                 "eval\tc%d\t%s 1" % (i, PRELUDE)], kind="new", ctx=i, mode=m)

    lines.append("fds")
    lines.append("maps")
    for i in range(1, min(nctx, 2) + 1):
        new(i)
    nexti = len(live) + 1
    while len(ops) < nops:
        r = rng.random()
        if (r < 0.12 and nexti <= nctx) or not live:
            if nexti > nctx:
                break
            new(nexti)
            nexti += 1
            continue
        i = rng.choice(live)
        if r < 0.40:
            k = rng.choice([1, 2, 2])
            nwrite[0] += 1
            t = "%s-w%d-c%d-%s" % (tag, nwrite[0], i, "out" if k == 1 else "err")
            port = "(current-output-port)" if k == 1 else "(current-error-port)"
            add("w:%d:%d" % (i, k), ["eval\tc%d\t(write-string \"%s\\n\" %s) (flush-output %s) 'written" % (i, t, port, port)],
                kind="write", ctx=i, k=k, tag=t)
        elif r < 0.52:
            nfile[0] += 1
            path = "%s/%s-f%d" % (tmpdir, tag, nfile[0])
            add("o:%d" % i, ["eval\tc%d\t(define c13-p%d (open-output-file \"%s\")) (write-string \"x\" c13-p%d) 1" % (i, nfile[0], path, nfile[0])],
                kind="open", ctx=i, path=path)
        elif r < 0.68:
            l = rng.randrange(len(RES_LIBS))
            extra = ""
            if RES_LIBS[l][0] == "(srfi 18)" and rng.random() < 0.7:
                # a green thread of the context is still runnable when the context is destroyed
                extra = " (define c13-t (make-thread (lambda () (let lp () (thread-yield!) (lp))))) (thread-start! c13-t) (thread-yield!)"
            add("i:%d:%d" % (i, l), ["eval\tc%d\t(import %s)%s 1" % (i, RES_LIBS[l][0], extra)], kind="import", ctx=i, lib=l)
            if l not in imported[i]:
                imported[i].append(l)
        elif r < 0.82 and imported[i]:
            l = rng.choice(imported[i])
            add("c:%d:%d" % (i, l), ["eval\tc%d\t%s" % (i, RES_LIBS[l][2])], kind="call", ctx=i, lib=l)
        elif r < 0.88:
            # harness-only decoration (no resource effect in the model): collection + heap audit of a live context
            lines.append("audit\tc%d" % i)
        elif len(live) > 1 or nexti > nctx:
            pre = []
            if rng.random() < 0.4:
                pre.append("child\tk%d\tc%d" % (i, i))      # a child context is alive when its parent is destroyed
            if rng.random() < 0.3:
                pre.append("eval\tc%d\t(define c13-garbage (open-input-file \"/dev/null\")) 1" % i)
                add("o:%d" % i, pre, kind="open", ctx=i, path="/dev/null")
                pre = []
            live.remove(i)
            add("x:%d" % i, pre + ["destroy\tc%d" % i], kind="destroy", ctx=i)
            # every surviving context writes to its error port and calls into its libraries right after
            for j in list(live):
                if mode[j] != "p":
                    nwrite[0] += 1
                    t = "%s-w%d-c%d-err-after-destroy-c%d" % (tag, nwrite[0], j, i)
                    add("w:%d:2" % j, ["eval\tc%d\t(write-string \"%s\\n\" (current-error-port)) (flush-output (current-error-port)) 'written" % (j, t)],
                        kind="write", ctx=j, k=2, tag=t)
                for l in imported[j][:2]:
                    add("c:%d:%d" % (j, l), ["eval\tc%d\t%s" % (j, RES_LIBS[l][2])], kind="call", ctx=j, lib=l)
    for i in list(live):
        live.remove(i)
        add("x:%d" % i, ["destroy\tc%d" % i], kind="destroy", ctx=i)
    return ops, "\n".join(lines) + "\n", meta


def parse_ops_output(out):
    """-> {line no: (op, slot, text)}, {line no: {'out': bytes, 'err': bytes}}, ended"""
    O, C, ended = {}, {}, False
    for line in out.split("\n"):
        f = line.split("\t")
        if f[0] == "O" and len(f) >= 5:
            O[int(f[1])] = (f[2], f[3], "\t".join(f[4:]))
            if f[2] == "end":
                ended = True
        elif f[0] == "C" and len(f) >= 4:
            C.setdefault(int(f[1]), {})[f[2]] = C.get(int(f[1]), {}).get(f[2], "") + f[3]
    return O, C, ended


def parse_fds(text):
    t = {}
    for item in text.split(" "):
        if ">" in item:
            a, b = item.split(">", 1)
            t[int(a)] = b
    return t


def judge_resources(model_trace, meta, out, nlibs):
    """model_trace: list of (ok, [open rids], [mapped libs]) per abstract op.
       -> list of problems: dict(kind='violation'|'broken', sig, op index, detail)"""
    O, C, ended = parse_ops_output(out)
    probs = []
    if 1 not in O or O[1][0] != "fds":
        return [dict(kind="broken", sig="ops-output", at=0, detail="no initial descriptor table in the output")]
    host = parse_fds(O[1][2])            # descriptors of the process before any context exists (0 1 2 = rids 0 1 2)
    fd_of = {0: 0, 1: 1, 2: 2}
    prev = dict(host)
    lost = set()
    for n, (m, (ok, rids, mapped)) in enumerate(zip(meta, model_trace)):
        if m["fds_line"] not in O:
            probs.append(dict(kind="violation", sig="crash:ops", at=n, detail="the harness died during operation %s (%s)" % (m["op"], m["kind"])))
            break
        cur = parse_fds(O[m["fds_line"]][2])
        maps = set(O[m["maps_line"]][2].split()) if m["maps_line"] in O else set()
        appeared = sorted(set(cur) - set(prev))
        # resources created by this operation: bind the model's fresh ids to the descriptors that appeared
        fresh = [r for r in rids if r not in fd_of]
        if m["kind"] == "new" and m.get("mode") == "d" and len(fresh) == 3 and len(appeared) == 3:
            by_target = {}
            for fd in appeared:
                by_target.setdefault(cur[fd], []).append(fd)
            for r, base in zip(fresh, (0, 1, 2)):
                c = by_target.get(host.get(base), [])
                if c:
                    fd_of[r] = c.pop(0)
        elif len(fresh) == len(appeared):
            for r, fd in zip(fresh, appeared):
                fd_of[r] = fd
        if any(r not in fd_of for r in rids):
            probs.append(dict(kind="broken", sig="resource-model:descriptor-count", at=n,
                              detail="operation %s: the model opens %d resource(s), %d descriptor(s) appeared: %s" % (m["op"], len(fresh), len(appeared), [cur[f] for f in appeared])))
            break
        expect = set(host) | {fd_of[r] for r in rids}
        missing = sorted(expect - set(cur) - lost)
        lost |= set(missing)
        extra = sorted(set(cur) - expect)
        for fd in missing:
            rid = next((r for r, f in fd_of.items() if f == fd and r in rids), None)
            what = ("standard stream %d of the process" % fd) if fd in (0, 1, 2) else \
                   ("a descriptor of the host" if rid is None else "a stream owned by another, live context")
            probs.append(dict(kind="violation", sig="resource:%s:closed-%s" % (m["kind"], "std-stream-%d" % fd if fd in (0, 1, 2) else ("host-descriptor" if rid is None else "foreign-private-stream")),
                              at=n, detail="operation %s closed descriptor %d (%s -> %s); the model (coq/C13/Res.v) keeps it open" % (m["op"], fd, what, prev.get(fd, "?"))))
        for fd in extra:
            probs.append(dict(kind="broken", sig="resource-model:descriptor-left-open", at=n,
                              detail="after operation %s descriptor %d (%s) is open; the model has it closed (a resource owned by a destroyed context was not released, or an operation opened something the model does not know)" % (m["op"], fd, cur[fd])))
        # writes: the bytes must have reached the descriptor exactly when the model says the stream is open
        if m["kind"] == "write":
            got = "".join(C.get(ln, {}).get("out" if m["k"] == 1 else "err", "") for ln in range(m["first_line"], m["fds_line"]))
            res = O.get(m["first_line"], ("", "", "?"))[2]
            arrived = (m["tag"] + "\\n") in got
            if ok and not arrived:
                probs.append(dict(kind="violation", sig="resource:write-lost:%s" % ("current-output-port" if m["k"] == 1 else "current-error-port"), at=n,
                                  detail="context c%d wrote %r to its %s (eval -> %s); nothing reached descriptor %d" % (m["ctx"], m["tag"], "current-output-port" if m["k"] == 1 else "current-error-port", res[:120], m["k"])))
            if not ok and arrived:
                probs.append(dict(kind="broken", sig="resource-model:write-succeeds", at=n, detail="operation %s: the model says the write fails, the bytes arrived" % m["op"]))
        if m["kind"] == "call":
            res = O.get(m["first_line"], ("", "", "?"))[2]
            want = RES_LIBS[m["lib"]][3]
            if ok and (res.startswith("ERR:") or (want is not None and res != want)):
                probs.append(dict(kind="violation", sig="resource:library-call-fails:%s" % RES_LIBS[m["lib"]][0], at=n,
                                  detail="context c%d called into %s after operation history; result %s (expected %s)" % (m["ctx"], RES_LIBS[m["lib"]][1], res[:200], want)))
        if m["kind"] in ("new", "destroy", "open", "import"):
            res = O.get(m["fds_line"] - 1, ("", "", "?"))[2]
            if ok and res.startswith("ERR:"):
                probs.append(dict(kind="violation", sig="resource:%s-fails" % m["kind"], at=n, detail="operation %s -> %s" % (m["op"], res[:200])))
        # libraries: mapped at least where the model says so (a library needed by a live context stays mapped)
        for l in range(nlibs):
            if l in mapped and RES_LIBS[l][1] not in maps:
                probs.append(dict(kind="violation", sig="resource:library-unmapped:%s" % RES_LIBS[l][0], at=n,
                                  detail="after operation %s the shared object %s is no longer mapped although the model holds a reference for a context" % (m["op"], RES_LIBS[l][1])))
            if l not in mapped and RES_LIBS[l][1] in maps:
                probs.append(dict(kind="note", sig="library-stays-mapped", at=n, detail=RES_LIBS[l][1]))
        prev = cur
        if len(probs) > 12:
            break
    else:
        if not ended:
            probs.append(dict(kind="violation", sig="crash:ops", at=len(meta), detail="the harness did not reach the end of the script"))
    return probs


# ------------------------------------------------------------------ (B) differential search per library

DENY = re.compile(r"exit|kill|fork|exec|process->|sleep|join|lock|wait|terminate|delete|remove|rename|unlink|rmdir|mkdir|create|chmod|chown|"
                  r"truncate|link|write|send|listen|accept|connect|read|receive|signal|alarm|abort|emergency|system|open|close|"
                  r"set-|-set!|!$|call-with|with-|current-thread|yield|file|directory|dir|chdir|umask|pipe|dup|tty|pty|socket|poll|select|flush|load|import|eval|env|trace|profil|gc|heap|debug|string-cursor|cursor")

POOL = ["", "0", "1", "10", "-1", "1.5", "\"ab\"", "'sym", "'()", "'(1 2)", "#t", "0 1", "10 3", "1 \"ab\"", "\"ab\" 0", "255 16", "7 2 1"]


def shift_text(k, nsym):
    s = "(import (scheme base) (scheme write))"
    if k:
        s += " (import (srfi 9)) " + " ".join("(define-record-type <c13-shift%d> (mk-c13-shift%d a) c13-shift%d? (a c13-shift%d-a))" % (i, i, i, i) for i in range(k))
    if nsym:
        s += " (define c13-syms (map (lambda (i) (string->symbol (string-append \"c13-sym-\" (number->string i)))) '(%s)))" % " ".join(map(str, range(nsym)))
    return s + " 1"


HELPERS = """(define (c13-kind x) (cond ((exact-integer? x) "int") ((number? x) "num") ((string? x) "str") ((symbol? x) "sym") ((boolean? x) "bool") ((null? x) "null") ((pair? x) "pair") ((vector? x) "vec") ((bytevector? x) "bv") ((procedure? x) "proc") ((char? x) "char") ((eof-object? x) "eof") (else "obj")))
(define (c13-text x) (let ((o (open-output-string))) (write x o) (let ((s (get-output-string o))) (if (> (string-length s) 120) (substring s 0 120) s))))
(define c13-old '())
(define (c13-call name thunk keep) (guard (e ((error-object? e) (string-append name " ERR|" (error-object-message e))) (#t (string-append name " ERR|raised"))) (let ((v (thunk))) (if (and keep (equal? (c13-kind v) "obj")) (set! c13-old (cons (cons name v) c13-old))) (string-append name " " (c13-kind v) "|" (c13-text v)))))
1"""
HELPERS = " ".join(HELPERS.split("\n"))


POOL_MILD = ["", "1", "10", "\"ab\"", "'sym", "'(1 2)", "10 3", "7 2 1"]     # when the full pool crashes the library in a single context


def use_text(exports, phase, pool=None):
    """calls of every (allowed) export with the argument pool; phase 1 keeps the objects it gets, later phases also
       pass those old objects to every export"""
    calls = []
    for name in exports:
        if DENY.search(name):
            continue
        for n, args in enumerate(pool or POOL):
            calls.append("(c13-call \"%s#%d\" (lambda () (%s %s)) %s)" % (name, n, name, args, "#t" if phase == 1 else "#f"))
        if phase > 1:
            calls.append("(map (lambda (o) (c13-call (string-append \"%s@\" (car o)) (lambda () (%s (cdr o))) #f)) c13-old)" % (name, name))
    # a non-procedure export applied to arguments raises "non procedure application" in every context alike
    return "(list %s)" % " ".join(calls)


def _blocked_read_round(slot, k):
    """(srfi 18): a green thread of the context blocks reading a non-blocking pipe (sexp_blocker -> the scheduler's poll set,
    threads.c sexp_insert_pollfd / sexp_make_pollfds), the pipe is fed, the thread is joined; then a forced collection.
    -> script lines; the LAST eval's value is the result list"""
    ch = "xyzwvutsrq"[k % 10]
    return ["eval\t%s\t(define c13-rd%d (make-thread (lambda () (read-char c13-pipe-in)))) (thread-start! c13-rd%d) (do ((i 0 (+ i 1))) ((= i 10)) (thread-yield!)) 1" % (slot, k, k),
            "feed\t%s\t%s" % (slot, ch),
            "gc\t%s" % slot,
            "eval\t%s\t(list (c13-call \"blocked-read-in-green-thread#%d\" (lambda () (thread-join! c13-rd%d 5 'never-woken)) #f) (c13-call \"allocate-after-gc#%d\" (lambda () (vector-length (make-vector 20000 0))) #f))" % (slot, k, k, k)]


# per-library additions to the call pool: operations that no export call with pool arguments reaches
EXTRA_SETUP = {"(srfi 18)": lambda slot: ["pipe\t%s\tc13-pipe-in" % slot]}
EXTRA_ROUND = {"(srfi 18)": _blocked_read_round}


def diff_scripts(libname, exports, ka, kb, sa, sb, pool=None):
    imp = "(import %s) 1" % libname
    u1, u2 = use_text(exports, 1, pool), use_text(exports, 2, pool)
    setup = EXTRA_SETUP.get(libname, lambda slot: [])
    rnd = EXTRA_ROUND.get(libname)

    class Script:
        def __init__(self):
            self.lines, self.pos, self.audits, self.k = [], {"A": [], "B": []}, [], 0

        def add(self, *ls):
            self.lines.extend(ls)

        def use(self, who, text):
            self.lines.append("eval\t%s\t%s" % (who, text))
            self.pos[who].append(len(self.lines))
            if rnd:
                self.k += 1
                self.lines.extend(rnd(who, self.k))
                self.pos[who].append(len(self.lines))

        def audit(self, who):
            self.lines.append("audit\t%s" % who)
            self.audits.append(len(self.lines))

    def start(sc, who, k, s):
        sc.add("new\t%s\tplain\t0" % who, "eval\t%s\t%s" % (who, shift_text(k, s)), "eval\t%s\t%s" % (who, HELPERS))

    two = Script()
    start(two, "A", ka, sa)
    start(two, "B", kb, sb)
    two.add("eval\tA\t" + imp, *setup("A"))
    two.use("A", u1)
    two.add("eval\tB\t" + imp, *setup("B"))
    two.use("B", u1)
    two.use("A", u2)
    two.use("B", u2)
    two.audit("A")
    two.audit("B")
    two.add("destroy\tB")
    two.use("A", u2)
    two.add("destroy\tA")

    def own_program(who):
        """the lines of `two` that belong to context `who`, renamed to A, as a script of its own"""
        sc = Script()
        for n, ln in enumerate(two.lines, 1):
            f = ln.split("\t")
            if len(f) > 1 and f[1] == who:
                f[1] = "A"
                sc.lines.append("\t".join(f))
                if n in two.pos[who]:
                    sc.pos["A"].append(len(sc.lines))
        return sc
    sa_, sb_ = own_program("A"), own_program("B")
    return ("\n".join(two.lines) + "\n", dict(A=two.pos["A"], B=two.pos["B"], audits=two.audits),
            "\n".join(sa_.lines) + "\n", sa_.pos["A"], "\n".join(sb_.lines) + "\n", sb_.pos["A"])


def split_results(text):
    """result text of a use program: a written list of strings -> [(call name, kind, value text)]"""
    items = re.findall(r'"((?:[^"\\]|\\.)*)"', text)
    out = []
    for it in items:
        m = re.match(r"(\S+) ([^|]*)\|(.*)$", it, re.S)
        if m:
            out.append((m.group(1), m.group(2), re.sub(r"#<[^>]*>", "#<obj>", m.group(3))))
    return out


# ------------------------------------------------------------------ (C) round 3: signal delivery (model coq/C13/Sig.v)

SIGS = [10, 12, 14, 23, 28]          # USR1 USR2 ALRM URG WINCH
SIG_PRELUDE = ("(import (scheme base) (chibi process) (srfi 18)) (define c13-sig-got '()) "
               "(define (c13-settle) (do ((i 0 (+ i 1))) ((= i 20)) (thread-yield!))) 1")


def signals(rng, nctx, nops, scripted_prefix=True):
    """random history of: contexts created, Scheme handlers installed for a signal in a context, signals ignored, signals
    raised (kill(getpid(), s)), contexts running their scheduler, contexts destroyed (their handler signals are set to
    'ignore' first: the table of lib/chibi/signal.c keeps a raw context pointer).
    -> (model ops, script text, meta)"""
    ops, lines, meta = [], [], []
    live, disp, route = [], {}, {}

    def add(op, script, **m):
        ops.append(op)
        m["op"], m["first_line"] = op, len(lines) + 1
        lines.extend(script)
        m["state"] = {}
        for j in live:
            lines.append("sigstate\tc%d" % j)
            m["state"][j] = len(lines)
        meta.append(m)

    def new(i):
        live.append(i)
        add("n:%d" % i, ["new\tc%d\tplain\t0" % i, "eval\tc%d\t%s" % (i, SIG_PRELUDE)], kind="new", ctx=i)

    def install(i, s):
        disp[s], route[s] = "h", i
        add("h:%d:%d" % (i, s), ["eval\tc%d\t(set-signal-action! %d (lambda (n) (set! c13-sig-got (cons n c13-sig-got)))) 1" % (i, s)], kind="install", ctx=i, sig=s)

    def ignore(i, s):
        disp[s], route[s] = "i", i
        add("g:%d:%d" % (i, s), ["eval\tc%d\t(set-signal-action! %d #f) 1" % (i, s)], kind="ignore", ctx=i, sig=s)

    def raise_(s):
        add("r:%d" % s, ["raise\t%d" % s], kind="raise", sig=s)

    def run(i):
        add("u:%d" % i, ["eval\tc%d\t(c13-settle) 1" % i], kind="run", ctx=i)

    def destroy(i):
        for s in sorted(disp):
            if disp[s] == "h" and route[s] == i:
                ignore(i, s)
        live.remove(i)
        add("x:%d" % i, ["destroy\tc%d" % i], kind="destroy", ctx=i)

    new(1)
    new(2)
    nexti = 3
    if scripted_prefix:
        # two contexts, DIFFERENT signals, the one registered EARLIER is raised first; then re-registration
        s1, s2 = rng.sample(SIGS, 2)
        install(1, s1); install(2, s2); raise_(s1); run(2); run(1); raise_(s2); run(1); run(2)
        install(1, s1); raise_(s2); raise_(s1); run(2); run(1)
    while len(ops) < nops:
        r = rng.random()
        handled = [s for s in SIGS if disp.get(s) == "h"]
        if r < 0.07 and nexti <= nctx:
            new(nexti)
            nexti += 1
        elif r < 0.35:
            if r < 0.30 or not disp:
                s0 = rng.choice(SIGS)
                install(rng.choice(live), s0)
            else:
                s0 = rng.choice(sorted(disp))
                ignore(rng.choice(live), s0)
            if rng.random() < 0.6:
                # independence sweep: registering / ignoring s0 must not change where any OTHER signal goes
                for s in [x for x in SIGS if disp.get(x) == "h" and x != s0]:
                    raise_(s)
                for j in list(live):
                    run(j)
        elif r < 0.65 and (handled or disp):
            raise_(rng.choice(handled) if handled and rng.random() < 0.9 else rng.choice(sorted(disp)))
        elif r < 0.93:
            run(rng.choice(live))
        elif len(live) > 1:
            destroy(rng.choice(live))
            if not live:
                break
    for i in list(live):
        run(i)
    for i in list(live):
        destroy(i)
    return ops, "\n".join(lines) + "\n", meta


def judge_signals(model_lines, meta, out):
    O, C, ended = parse_ops_output(out)
    probs = []
    for n, (m, item) in enumerate(zip(meta, model_lines)):
        ok, rest = item.split("/", 1)
        want = {}
        for part in filter(None, rest.split(",")):
            i, st = part.split("=")
            pend, got = st.split("|")
            want[int(i)] = ([int(x) for x in pend.split(".") if x], [int(x) for x in got.split(".") if x])
        if ok != "1":
            probs.append(dict(kind="broken", sig="signal-model:generator", at=n, detail="the model refuses operation %s (generator and model disagree about what is defined)" % m["op"]))
            break
        res = O.get(m["first_line"] + (1 if m["kind"] == "new" else 0))
        if res is None:
            probs.append(dict(kind="violation", sig="signal:crash-on-delivery" if m["kind"] == "raise" else "crash:ops", at=n, detail="the harness died during operation %s" % m["op"]))
            break
        if res[2].startswith("ERR"):
            probs.append(dict(kind="violation", sig="signal:%s-fails" % m["kind"], at=n, detail="%s -> %s" % (m["op"], res[2][:200])))
        if sorted(want) != sorted(m["state"]):
            probs.append(dict(kind="broken", sig="signal-model:live-contexts", at=n, detail="model %s, script %s" % (sorted(want), sorted(m["state"]))))
            break
        for j, ln in sorted(m["state"].items()):
            st = O.get(ln)
            if st is None:
                probs.append(dict(kind="violation", sig="crash:ops", at=n, detail="the harness died after operation %s" % m["op"]))
                break
            mm = re.match(r"pending=(-?\d+) got=(.*)$", st[2])
            if not mm:
                probs.append(dict(kind="broken", sig="ops-output", at=n, detail=st[2][:200]))
                continue
            mask = sum(1 << s for s in want[j][0])
            got_txt = "(" + " ".join(map(str, want[j][1])) + ")"
            if int(mm.group(1)) != mask:
                probs.append(dict(kind="violation", sig="signal:pending-mask-of-wrong-context", at=n,
                                  detail="after %s context c%d has pending-signal mask %s, the model (one table entry per signal number, coq/C13/Sig.v) says %d" % (m["op"], j, mm.group(1), mask)))
            if mm.group(2) != got_txt:
                probs.append(dict(kind="violation", sig="signal:handler-log-differs", at=n,
                                  detail="after %s the handlers of context c%d have run for %s, the model says %s" % (m["op"], j, mm.group(2), got_txt)))
        if len(probs) > 8:
            break
    else:
        if not ended:
            probs.append(dict(kind="violation", sig="crash:ops", at=len(meta), detail="the harness did not reach the end of the script"))
    return probs


# ------------------------------------------------------------------ (D) round 3: per-context tables (model coq/C13/Tab.v)

TAB_LIBS = ["(srfi 69)", "(srfi 27)", "(srfi 18)", "(chibi time)", "(srfi 151)", "(srfi 98)", "(srfi 9)", "(srfi 144)"]


def tables_plan(rng, nctx, nops):
    """interleaved plan of table operations of several parent-less contexts"""
    plan, live, keys, nexti = [], [], {}, 1
    names = ["0c13-s%d" % k for k in range(8)] + ["0c13-a-rather-long-symbol-name-number-%d" % k for k in range(3)]

    def new():
        nonlocal nexti
        i = nexti
        nexti += 1
        live.append(i)
        keys[i] = []
        plan.append(dict(kind="new", ctx=i, heap=rng.choice([0, 0, 1 << 20]), hs=rng.choice([20, 40, 60])))

    new()
    new()
    while len(plan) < nops:
        r = rng.random()
        if r < 0.06 and nexti <= nctx:
            new()
            continue
        if not live:
            break
        i = rng.choice(live)
        if r < 0.36:
            key = rng.choice([k for k in range(1, 400) if k not in keys[i]][:12] if rng.random() < 0.7 else [k for k in range(1, 400) if k not in keys[i]])
            parent = None
            if keys[i] and rng.random() < 0.5:
                parent = rng.choice(keys[i])
            elif rng.random() < 0.1:
                parent = "bogus"
            keys[i].append(key)
            plan.append(dict(kind="reg", ctx=i, key=key, parent=parent))
        elif r < 0.40:
            # a burst that crosses the type-array boundary (array doubling, sexp.c:337-349)
            for _ in range(rng.choice([30, 45])):
                key = next(k for k in range(400, 999) if k not in keys[i])
                keys[i].append(key)
                plan.append(dict(kind="reg", ctx=i, key=key, parent=None))
        elif r < 0.60:
            plan.append(dict(kind="intern", ctx=i, name=rng.choice(names)))
        elif r < 0.74:
            plan.append(dict(kind="define", ctx=i, name=rng.choice(names), value=rng.randrange(1, 200)))
        elif r < 0.86:
            plan.append(dict(kind="load", ctx=i, lib=rng.randrange(len(TAB_LIBS))))
        elif r < 0.92:
            plan.append(dict(kind="audit", ctx=i))
        elif len(live) > 1 or nexti > nctx:
            live.remove(i)
            plan.append(dict(kind="destroy", ctx=i))
    for i in list(live):
        plan.append(dict(kind="destroy", ctx=i))
    return plan


def tables_script(plan, only=None):
    """script of the interleaved run (only=None) or of context `only` alone (its own operations, nothing else)
    -> (text, [per plan index: dict(main=line, probes={ctx: line}, dumps={ctx: line}) or None])"""
    lines, info, live = ["consts"], [], []
    for p in plan:
        i = p["ctx"]
        if only is not None and i != only:
            if p["kind"] == "new":
                pass
            info.append(None)
            continue
        m = dict(probes={}, dumps={})
        k = p["kind"]
        if k == "new":
            live.append(i)
            lines.append("new\tc%d\tplain\t%d" % (i, p["heap"]))
        elif k == "reg":
            par = "-" if p["parent"] is None else ("99999" if p["parent"] == "bogus" else "@t%d" % p["parent"])
            lines.append("regtype\tc%d\tt%d\t%s" % (i, p["key"], par))
        elif k == "intern":
            lines.append("intern\tc%d\t%s" % (i, p["name"]))
        elif k == "define":
            lines.append("define\tc%d\t%s\t%d" % (i, p["name"], p["value"]))
        elif k == "load":
            lines.append("eval\tc%d\t(import %s) 1" % (i, TAB_LIBS[p["lib"]]))
        elif k == "audit":
            lines.append("audit\tc%d" % i)
        elif k == "destroy":
            live.remove(i)
            lines.append("destroy\tc%d" % i)
        m["main"] = len(lines)
        if k == "intern":
            for j in live:
                if j != i:
                    lines.append("find\tc%d\t%s" % (j, p["name"]))
                    m["probes"][j] = len(lines)
        if k == "define":
            for j in live:
                lines.append("lookup\tc%d\t%s" % (j, p["name"]))
                m["probes"][j] = len(lines)
        for j in live:
            lines.append("tables\tc%d" % j)
            m["dumps"][j] = len(lines)
        info.append(m)
    return "\n".join(lines) + "\n", info


def parse_tables(text):
    d = dict(x.split("=", 1) for x in text.split(" ") if "=" in x)
    out = dict(nt=int(d["nt"]), cap=int(d["cap"]), nsym=int(d["nsym"]), nmod=int(d["nmod"]), audit=d["audit"],
               glob=int(d["glob"], 16), symtab=int(d["symtab"], 16), tarr=int(d["tarr"], 16))
    out["heaps"] = [(int(a, 16), int(b, 16)) for a, b in (h.split(":") for h in d.get("heaps", "").split(",") if h)]
    return out


def judge_tables(plan, inter_out, inter_info, alone, run_model):
    """alone: {ctx: (out, info)} of the single-context runs.  run_model(ncore, nids, ops) -> list of answer items.
    -> list of problems dict(kind, sig, at, detail)"""
    probs = []
    O, _, ended = parse_ops_output(inter_out)
    m0 = re.match(r"ncore=(\d+) symtab=(\d+)", O.get(1, ("", "", ""))[2])
    if not m0:
        return [dict(kind="broken", sig="ops-output", at=0, detail="no consts line")]
    ncore = int(m0.group(1))
    if int(m0.group(2)) != 389:
        return [dict(kind="broken", sig="tables-model:symbol-table-size", at=0, detail="SEXP_SYMBOL_TABLE_SIZE is %s, the model has 389" % m0.group(2))]
    # ---- the single-context runs: parameters of the opaque operations, ids of parents, expected module counts
    AO = {}
    for i, (out, info) in alone.items():
        Oi, _, endi = parse_ops_output(out)
        if not endi:
            return [dict(kind="broken", sig="tables:alone-run", at=0, detail="the single-context run of context c%d does not complete" % i)]
        AO[i] = (Oi, info)
    prev_dump, type_id, alone_dump = {}, {}, {}
    mops, mmap = [], []      # model operations and, per model op, (plan index, role, ctx)
    for n, p in enumerate(plan):
        i, k = p["ctx"], p["kind"]
        Oi, info = AO[i]
        a = info[n]
        dump = parse_tables(Oi[a["dumps"][i]][2]) if i in a["dumps"] else None
        alone_dump[n] = dump
        if k == "new":
            mops += ["N:%d:%d" % (i, p["hs"]), "L:%d:0:%d:%d" % (i, dump["nt"] - ncore, dump["nsym"])]
            mmap += [(n, "skip", i), (n, "main", i)]
        elif k == "reg":
            mm = re.match(r"id=(\d+)", Oi[a["main"]][2])
            if not mm:
                return [dict(kind="broken", sig="tables:alone-run", at=n, detail="regtype alone -> %s" % Oi[a["main"]][2])]
            type_id[(i, p["key"])] = int(mm.group(1))
            par = "-" if p["parent"] is None else ("9999" if p["parent"] == "bogus" else str(type_id[(i, p["parent"])]))
            mops.append("R:%d:%d:%s" % (i, p["key"], par))
            mmap.append((n, "main", i))
        elif k == "intern":
            mops.append("I:%d:%s" % (i, p["name"]))
            mmap.append((n, "main", i))
            for j in sorted(inter_info[n]["probes"]):
                mops.append("F:%d:%s" % (j, p["name"]))
                mmap.append((n, "probe", j))
        elif k == "define":
            mops.append("D:%d:%s:%d" % (i, p["name"], p["value"]))
            mmap.append((n, "main", i))
            for j in sorted(inter_info[n]["probes"]):
                mops.append("K:%d:%s" % (j, p["name"]))
                mmap.append((n, "probe", j))
        elif k == "load":
            mops.append("L:%d:%d:%d:%d" % (i, p["lib"] + 1, dump["nt"] - prev_dump[i]["nt"], dump["nsym"] - prev_dump[i]["nsym"]))
            mmap.append((n, "main", i))
        elif k == "destroy":
            mops.append("X:%d" % i)
            mmap.append((n, "main", i))
        if dump is not None:
            prev_dump[i] = dump
    nids = max(p["ctx"] for p in plan) + 1
    items = run_model(ncore, nids, mops)
    if len(items) != len(mops):
        return [dict(kind="broken", sig="tables-model:driver", at=0, detail="model answered %d items for %d operations: %s" % (len(items), len(mops), items[:1]))]
    # model state after each PLAN operation (= after its last model op) and the result of the main / probe ops
    after, results = {}, {}
    for (n, role, j), it in zip(mmap, items):
        res, rest = it.split("/", 1)
        cs, disj = rest.rsplit("|", 1)
        st = {}
        for part in filter(None, cs.split(",")):
            c, v = part.split("=")
            f = [int(x) for x in v.split(".")]
            st[int(c)] = dict(nt=f[0], cap=f[1], nsym=f[2], nenv=f[3], nmod=f[4], glob=f[5], symtab=f[6], tarr=f[7], closed=f[8])
        after[n] = (st, disj)
        if role != "skip":
            results[(n, role, j)] = res
    ident, mident, last_real, own_dumps = {}, {}, {}, {}
    for n, p in enumerate(plan):
        i, k = p["ctx"], p["kind"]
        a = inter_info[n]
        hist = "%s of context c%d (operation %d of the plan)" % (k, i, n)
        main = O.get(a["main"])
        if main is None:
            probs.append(dict(kind="violation", sig="crash:ops", at=n, detail="the harness died during " + hist))
            break
        Oi, info = AO[i]
        alone_main = Oi[info[n]["main"]][2]

        def differ(sig, what, got, alone_v, model_v):
            # the oracle is the context run alone: a difference from it is a violation of the property; a difference
            # from the model only (implementation alone == implementation in company) is a model <-> code mismatch
            if got != alone_v:
                probs.append(dict(kind="violation", sig="tables:" + sig, at=n, detail="%s: %s is %s; the same context running alone: %s (model: %s)" % (hist, what, got, alone_v, model_v)))
            elif model_v is not None and got != model_v:
                probs.append(dict(kind="broken", sig="tables-model:" + sig, at=n, detail="%s: %s is %s (alone too); the model coq/C13/Tab.v says %s" % (hist, what, got, model_v)))
        if k == "reg":
            differ("type-id-differs", "the tag of the new type", main[2], alone_main, results[(n, "main", i)].replace("id:", "id=") + " own=1")
        elif k == "intern":
            r = results[(n, "main", i)].split(":")
            differ("intern-differs", "bucket / newness of the symbol", main[2], alone_main, "bucket=%s fresh=%s own=1" % (r[1], r[2]))
            for j, ln in a["probes"].items():
                got, want = O.get(ln, ("", "", "?"))[2], results[(n, "probe", j)].split(":")[1]
                if got != want:
                    probs.append(dict(kind="violation", sig="tables:symbol-visibility", at=n, detail="%s (%s): find in context c%d -> %s, model %s" % (hist, p["name"], j, got, want)))
        elif k == "define":
            for j, ln in a["probes"].items():
                got, want = O.get(ln, ("", "", "?"))[2], results[(n, "probe", j)].split(":")[1]
                if got != (want if want != "-" else "unbound"):
                    probs.append(dict(kind="violation", sig="tables:global-visibility", at=n, detail="%s (%s := %d): lookup in context c%d -> %s, model %s" % (hist, p["name"], p["value"], j, got, want)))
        elif main[2].startswith("ERR") or main[2] != alone_main:
            differ("operation-result", "the result", main[2], alone_main, None)
        st, disj = after.get(n, ({}, "1")) if k != "audit" else (None, "1")
        if disj != "1" or (st and any(v["closed"] != 1 for v in st.values())):
            probs.append(dict(kind="broken", sig="tables-model:invariant", at=n, detail="the extracted model's own invariant check fails after " + hist))
        real = {}
        for j, ln in a["dumps"].items():
            if ln not in O:
                probs.append(dict(kind="violation", sig="crash:ops", at=n, detail="the harness died after " + hist))
                break
            real[j] = parse_tables(O[ln][2])
        else:
            for j, d in sorted(real.items()):
                who = "context c%d after %s" % (j, hist)
                if d["audit"] != "ok":
                    probs.append(dict(kind="violation", sig="tables:foreign-pointer" if d["audit"].startswith("FOREIGN") else "tables:table-inconsistent", at=n, detail="%s: table audit %s" % (who, d["audit"])))
                inside = lambda x: any(b <= x < b + sz for b, sz in d["heaps"])
                if not (inside(d["glob"]) and inside(d["symtab"]) and inside(d["tarr"])):
                    probs.append(dict(kind="violation", sig="tables:foreign-pointer", at=n, detail="%s: globals vector / symbol table / type array outside its own heaps" % who))
                for j2, d2 in real.items():
                    if j2 > j and (any(b < b2 + s2 and b2 < b + s for b, s in d["heaps"] for b2, s2 in d2["heaps"]) or d["glob"] == d2["glob"] or d["symtab"] == d2["symtab"] or d["tarr"] == d2["tarr"]):
                        probs.append(dict(kind="violation", sig="tables:heaps-overlap", at=n, detail="%s and context c%d share heap addresses or a table" % (who, j2)))
                if j in ident and (ident[j][0] != d["glob"] or ident[j][1] != d["symtab"]):
                    probs.append(dict(kind="violation", sig="tables:identity-changed", at=n, detail="%s: its globals vector / symbol table vector was replaced" % who))
                if j == i:
                    ad = alone_dump[n]
                    for f in ("nt", "cap", "nsym", "nmod"):
                        mv = st[j][f] if (st is not None and j in st and f != "nmod") else None
                        differ("count-differs:" + f, "%s of context c%d" % (f, j), d[f], ad[f], mv)
                    if st is not None and j in st and j in mident and j in last_real:
                        if (mident[j] != st[j]["tarr"]) != (last_real[j]["tarr"] != d["tarr"]):
                            probs.append(dict(kind="broken", sig="tables-model:type-array-growth", at=n, detail="%s: type array %s, in the model it %s" % (who, "was replaced" if last_real[j]["tarr"] != d["tarr"] else "stayed", "was replaced" if mident[j] != st[j]["tarr"] else "stayed")))
                elif j in last_real:
                    for f in ("nt", "cap", "nsym", "nmod", "tarr"):
                        if d[f] != last_real[j][f]:
                            probs.append(dict(kind="violation", sig="tables:changed-by-other-context:" + f, at=n, detail="%s: %s of context c%d went from %s to %s" % (hist, f, j, last_real[j][f], d[f])))
                ident.setdefault(j, (d["glob"], d["symtab"]))
                last_real[j] = d
                if st is not None and j in st:
                    mident[j] = st[j]["tarr"]
        if len(probs) > 8:
            break
    else:
        if not ended:
            probs.append(dict(kind="violation", sig="crash:ops", at=len(plan), detail="the harness did not reach the end of the script"))
    return probs
