"""C13 round 2: scripted multi-context scenarios for `embed_c13 ops`.

(A) resources(): random interleavings of context creation (the three ways an embedder hands over the standard
    streams), file ports opened by a context, writes to current-output/error-port, imports of and calls into
    C-backed libraries, and destroys — as ABSTRACT operations of the Coq model coq/C13/Res.v plus the concrete
    script line(s) that perform each of them.  judge_resources() compares, operation by operation, the trace of
    the EXTRACTED model (success flag, set of open resources, set of mapped libraries) with what the harness
    observed (bytes that reached descriptor 1/2, /proc/self/fd, /proc/self/maps).
(B) diff_scripts(): for one library, two parent-less contexts with DIFFERENT prior state (numbers of record
    types / symbols defined before the import) that import it and then call its exports (enumerated from the
    module system, arguments from a small pool, objects made BEFORE the other context imported the library
    included), and the single-context baselines of the same programs."""
import re

# C-backed libraries whose primary shared object is loaded by nothing else in the list, with a call that
# enters C code of that object
RES_LIBS = [
    ("(srfi 27)", "srfi/27/rand.so", "(integer? (random-integer 10))", "#t"),
    ("(srfi 69)", "srfi/69/hash.so", "(hash \"abc\" 1000003)", None),
    ("(srfi 151)", "srfi/151/bit.so", "(bit-count 255)", "8"),
    ("(srfi 98)", "srfi/98/env.so", "(string? (get-environment-variable \"PATH\"))", "#t"),
    ("(srfi 144)", "srfi/144/math.so", "(flonum? (flgamma 3.5))", "#t"),
    ("(srfi 18)", "srfi/18/threads.so", "(mutex? (make-mutex))", "#t"),
    ("(chibi time)", "chibi/time.so", "(integer? (current-seconds))", "#t"),
]
PRELUDE = "(import (scheme base) (scheme file) (scheme write))"


def resources(rng, tmpdir, nctx, nops, tag):
    """-> (abstract ops [str for the model driver], script text, per-op metadata)"""
    ops, lines, meta = [], [], []
    live, mode, imported, nfile, nwrite = [], {}, {}, [0], [0]
    ever = set()

    def add(op, script, **m):
        ops.append(op)
        m["first_line"] = len(lines) + 1
        lines.extend(script)
        lines.append("fds")
        lines.append("maps")
        m["fds_line"], m["maps_line"] = len(lines) - 1, len(lines)
        m["op"] = op
        meta.append(m)

    def new(i):
        m = rng.choice(["s", "s", "s", "d", "d", "p"])
        mode[i] = m
        imported[i] = []
        live.append(i)
        ever.add(i)
        add("n:%d:%s" % (i, m), ["new\tc%d\t%s\t%d" % (i, {"s": "std1", "d": "dup0", "p": "plain"}[m], rng.choice([0, 0, 1 << 20])),
                                 "eval\tc%d\t%s 1" % (i, PRELUDE)], kind="new", ctx=i, mode=m)

    lines.append("fds")
    lines.append("maps")
    for i in range(1, min(nctx, 2) + 1):
        new(i)
    nexti = len(live) + 1
    while len(ops) < nops:
        r = rng.random()
        if (r < 0.12 and nexti <= nctx) or not live:
            if nexti > nctx:
                break
            new(nexti)
            nexti += 1
            continue
        i = rng.choice(live)
        if r < 0.40:
            k = rng.choice([1, 2, 2])
            nwrite[0] += 1
            t = "%s-w%d-c%d-%s" % (tag, nwrite[0], i, "out" if k == 1 else "err")
            port = "(current-output-port)" if k == 1 else "(current-error-port)"
            add("w:%d:%d" % (i, k), ["eval\tc%d\t(write-string \"%s\\n\" %s) (flush-output %s) 'written" % (i, t, port, port)],
                kind="write", ctx=i, k=k, tag=t)
        elif r < 0.52:
            nfile[0] += 1
            path = "%s/%s-f%d" % (tmpdir, tag, nfile[0])
            add("o:%d" % i, ["eval\tc%d\t(define c13-p%d (open-output-file \"%s\")) (write-string \"x\" c13-p%d) 1" % (i, nfile[0], path, nfile[0])],
                kind="open", ctx=i, path=path)
        elif r < 0.68:
            l = rng.randrange(len(RES_LIBS))
            extra = ""
            if RES_LIBS[l][0] == "(srfi 18)" and rng.random() < 0.7:
                # a green thread of the context is still runnable when the context is destroyed
                extra = " (define c13-t (make-thread (lambda () (let lp () (thread-yield!) (lp))))) (thread-start! c13-t) (thread-yield!)"
            add("i:%d:%d" % (i, l), ["eval\tc%d\t(import %s)%s 1" % (i, RES_LIBS[l][0], extra)], kind="import", ctx=i, lib=l)
            if l not in imported[i]:
                imported[i].append(l)
        elif r < 0.82 and imported[i]:
            l = rng.choice(imported[i])
            add("c:%d:%d" % (i, l), ["eval\tc%d\t%s" % (i, RES_LIBS[l][2])], kind="call", ctx=i, lib=l)
        elif r < 0.88:
            # harness-only decoration (no resource effect in the model): collection + heap audit of a live context
            lines.append("audit\tc%d" % i)
        elif len(live) > 1 or nexti > nctx:
            pre = []
            if rng.random() < 0.4:
                pre.append("child\tk%d\tc%d" % (i, i))      # a child context is alive when its parent is destroyed
            if rng.random() < 0.3:
                pre.append("eval\tc%d\t(define c13-garbage (open-input-file \"/dev/null\")) 1" % i)
                add("o:%d" % i, pre, kind="open", ctx=i, path="/dev/null")
                pre = []
            live.remove(i)
            add("x:%d" % i, pre + ["destroy\tc%d" % i], kind="destroy", ctx=i)
            # every surviving context writes to its error port and calls into its libraries right after
            for j in list(live):
                if mode[j] != "p":
                    nwrite[0] += 1
                    t = "%s-w%d-c%d-err-after-destroy-c%d" % (tag, nwrite[0], j, i)
                    add("w:%d:2" % j, ["eval\tc%d\t(write-string \"%s\\n\" (current-error-port)) (flush-output (current-error-port)) 'written" % (j, t)],
                        kind="write", ctx=j, k=2, tag=t)
                for l in imported[j][:2]:
                    add("c:%d:%d" % (j, l), ["eval\tc%d\t%s" % (j, RES_LIBS[l][2])], kind="call", ctx=j, lib=l)
    for i in list(live):
        live.remove(i)
        add("x:%d" % i, ["destroy\tc%d" % i], kind="destroy", ctx=i)
    return ops, "\n".join(lines) + "\n", meta


def parse_ops_output(out):
    """-> {line no: (op, slot, text)}, {line no: {'out': bytes, 'err': bytes}}, ended"""
    O, C, ended = {}, {}, False
    for line in out.split("\n"):
        f = line.split("\t")
        if f[0] == "O" and len(f) >= 5:
            O[int(f[1])] = (f[2], f[3], "\t".join(f[4:]))
            if f[2] == "end":
                ended = True
        elif f[0] == "C" and len(f) >= 4:
            C.setdefault(int(f[1]), {})[f[2]] = C.get(int(f[1]), {}).get(f[2], "") + f[3]
    return O, C, ended


def parse_fds(text):
    t = {}
    for item in text.split(" "):
        if ">" in item:
            a, b = item.split(">", 1)
            t[int(a)] = b
    return t


def judge_resources(model_trace, meta, out, nlibs):
    """model_trace: list of (ok, [open rids], [mapped libs]) per abstract op.
       -> list of problems: dict(kind='violation'|'broken', sig, op index, detail)"""
    O, C, ended = parse_ops_output(out)
    probs = []
    if 1 not in O or O[1][0] != "fds":
        return [dict(kind="broken", sig="ops-output", at=0, detail="no initial descriptor table in the output")]
    host = parse_fds(O[1][2])            # descriptors of the process before any context exists (0 1 2 = rids 0 1 2)
    fd_of = {0: 0, 1: 1, 2: 2}
    prev = dict(host)
    lost = set()
    for n, (m, (ok, rids, mapped)) in enumerate(zip(meta, model_trace)):
        if m["fds_line"] not in O:
            probs.append(dict(kind="violation", sig="crash:ops", at=n, detail="the harness died during operation %s (%s)" % (m["op"], m["kind"])))
            break
        cur = parse_fds(O[m["fds_line"]][2])
        maps = set(O[m["maps_line"]][2].split()) if m["maps_line"] in O else set()
        appeared = sorted(set(cur) - set(prev))
        # resources created by this operation: bind the model's fresh ids to the descriptors that appeared
        fresh = [r for r in rids if r not in fd_of]
        if m["kind"] == "new" and m.get("mode") == "d" and len(fresh) == 3 and len(appeared) == 3:
            by_target = {}
            for fd in appeared:
                by_target.setdefault(cur[fd], []).append(fd)
            for r, base in zip(fresh, (0, 1, 2)):
                c = by_target.get(host.get(base), [])
                if c:
                    fd_of[r] = c.pop(0)
        elif len(fresh) == len(appeared):
            for r, fd in zip(fresh, appeared):
                fd_of[r] = fd
        if any(r not in fd_of for r in rids):
            probs.append(dict(kind="broken", sig="resource-model:descriptor-count", at=n,
                              detail="operation %s: the model opens %d resource(s), %d descriptor(s) appeared: %s" % (m["op"], len(fresh), len(appeared), [cur[f] for f in appeared])))
            break
        expect = set(host) | {fd_of[r] for r in rids}
        missing = sorted(expect - set(cur) - lost)
        lost |= set(missing)
        extra = sorted(set(cur) - expect)
        for fd in missing:
            rid = next((r for r, f in fd_of.items() if f == fd and r in rids), None)
            what = ("standard stream %d of the process" % fd) if fd in (0, 1, 2) else \
                   ("a descriptor of the host" if rid is None else "a stream owned by another, live context")
            probs.append(dict(kind="violation", sig="resource:%s:closed-%s" % (m["kind"], "std-stream-%d" % fd if fd in (0, 1, 2) else ("host-descriptor" if rid is None else "foreign-private-stream")),
                              at=n, detail="operation %s closed descriptor %d (%s -> %s); the model (coq/C13/Res.v) keeps it open" % (m["op"], fd, what, prev.get(fd, "?"))))
        for fd in extra:
            probs.append(dict(kind="broken", sig="resource-model:descriptor-left-open", at=n,
                              detail="after operation %s descriptor %d (%s) is open; the model has it closed (a resource owned by a destroyed context was not released, or an operation opened something the model does not know)" % (m["op"], fd, cur[fd])))
        # writes: the bytes must have reached the descriptor exactly when the model says the stream is open
        if m["kind"] == "write":
            got = "".join(C.get(ln, {}).get("out" if m["k"] == 1 else "err", "") for ln in range(m["first_line"], m["fds_line"]))
            res = O.get(m["first_line"], ("", "", "?"))[2]
            arrived = (m["tag"] + "\\n") in got
            if ok and not arrived:
                probs.append(dict(kind="violation", sig="resource:write-lost:%s" % ("current-output-port" if m["k"] == 1 else "current-error-port"), at=n,
                                  detail="context c%d wrote %r to its %s (eval -> %s); nothing reached descriptor %d" % (m["ctx"], m["tag"], "current-output-port" if m["k"] == 1 else "current-error-port", res[:120], m["k"])))
            if not ok and arrived:
                probs.append(dict(kind="broken", sig="resource-model:write-succeeds", at=n, detail="operation %s: the model says the write fails, the bytes arrived" % m["op"]))
        if m["kind"] == "call":
            res = O.get(m["first_line"], ("", "", "?"))[2]
            want = RES_LIBS[m["lib"]][3]
            if ok and (res.startswith("ERR:") or (want is not None and res != want)):
                probs.append(dict(kind="violation", sig="resource:library-call-fails:%s" % RES_LIBS[m["lib"]][0], at=n,
                                  detail="context c%d called into %s after operation history; result %s (expected %s)" % (m["ctx"], RES_LIBS[m["lib"]][1], res[:200], want)))
        if m["kind"] in ("new", "destroy", "open", "import"):
            res = O.get(m["fds_line"] - 1, ("", "", "?"))[2]
            if ok and res.startswith("ERR:"):
                probs.append(dict(kind="violation", sig="resource:%s-fails" % m["kind"], at=n, detail="operation %s -> %s" % (m["op"], res[:200])))
        # libraries: mapped at least where the model says so (a library needed by a live context stays mapped)
        for l in range(nlibs):
            if l in mapped and RES_LIBS[l][1] not in maps:
                probs.append(dict(kind="violation", sig="resource:library-unmapped:%s" % RES_LIBS[l][0], at=n,
                                  detail="after operation %s the shared object %s is no longer mapped although the model holds a reference for a context" % (m["op"], RES_LIBS[l][1])))
            if l not in mapped and RES_LIBS[l][1] in maps:
                probs.append(dict(kind="note", sig="library-stays-mapped", at=n, detail=RES_LIBS[l][1]))
        prev = cur
        if len(probs) > 12:
            break
    else:
        if not ended:
            probs.append(dict(kind="violation", sig="crash:ops", at=len(meta), detail="the harness did not reach the end of the script"))
    return probs


# ------------------------------------------------------------------ (B) differential search per library

DENY = re.compile(r"exit|kill|fork|exec|sleep|join|lock|wait|terminate|delete|remove|rename|unlink|rmdir|mkdir|create|chmod|chown|"
                  r"truncate|link|write|send|listen|accept|connect|read|receive|signal|alarm|abort|emergency|system|open|close|"
                  r"set-|-set!|!$|call-with|with-|current-thread|yield|file|directory|dir|chdir|umask|pipe|dup|tty|pty|socket|poll|select|flush|load|import|eval|env|trace|profil|gc|heap|debug|string-cursor|cursor")

POOL = ["", "0", "1", "10", "-1", "1.5", "\"ab\"", "'sym", "'()", "'(1 2)", "#t", "0 1", "10 3", "1 \"ab\"", "\"ab\" 0", "255 16", "7 2 1"]


def shift_text(k, nsym):
    s = "(import (scheme base) (scheme write))"
    if k:
        s += " (import (srfi 9)) " + " ".join("(define-record-type <c13-shift%d> (mk-c13-shift%d a) c13-shift%d? (a c13-shift%d-a))" % (i, i, i, i) for i in range(k))
    if nsym:
        s += " (define c13-syms (map (lambda (i) (string->symbol (string-append \"c13-sym-\" (number->string i)))) '(%s)))" % " ".join(map(str, range(nsym)))
    return s + " 1"


HELPERS = """(define (c13-kind x) (cond ((exact-integer? x) "int") ((number? x) "num") ((string? x) "str") ((symbol? x) "sym") ((boolean? x) "bool") ((null? x) "null") ((pair? x) "pair") ((vector? x) "vec") ((bytevector? x) "bv") ((procedure? x) "proc") ((char? x) "char") ((eof-object? x) "eof") (else "obj")))
(define (c13-text x) (let ((o (open-output-string))) (write x o) (let ((s (get-output-string o))) (if (> (string-length s) 120) (substring s 0 120) s))))
(define c13-old '())
(define (c13-call name thunk keep) (guard (e ((error-object? e) (string-append name " ERR|" (error-object-message e))) (#t (string-append name " ERR|raised"))) (let ((v (thunk))) (if (and keep (equal? (c13-kind v) "obj")) (set! c13-old (cons (cons name v) c13-old))) (string-append name " " (c13-kind v) "|" (c13-text v)))))
1"""
HELPERS = " ".join(HELPERS.split("\n"))


POOL_MILD = ["", "1", "10", "\"ab\"", "'sym", "'(1 2)", "10 3", "7 2 1"]     # when the full pool crashes the library in a single context


def use_text(exports, phase, pool=None):
    """calls of every (allowed) export with the argument pool; phase 1 keeps the objects it gets, later phases also
       pass those old objects to every export"""
    calls = []
    for name in exports:
        if DENY.search(name):
            continue
        for n, args in enumerate(pool or POOL):
            calls.append("(c13-call \"%s#%d\" (lambda () (%s %s)) %s)" % (name, n, name, args, "#t" if phase == 1 else "#f"))
        if phase > 1:
            calls.append("(map (lambda (o) (c13-call (string-append \"%s@\" (car o)) (lambda () (%s (cdr o))) #f)) c13-old)" % (name, name))
    # a non-procedure export applied to arguments raises "non procedure application" in every context alike
    return "(list %s)" % " ".join(calls)


def diff_scripts(libname, exports, ka, kb, sa, sb, pool=None):
    imp = "(import %s) 1" % libname
    u1, u2 = use_text(exports, 1, pool), use_text(exports, 2, pool)
    two = ["new\tA\tplain\t0", "eval\tA\t" + shift_text(ka, sa), "eval\tA\t" + HELPERS,
           "new\tB\tplain\t0", "eval\tB\t" + shift_text(kb, sb), "eval\tB\t" + HELPERS,
           "eval\tA\t" + imp, "eval\tA\t" + u1,
           "eval\tB\t" + imp, "eval\tB\t" + u1,
           "eval\tA\t" + u2, "eval\tB\t" + u2, "audit\tA", "audit\tB",
           "destroy\tB", "eval\tA\t" + u2, "destroy\tA"]
    # positions (1-based line numbers) of the use results of A and of B in the two-context script
    pos_two = dict(A=[8, 11, 16], B=[10, 12])

    def single(k, s, reps):
        return ["new\tA\tplain\t0", "eval\tA\t" + shift_text(k, s), "eval\tA\t" + HELPERS, "eval\tA\t" + imp, "eval\tA\t" + u1] + \
               ["eval\tA\t" + u2] * reps + ["destroy\tA"]
    return "\n".join(two) + "\n", pos_two, "\n".join(single(ka, sa, 2)) + "\n", [5, 6, 7], "\n".join(single(kb, sb, 1)) + "\n", [5, 6]


def split_results(text):
    """result text of a use program: a written list of strings -> [(call name, kind, value text)]"""
    items = re.findall(r'"((?:[^"\\]|\\.)*)"', text)
    out = []
    for it in items:
        m = re.match(r"(\S+) ([^|]*)\|(.*)$", it, re.S)
        if m:
            out.append((m.group(1), m.group(2), re.sub(r"#<[^>]*>", "#<obj>", m.group(3))))
    return out
