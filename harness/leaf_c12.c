/* C12 (G): instantiates header MACROS as functions so that gen/c12_leaf.py can translate them from
   clang's AST exactly as the compiler sees them in sexp.c/eval.c.  Never compiled into anything that
   runs; only parsed (clang -fsyntax-only -Xclang -ast-dump=json). */
#include <chibi/sexp.h>

long verif_c12_make_character (long n) { return (long) sexp_make_character(n); }
long verif_c12_unbox_character (long x) { return sexp_unbox_character((sexp)x); }
