/* Inner correspondence for C06: the stack copy helpers behind call/cc (vm.c sexp_save_stack /
   sexp_restore_stack, static; exposed by fixes/hook-C06-stack.patch under SEXP_USE_VERIF_HOOKS).
   protocol, one request per line; words are decimal fixnums, comma separated, "_" = none:
     info                          -> "<allocated stack length>"
     save <stack words> <to>       -> "<saved vector words>"          (stack = words, rest zero)
     restore <stack words> <saved> -> "<top> <first K words of the stack>"  K = max(|stack|,|saved|)+2
                                      | "OOS" when the helper reports out-of-stack
   Output mirrors ocaml/C06_driver.ml (requests ssave / srestore). */
#include <chibi/eval.h>
#include <stdio.h>
#include <string.h>
#include <stdlib.h>

sexp sexp_verif_save_stack (sexp ctx, sexp_uint_t to);
sexp sexp_verif_restore_stack (sexp ctx, sexp saved);

static long vals[70000];
static int parse(char *s) {
  int n = 0; char *p = s;
  if (strcmp(s, "_") == 0) return 0;
  while (*p && n < 70000) { vals[n++] = strtol(p, &p, 10); if (*p == ',') p++; }
  return n;
}

int main (void) {
  static char line[1 << 20];
  sexp ctx = NULL;
  while (fgets(line, sizeof line, stdin)) {
    char *f[4]; int nf = 0;
    /* a fresh context (fresh stack of the initial size) per request: growth must not leak into the next one */
    if (ctx) sexp_destroy_context(ctx);
    ctx = sexp_make_eval_context(NULL, NULL, NULL, 0, 0);
    line[strcspn(line, "\n")] = 0;
    for (char *t = strtok(line, " "); t && nf < 4; t = strtok(NULL, " ")) f[nf++] = t;
    sexp stack = sexp_context_stack(ctx);
    sexp_uint_t len = sexp_stack_length(stack);
    sexp *data = sexp_stack_data(stack);
    if (nf == 1 && !strcmp(f[0], "info")) { printf("%lu\n", (unsigned long)len); continue; }
    if (nf == 3 && !strcmp(f[0], "save")) {
      int n = parse(f[1]);
      for (sexp_uint_t i = 0; i < len; i++) data[i] = sexp_make_fixnum(i < (sexp_uint_t)n ? vals[i] : 0);
      sexp_uint_t to = strtoul(f[2], NULL, 10);
      sexp v = sexp_verif_save_stack(ctx, to);
      if (!sexp_vectorp(v)) { printf("ERR\n"); continue; }
      if (sexp_vector_length(v) == 0) printf("_");
      for (sexp_uint_t i = 0; i < sexp_vector_length(v); i++)
        printf("%s%ld", i ? "," : "", (long)sexp_unbox_fixnum(sexp_vector_data(v)[i]));
      printf("\n"); continue;
    }
    if (nf == 3 && !strcmp(f[0], "restore")) {
      int n = parse(f[1]);
      for (sexp_uint_t i = 0; i < len; i++) data[i] = sexp_make_fixnum(i < (sexp_uint_t)n ? vals[i] : 0);
      int m = parse(f[2]);
      sexp v = sexp_make_vector(ctx, sexp_make_fixnum(m), SEXP_VOID);
      for (int i = 0; i < m; i++) sexp_vector_data(v)[i] = sexp_make_fixnum(vals[i]);
      sexp_context_top(ctx) = n;
      sexp r = sexp_verif_restore_stack(ctx, v);
      if (sexp_exceptionp(r)) { printf("OOS\n"); sexp_context_top(ctx) = 0; continue; }
      stack = sexp_context_stack(ctx); data = sexp_stack_data(stack);
      int k = (n > m ? n : m) + 2;
      printf("%ld ", (long)sexp_context_top(ctx));
      for (int i = 0; i < k; i++) printf("%s%ld", i ? "," : "", (long)sexp_unbox_fixnum(data[i]));
      printf(" %lu\n", (unsigned long)sexp_stack_length(stack));
      sexp_context_top(ctx) = 0;
      continue;
    }
    printf("ERR bad request\n");
  }
  return 0;
}
