/* C10 allocator exerciser: a bare context (no standard environment) with a small initial heap and an
   optional maximum, driven by a seeded history of allocate / drop operations over a root table, so that the
   whole life of the heap — creation, first-fit splitting, sweeps with all coalescing cases, growth, refusal
   to grow at max_size, out of memory — fits in a trace the extracted model replays from the first allocation.
   usage: embed_c10 <initial heap bytes> <max heap bytes|0> <operations> <seed> <table slots> <mode>
   mode: 0 steady (bounded live set), 1 grow-then-drop cycles, 2 fill until out of memory then drop, repeat
   The trace is written by the VERIF hooks (CHIBI_VERIF_TRACE, CHIBI_VERIF_SWEEPLOG). */
#include <stdio.h>
#include <stdlib.h>
#include <chibi/eval.h>

static unsigned long long seed;
static unsigned long rnd (unsigned long k) {
  seed = seed * 6364136223846793005ULL + 1442695040888963407ULL;
  return (unsigned long)((seed >> 33) % k);
}

int main (int argc, char **argv) {
  unsigned long size = argc > 1 ? strtoul(argv[1], NULL, 0) : 65536;
  unsigned long max = argc > 2 ? strtoul(argv[2], NULL, 0) : 0;
  unsigned long n = argc > 3 ? strtoul(argv[3], NULL, 0) : 10000;
  unsigned long slots = argc > 5 ? strtoul(argv[5], NULL, 0) : 200;
  int mode = argc > 6 ? atoi(argv[6]) : 0;
  unsigned long i, ooms = 0, live = slots, k;
  sexp ctx;
  sexp_gc_var2(root, tmp);
  seed = argc > 4 ? strtoull(argv[4], NULL, 0) : 1;
  ctx = sexp_make_context(NULL, size, max);
  if (!ctx || sexp_exceptionp(ctx)) { fprintf(stderr, "no context\n"); return 2; }
  sexp_gc_preserve2(ctx, root, tmp);
  root = sexp_make_vector(ctx, sexp_make_fixnum(slots), SEXP_FALSE);
  if (sexp_exceptionp(root)) { fprintf(stderr, "no root table\n"); return 2; }
  for (i = 0; i < n; i++) {
    switch (rnd(10)) {
    case 0: tmp = sexp_cons(ctx, SEXP_NULL, SEXP_NULL); break;
    case 1: tmp = sexp_make_vector(ctx, sexp_make_fixnum(rnd(8)), SEXP_VOID); break;
    case 2: tmp = sexp_make_vector(ctx, sexp_make_fixnum(8 + rnd(120)), SEXP_VOID); break;
    case 3: tmp = sexp_make_string(ctx, sexp_make_fixnum(rnd(64)), sexp_make_character('a')); break;
    case 4: tmp = sexp_make_bytes(ctx, sexp_make_fixnum(rnd(3000)), sexp_make_fixnum(1)); break;
    case 5: tmp = sexp_make_bignum(ctx, 1 + rnd(40)); break;
    case 6: tmp = sexp_make_flonum(ctx, 1.5); break;
    case 7: tmp = sexp_make_vector(ctx, sexp_make_fixnum(200 + rnd(4000)), SEXP_VOID); break;
    case 8: tmp = sexp_list2(ctx, SEXP_TRUE, SEXP_FALSE); break;
    default: tmp = sexp_make_bytes(ctx, sexp_make_fixnum(rnd(40)), sexp_make_fixnum(2)); break;
    }
    if (!tmp || sexp_exceptionp(tmp)) {          /* out of memory: drop most of the table */
      ooms++;
      for (k = 0; k < slots; k++) if (rnd(4)) sexp_vector_set(root, sexp_make_fixnum(k), SEXP_FALSE);
      live = slots / 8 + 1;
      continue;
    }
    if (mode == 0) live = slots;
    else if (mode == 1) { if (i % (4 * slots) == 0) { live = 8; for (k = 0; k < slots; k++) sexp_vector_set(root, sexp_make_fixnum(k), SEXP_FALSE); } else if (live < slots) live++; }
    else { if (live < slots) live++; }
    if (mode == 2 && live >= slots) {           /* chain the objects so that the live set keeps growing */
      tmp = sexp_cons(ctx, tmp, sexp_vector_ref(root, sexp_make_fixnum(0)));
      if (!sexp_exceptionp(tmp)) sexp_vector_set(root, sexp_make_fixnum(0), tmp);
    } else
      sexp_vector_set(root, sexp_make_fixnum(rnd(live)), tmp);
    tmp = SEXP_FALSE;
  }
  printf("done ops=%lu ooms=%lu\n", n, ooms);
  sexp_gc_release2(ctx);
  return 0;
}
