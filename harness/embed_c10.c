/* C10 allocator exerciser: a bare context (no standard environment) with a small initial heap and an
   optional maximum, driven by a seeded history of allocate / drop operations over a root table, so that the
   whole life of the heap — creation, first-fit splitting, sweeps with all coalescing cases, growth, refusal
   to grow at max_size, out of memory — fits in a trace the extracted model replays from the first allocation.
   usage: embed_c10 <initial heap bytes> <max heap bytes|0> <operations> <seed> <table slots> <mode>
   mode: 0 steady (bounded live set), 1 grow-then-drop cycles, 2 fill until out of memory then drop, repeat,
         3 growth stream: <operations> steps; each step requests one object LARGER than 4/3 of the last segment
           (so that the request, not the last segment, decides the size of the new segment), with an odd or an even
           number of allocation units, then fills the new segment TO ITS END with small live objects and collects, so
           that the next sweep walks over the last byte of the segment (a segment size that is not a multiple of
           the allocation unit leaves a tail that belongs to no chunk)
   The trace is written by the VERIF hooks (CHIBI_VERIF_TRACE, CHIBI_VERIF_SWEEPLOG). */
#include <stdio.h>
#include <stdlib.h>
#include <chibi/eval.h>

static unsigned long long seed;
static unsigned long rnd (unsigned long k) {
  seed = seed * 6364136223846793005ULL + 1442695040888963407ULL;
  return (unsigned long)((seed >> 33) % k);
}

static sexp_heap last_heap (sexp ctx) { sexp_heap h = sexp_context_heap(ctx); while (h->next) h = h->next; return h; }

/* mode 3 */
static int growth_stream (sexp ctx, sexp root, unsigned long steps) {
  unsigned long step, len, k, unit = sexp_heap_align(1), units; sexp_heap h; sexp x; sexp_free_list q;
  sexp_gc_var1(keep);
  sexp_gc_preserve1(ctx, keep);
  keep = SEXP_NULL;
  for (step = 0; step < steps; step++) {
    h = last_heap(ctx);
    /* aligned size of the bytes object = align(sexp_sizeof(bytes) + len): choose len so that size/unit is odd on
       even steps and even on odd steps, and size > 4/3 of the last segment */
    units = (h->size + h->size / 3) / unit + 3 + rnd(5);
    if ((units & 1) != ((step + 1) & 1)) units++;
    len = units * unit - sexp_sizeof(bytes) - 8;
    x = sexp_make_bytes(ctx, sexp_make_fixnum(len), sexp_make_fixnum(step));
    if (!x || sexp_exceptionp(x)) { printf("growth stream: out of memory at step %lu\n", step); break; }
    keep = sexp_cons(ctx, x, keep);
    h = last_heap(ctx);
    /* fill the last segment to its end: 30-slot vectors while it has a chunk of 4 KB or more, then pairs (first fit
       serves the holes of the earlier segments first) until its free list is empty */
    for (k = 0; k < 2000000 && h->free_list->next; k++) {
      for (q = h->free_list->next; q && q->size < 4096; q = q->next) ;
      x = q ? sexp_make_vector(ctx, sexp_make_fixnum(30), SEXP_VOID) : sexp_cons(ctx, SEXP_FALSE, SEXP_FALSE);
      if (!x || sexp_exceptionp(x)) break;
      keep = sexp_cons(ctx, x, keep);
      if (last_heap(ctx) != h) break;           /* the heap grew while filling: go on with the next step */
    }
    sexp_gc(ctx, NULL);                          /* the sweep walks the filled segment up to its last byte */
    if (step % 2 == 1 && sexp_pairp(keep)) {     /* drop the small objects of this step: the next sweep frees and coalesces the tail */
      for (x = keep, k = 0; sexp_pairp(x) && k < 200; x = sexp_cdr(x), k++) ;
      if (sexp_pairp(x)) sexp_cdr(x) = SEXP_NULL;
      sexp_gc(ctx, NULL);
    }
  }
  keep = SEXP_NULL;
  sexp_gc(ctx, NULL);
  for (k = 0; k < 3000; k++) sexp_vector_set(root, SEXP_ZERO, sexp_make_vector(ctx, sexp_make_fixnum(rnd(60)), SEXP_VOID));
  sexp_gc_release1(ctx);
  return 0;
}

int main (int argc, char **argv) {
  unsigned long size = argc > 1 ? strtoul(argv[1], NULL, 0) : 65536;
  unsigned long max = argc > 2 ? strtoul(argv[2], NULL, 0) : 0;
  unsigned long n = argc > 3 ? strtoul(argv[3], NULL, 0) : 10000;
  unsigned long slots = argc > 5 ? strtoul(argv[5], NULL, 0) : 200;
  int mode = argc > 6 ? atoi(argv[6]) : 0;
  unsigned long i, ooms = 0, live = slots, k;
  sexp ctx;
  sexp_gc_var2(root, tmp);
  seed = argc > 4 ? strtoull(argv[4], NULL, 0) : 1;
  ctx = sexp_make_context(NULL, size, max);
  if (!ctx || sexp_exceptionp(ctx)) { fprintf(stderr, "no context\n"); return 2; }
  sexp_gc_preserve2(ctx, root, tmp);
  root = sexp_make_vector(ctx, sexp_make_fixnum(slots), SEXP_FALSE);
  if (sexp_exceptionp(root)) { fprintf(stderr, "no root table\n"); return 2; }
  if (mode == 3) { growth_stream(ctx, root, n); n = 0; }
  for (i = 0; i < n; i++) {
    switch (rnd(10)) {
    case 0: tmp = sexp_cons(ctx, SEXP_NULL, SEXP_NULL); break;
    case 1: tmp = sexp_make_vector(ctx, sexp_make_fixnum(rnd(8)), SEXP_VOID); break;
    case 2: tmp = sexp_make_vector(ctx, sexp_make_fixnum(8 + rnd(120)), SEXP_VOID); break;
    case 3: tmp = sexp_make_string(ctx, sexp_make_fixnum(rnd(64)), sexp_make_character('a')); break;
    case 4: tmp = sexp_make_bytes(ctx, sexp_make_fixnum(rnd(3000)), sexp_make_fixnum(1)); break;
    case 5: tmp = sexp_make_bignum(ctx, 1 + rnd(40)); break;
    case 6: tmp = sexp_make_flonum(ctx, 1.5); break;
    case 7: tmp = sexp_make_vector(ctx, sexp_make_fixnum(200 + rnd(4000)), SEXP_VOID); break;
    case 8: tmp = sexp_list2(ctx, SEXP_TRUE, SEXP_FALSE); break;
    default: tmp = sexp_make_bytes(ctx, sexp_make_fixnum(rnd(40)), sexp_make_fixnum(2)); break;
    }
    if (!tmp || sexp_exceptionp(tmp)) {          /* out of memory: drop most of the table */
      ooms++;
      for (k = 0; k < slots; k++) if (rnd(4)) sexp_vector_set(root, sexp_make_fixnum(k), SEXP_FALSE);
      live = slots / 8 + 1;
      continue;
    }
    if (mode == 0) live = slots;
    else if (mode == 1) { if (i % (4 * slots) == 0) { live = 8; for (k = 0; k < slots; k++) sexp_vector_set(root, sexp_make_fixnum(k), SEXP_FALSE); } else if (live < slots) live++; }
    else { if (live < slots) live++; }
    if (mode == 2 && live >= slots) {           /* chain the objects so that the live set keeps growing */
      tmp = sexp_cons(ctx, tmp, sexp_vector_ref(root, sexp_make_fixnum(0)));
      if (!sexp_exceptionp(tmp)) sexp_vector_set(root, sexp_make_fixnum(0), tmp);
    } else
      sexp_vector_set(root, sexp_make_fixnum(rnd(live)), tmp);
    tmp = SEXP_FALSE;
  }
  printf("done ops=%lu ooms=%lu\n", n, ooms);
  sexp_gc_release2(ctx);
  return 0;
}
