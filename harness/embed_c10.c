/* C10 allocator exerciser: a bare context (no standard environment) with a small initial heap and an
   optional maximum, driven by a seeded history of allocate / drop operations over a root table, so that the
   whole life of the heap — creation, first-fit splitting, sweeps with all coalescing cases, growth, refusal
   to grow at max_size, out of memory — fits in a trace the extracted model replays from the first allocation.
   usage: embed_c10 <initial heap bytes> <max heap bytes|0> <operations> <seed> <table slots> <mode>
   mode: 0 steady (bounded live set), 1 grow-then-drop cycles, 2 fill until out of memory then drop, repeat,
         3 growth stream: <operations> steps; each step requests one object LARGER than 4/3 of the last segment
           (so that the request, not the last segment, decides the size of the new segment), with an odd or an even
           number of allocation units, then fills the new segment TO ITS END with small live objects and collects, so
           that the next sweep walks over the last byte of the segment (a segment size that is not a multiple of
           the allocation unit leaves a tail that belongs to no chunk)
         4 policy stream (see policy_stream below): the four coalescing cases of the sweep each decide a growth question
         5 hole stream (see hole_stream below): <operations> rounds; a FULL heap of one size class, every other object
           dropped => holes of EXACTLY one object; all of them must be refilled without a collection or a growth
   The trace is written by the VERIF hooks (CHIBI_VERIF_TRACE, CHIBI_VERIF_SWEEPLOG). */
#include <stdio.h>
#include <stdlib.h>
#include <chibi/eval.h>

static unsigned long long seed;
static unsigned long rnd (unsigned long k) {
  seed = seed * 6364136223846793005ULL + 1442695040888963407ULL;
  return (unsigned long)((seed >> 33) % k);
}

static int has_free (sexp ctx, size_t n) {
  sexp_heap h; sexp_free_list q;
  for (h = sexp_context_heap(ctx); h; h = h->next) for (q = h->free_list->next; q; q = q->next) if (q->size >= n) return 1;
  return 0;
}

/* mode 4, policy stream: the heap is FULL (12 adjacent 256-byte vectors a[0..11], everything else pairs, alternately
   in the lists E and O); in each round dropping O frees more than 1/4 of the heap in 32-byte holes (so the ratio rule
   does not ask for growth) and the ONLY chunk that fits the request is the one the sweep builds by one of its four
   coalescing cases: new chunk / merge with the free chunk on the right / on the left / on both sides.  The request
   must be served from that chunk: max_freed has to report the MERGED size.  A growth here is flagged by the policy
   oracle of props/C10.py (growth:not-required-by-policy). */
static int policy_stream (sexp ctx) {
  unsigned long i, k, off[12]; int ok = 1, round;
  sexp x;
  sexp_gc_var4(a, E, O, fill);
  sexp_gc_preserve4(ctx, a, E, O, fill);
  E = O = fill = SEXP_NULL;
  a = sexp_make_vector(ctx, sexp_make_fixnum(12), SEXP_FALSE);
  sexp_gc(ctx, NULL);
  for (k = 0; k < 100000 && has_free(ctx, 4096); k++) {       /* the holes of the boot area and the start of the big chunk */
    x = sexp_make_vector(ctx, sexp_make_fixnum(30), SEXP_VOID);
    fill = sexp_cons(ctx, x, fill);
    if (k >= 40) break;
  }
  for (i = 0; i < 12; i++) {
    sexp_heap h = sexp_context_heap(ctx);
    x = sexp_make_vector(ctx, sexp_make_fixnum(30), SEXP_VOID);
    sexp_vector_set(a, sexp_make_fixnum(i), x);
    off[i] = (unsigned long)((char*)x - (char*)h->data);
    if (i > 0 && off[i] != off[i-1] + 256) ok = 0;
  }
  printf("LAYOUT %s\n", ok ? "ok" : "failed");
  for (k = 0; k < 4000000 && has_free(ctx, 32); k++) {        /* fill everything else with pairs, alternately E / O */
    if (k & 1) O = sexp_cons(ctx, SEXP_FALSE, O); else E = sexp_cons(ctx, SEXP_FALSE, E);
  }
  for (round = 0; round < 4; round++) {
    long slots = 30;
    switch (round) {
    case 0:   /* merge p with r: the chunk on the right was freed by an earlier collection */
      sexp_vector_set(a, sexp_make_fixnum(1), SEXP_FALSE); sexp_gc(ctx, NULL);
      sexp_vector_set(a, SEXP_ZERO, SEXP_FALSE); slots = 62; break;
    case 1:   /* merge q with p: two neighbours die in the same collection */
      sexp_vector_set(a, sexp_make_fixnum(3), SEXP_FALSE); sexp_vector_set(a, sexp_make_fixnum(4), SEXP_FALSE); slots = 62; break;
    case 2:   /* merge q with p and r */
      sexp_vector_set(a, sexp_make_fixnum(6), SEXP_FALSE); sexp_vector_set(a, sexp_make_fixnum(8), SEXP_FALSE); sexp_gc(ctx, NULL);
      sexp_vector_set(a, sexp_make_fixnum(7), SEXP_FALSE); slots = 94; break;
    default:  /* a new chunk between two live objects */
      sexp_vector_set(a, sexp_make_fixnum(10), SEXP_FALSE); slots = 30; break;
    }
    O = SEXP_NULL;                                             /* > 1/4 of the heap dies in 32-byte holes */
    x = sexp_make_vector(ctx, sexp_make_fixnum(slots), SEXP_VOID);   /* slow path: collection, then the merged chunk must serve it */
    fill = sexp_cons(ctx, x, fill);
    for (k = 0; k < 4000000 && has_free(ctx, 32); k++) O = sexp_cons(ctx, SEXP_FALSE, O);     /* refill the holes */
  }
  sexp_gc_release4(ctx);
  return ok;
}

/* mode 5, hole stream (round 4; theorems fast_path_count / exact_fit_refilled).  Round r uses the size class 32 bytes
   (pairs) when r is even, 64 bytes (6-slot vectors chained through slot 0) when odd.  The heap is filled with objects of
   the class alternately in the lists E and O until no free chunk can take one; O is dropped and collected: every O
   object leaves a hole of EXACTLY its own size between two live E objects.  cap = sum over the free chunks of
   floor(size / class size) objects are then allocated: each must be served by sexp_try_alloc alone (no collection,
   no new segment) and afterwards no chunk that can take an object of the class may be left.  All loops are bounded by
   the heap size, so a damaged allocator cannot make this run for ever. */
static unsigned long n_heaps (sexp ctx) { unsigned long n = 0; sexp_heap h; for (h = sexp_context_heap(ctx); h; h = h->next) n++; return n; }
static sexp mk_class (sexp ctx, int cls, sexp next) {
  sexp x;
  if (!cls) return sexp_cons(ctx, SEXP_FALSE, next);
  x = sexp_make_vector(ctx, sexp_make_fixnum(6), SEXP_FALSE);
  if (x && !sexp_exceptionp(x)) sexp_vector_set(x, SEXP_ZERO, next);
  return x;
}
static void hole_stream (sexp ctx, unsigned long rounds) {
  unsigned long r, k, limit, sz, nh, nh2, exact, cap, gcs, done;
  sexp_heap h; sexp_free_list q;
  sexp x;
  sexp_gc_var2(E, O);
  sexp_gc_preserve2(ctx, E, O);
  for (r = 0; r < rounds; r++) {
    int cls = (int)(r & 1);
    sz = cls ? 64 : 32;
    E = O = SEXP_NULL;
    sexp_gc(ctx, NULL);
    nh = n_heaps(ctx);
    limit = 100; for (h = sexp_context_heap(ctx); h; h = h->next) limit += h->size / 32;
    for (k = 0; k < limit && has_free(ctx, sz) && n_heaps(ctx) == nh; k++) {
      x = mk_class(ctx, cls, (k & 1) ? O : E);
      if (!x || sexp_exceptionp(x)) break;
      if (k & 1) O = x; else E = x;
    }
    O = SEXP_NULL;
    sexp_gc(ctx, NULL);
    nh = n_heaps(ctx);
    exact = cap = 0;
    for (h = sexp_context_heap(ctx); h; h = h->next)
      for (q = h->free_list->next; q; q = q->next) { cap += q->size / sz; if (q->size == sz) exact++; }
    gcs = sexp_context_gc_count(ctx);
    for (done = 0; done < cap; done++) {
      x = mk_class(ctx, cls, O);
      if (!x || sexp_exceptionp(x)) break;
      O = x;
      if (sexp_context_gc_count(ctx) != gcs || n_heaps(ctx) != nh) break;
    }
    nh2 = n_heaps(ctx);
    printf("HOLES round=%lu size=%lu exact=%lu cap=%lu refilled=%lu collections=%lu heaps=%lu/%lu left=%d\n", r, sz, exact, cap, done,
           (unsigned long)(sexp_context_gc_count(ctx) - gcs), nh, nh2, has_free(ctx, sz));
  }
  sexp_gc_release2(ctx);
}

static sexp_heap last_heap (sexp ctx) { sexp_heap h = sexp_context_heap(ctx); while (h->next) h = h->next; return h; }

/* mode 3 */
static int growth_stream (sexp ctx, sexp root, unsigned long steps) {
  unsigned long step, len, k, unit = sexp_heap_align(1), units; sexp_heap h; sexp x; sexp_free_list q;
  sexp_gc_var1(keep);
  sexp_gc_preserve1(ctx, keep);
  keep = SEXP_NULL;
  for (step = 0; step < steps; step++) {
    h = last_heap(ctx);
    /* aligned size of the bytes object = align(sexp_sizeof(bytes) + len): choose len so that size/unit is odd on
       even steps and even on odd steps, and size > 4/3 of the last segment */
    units = (h->size + h->size / 3) / unit + 3 + rnd(5);
    if ((units & 1) != ((step + 1) & 1)) units++;
    len = units * unit - sexp_sizeof(bytes) - 8;
    x = sexp_make_bytes(ctx, sexp_make_fixnum(len), sexp_make_fixnum(step));
    if (!x || sexp_exceptionp(x)) { printf("growth stream: out of memory at step %lu\n", step); break; }
    keep = sexp_cons(ctx, x, keep);
    h = last_heap(ctx);
    /* fill the last segment to its end: 30-slot vectors while it has a chunk of 4 KB or more, then pairs (first fit
       serves the holes of the earlier segments first) until its free list is empty */
    for (k = 0; k < 2000000 && h->free_list->next; k++) {
      for (q = h->free_list->next; q && q->size < 4096; q = q->next) ;
      x = q ? sexp_make_vector(ctx, sexp_make_fixnum(30), SEXP_VOID) : sexp_cons(ctx, SEXP_FALSE, SEXP_FALSE);
      if (!x || sexp_exceptionp(x)) break;
      keep = sexp_cons(ctx, x, keep);
      if (last_heap(ctx) != h) break;           /* the heap grew while filling: go on with the next step */
    }
    sexp_gc(ctx, NULL);                          /* the sweep walks the filled segment up to its last byte */
    if (step % 2 == 1 && sexp_pairp(keep)) {     /* drop the small objects of this step: the next sweep frees and coalesces the tail */
      for (x = keep, k = 0; sexp_pairp(x) && k < 200; x = sexp_cdr(x), k++) ;
      if (sexp_pairp(x)) sexp_cdr(x) = SEXP_NULL;
      sexp_gc(ctx, NULL);
    }
  }
  keep = SEXP_NULL;
  sexp_gc(ctx, NULL);
  for (k = 0; k < 3000; k++) sexp_vector_set(root, SEXP_ZERO, sexp_make_vector(ctx, sexp_make_fixnum(rnd(60)), SEXP_VOID));
  sexp_gc_release1(ctx);
  return 0;
}

int main (int argc, char **argv) {
  unsigned long size = argc > 1 ? strtoul(argv[1], NULL, 0) : 65536;
  unsigned long max = argc > 2 ? strtoul(argv[2], NULL, 0) : 0;
  unsigned long n = argc > 3 ? strtoul(argv[3], NULL, 0) : 10000;
  unsigned long slots = argc > 5 ? strtoul(argv[5], NULL, 0) : 200;
  int mode = argc > 6 ? atoi(argv[6]) : 0;
  unsigned long i, ooms = 0, live = slots, k;
  sexp ctx;
  sexp_gc_var2(root, tmp);
  seed = argc > 4 ? strtoull(argv[4], NULL, 0) : 1;
  ctx = sexp_make_context(NULL, size, max);
  if (!ctx || sexp_exceptionp(ctx)) { fprintf(stderr, "no context\n"); return 2; }
  sexp_gc_preserve2(ctx, root, tmp);
  root = sexp_make_vector(ctx, sexp_make_fixnum(slots), SEXP_FALSE);
  if (sexp_exceptionp(root)) { fprintf(stderr, "no root table\n"); return 2; }
  if (mode == 3) { growth_stream(ctx, root, n); n = 0; }
  if (mode == 4) { policy_stream(ctx); n = 0; }
  if (mode == 5) { hole_stream(ctx, n); n = 0; }
  for (i = 0; i < n; i++) {
    switch (rnd(10)) {
    case 0: tmp = sexp_cons(ctx, SEXP_NULL, SEXP_NULL); break;
    case 1: tmp = sexp_make_vector(ctx, sexp_make_fixnum(rnd(8)), SEXP_VOID); break;
    case 2: tmp = sexp_make_vector(ctx, sexp_make_fixnum(8 + rnd(120)), SEXP_VOID); break;
    case 3: tmp = sexp_make_string(ctx, sexp_make_fixnum(rnd(64)), sexp_make_character('a')); break;
    case 4: tmp = sexp_make_bytes(ctx, sexp_make_fixnum(rnd(3000)), sexp_make_fixnum(1)); break;
    case 5: tmp = sexp_make_bignum(ctx, 1 + rnd(40)); break;
    case 6: tmp = sexp_make_flonum(ctx, 1.5); break;
    case 7: tmp = sexp_make_vector(ctx, sexp_make_fixnum(200 + rnd(4000)), SEXP_VOID); break;
    case 8: tmp = sexp_list2(ctx, SEXP_TRUE, SEXP_FALSE); break;
    default: tmp = sexp_make_bytes(ctx, sexp_make_fixnum(rnd(40)), sexp_make_fixnum(2)); break;
    }
    if (!tmp || sexp_exceptionp(tmp)) {          /* out of memory: drop most of the table */
      ooms++;
      for (k = 0; k < slots; k++) if (rnd(4)) sexp_vector_set(root, sexp_make_fixnum(k), SEXP_FALSE);
      live = slots / 8 + 1;
      continue;
    }
    if (mode == 0) live = slots;
    else if (mode == 1) { if (i % (4 * slots) == 0) { live = 8; for (k = 0; k < slots; k++) sexp_vector_set(root, sexp_make_fixnum(k), SEXP_FALSE); } else if (live < slots) live++; }
    else { if (live < slots) live++; }
    if (mode == 2 && live >= slots) {           /* chain the objects so that the live set keeps growing */
      tmp = sexp_cons(ctx, tmp, sexp_vector_ref(root, sexp_make_fixnum(0)));
      if (!sexp_exceptionp(tmp)) sexp_vector_set(root, sexp_make_fixnum(0), tmp);
    } else
      sexp_vector_set(root, sexp_make_fixnum(rnd(live)), tmp);
    tmp = SEXP_FALSE;
  }
  printf("done ops=%lu ooms=%lu\n", n, ooms);
  sexp_gc_release2(ctx);
  return 0;
}
