/* C09 (round 3): which optimisation passes are REGISTERED in this build (sexp_global(ctx, SEXP_G_OPTIMIZATIONS),
   eval.c sexp_load_standard_env / sexp_register_optimization) - right after the standard environment is loaded,
   and again after importing the libraries the generated programs use.  One line per moment:
     <moment>: <priority>:<name> ...        name = the foreign function's name, or "procedure" for a Scheme pass
   The model (coq/C09) covers exactly the list "500:sexp_simplify" (empty with SEXP_USE_SIMPLIFY=0). */
#include <chibi/eval.h>
#include <stdio.h>
#include <string.h>

static void show (sexp ctx, const char *moment) {
  sexp ls = sexp_global(ctx, SEXP_G_OPTIMIZATIONS);
  printf("%s:", moment);
  for ( ; sexp_pairp(ls); ls = sexp_cdr(ls)) {
    sexp e = sexp_car(ls);
    if (sexp_pairp(e)) {
      sexp f = sexp_cdr(e);
      printf(" %ld:", (long) (sexp_fixnump(sexp_car(e)) ? sexp_unbox_fixnum(sexp_car(e)) : -1));
      if (sexp_opcodep(f) && sexp_stringp(sexp_opcode_name(f)))
        printf("%s", sexp_string_data(sexp_opcode_name(f)));
      else if (sexp_procedurep(f))
        printf("procedure");
      else
        printf("other");
#if SEXP_USE_SIMPLIFY
      if (sexp_opcodep(f))
        printf("%s", (sexp_opcode_func(f) == (sexp_proc1) sexp_simplify) ? "=sexp_simplify" : "=OTHER-FUNCTION");
#endif
    } else {
      printf(" malformed");
    }
  }
  printf("\n");
}

int main (int argc, char **argv) {
  sexp ctx, res;
  int i;
  sexp_scheme_init();
  ctx = sexp_make_eval_context(NULL, NULL, NULL, 0, 0);
  show(ctx, "bare-context");
  sexp_load_standard_env(ctx, NULL, SEXP_SEVEN);
  sexp_load_standard_ports(ctx, NULL, stdin, stdout, stderr, 1);
  show(ctx, "standard-env");
  for (i = 1; i < argc; i++) {
    res = sexp_eval_string(ctx, argv[i], -1, NULL);
    if (sexp_exceptionp(res)) {
      printf("import-failed: %s\n", argv[i]);
      sexp_print_exception(ctx, res, sexp_current_error_port(ctx));
    }
    show(ctx, argv[i]);
  }
  sexp_destroy_context(ctx);
  return 0;
}
