/* C10 round 3: the embedder's root API and the struct-member closedness audit.

   An embedding C program keeps objects alive in the documented ways (doc/chibi.scrbl "Garbage Collection"):
   sexp_preserve_object / sexp_release_object (the list SEXP_G_PRESERVATIVES), sexp_gc_varN / sexp_gc_preserveN /
   sexp_gc_releaseN frames, bindings in an environment (sexp_env_define).  This harness executes a history of such
   operations, one per line on stdin, on a BARE context (mode `bare`: nothing but the history allocates, so the set
   of objects that must be free after a collection is known exactly) or on a full evaluation context with the
   standard environment (mode `eval`: Scheme expressions produce exceptions with stack traces, procedures with
   source information, ports, environments, type objects, ... which the history keeps alive from the C side).

   Observation (independent of gc.c's audit hook and of the type table where possible):
     PRES   after every P / R: the preservatives list as the C program can see it (addresses of the cars), which
            props/C10.py compares with the extracted model's list (coq/C10/Image.v preserve / release);
     L      after every G: for every tracked object whether its address is still the start of an object of the heap
            (alive) or lies in a free chunk (recycled): compared with the model's closure of the CURRENT roots;
     MAUDIT after every G, over ALL objects of the heap: (a) every slot the type table declares (strong, weak,
            extra) and (b) every member of C type `sexp` of the object's struct — table c10_members.h, generated from
            clang's AST of sexp.h by gen/c10_layout.py, NOT from _sexp_type_specs — is an immediate, NULL, a static
            object outside the heaps or the START of an object of the heap.

   ops:  K id n | C id a b | V id n | S id i a | E id <scheme expression> | P id | R id | [ a b | ] | B name id |
         U name | G | W n | T          (ids from 1; 0 = #f)
   out:  "N id heap:off size tag" | "N id i" (immediate), "PRES h:o,..", "L id:0|1,..", "MAUDIT FAIL ...", "DONE" */
#include <stdio.h>
#include <stdlib.h>
#include <string.h>
#include <chibi/eval.h>
#include "c10_members.h"

extern sexp_uint_t sexp_allocated_bytes (sexp ctx, sexp x);

#define MAXIDS 400000
#define MAXLINE (1 << 16)

static sexp ctx, env;
static sexp *obj;            /* NOT rooted: plain C pointers, compared but never dereferenced once an object may be dead */
static char *dead;
static char *kindof;         /* 'K' 'C' 'V': objects made by the history carry their id (see stamp); 0: not stamped (E) */
static long maxid = 0;
static unsigned long audit_failures = 0, opno = 0;
static int eval_mode = 0;
static FILE *in;

static int locate (sexp x, unsigned long *off) {
  sexp_heap h; int hi = 0;
  for (h = sexp_context_heap(ctx); h; h = h->next, hi++)
    if ((char*)x >= (char*)h->data && (char*)x < (char*)h->data + h->size) { *off = (unsigned long)((char*)x - (char*)h->data); return hi; }
  *off = 0; return -1;
}

static int cmp_ptr (const void *a, const void *b) { return (*(char**)a < *(char**)b) ? -1 : (*(char**)a > *(char**)b); }

static char **starts = NULL; static size_t nstarts = 0, cap_starts = 0;

/* pass 0: the starts of all objects of all heaps (walk: free chunks are skipped by following the free list) */
static int collect_starts (void) {
  sexp_heap h; sexp p, end; sexp_free_list q, r; size_t size;
  nstarts = 0;
  for (h = sexp_context_heap(ctx); h; h = h->next) {
    p = sexp_heap_first_block(h); q = h->free_list; end = sexp_heap_end(h);
    while (p < end) {
      for (r = q->next; r && ((char*)r < (char*)p); q = r, r = r->next) ;
      if ((char*)r == (char*)p) { p = (sexp) (((char*)p) + r->size); continue; }
      size = sexp_heap_align(sexp_allocated_bytes(ctx, p));
      if (size == 0) { printf("MAUDIT FAIL op=%lu gc=%lu: zero-size object\n", opno, (unsigned long)sexp_context_gc_count(ctx)); return 0; }
      if (nstarts == cap_starts) { cap_starts = cap_starts ? 2 * cap_starts : 65536; starts = (char**) realloc(starts, cap_starts * sizeof(char*)); }
      starts[nstarts++] = (char*)p;
      p = (sexp) (((char*)p) + size);
    }
  }
  qsort(starts, nstarts, sizeof(char*), cmp_ptr);
  return 1;
}

static int is_start (sexp x) { void *key = (void*)x; return bsearch(&key, starts, nstarts, sizeof(char*), cmp_ptr) != NULL; }

static int check_ref (sexp p, sexp v, const char *view, const char *name, long idx) {
  unsigned long off, off2; int hi, hi2;
  if (!v || !sexp_pointerp(v)) return 0;
  hi2 = locate(v, &off2);
  if (hi2 < 0) return 0;                 /* static object outside the heaps */
  if (is_start(v)) return 0;
  hi = locate(p, &off);
  printf("MAUDIT FAIL op=%lu gc=%lu: %s %s[%ld] of the live object %d:%lu (tag %d) designates %d:%lu, which is a free chunk / not the start of an object\n",
         opno, (unsigned long)sexp_context_gc_count(ctx), view, name, idx, hi, off, (int)sexp_pointer_tag(p), hi2, off2);
  return 1;
}

/* the closedness clause of C10 on the heap as it is now */
static int audit (void) {
  sexp p, t; sexp *v; sexp_sint_t i, n, wn; int bad = 0, k; size_t s; const struct c10_member *m;
  if (!collect_starts()) return 1;
  for (s = 0; s < nstarts && bad < 20; s++) {
    p = (sexp) starts[s];
    t = sexp_object_type(ctx, p);
    /* (a) the type table's view: strong slots, weak slots, extra slots */
    for (k = 0; k < 2; k++) {
      if (k == 0) { n = sexp_type_num_slots_of_object(t, p); v = (sexp*) (((char*)p) + sexp_type_field_base(t)); wn = n; }
      else if (sexp_type_weak_base(t) > 0) {
        wn = sexp_type_num_weak_slots_of_object(t, p); n = wn + sexp_type_weak_len_extra(t);
        v = (sexp*) (((char*)p) + sexp_type_weak_base(t));
      } else break;
      for (i = 0; i < n; i++) bad += check_ref(p, v[i], "type-table", k == 0 ? "slot" : (i < wn ? "weak slot" : "extra slot"), (long)i);
    }
    /* (b) the struct's view: every member of C type sexp (generated from the AST, not from the type table) */
    if (sexp_pointer_tag(p) < SEXP_NUM_CORE_TYPES) {
      for (m = c10_members; m->tag >= 0; m++)
        if (m->tag == (int)sexp_pointer_tag(p))
          for (k = 0; k < m->count; k++)
            bad += check_ref(p, *(sexp*)((char*)p + m->off + k * (long)sizeof(sexp)), "struct-member", m->name, (long)k);
      if (sexp_vectorp(p))
        for (i = 0; i < (sexp_sint_t)sexp_vector_length(p); i++)
          bad += check_ref(p, sexp_vector_data(p)[i], "struct-member", "vector.data", (long)i);
    }
  }
  return bad;
}

static void print_pres (void) {
  sexp ls; unsigned long off; int hi, first = 1; long guard = 0;
  printf("PRES ");
  for (ls = sexp_global(ctx, SEXP_G_PRESERVATIVES); sexp_pairp(ls) && guard < 10000000; ls = sexp_cdr(ls), guard++) {
    sexp x = sexp_car(ls);
    if (x && sexp_pointerp(x)) { hi = locate(x, &off); printf("%s%d:%lu", first ? "" : ",", hi, off); }
    else printf("%si", first ? "" : ",");
    first = 0;
  }
  printf("%s\n", first ? "-" : "");
}

static void record (long id, sexp x) {
  unsigned long off; int hi;
  if (id <= 0 || id >= MAXIDS) return;
  obj[id] = x; dead[id] = 0; if (id > maxid) maxid = id;
  if (x && sexp_pointerp(x) && (hi = locate(x, &off)) >= 0)
    printf("N %ld %d:%lu %lu %d\n", id, hi, off, (unsigned long)sexp_heap_align(sexp_allocated_bytes(ctx, x)), (int)sexp_pointer_tag(x));
  else { printf("N %ld i\n", id); dead[id] = 2; }
}

/* identity of the history's own objects: an address that is an object start again after a collection may hold ANOTHER
   object (a cons cell of the preservatives list, a later object of the history), so every K / C / V object carries its
   id: bytes in their first 8 bytes, pairs in the `source` member, vectors in an extra last element */
static void stamp (sexp x, long id, char kind) {
  if (kind == 'K') memcpy(sexp_bytes_data(x), &id, sizeof id);
  else if (kind == 'C') sexp_pair_source(x) = sexp_make_fixnum(id);
  else if (kind == 'V') sexp_vector_data(x)[sexp_vector_length(x) - 1] = sexp_make_fixnum(id);
}
static int same_object (sexp x, long id) {     /* x is the start of an object of the heap */
  long v;
  switch (kindof[id]) {
  case 'K': if (!sexp_bytesp(x) || sexp_bytes_length(x) < sizeof v) return 0; memcpy(&v, sexp_bytes_data(x), sizeof v); return v == id;
  case 'C': return sexp_pairp(x) && sexp_pair_source(x) == sexp_make_fixnum(id);
  case 'V': return sexp_vectorp(x) && sexp_vector_length(x) > 0 && sexp_vector_data(x)[sexp_vector_length(x) - 1] == sexp_make_fixnum(id);
  default: return 1;
  }
}

static sexp ob (long id) { return (id > 0 && id < MAXIDS && obj[id] && dead[id] != 1) ? obj[id] : SEXP_FALSE; }

static void report_liveness (void) {
  long id; int first = 1;
  printf("L ");
  for (id = 1; id <= maxid; id++)
    if (obj[id] && dead[id] == 0) {
      int alive = is_start(obj[id]) && same_object(obj[id], id);
      printf("%s%ld:%d", first ? "" : ",", id, alive);
      first = 0;
      if (!alive) dead[id] = 1;
    }
  printf("%s\n", first ? "-" : "");
}

/* executes ops until end of input or the "]" that closes the current frame; returns 0 at end of input */
static int run_ops (sexp tmp, int depth) {
  static char line[MAXLINE]; char *p, kind; long a[3]; sexp x; long k;
  while (fgets(line, sizeof line, in)) {
    line[strcspn(line, "\n")] = 0;
    if (!line[0]) continue;
    kind = line[0]; p = line + 1; opno++;
    a[0] = a[1] = a[2] = 0;
    x = NULL;
    switch (kind) {
    case 'K': a[0] = strtol(p, &p, 10); a[1] = strtol(p, &p, 10);
      x = sexp_make_bytes(ctx, sexp_make_fixnum(a[1] > 8 ? a[1] : 8), SEXP_ZERO); break;
    case 'C': a[0] = strtol(p, &p, 10); a[1] = strtol(p, &p, 10); a[2] = strtol(p, &p, 10);
      x = sexp_cons(ctx, ob(a[1]), ob(a[2])); break;
    case 'V': a[0] = strtol(p, &p, 10); a[1] = strtol(p, &p, 10);
      x = sexp_make_vector(ctx, sexp_make_fixnum((a[1] > 0 ? a[1] : 1) + 1), SEXP_FALSE); break;   /* + the id element */
    case 'E': a[0] = strtol(p, &p, 10); while (*p == ' ') p++;
      x = eval_mode ? sexp_eval_string(ctx, p, -1, env) : SEXP_FALSE; break;
    case 'S': a[0] = strtol(p, &p, 10); a[1] = strtol(p, &p, 10); a[2] = strtol(p, &p, 10);
      { sexp o = ob(a[0]);
        if (sexp_pairp(o)) { if (a[1] == 0) sexp_car(o) = ob(a[2]); else sexp_cdr(o) = ob(a[2]); }
        else if (sexp_vectorp(o) && a[1] >= 0 && a[1] < (long)sexp_vector_length(o) - 1) sexp_vector_data(o)[a[1]] = ob(a[2]); }
      continue;
    case 'P': a[0] = strtol(p, &p, 10); sexp_preserve_object(ctx, ob(a[0])); print_pres(); continue;
    case 'R': a[0] = strtol(p, &p, 10);
      /* the pointer is only compared by sexp_release_object, so releasing an object that is dead is harmless */
      sexp_release_object(ctx, (a[0] > 0 && a[0] < MAXIDS && obj[a[0]]) ? obj[a[0]] : SEXP_FALSE); print_pres(); continue;
    case '[': a[0] = strtol(p, &p, 10); a[1] = strtol(p, &p, 10);
      { int more; sexp_gc_var2(v1, v2);
        v1 = ob(a[0]); v2 = ob(a[1]);
        sexp_gc_preserve2(ctx, v1, v2);
        more = run_ops(tmp, depth + 1);
        sexp_gc_release2(ctx);
        if (!more) return 0; }
      continue;
    case ']': if (depth > 0) return 1; continue;
    case 'B': { char name[128]; int len = 0; while (*p == ' ') p++; while (*p && *p != ' ' && len < 127) name[len++] = *p++; name[len] = 0;
        a[0] = strtol(p, &p, 10);
        if (eval_mode) sexp_env_define(ctx, env, sexp_intern(ctx, name, -1), ob(a[0])); }
      continue;
    case 'U': { char name[128]; int len = 0; while (*p == ' ') p++; while (*p && *p != ' ' && len < 127) name[len++] = *p++; name[len] = 0;
        if (eval_mode) sexp_env_define(ctx, env, sexp_intern(ctx, name, -1), SEXP_FALSE); }
      continue;
    case 'G': sexp_gc(ctx, NULL); audit_failures += audit(); report_liveness(); fflush(stdout); continue;
    case 'W': a[0] = strtol(p, &p, 10);
      for (k = 0; k < a[0]; k++) { x = sexp_cons(ctx, SEXP_FALSE, SEXP_FALSE); if (sexp_exceptionp(x)) break; }
      continue;
    case 'T': sexp_vector_set(tmp, SEXP_ZERO, SEXP_FALSE); continue;
    default: printf("BADOP %s\n", line); continue;
    }
    /* a creation: the new object stays rooted in tmp[0] until the next creation (or T) */
    if (x == NULL) continue;
    if (kind != 'E' && sexp_exceptionp(x)) { printf("OOM op=%lu\n", opno); record(a[0], SEXP_FALSE); continue; }
    sexp_vector_set(tmp, SEXP_ZERO, x);
    if (kind != 'E' && a[0] > 0 && a[0] < MAXIDS) { kindof[a[0]] = kind; stamp(x, a[0], kind); }
    record(a[0], x);
    if (kind == 'E' && sexp_exceptionp(x)) {      /* what kind of exception, and how long its stack trace is */
      sexp m = sexp_exception_message(x), tr; long n = 0;
      for (tr = sexp_exception_stack_trace(x); sexp_pairp(tr); tr = sexp_cdr(tr)) n++;
      printf("X %ld trace=%ld %s\n", a[0], n, sexp_stringp(m) ? sexp_string_data(m) : "?");
    }
  }
  return 0;
}

int main (int argc, char **argv) {
  unsigned long size = argc > 2 ? strtoul(argv[2], NULL, 0) : (1UL << 20), max = argc > 3 ? strtoul(argv[3], NULL, 0) : 0;
  unsigned long off; int hi;
  sexp_gc_var1(tmp);
  if (argc < 2) { fprintf(stderr, "usage: embed_c10_roots bare|eval <heap> <max> [history file]\n"); return 2; }
  eval_mode = !strcmp(argv[1], "eval");
  in = argc > 4 ? fopen(argv[4], "r") : stdin;
  if (!in) { fprintf(stderr, "cannot open %s\n", argv[4]); return 2; }
  obj = (sexp*) calloc(MAXIDS, sizeof(sexp)); dead = (char*) calloc(MAXIDS, 1); kindof = (char*) calloc(MAXIDS, 1);
  if (eval_mode) {
    ctx = sexp_make_eval_context(NULL, NULL, NULL, size, max);
    if (!ctx || sexp_exceptionp(ctx)) { fprintf(stderr, "no context\n"); return 2; }
    sexp_load_standard_env(ctx, NULL, SEXP_SEVEN);
    sexp_load_standard_ports(ctx, NULL, stdin, stdout, stderr, 1);
    env = sexp_context_env(ctx);
  } else {
    ctx = sexp_make_context(NULL, size, max);
    if (!ctx || sexp_exceptionp(ctx)) { fprintf(stderr, "no context\n"); return 2; }
    env = NULL;
  }
  sexp_gc_preserve1(ctx, tmp);
  tmp = sexp_make_vector(ctx, SEXP_ONE, SEXP_FALSE);
  hi = locate(tmp, &off);
  printf("TMP %d:%lu\n", hi, off);
  print_pres();
  run_ops(tmp, 0);
  printf("DONE audit_failures=%lu gcs=%lu\n", audit_failures, (unsigned long)sexp_context_gc_count(ctx));
  sexp_gc_release1(ctx);
  return 0;
}
