;; C09 (K-inner B): dump of the analysed AST before and after the registered optimisation passes (sexp_simplify),
;; in the prefix token syntax that ocaml/C09_driver.ml reads and prints:
;;   L i<dec> | L t | L f | L v | L o<name>      an immediate or a lit node          B ...   a heap literal that is not a lit
;;   R <name> <lambda-id>    S <name> <lambda-id> <e>    C <t> <a> <b>    Q <n> <e>*    A <n> <f> <arg>*    O <opcode-name>
;;   M <id> <n> <param>* <rest 0|1> <m> <set-var>* <body>          lambda ids: order of first visit, 0 = global
;; props/C09.py appends (c09-case <n> '<form>) lines to a copy of this file.
(import (scheme base) (scheme write) (chibi ast) (only (chibi) fixnum? identifier->symbol))

(define (out x) (write x) (newline))

(define lam-ids '())
(define (lam-id l)
  (cond ((assq l lam-ids) => cdr)
        (else (let ((n (+ 1 (length lam-ids)))) (set! lam-ids (cons (cons l n) lam-ids)) n))))

(define (name-of id) (symbol->string (identifier->symbol id)))

(define (emit . xs) (for-each (lambda (x) (write-string " ") (display x)) xs))

(define (dump-const tag v)
  (cond ((and (exact? v) (integer? v)) (emit tag (string-append "i" (number->string v))))
        ((eq? v #t) (emit tag "t"))
        ((eq? v #f) (emit tag "f"))
        ((string? v) (emit tag (string-append "o" v)))
        ((symbol? v) (emit tag (string-append "o" (symbol->string v))))
        ((eq? v (if #f #f)) (emit tag "v"))
        (else (emit tag "o?"))))

(define (params->list ps) (cond ((pair? ps) (cons (car ps) (params->list (cdr ps)))) ((null? ps) '()) (else (list ps))))
(define (dotted? ps) (cond ((pair? ps) (dotted? (cdr ps))) ((null? ps) #f) (else #t)))

(define (dump x)
  (cond
   ((lambda? x)
    (let ((ps (params->list (lambda-params x))))
      (emit "M" (lam-id x) (length ps))
      (for-each (lambda (p) (emit (name-of p))) ps)
      (emit (if (dotted? (lambda-params x)) 1 0))
      (emit (length (lambda-set-vars x)))
      (for-each (lambda (p) (emit (name-of p))) (lambda-set-vars x))
      (dump (lambda-body x))))
   ((cnd? x) (emit "C") (dump (cnd-test x)) (dump (cnd-pass x)) (dump (cnd-fail x)))
   ((set? x)
    (emit "S" (name-of (ref-name (set-var x))) (if (lambda? (cdr (ref-cell (set-var x)))) (lam-id (cdr (ref-cell (set-var x)))) 0))
    (dump (set-value x)))
   ((ref? x) (emit "R" (name-of (ref-name x)) (if (lambda? (cdr (ref-cell x))) (lam-id (cdr (ref-cell x))) 0)))
   ((seq? x) (emit "Q" (length (seq-ls x))) (for-each dump (seq-ls x)))
   ((lit? x) (dump-const "L" (lit-value x)))
   ((pair? x) (emit "A" (length (cdr x))) (for-each dump x))
   ((opcode? x) (emit "O" (or (opcode-name x) "?")))
   ((or (string? x) (and (number? x) (not (fixnum? x)))) (dump-const "B" x))
   (else (dump-const "L" x))))

(define (c09-case n form)
  (set! lam-ids '())
  (let ((ast (analyze form)))
    (write n) (write-string " A") (dump ast) (newline)
    (let ((opt (optimize ast)))
      (write n) (write-string " B") (dump opt) (newline))))
