;; C09 (K-inner B): dump of the analysed AST before and after the registered optimisation passes (sexp_simplify),
;; in the prefix token syntax that ocaml/C09_driver.ml reads and prints:
;;   I <c>  an immediate (not a pointer)      L <c>  a SEXP_LIT node (quoted datum, fold result)      B <c>  a heap datum that is not a lit
;;   <c> = i<dec> | r<num>/<den> | t | f | v | o<written form, spaces as ~>
;;   R <name> <lambda-id>    S <name> <lambda-id> <e>    C <t> <a> <b>    Q <n> <e>*    A <n> <f> <arg>*    O <opcode-name>
;;   M <id> <n> <param>* <rest 0|1> <m> <set-var>* <body>          lambda ids: order of first visit, 0 = global
;; props/C09.py appends (c09-case <n> '<form>) lines to a copy of this file.
(import (scheme base) (scheme write) (scheme eval) (chibi ast) (only (chibi) fixnum? identifier->symbol))

(define (out x) (write x) (newline))

(define lam-ids '())
(define (lam-id l)
  (cond ((assq l lam-ids) => cdr)
        (else (let ((n (+ 1 (length lam-ids)))) (set! lam-ids (cons (cons l n) lam-ids)) n))))

(define (name-of id) (symbol->string (identifier->symbol id)))

(define (emit . xs) (for-each (lambda (x) (write-string " ") (display x)) xs))

(define (written v)
  (let ((p (open-output-string)))
    (write v p)
    (list->string (map (lambda (c) (if (eqv? c #\space) #\~ c)) (string->list (get-output-string p))))))

(define (dump-const tag v)
  (cond ((and (number? v) (exact? v) (integer? v)) (emit tag (string-append "i" (number->string v))))
        ((and (number? v) (exact? v) (rational? v)) (emit tag (string-append "r" (number->string (numerator v)) "/" (number->string (denominator v)))))
        ((eq? v #t) (emit tag "t"))
        ((eq? v #f) (emit tag "f"))
        ((eq? v (if #f #f)) (emit tag "v"))
        (else (emit tag (string-append "o" (written v))))))

;; a self-evaluating datum that analyze returned as itself: pointer (B) or immediate (I)?
(define (heap-datum? x)
  (or (string? x) (and (number? x) (not (fixnum? x))) (vector? x) (bytevector? x) (pair? x) (symbol? x)))

(define (params->list ps) (cond ((pair? ps) (cons (car ps) (params->list (cdr ps)))) ((null? ps) '()) (else (list ps))))
(define (dotted? ps) (cond ((pair? ps) (dotted? (cdr ps))) ((null? ps) #f) (else #t)))

(define (dump x)
  (cond
   ((lambda? x)
    (let ((ps (params->list (lambda-params x))))
      (emit "M" (lam-id x) (length ps))
      (for-each (lambda (p) (emit (name-of p))) ps)
      (emit (if (dotted? (lambda-params x)) 1 0))
      (emit (length (lambda-set-vars x)))
      (for-each (lambda (p) (emit (name-of p))) (lambda-set-vars x))
      (dump (lambda-body x))))
   ((cnd? x) (emit "C") (dump (cnd-test x)) (dump (cnd-pass x)) (dump (cnd-fail x)))
   ((set? x)
    (emit "S" (name-of (ref-name (set-var x))) (if (lambda? (cdr (ref-cell (set-var x)))) (lam-id (cdr (ref-cell (set-var x)))) 0))
    (dump (set-value x)))
   ((ref? x) (emit "R" (name-of (ref-name x)) (if (lambda? (cdr (ref-cell x))) (lam-id (cdr (ref-cell x))) 0)))
   ((seq? x) (emit "Q" (length (seq-ls x))) (for-each dump (seq-ls x)))
   ((lit? x) (dump-const "L" (lit-value x)))
   ((pair? x) (emit "A" (length (cdr x))) (for-each dump x))
   ((opcode? x) (emit "O" (or (opcode-name x) "?")))
   ((heap-datum? x) (dump-const "B" x))
   (else (dump-const "I" x))))

;; The pass runs INSIDE the dynamic extent of an exception handler and of a parameterize, as it does when a program
;; calls eval/load under them.  Line "<n> H <calls>* <prm>": every call of the handler in order (h = during the pass,
;; p = the probe raised after the pass, which must still reach the handler), then whether the parameter binding survived.
;; The model (Kinded.fold_eval, theorem fold_eval_unobservable) says: no call during the pass, state restored: "p prm-ok".
(define c09-prm (make-parameter 0))

(define (c09-case n form)
  (set! lam-ids '())
  (guard (e (#t (write n) (write-string " X escaped") (newline)))
    (let ((ast (analyze form)) (tr '()))
      (write n) (write-string " A") (dump ast) (newline)
      (let ((res (with-exception-handler
                  (lambda (e) (set! tr (cons (if (eq? e 'c09-probe) "p" "h") tr)) 0)
                  (lambda ()
                    (parameterize ((c09-prm (+ n 1)))
                      (let ((opt (optimize ast)))
                        (raise-continuable 'c09-probe)
                        (cons opt (c09-prm))))))))
        (write n) (write-string " B") (dump (car res)) (newline)
        (write n) (write-string " H") (for-each emit (reverse tr))
        (emit (if (eqv? (cdr res) (+ n 1)) "prm-ok" "prm-lost")) (newline)))))

;; round 3: a bare lambda expression with a rest parameter.  After the dumps, the form is compiled for real and the
;; flags of the resulting procedure are printed: "<n> F <flags>" (bit 1 = variadic, bit 2 = SEXP_PROC_UNUSED_REST, the
;; decision of sexp_rest_unused_p on the SIMPLIFIED lambda, vm.c:719).  The model (Rest.rest_unused on dump B) must agree.
(define (c09-flag n form)
  (c09-case n form)
  (guard (e (#t (write n) (write-string " F error") (newline)))
    (let ((p (eval form (environment '(scheme base)))))
      (write n) (write-string " F ") (write (procedure-flags p)) (newline))))
