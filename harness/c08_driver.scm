;; C08 correspondence driver (prelude; props/C08.py appends one (verif-case …) form per datum).
;; For a datum x built WITHOUT going through the reader:
;;   t1 = native write (sexp_write_one)            t2 = (scheme write) write = srfi 38 writer
;;   r11 = native read t1   r12 = (scheme read) t1   r21 = native read t2   r22 = (scheme read) t2
;; One output line:  id TAB hex(t1) TAB enc(r11) TAB enc(r12) TAB hex(t2) TAB enc(r21) TAB enc(r22)
;; enc is a prefix encoding that does not use the writer under test (flonums by bit pattern).
(import (rename (chibi) (write native-write) (read native-read))
        (only (scheme base) guard error-object? error-object-message string->utf8 utf8->string
              bytevector bytevector? bytevector-u8-ref bytevector-u8-set! bytevector-length make-bytevector
              exact-integer? eof-object? write-string write-char newline flush-output-port
              open-input-string open-output-string get-output-string call-with-port let-values floor/
              string-map vector-for-each symbol=? read-error? char-ready? exact inexact truncate
              numerator denominator rational? exact?)
        (only (scheme complex) real-part imag-part make-rectangular)
        (prefix (scheme write) r7:) (prefix (scheme read) r7:)
        (only (scheme bytevector) bytevector-ieee-double-native-ref bytevector-ieee-double-native-set!)
        (only (srfi 69) make-hash-table hash-table-ref/default hash-table-set!))

(define hexdigits "0123456789abcdef")
(define (hex-byte b o)
  (write-char (string-ref hexdigits (quotient b 16)) o)
  (write-char (string-ref hexdigits (remainder b 16)) o))
(define (hex-bytes bv o)
  (do ((i 0 (+ i 1))) ((= i (bytevector-length bv)))
    (hex-byte (bytevector-u8-ref bv i) o)))

;; a double from its bit pattern (exact integer), and back
(define (flo bits)
  (let ((bv (make-bytevector 8 0)))
    (do ((i 0 (+ i 1)) (b bits (quotient b 256))) ((= i 8))
      (bytevector-u8-set! bv i (remainder b 256)))
    (bytevector-ieee-double-native-ref bv 0)))
(define (flo-bits x)
  (let ((bv (make-bytevector 8 0)))
    (bytevector-ieee-double-native-set! bv 0 x)
    (do ((i 7 (- i 1)) (b 0 (+ (* b 256) (bytevector-u8-ref bv i)))) ((< i 0) b))))

(define ERR (list 'verif-read-error))
(define TRAIL (list 'verif-trailing-input))

;; graph-aware encoder: pairs and vectors are numbered in first-visit order; a second visit emits R<n>
(define (enc x o)
  (let ((seen (make-hash-table eq?)) (count 0))
    (let e ((x x))
      (cond
       ((eq? x ERR) (write-string "ERR" o))
       ((eq? x TRAIL) (write-string "TRAIL" o))
       ((exact-integer? x) (write-string "I" o) (write-string (number->string x 16) o))
       ((and (number? x) (not (real? x)))
        (write-string "X " o) (e (real-part x)) (write-string " " o) (e (imag-part x)))
       ((and (number? x) (exact? x) (rational? x))
        (write-string "Q" o) (write-string (number->string (numerator x) 16) o)
        (write-string "/" o) (write-string (number->string (denominator x) 16) o))
       ((and (number? x) (inexact? x) (real? x)) (write-string "D" o) (write-string (number->string (flo-bits x) 16) o))
       ((char? x) (write-string "C" o) (write-string (number->string (char->integer x) 16) o))
       ((string? x) (write-string "S" o) (hex-bytes (string->utf8 x) o))
       ((symbol? x) (write-string "Y" o) (hex-bytes (string->utf8 (symbol->string x)) o))
       ((eq? x #t) (write-string "T" o))
       ((eq? x #f) (write-string "F" o))
       ((null? x) (write-string "N" o))
       ((bytevector? x) (write-string "B" o) (hex-bytes x o))
       ((and (vector? x) (= 0 (vector-length x))) (write-string "V0" o))  ; #() is one shared object
       ((or (pair? x) (vector? x))
        (let ((n (hash-table-ref/default seen x #f)))
          (cond
           (n (write-string "R" o) (write-string (number->string n) o))
           (else
            (hash-table-set! seen x count)
            (set! count (+ count 1))
            (cond
             ((pair? x) (write-string "P " o) (e (car x)) (write-string " " o) (e (cdr x)))
             (else
              (write-string "V" o) (write-string (number->string (vector-length x)) o)
              (do ((i 0 (+ i 1))) ((= i (vector-length x)))
                (write-string " " o) (e (vector-ref x i)))))))))
       (else (write-string "?" o))))))

(define (text-of writer x)
  (guard (e (#t #f))
    (let ((o (open-output-string))) (writer x o) (get-output-string o))))

;; read one datum; ERR on a reader error; TRAIL when more than white space follows it
(define (read-back reader s)
  (if (not s) ERR
      (guard (e (#t ERR))
        (let* ((in (open-input-string s))
               (x (reader in))
               (y (guard (e (#t TRAIL)) (reader in))))
          (if (eof-object? y) (if (eof-object? x) ERR x) TRAIL)))))

(define out (current-output-port))
(define (tab) (write-char #\tab out))
(define (show-text t) (if t (hex-bytes (string->utf8 t) out) (write-string "ERR" out)))

;; the encoding of what reads back; for trees (chk #t) also " !NE" when it is not equal? to the
;; original although the encodings agree (e.g. an exact integer part left as an unnormalised bignum)
(define (show-back x y chk)
  (enc y out)
  (if (and chk (not (eq? y ERR)) (not (eq? y TRAIL)) (not (equal? x y)))
      (write-string " !NE" out)))

(define (verif-run id thunk w1 w2 chk)
  (write-string (number->string id) out)
  (let ((x (guard (e (#t ERR)) (thunk))))
    (cond
     ((eq? x ERR) (tab) (write-string "BUILD-ERR" out))
     (else
      (let* ((t1 (text-of w1 x)) (t2 (text-of w2 x)))
        (tab) (show-text t1)
        (tab) (show-back x (read-back native-read t1) chk)
        (tab) (show-back x (read-back r7:read t1) chk)
        (tab) (show-text t2)
        (tab) (show-back x (read-back native-read t2) chk)
        (tab) (show-back x (read-back r7:read t2) chk)
        (tab) (enc x out)))))
  (newline out))

;; trees: native write and (scheme write) write
(define-syntax verif-case
  (syntax-rules () ((_ id expr) (verif-run id (lambda () expr) native-write r7:write #t))))
;; graphs with sharing/cycles: both columns use datum labels (write-shared all shared, write cyclic only)
(define-syntax verif-graph
  (syntax-rules () ((_ id expr) (verif-run id (lambda () expr) r7:write-shared r7:write #f))))

;; texts (mutated external representations): both readers on the same text
(define (verif-text id hex)
  (write-string (number->string id) out)
  (let* ((n (quotient (string-length hex) 2))
         (bv (make-bytevector n 0)))
    (do ((i 0 (+ i 1))) ((= i n))
      (bytevector-u8-set! bv i (string->number (substring hex (* 2 i) (+ 2 (* 2 i))) 16)))
    (let ((s (guard (e (#t #f)) (utf8->string bv))))
      (tab) (enc (read-back native-read s) out)
      (tab) (enc (read-back r7:read s) out)))
  (newline out))
