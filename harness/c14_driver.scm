;; C14 correspondence driver, run by the scratch chibi-scheme:  C14_CASES=<file> chibi-scheme c14_driver.scm
;; Reads case forms from the file and prints one line "CASE <id> <datum>" per case.  Library bodies of the
;; generated libraries print "BODY <lib>" lines themselves (same port), so the number of evaluations of
;; each body is visible in the transcript.
;;   (env id (iset ...) (name ...))   (apply environment isets), then probe every name in order
;;   (envsc id (iset ...) (name ...) (template ...))
;;                                    round 2: the same, but every name is probed INSIDE the user-code position of exported
;;                                    sc/er macros of the generated libraries: each template is a macro use such as
;;                                    (p:wif 1 (erw 1 <>)); <> is replaced by (name), then name.  One result list per template.
;;   [top-level (import ...) programs are separate processes: props/C14.py pastes the PROBE section below
;;    into a generated program whose first form is (import (scheme base) ... <import sets>)]
;;   (frames id (iset ...))           (apply environment isets), then (env-exports frame) of each frame down the
;;                                    parent chain (2n+1 frames)  -- function-level tie to Env.env_import
;;   (load id libname)                (environment 'libname): OK or (ERR message)  -- module table state machine
;;   (resolve id datum)               (%resolve-import datum)  -- function-level tie to the translated code
;;   (drop id a b) (append id a b)    symbol-drop / symbol-append
;;   (condexp id (clause ...))        (cond-expand clause ...) evaluated in (environment '(scheme base)) -- tie to Gen/C14_CondExpand.v
;;   (env id (iset ...) (name ...) KIND file)   round 3: the import is done by another kind of importer into the driver's own top-level
;;                                    environment (the import sets carry a prefix unique to the case): KIND = interaction
;;                                    (eval '(import ...) (interaction-environment)), load-file / load-port ((load x env) of a text whose
;;                                    first form is the import), include ((eval '(include file) env)); file holds "(import iset ...)"
;;   (lit id (iset ...) ((name key ...) ...) (ml ...))
;;                                    round 3: literal probes.  (environment SUPPORT iset ...) where SUPPORT brings cond case guard ... under
;;                                    the prefix c14:; for each name the probes named by the keys (ce ca se sa ge ga el us uq: the name in
;;                                    the else / => position of cond, case, guard; as ellipsis / underscore of a local syntax-rules macro; as
;;                                    unquote) and (ml name) for every ml (an mlit/elit macro of the generated libraries).  The name is
;;                                    never in operator position.  Answer per name: (probe-results ... ml-results-after ... ml-results-before ...)
;;   (load id libname KIND file)      KIND as above, or environment
;; probe of a name: the tagged value it evaluates to, or, when it is a procedure or a macro of the generated
;; libraries, the tagged value of (name); otherwise the symbol unbound.
(import (scheme base) (scheme write) (scheme read) (scheme eval) (scheme file) (scheme process-context)
        (scheme repl) (scheme load) (only (meta) %resolve-import symbol-drop symbol-append)
        (only (chibi ast) env-parent) (only (chibi) env-exports identifier=? current-environment))

;;; BEGIN PROBE
(define (c14-tagged? v)
  (and (pair? v) (memq (car v) '(v14val v14mac v14tick v14ctr)) #t))

(define (c14-msg e)
  (cond ((error-object? e)
         (let ((m (error-object-message e))) (if (string? m) m "?")))
        (else "non-error-object")))

;; (name) is tried FIRST: evaluating the bare keyword of a syntax-rules macro raises inside the macro
;; transformer, and the pinned chibi re-enters a guard continuation at exit after such an error
;; (reproduced with (guard (e (#t 0)) (eval 'cond (environment '(scheme base)))); reported in notes/C14.md)
(define (c14-probe1 env n)
  (let ((w (guard (e (#t 'unbound)) (eval (list n) env))))
    (if (c14-tagged? w)
        w
        (let ((v (guard (e (#t 'unbound)) (eval n env))))
          (if (c14-tagged? v) v 'unbound)))))

(define (c14-probe env names)
  (map (lambda (n) (c14-probe1 env n)) names))

(define (c14-subst t x)
  (cond ((eq? t '<>) x)
        ((pair? t) (cons (c14-subst (car t) x) (c14-subst (cdr t) x)))
        (else t)))

(define (c14-irritant e)
  (if (and (error-object? e) (equal? (error-object-message e) "non procedure application")
           (pair? (error-object-irritants e)) (c14-tagged? (car (error-object-irritants e))))
      (car (error-object-irritants e))
      'unbound))

;; pair form first: <> := (name).  name is then looked up as a plain symbol in the closure's (copied) environment;
;; a procedure or macro answers with its tagged value, a plain value shows as the irritant of the
;; "non procedure application" error.  Then (unless that was a call) the identifier form <> := name, where the
;; closed form is itself an identifier (eval.c:113-118 and the delayed lookup of vm.c GLOBAL_REF).
;; Answer: the value, or (c14-both pair-form identifier-form) when the two differ.
(define (c14-probe1c env t n)
  (let* ((called #t)
         (w (guard (e (#t (set! called #f) (c14-irritant e))) (eval (c14-subst t (list n)) env))))
    (if (and called (c14-tagged? w))
        w
        (let ((v (guard (e (#t 'unbound)) (eval (c14-subst t n) env))))
          (let ((v (if (c14-tagged? v) v 'unbound)))
            (if (equal? v w) v (list 'c14-both w v)))))))

(define (c14-probe-closed env templates names)
  (map (lambda (t) (map (lambda (n) (c14-probe1c env t n)) names)) templates))

;; ---- literal probes (round 3)
(define c14-lit-templates
  '((ce . (c14:cond (#f 0) (<> (c14:quote c14-else))))
    (ca . (c14:cond ((c14:quote (7)) <> c14:car) (#t (c14:quote c14-fall))))
    (se . (c14:case 3 ((1) 0) (<> (c14:quote c14-else))))
    (sa . (c14:case 3 ((3) <> c14:list)))
    (ge . (c14:guard (c14e (#f 0) (<> (c14:quote c14-else))) (c14:raise 1)))
    (ga . (c14:guard (c14e ((c14:list c14e) <> c14:car)) (c14:raise 7)))
    (el . (c14:let-syntax ((c14m (c14:syntax-rules () ((c14m c14v <>) (c14:quote (c14v <>))) ((c14m . c14r) (c14:quote c14-nomatch))))) (c14m 1 2 3)))
    (us . (c14:let-syntax ((c14m (c14:syntax-rules () ((c14m <>) (c14:quote (<>))) ((c14m . c14r) (c14:quote c14-nomatch))))) (c14m 1)))
    (uq . (c14:quasiquote (1 (<> 7))))))

(define (c14-plain v)
  (cond ((pair? v) (cons (c14-plain (car v)) (c14-plain (cdr v))))
        ((or (symbol? v) (number? v) (boolean? v) (null? v)) v)
        ((procedure? v) 'c14-proc)
        (else 'c14-other)))

(define (c14-lit1 env form)
  (guard (e (#t 'unbound)) (c14-plain (eval form env))))

;; per name: the (ml name) probes BEFORE anything has evaluated the name, the keyed probes (those for an unbound name evaluate it: chibi
;; then creates an undefined cell for it in the environment), and the (ml name) probes AGAIN: the answers must be the same (R7RS 4.3.2: an
;; identifier that was only referred to still has no binding)
(define (c14-probe-lit env plan mls)
  (map (lambda (p)
         (let* ((n (car p))
                (before (map (lambda (ml) (c14-lit1 env (list ml n))) mls))
                (keyed (map (lambda (k) (c14-lit1 env (c14-subst (cdr (assq k c14-lit-templates)) n))) (cdr p)))
                (after (map (lambda (ml) (c14-lit1 env (list ml n))) mls)))
           (append keyed after before)))
       plan))

(define (c14-out id x)
  (write-string "CASE ")
  (write id)
  (write-string " ")
  (write x)
  (newline))

;; ---- sentinel for F-C06-1 (round 4).  An error raised INSIDE a macro transformer during (eval ...) and caught by guard is not unwound
;; out of the nested sexp_apply of analyze_macro_once: the program goes on running inside it, with the COMPILE-TIME child context as the
;; running context.  When the macro use stood inside a syntactic closure with free names, that context's free-names list
;; (sexp_context_fv, e.g. (it x <env>)) stays in force for every primitive that looks a name up with the running context
;; (sexp_env_cell_loc, eval.c:105-111): sexp_env_import_op then resolves the internal names it / x of an exporter in the macro
;; template's environment (import skipped with a warning, or bound to ANOTHER library's x).  Two environments that bind `it` to
;; different cells are identifier=? exactly when such a list is in force.  Without free names the context's ENVIRONMENT is still the
;; one under analysis: (current-environment) is no longer the program's, and (eval '(import ...) env) -- which imports into the running
;; context's environment -- delivers its names somewhere else.  props/C14.py never sends a probe that raises inside a transformer; if
;; one does, the process says so and stops, instead of answering from a corrupted context.
(define c14-env0 (current-environment))
(define c14-sent-a (environment '(rename (only (scheme base) car) (car it))))
(define c14-sent-b (environment '(rename (only (scheme base) cdr) (cdr it))))
(define (c14-tainted?)
  (or (not (eq? c14-env0 (current-environment)))
      (identifier=? c14-sent-a 'it c14-sent-b 'it)))

;;; END PROBE

;; ---- importers other than (environment ...) (round 3): all of them import into this program's own top-level environment
(define c14-top (interaction-environment))

(define (c14-import-by kind isets file)
  (case kind
    ((environment) (apply environment isets))
    ((interaction) (eval (cons 'import isets) c14-top) c14-top)
    ((load-file) (load file c14-top) c14-top)
    ((load-port) (call-with-input-file file (lambda (in) (load in c14-top))) c14-top)
    ((include) (eval (list 'include file) c14-top) c14-top)
    (else (error "unknown importer kind" kind))))

(define c14-ce-env (environment '(scheme base)))

(define c14-support
  '(prefix (only (scheme base) cond case guard raise quote quasiquote list car let-syntax syntax-rules) c14:))

(define (c14-run form)
  (let ((kind (car form)) (id (cadr form)))
    (case kind
      ((env)
       (let ((env (guard (e (#t (list 'IMPORT-ERROR (c14-msg e))))
                    (if (pair? (cddr (cddr form)))
                        (c14-import-by (car (cddr (cddr form))) (car (cddr form)) (cadr (cddr (cddr form))))
                        (apply environment (car (cddr form)))))))
         (c14-out id (if (pair? env) env (c14-probe env (cadr (cddr form)))))))
      ((lit)
       (let ((env (guard (e (#t (list 'IMPORT-ERROR (c14-msg e))))
                    (apply environment c14-support (car (cddr form))))))
         (c14-out id (if (pair? env) env (c14-probe-lit env (cadr (cddr form)) (car (cddr (cddr form))))))))
      ((envsc)
       (let ((env (guard (e (#t (list 'IMPORT-ERROR (c14-msg e))))
                    (apply environment (car (cddr form))))))
         (c14-out id (if (pair? env) env (c14-probe-closed env (car (cddr (cddr form))) (cadr (cddr form)))))))
      ((frames)
       (c14-out id (guard (e (#t (list 'IMPORT-ERROR (c14-msg e))))
                     (let ((n (+ 1 (* 2 (length (car (cddr form)))))))
                       (let lp ((e (apply environment (car (cddr form)))) (k 0) (acc '()))
                         (if (and e (< k n))
                             (lp (env-parent e) (+ k 1) (cons (env-exports e) acc))
                             (reverse acc)))))))
      ((load)
       (c14-out id (guard (e (#t (list 'ERR (c14-msg e))))
                     (if (pair? (cdr (cddr form)))
                         (c14-import-by (cadr (cddr form)) (list (car (cddr form))) (car (cddr (cddr form))))
                         (environment (car (cddr form))))
                     'OK)))
      ((resolve)
       (c14-out id (guard (e (#t (list 'ERR (c14-msg e)))) (list 'OK (%resolve-import (car (cddr form)))))))
      ((condexp)   ; (condexp id (clause ...)): the value of (cond-expand clause ...) -- bodies are quoted symbols; well-formed input only
       (c14-out id (guard (e (#t (list 'ERR (c14-msg e)))) (list 'OK (eval (cons 'cond-expand (car (cddr form))) c14-ce-env)))))
      ((drop)
       (c14-out id (guard (e (#t (list 'ERR (c14-msg e)))) (list 'OK (symbol-drop (car (cddr form)) (cadr (cddr form)))))))
      ((append)
       (c14-out id (guard (e (#t (list 'ERR (c14-msg e)))) (list 'OK (symbol-append (car (cddr form)) (cadr (cddr form)))))))
      (else (c14-out id 'BAD-CASE)))))

(call-with-input-file (get-environment-variable "C14_CASES")
  (lambda (in)
    (let lp ()
      (let ((form (read in)))
        (cond ((eof-object? form) #t)
              (else (c14-run form)
                    (cond ((c14-tainted?) (write-string "TAINTED ") (write (cadr form)) (newline))
                          (else (lp)))))))))
(write-string "DONE")
(newline)
