;; C14 correspondence driver, run by the scratch chibi-scheme:  C14_CASES=<file> chibi-scheme c14_driver.scm
;; Reads case forms from the file and prints one line "CASE <id> <datum>" per case.  Library bodies of the
;; generated libraries print "BODY <lib>" lines themselves (same port), so the number of evaluations of
;; each body is visible in the transcript.
;;   (env id (iset ...) (name ...))   (apply environment isets), then probe every name in order
;;   (envsc id (iset ...) (name ...) (template ...))
;;                                    round 2: the same, but every name is probed INSIDE the user-code position of exported
;;                                    sc/er macros of the generated libraries: each template is a macro use such as
;;                                    (p:wif 1 (erw 1 <>)); <> is replaced by (name), then name.  One result list per template.
;;   [top-level (import ...) programs are separate processes: props/C14.py pastes the PROBE section below
;;    into a generated program whose first form is (import (scheme base) ... <import sets>)]
;;   (frames id (iset ...))           (apply environment isets), then (env-exports frame) of each frame down the
;;                                    parent chain (2n+1 frames)  -- function-level tie to Env.env_import
;;   (load id libname)                (environment 'libname): OK or (ERR message)  -- module table state machine
;;   (resolve id datum)               (%resolve-import datum)  -- function-level tie to the translated code
;;   (drop id a b) (append id a b)    symbol-drop / symbol-append
;; probe of a name: the tagged value it evaluates to, or, when it is a procedure or a macro of the generated
;; libraries, the tagged value of (name); otherwise the symbol unbound.
(import (scheme base) (scheme write) (scheme read) (scheme eval) (scheme file) (scheme process-context)
        (scheme repl) (only (meta) %resolve-import symbol-drop symbol-append)
        (only (chibi ast) env-parent) (only (chibi) env-exports))

;;; BEGIN PROBE
(define (c14-tagged? v)
  (and (pair? v) (memq (car v) '(v14val v14mac v14tick v14ctr)) #t))

(define (c14-msg e)
  (cond ((error-object? e)
         (let ((m (error-object-message e))) (if (string? m) m "?")))
        (else "non-error-object")))

;; (name) is tried FIRST: evaluating the bare keyword of a syntax-rules macro raises inside the macro
;; transformer, and the pinned chibi re-enters a guard continuation at exit after such an error
;; (reproduced with (guard (e (#t 0)) (eval 'cond (environment '(scheme base)))); reported in notes/C14.md)
(define (c14-probe1 env n)
  (let ((w (guard (e (#t 'unbound)) (eval (list n) env))))
    (if (c14-tagged? w)
        w
        (let ((v (guard (e (#t 'unbound)) (eval n env))))
          (if (c14-tagged? v) v 'unbound)))))

(define (c14-probe env names)
  (map (lambda (n) (c14-probe1 env n)) names))

(define (c14-subst t x)
  (cond ((eq? t '<>) x)
        ((pair? t) (cons (c14-subst (car t) x) (c14-subst (cdr t) x)))
        (else t)))

(define (c14-irritant e)
  (if (and (error-object? e) (equal? (error-object-message e) "non procedure application")
           (pair? (error-object-irritants e)) (c14-tagged? (car (error-object-irritants e))))
      (car (error-object-irritants e))
      'unbound))

;; pair form first: <> := (name).  name is then looked up as a plain symbol in the closure's (copied) environment;
;; a procedure or macro answers with its tagged value, a plain value shows as the irritant of the
;; "non procedure application" error.  Then (unless that was a call) the identifier form <> := name, where the
;; closed form is itself an identifier (eval.c:113-118 and the delayed lookup of vm.c GLOBAL_REF).
;; Answer: the value, or (c14-both pair-form identifier-form) when the two differ.
(define (c14-probe1c env t n)
  (let* ((called #t)
         (w (guard (e (#t (set! called #f) (c14-irritant e))) (eval (c14-subst t (list n)) env))))
    (if (and called (c14-tagged? w))
        w
        (let ((v (guard (e (#t 'unbound)) (eval (c14-subst t n) env))))
          (let ((v (if (c14-tagged? v) v 'unbound)))
            (if (equal? v w) v (list 'c14-both w v)))))))

(define (c14-probe-closed env templates names)
  (map (lambda (t) (map (lambda (n) (c14-probe1c env t n)) names)) templates))

(define (c14-out id x)
  (write-string "CASE ")
  (write id)
  (write-string " ")
  (write x)
  (newline))

;;; END PROBE

(define (c14-run form)
  (let ((kind (car form)) (id (cadr form)))
    (case kind
      ((env)
       (let ((env (guard (e (#t (list 'IMPORT-ERROR (c14-msg e))))
                    (apply environment (car (cddr form))))))
         (c14-out id (if (pair? env) env (c14-probe env (cadr (cddr form)))))))
      ((envsc)
       (let ((env (guard (e (#t (list 'IMPORT-ERROR (c14-msg e))))
                    (apply environment (car (cddr form))))))
         (c14-out id (if (pair? env) env (c14-probe-closed env (car (cddr (cddr form))) (cadr (cddr form)))))))
      ((frames)
       (c14-out id (guard (e (#t (list 'IMPORT-ERROR (c14-msg e))))
                     (let ((n (+ 1 (* 2 (length (car (cddr form)))))))
                       (let lp ((e (apply environment (car (cddr form)))) (k 0) (acc '()))
                         (if (and e (< k n))
                             (lp (env-parent e) (+ k 1) (cons (env-exports e) acc))
                             (reverse acc)))))))
      ((load)
       (c14-out id (guard (e (#t (list 'ERR (c14-msg e)))) (environment (car (cddr form))) 'OK)))
      ((resolve)
       (c14-out id (guard (e (#t (list 'ERR (c14-msg e)))) (list 'OK (%resolve-import (car (cddr form)))))))
      ((drop)
       (c14-out id (guard (e (#t (list 'ERR (c14-msg e)))) (list 'OK (symbol-drop (car (cddr form)) (cadr (cddr form)))))))
      ((append)
       (c14-out id (guard (e (#t (list 'ERR (c14-msg e)))) (list 'OK (symbol-append (car (cddr form)) (cadr (cddr form)))))))
      (else (c14-out id 'BAD-CASE)))))

(call-with-input-file (get-environment-variable "C14_CASES")
  (lambda (in)
    (let lp ()
      (let ((form (read in)))
        (cond ((eof-object? form) #t)
              (else (c14-run form) (lp)))))))
(write-string "DONE")
(newline)
