#!/usr/bin/env python3
"""C12 validation: apply hand-made breaking changes to the scratch worktree one at a time, run ./check C12,
record exit code / VIOLATION lines / signatures, revert.  Usage:
   VERIF_REPO=/tmp/wt-C12 VERIF_SCRATCH=/var/tmp/verif-C12 python3 harness/mutants_c12.py [name ...]
Never touches /repo: refuses to run unless VERIF_REPO points somewhere else."""
import json, os, subprocess, sys, time

ROOT = os.path.dirname(os.path.dirname(os.path.abspath(__file__)))
WT = os.environ.get("VERIF_REPO", "")
assert WT and os.path.realpath(WT) != "/repo", "set VERIF_REPO to a scratch worktree"

MUTANTS = [
    # name, file, old text, new text
    ("width-boundary-7ff", "sexp.c", "  if (c < 0x800) return 2;", "  if (c < 0x7FF) return 2;"),
    ("set-suffix-uses-old-len", "eval.c", "memcpy(q+i+new_len, p+old_len, len-i-new_len+1);", "memcpy(q+i+new_len, p+old_len, len-i-old_len+1);"),
    ("set-drops-last-suffix-byte", "eval.c", "memcpy(q+i+new_len, p+old_len, len-i-new_len+1);", "memcpy(q+i+new_len, p+old_len, len-i-new_len-1);"),
    ("i2c-accepts-len-plus-1", "sexp.c", "    for ( ; i>0 && j<limit; i--)", "    for ( ; i>0 && j<=limit; i--)"),
    ("substring-end-is-byte-offset", "sexp.c",
     "    end = sexp_string_index_to_cursor(ctx, self, n, str, end);\n    if (sexp_exceptionp(end)) return end;",
     "    end = sexp_fixnum_to_string_cursor(end);"),
    ("lead-count-e0", "sexp.c", "  if (c < 0xE0) return 2;", "  if (c <= 0xE0) return 2;"),
    ("encode4-mask", "sexp.c", "*p++ = (0x80 + ((c>>12)&0x3F));\n    *p++ = (0x80 + ((c>>6)&0x3F));    *p = (0x80 + (c&0x3F)); break;",
     "*p++ = (0x80 + ((c>>12)&0x1F));\n    *p++ = (0x80 + ((c>>6)&0x3F));    *p = (0x80 + (c&0x3F)); break;"),
    ("set-inplace-when-shrinking", "eval.c", "if (sexp_copy_on_writep(str) || old_len != new_len) {", "if (sexp_copy_on_writep(str) || old_len < new_len) {"),
    ("read-char-3byte-mask", "eval.c", "      i = ((i&0x1F)<<12) + ((sexp_read_char(ctx, port)&0x3F)<<6);", "      i = ((i&0x0F)<<12) + ((sexp_read_char(ctx, port)&0x1F)<<6);"),
    ("cursor-prev-test", "sexp.c", "  while ((*--p)>>6 == 2)", "  while ((*--p)>>6 >= 2)"),
    ("decode-ref-2byte-mask", "sexp.c", "    return sexp_make_character(((p[0]&0x3F)<<6) + (p[1]&0x3F));\n  else if (*p < 0xF0)\n    return sexp_make_character(((p[0]&0x1F)<<12)",
     "    return sexp_make_character(((p[0]&0x1F)<<6) + (p[1]&0x7F));\n  else if (*p < 0xF0)\n    return sexp_make_character(((p[0]&0x1F)<<12)"),
    ("undo-fix-shared-offset", "eval.c", "      sexp_string_offset(str) = 0;\n", ""),
    ("undo-fix-x80-escape", "sexp.c", "          if ((unsigned)c >= 0x80) {", "          if ((unsigned)c > 0x80) {"),
    ("make-string-stride", "sexp.c", "sexp_utf8_encode_char((unsigned char*)sexp_bytes_data(b)+(j*clen), clen,", "sexp_utf8_encode_char((unsigned char*)sexp_bytes_data(b)+(j*(clen-(clen>3))), clen,"),
    # round 2
    ("join-separator-char-length", "sexp.c", "((sep_len=sexp_string_size(sep)) > 0))", "((sep_len=sexp_string_length(sep)) > 0))"),
    ("peek-rewinds-offset-only", "eval.c", "    while (len>0)\n      sexp_port_buf(port)[--sexp_port_offset(port)] = ch[--len];\n  }", "    sexp_port_offset(port) -= len;\n  }"),
    ("buf-start-2", "sexp.c", "#define BUF_START 4", "#define BUF_START 2"),
    ("write-string-n-no-advance", "sexp.c", "    written += sexp_port_size(p);\n    str += diff;\n", "    written += sexp_port_size(p);\n"),
    ("join-separator-ignores-offset", "sexp.c", "    csep = sexp_string_data(sep);", "    csep = sexp_bytes_data(sexp_string_bytes(sep));"),
    # round 3: optional range arguments / byte count vs character index
    ("write-string-fast-path-char-index", "lib/chibi/io/io.scm",
     "          (cond-expand\n           (string-streams\n            (if (zero? start)\n                (%write-string str end out)\n                (display (substring str start end) out)))\n           (else\n            (display (substring str start end) out))))",
     "          (if (zero? start)\n              (%write-string str end out)\n              (display (substring str start end) out)))"),
    ("undo-fix-write-string-offset", "vm.c", "    i = sexp_write_string_n(ctx, sexp_bytes_data(tmp1) + j, sexp_unbox_fixnum(_ARG2), _ARG3);",
     "    i = sexp_write_string_n(ctx, sexp_bytes_data(tmp1), sexp_unbox_fixnum(_ARG2), _ARG3);"),
    ("undo-fix-string-cmp-nul", "eval.c", "    diff = memcmp(sexp_string_data(str1), sexp_string_data(str2), len);", "    diff = strncmp(sexp_string_data(str1), sexp_string_data(str2), len);"),
    ("string->utf8-range-in-bytes", "lib/chibi/io/io.scm", "        (string->utf8 (substring str start end)))", "        (subbytes (%string->utf8 str) start end))"),
    ("write-string-count-bound-in-chars", "vm.c", "      k = sexp_string_size(_ARG1);\n#endif", "      k = sexp_string_length(_ARG1);\n#endif"),
    ("string-copy!-always-forward", "lib/scheme/extras.scm", "         (limit (min end (+ start (- (string-length to) at)))))\n    (if (<= at start)", "         (limit (min end (+ start (- (string-length to) at)))))\n    (if (<= 0 start)"),
    ("string-find-right-misses-start", "lib/chibi/string.scm", "        (cond ((string-cursor<? i2 start) start)\n              ((pred (string-cursor-ref str i2)) i)", "        (cond ((string-cursor<=? i2 start) start)\n              ((pred (string-cursor-ref str i2)) i)"),
    ("string-fill!-default-end-in-bytes", "lib/init-7.scm", "        (end (if (and (pair? o) (pair? (cdr o))) (cadr o) (string-length str))))\n    (let lp ((i (- end 1)))\n      (if (>= i start) (begin (string-set! str i ch)",
     "        (end (if (and (pair? o) (pair? (cdr o))) (cadr o) (string-size str))))\n    (let lp ((i (- end 1)))\n      (if (>= i start) (begin (string-set! str i ch)"),
    # round 4: re-created seeded change C12-b3 (bounded backward scan stops one byte early: 4-byte characters only)
    ("prev-bounded-scan-off-by-one", "sexp.c", "  while ((*--p)>>6 == 2)\n    ;\n  return (char*)p;", "  int n = 0;\n  while (((*--p)>>6 == 2) && (++n < 3))\n    ;\n  return (char*)p;"),
    # round 4: ill-formed input on ports
    ("undo-fix-peek-pushes-exception", "vm.c", "      if (!sexp_exceptionp(tmp1))\n        sexp_push_utf8_char(ctx, sexp_unbox_character(tmp1), _ARG1);", "      sexp_push_utf8_char(ctx, sexp_unbox_character(tmp1), _ARG1);"),
    ("undo-fix-truncated-decoded-from-eof", "eval.c", "      if (c == EOF)\n        return sexp_user_exception(ctx, NULL, \"read-char: truncated utf8 sequence\", sexp_make_fixnum(lead));\n", ""),
    # ("truncated-only-checked-on-last-byte": `c == EOF && n == 1` turned out to be EQUIVALENT — end of input is sticky, the last read sees it too — exit 0, correctly)
    ("truncated-unchecked-for-4-byte-lead", "eval.c", "      if (c == EOF)\n        return sexp_user_exception(ctx, NULL, \"read-char: truncated utf8 sequence\"", "      if (c == EOF && lead < 0xF0)\n        return sexp_user_exception(ctx, NULL, \"read-char: truncated utf8 sequence\""),
    ("invalid-lead-f8-accepted", "eval.c", "    if ((i < 0xC0) || (i > 0xF7)) {", "    if ((i < 0xC0) || (i > 0xFB)) {"),
    ("peek-error-unreads-lead-byte", "vm.c", "      if (!sexp_exceptionp(tmp1))\n        sexp_push_utf8_char(ctx, sexp_unbox_character(tmp1), _ARG1);", "      if (!sexp_exceptionp(tmp1))\n        sexp_push_utf8_char(ctx, sexp_unbox_character(tmp1), _ARG1);\n      else if (i < 0xC0)\n        sexp_push_char(ctx, i, _ARG1);"),
    # round 4: the newly modelled operations
    ("foldcase-table-wrong-entry", "lib/scheme/char/case-offsets.scm", " #x3a3 #x3c3 ", " #x3a3 #x3c2 "),
    ("bsearch-kv-skips-an-entry", "lib/scheme/char/full.scm", "           (bsearch-kv vec n lo (- mid 2)))", "           (bsearch-kv vec n lo (- mid 4)))"),
    ("string-map-nary-one-past-shortest", "lib/chibi/string.sld", "                         (string-cursor>=? i (string-cursor-end str)))", "                         (string-cursor>? i (string-cursor-end str)))"),
    ("string-copy!-backward-off-by-one", "lib/scheme/extras.scm", "            ((< j start))\n          (string-set! to i (string-ref from j))))))", "            ((<= j start))\n          (string-set! to i (string-ref from j))))))"),
    ("string-ci-core-folds-bytes-above-7f", "eval.c", "      diff = tolower((unsigned char)sexp_string_data(str1)[i])\n        - tolower((unsigned char)sexp_string_data(str2)[i]);", "      diff = (((unsigned char)sexp_string_data(str1)[i]) | 0x20)\n        - (((unsigned char)sexp_string_data(str2)[i]) | 0x20);"),
    # round 5: the two halves of "string-ref and string-set! must not trust a UTF-8 lead byte cut off by the end of the string"
    ("undo-fix-ref-trusts-cut-off-lead", "sexp.c", "  else if (sexp_utf8_initial_byte_count(*p) > (sexp_sint_t)sexp_string_size(str) - sexp_unbox_string_cursor(i))\n    return sexp_user_exception(ctx, NULL, \"string-ref: truncated utf8 sequence\", i);\n", ""),
    ("undo-fix-set-unclamped-old-len", "eval.c", "  if (old_len > (int)sexp_string_size(str) - i)  /* a lead byte cut off by the end of the string */\n    old_len = (int)sexp_string_size(str) - i;\n", ""),
    ("set-clamp-off-by-one", "eval.c", "  if (old_len > (int)sexp_string_size(str) - i)  /* a lead byte cut off by the end of the string */\n    old_len = (int)sexp_string_size(str) - i;\n",
     "  if (old_len > (int)sexp_string_size(str) - i)  /* a lead byte cut off by the end of the string */\n    old_len = (int)sexp_string_size(str) - i - 1;\n"),
    ("concat-length", "sexp.c", "    len = sexp_string_size(sexp_car(ls));\n    memcpy(p, sexp_string_data(sexp_car(ls)), len);", "    len = sexp_string_length(sexp_car(ls));\n    memcpy(p, sexp_string_data(sexp_car(ls)), len);"),
]


def run_check():
    t0 = time.time()
    env = dict(os.environ)
    env.setdefault("VERIF_EVIDENCE_DIR", os.path.join(env.get("VERIF_SCRATCH", "/var/tmp/verif-C12"), "evidence"))     # never into /verif/evidence
    r = subprocess.run(["./check", "C12", "--tier", "quick"], cwd=ROOT, env=env, capture_output=True, text=True, timeout=1800)
    lines = [l for l in r.stdout.split("\n") if l.startswith(("VIOLATION", "KNOWN", "C12 "))]
    sigs = []
    for l in lines:
        if l.startswith("VIOLATION") and "replay=" in l:
            p = l.split("replay=")[1].split()[0]
            try:
                j = json.load(open(p))
                sigs.append(j.get("signature") or ("unproved: " + "; ".join(x["name"] for x in j.get("no_longer_checks", []))[:300]))
            except Exception as e:
                sigs.append("?" + str(e))
    return r.returncode, lines, sigs, time.time() - t0


def main():
    want = sys.argv[1:]
    for name, f, old, new in MUTANTS:
        if want and name not in want:
            continue
        p = os.path.join(WT, f)
        src = open(p).read()
        if src.count(old) != 1:
            print("MUTANT %s: pattern occurs %d times in %s — skipped" % (name, src.count(old), f))
            continue
        open(p, "w").write(src.replace(old, new))
        try:
            rc, lines, sigs, dt = run_check()
        finally:
            open(p, "w").write(src)
        print("MUTANT %-32s exit=%d %.0fs sigs=%s" % (name, rc, dt, sigs))
        for l in lines:
            print("    " + l)
        sys.stdout.flush()
    if not want:
        rc, lines, sigs, dt = run_check()
        print("REVERTED exit=%d %.0fs %s" % (rc, dt, lines[-1] if lines else ""))


if __name__ == "__main__":
    main()
