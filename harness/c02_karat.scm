;; C02 K-outer, dense schedules: multi-limb bignum multiplication, i.e. the Karatsuba branch of sexp_bignum_mul
;; (bignum.c:553-590: taken when both operands have >= 2 limbs) -- the ONLY user of the 7-variable members of the
;; sexp_gc_var / sexp_gc_preserve / sexp_gc_release macro families (a0 a1 b0 b1 z0 z1 z2: z2 = a1*b1 stays live across five
;; further allocations: sub, sub, shift, shift, add).  Limb counts 2..8 on both sides so that the split point k = blen/2 is
;; 1, 2, 3, 4 (recursion depth up to 3, uneven halves, alen > blen and the swapped call alen < blen), both signs, squares
;; (a == b), operands whose low limbs are zero (2^(64 j): the low halves are zero bignums).  Operands of the outer product
;; exist only on the VM stack.  Every product is checked against itself by division and by residues, so a temporary that
;; was swept and overwritten shows up as a wrong line even when nothing traps.  No imports.
(define (show . xs) (for-each (lambda (x) (write x) (display " ")) xs) (newline))
(define (pad n) (let lp ((i 0) (acc '())) (if (< i n) (lp (+ i 1) (cons i acc)) acc)))
;; an n-limb number (top limb non-zero), fresh on every call
(define (mk seed n)
  (let lp ((i 0) (acc 0) (x (+ seed 12345)))
    (if (= i n)
        acc
        (lp (+ i 1)
            (+ (* acc 18446744073709551616) (+ 1 (modulo (* x 6364136223846793005) 18446744073709551557)))
            (+ (modulo (* x 48271) 2147483647) i)))))
(define (chk a b)
  (let ((p (* a b)))
    (list (= (quotient p a) b)
          (modulo p 1000003)
          (= (modulo p 999983) (modulo (* (modulo a 999983) (modulo b 999983)) 999983)))))
(define sizes '(2 3 4 6))
(define round 0)
(for-each
 (lambda (n)
   (for-each
    (lambda (m)
      (set! round (+ round 1))
      (pad (modulo round 3))
      (show 'mul n m
            (chk (mk round n) (- (mk (+ round 100) m)))
            ;; both operands fresh, held only on the VM stack while sexp_mul runs
            (modulo (* (mk (+ round 20) n) (- (mk (+ round 30) m))) 1000003)))
    sizes))
 sizes)
;; one-limb against many (blen == 1: the fxmul branch, no registration) next to the threshold
(show 'thr (chk (mk 1 1) (mk 2 2)) (chk (mk 3 2) (mk 4 1)) (chk (mk 5 1) (mk 6 6)) (chk (mk 7 2) (mk 8 2)) (chk (mk 9 8) (mk 10 8)) (chk (mk 11 5) (mk 12 9)))
;; squares: both arguments are the same object
(show 'sq (map (lambda (n) (let ((x (mk (+ n 50) n))) (let ((s (* x x))) (list (= (quotient s x) x) (modulo s 1000003))))) '(2 3 5 7)))
;; zero low limbs: the low halves of the split are zero bignums
(show 'pow (map (lambda (j) (let ((a (expt 2 (* 64 j))) (b (- (expt 2 (* 64 (+ j 1))) 1)))
                             (list (= (* a b) (- (expt 2 (+ (* 64 j) (* 64 (+ j 1)))) a)) (= (* a a) (expt 2 (* 128 j))) (modulo (* b b) 1000003))))
                '(1 2 4)))
;; products feeding products and the other numeric kinds that multiply bignums: ratios, exact complex, expt, number->string
(show 'mix
      (modulo (* (* (mk 60 2) (mk 61 3)) (* (mk 62 2) (mk 63 2))) 1000003)
      (let ((r (* (/ (mk 64 3) (mk 65 2)) (/ (mk 65 2) (mk 66 3))))) (list (modulo (numerator r) 1000003) (modulo (denominator r) 1000003)))
      (modulo (expt (mk 67 2) 5) 1000003)
      (string-length (number->string (* (mk 68 4) (mk 69 4))))
      (exact->inexact (* (mk 70 3) (mk 71 2))))
