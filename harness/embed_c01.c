/* Inner correspondence for C01 part 2: calls the real foreign primitives of sexp.c on arguments of
   any type and magnitude (cursors and fixnums are built from raw numbers, so values no Scheme
   program could name are reachable too), prints the outcome, and after every call checks that the
   same context still evaluates a probe and that its stack top is where it was.
   Protocol, one request per line:   <fn> <arg> ...
     (utf8ref s<hex> c<k> | utf8set s<hex> c<k> h<char>: sexp_string_utf8_ref / sexp_string_utf8_set at a cursor INSIDE the string)
     arg:  f<dec> fixnum | c<dec> cursor | F = #f | s<hex> string with these bytes | b<hex> bytevector
           ("s-"/"b-" = empty) | h<dec> char | n = '()
   Output:  V <result>  |  E <kind>      result: s<hex> b<hex> f<dec> c<dec> ...   kind: type range user other
   then " P" if the probe after the call gave the right answer and top is unchanged, " P!" otherwise. */
#include <chibi/eval.h>
#include <stdio.h>
#include <string.h>
#include <stdlib.h>

static sexp ctx;

static int hexv(int c) { return c <= '9' ? c - '0' : (c | 32) - 'a' + 10; }

static sexp mkarg(sexp ctx, char *t) {
  size_t n, i; sexp r; char *p = t + 1;
  switch (t[0]) {
  case 'f': return sexp_make_fixnum(strtoll(p, NULL, 10));
  case 'c': return sexp_make_string_cursor(strtoll(p, NULL, 10));
  case 'h': return sexp_make_character(strtoll(p, NULL, 10));
  case 'F': return SEXP_FALSE;
  case 'n': return SEXP_NULL;
  case 's': case 'b':
    if (*p == '-') p++;
    n = strlen(p) / 2;
    if (t[0] == 's') {
      r = sexp_make_string(ctx, sexp_make_fixnum(n), SEXP_VOID);
      for (i = 0; i < n; i++) sexp_string_data(r)[i] = (char)(hexv(p[2*i]) * 16 + hexv(p[2*i+1]));
    } else {
      r = sexp_make_bytes(ctx, sexp_make_fixnum(n), SEXP_VOID);
      for (i = 0; i < n; i++) sexp_bytes_data(r)[i] = (char)(hexv(p[2*i]) * 16 + hexv(p[2*i+1]));
    }
    return r;
  }
  return SEXP_VOID;
}

static void prres(sexp x) {
  sexp_uint_t i;
  if (sexp_exceptionp(x)) {
    sexp k = sexp_exception_kind(x);
    const char *kind = "other";
    if (sexp_symbolp(k)) {
      sexp s = sexp_symbol_to_string(ctx, k);
      if (sexp_stringp(s)) {
        if (!strcmp(sexp_string_data(s), "type")) kind = "type";
        else if (!strcmp(sexp_string_data(s), "range")) kind = "range";
        else if (!strcmp(sexp_string_data(s), "user")) kind = "user";
      }
    }
    printf("E %s", kind);
  } else if (sexp_stringp(x)) {
    printf("V s");
    if (sexp_string_size(x) == 0) printf("-");
    for (i = 0; i < sexp_string_size(x); i++) printf("%02x", (unsigned char)sexp_string_data(x)[i]);
  } else if (sexp_bytesp(x)) {
    printf("V b");
    if (sexp_bytes_length(x) == 0) printf("-");
    for (i = 0; i < sexp_bytes_length(x); i++) printf("%02x", (unsigned char)sexp_bytes_data(x)[i]);
  } else if (sexp_fixnump(x)) printf("V f%ld", (long)sexp_unbox_fixnum(x));
  else if (sexp_string_cursorp(x)) printf("V c%ld", (long)sexp_unbox_string_cursor(x));
  else if (sexp_vectorp(x)) printf("V v%lu", (unsigned long)sexp_vector_length(x));
  else printf("V ?");
}

int main(int argc, char **argv) {
  static char line[1 << 20];
  sexp_scheme_init();
  ctx = sexp_make_eval_context(NULL, NULL, NULL, 0, 0);
  sexp_gc_var5(a, b, c, r, probe);
  sexp_gc_preserve5(ctx, a, b, c, r, probe);
  sexp_load_standard_env(ctx, NULL, SEXP_SEVEN);
  while (fgets(line, sizeof line, stdin)) {
    char *f[8]; int nf = 0; char *tok = strtok(line, " \n");
    sexp_sint_t top0 = sexp_context_top(ctx);
    while (tok && nf < 8) { f[nf++] = tok; tok = strtok(NULL, " \n"); }
    if (nf == 0) { printf("\n"); continue; }
    a = nf > 1 ? mkarg(ctx, f[1]) : SEXP_VOID;
    b = nf > 2 ? mkarg(ctx, f[2]) : SEXP_VOID;
    c = nf > 3 ? mkarg(ctx, f[3]) : SEXP_VOID;
    if (!strcmp(f[0], "substring") && nf == 4) r = sexp_substring_op(ctx, NULL, 3, a, b, c);
    else if (!strcmp(f[0], "subbytes") && nf == 4) r = sexp_subbytes_op(ctx, NULL, 3, a, b, c);
    else if (!strcmp(f[0], "index2cursor") && nf == 3) r = sexp_string_index_to_cursor(ctx, NULL, 2, a, b);
    else if (!strcmp(f[0], "cursor2index") && nf == 3) r = sexp_string_cursor_to_index(ctx, NULL, 2, a, b);
    else if (!strcmp(f[0], "makevector") && nf == 2) r = sexp_make_vector_op(ctx, NULL, 2, a, SEXP_ZERO);
    else if (!strcmp(f[0], "makebytes") && nf == 2) r = sexp_make_bytes_op(ctx, NULL, 2, a, SEXP_ZERO);
    else if (!strcmp(f[0], "fix2cur") && nf == 2) r = sexp_fixnum_to_string_cursor(a);
    /* the character at a cursor inside the string, any bytes: value (as a fixnum) or exception */
    else if (!strcmp(f[0], "utf8ref") && nf == 3) {
      r = sexp_string_utf8_ref(ctx, a, b);
      if (sexp_charp(r)) r = sexp_make_fixnum(sexp_unbox_character(r));
    }
    /* string-set! at a cursor inside the string: the string afterwards */
    else if (!strcmp(f[0], "utf8set") && nf == 4) { sexp_string_utf8_set(ctx, a, b, c); r = a; }
    else if (!strcmp(f[0], "eval") && nf >= 2) {
      /* the embedding caller's view: evaluate source text, get a value or an exception object back */
      char *src = f[1] + strlen(f[1]) + 1;   /* not used: eval takes a hex-encoded program */
      size_t n = strlen(f[1]) / 2, i; char *prog = malloc(n + 1);
      (void)src;
      for (i = 0; i < n; i++) prog[i] = (char)(hexv(f[1][2*i]) * 16 + hexv(f[1][2*i+1]));
      prog[n] = 0;
      r = sexp_eval_string(ctx, prog, -1, NULL);
      free(prog);
    }
    else if (!strcmp(f[0], "read") && nf >= 2) {
      /* the reader alone on hostile text: read data until end of input or the first error */
      size_t n = strlen(f[1]) / 2, i; char *txt = malloc(n + 1); long cnt = 0;
      for (i = 0; i < n; i++) txt[i] = (char)(hexv(f[1][2*i]) * 16 + hexv(f[1][2*i+1]));
      txt[n] = 0;
      a = sexp_c_string(ctx, txt, n);
      b = sexp_open_input_string(ctx, a);
      free(txt);
      for (;;) {
        r = sexp_read(ctx, b);
        if (r == SEXP_EOF || sexp_exceptionp(r) || cnt > 100000) break;
        cnt++;
      }
      if (!sexp_exceptionp(r)) r = sexp_make_fixnum(cnt);
    }
    else { printf("ERR unknown request\n"); fflush(stdout); continue; }
    prres(r);
    /* containment: same context, later program, same answer; stack top restored */
    probe = sexp_eval_string(ctx, "(let lp ((i 0) (acc '())) (if (< i 50) (lp (+ i 1) (cons (* i i) acc)) (apply + acc)))", -1, NULL);
    if (sexp_fixnump(probe) && sexp_unbox_fixnum(probe) == 40425 && sexp_context_top(ctx) == top0) printf(" P");
    else printf(" P!");
    printf("\n");
    fflush(stdout);   /* a sanitizer abort must not lose the answers already given */
  }
  sexp_gc_release5(ctx);
  sexp_destroy_context(ctx);
  return 0;
}
