;; C07 (K-inner, templates; round 4): runs the REAL syntax-rules compiler of lib/init-7.scm
;; (syntax-rules-transformer -> expand-pattern / expand-template) on one rule and one use per case and prints the
;; instantiated template in the prefix notation of the extracted model (coq/C07/Template.v):
;;   S<n> bare symbol s<n> (`...` = S900)   R<n> syntactic closure around that symbol   U<k> user atom u<k>
;;   L<n> number   N ()   P <car> <cdr>   V <slots as list>   ? anything else
;; The transformer is obtained by calling syntax-rules-transformer directly (an error it raises is then an ordinary
;; exception of a procedure call).  Case file: one S-expression per case  (N <syntax-rules spec> <use form>).
(import (scheme base) (scheme read) (scheme write) (scheme file) (scheme eval) (chibi) (chibi ast))

(define env (interaction-environment))

(define (sym-token prefix s)
  (let ((str (symbol->string s)))
    (cond ((eq? s '...) (string-append prefix "900"))
          ((and (> (string-length str) 1) (eqv? (string-ref str 0) #\s) (string->number (substring str 1 (string-length str))))
           (string-append prefix (substring str 1 (string-length str))))
          (else "?"))))

(define (show x)
  (cond ((syntactic-closure? x)
         (if (symbol? (syntactic-closure-expr x)) (write-string (sym-token "R" (syntactic-closure-expr x))) (write-string "?")))
        ((pair? x) (write-string "P ") (show (car x)) (write-string " ") (show (cdr x)))
        ((null? x) (write-string "N"))
        ((vector? x) (write-string "V ") (show (vector->list x)))
        ((symbol? x)
         (let ((str (symbol->string x)))
           (if (and (> (string-length str) 1) (eqv? (string-ref str 0) #\u) (string->number (substring str 1 (string-length str))))
               (begin (write-string "U") (write-string (substring str 1 (string-length str))))
               (write-string (sym-token "S" x)))))
        ((and (exact-integer? x) (>= x 0)) (write-string "L") (write x))
        (else (write-string "?"))))

(define (contains? msg what)
  (let ((n (string-length msg)) (k (string-length what)))
    (let lp ((i 0)) (cond ((> (+ i k) n) #f) ((string=? (substring msg i (+ i k)) what) #t) (else (lp (+ i 1)))))))

(define (run n spec form)
  (write n) (write-string " ")
  (guard (e (#t (let ((msg (if (and (exception? e) (string? (exception-message e))) (exception-message e) "")))
                  (write-string (cond ((contains? msg "too few") "ERR few") ((contains? msg "too many") "ERR many") (else "ERR other"))))))
    (let* ((code (syntax-rules-transformer spec (make-renamer env) (lambda (x y) (identifier=? env x env y))))
           (tr (eval code env)))
      (show (tr form env env))))
  (newline))

(define (main file)
  (call-with-input-file file
    (lambda (in)
      (let lp ()
        (let ((x (read in)))
          (cond ((eof-object? x) (write-string "DONE") (newline))
                (else (run (car x) (cadr x) (car (cddr x))) (lp))))))))

(main (cadr (command-line)))
