/* C09 (G): translation unit handed to clang by gen/c09_luint.py; the 128-bit helpers are static inline
   functions of chibi/bignum.h, which chibi/sexp.h includes (compile with -DSEXP_USE_CUSTOM_LONG_LONGS=1). */
#include <chibi/eval.h>
