"""C11 random thread programs: generator, specification oracles over the H4 trace, outcome prediction.

   gen_program(rng)          -> dict(nm, nc, specs, df, expr): a program for (prog-rand ...) of harness/c11_progs.scm
   trace_oracle(items)       -> [(class, message, line)]: statements of the property evaluated on the states the REAL
                                scheduler logged (no model involved): no lost wake-up, no spurious wake-up, no thread
                                lost, lock only when free, timeouts honoured, wake flags
   predict(prog, items, outs)-> per-thread outcome logs predicted from the extracted model's answers and the wrapper
                                semantics of lib/srfi/18/interface.scm (mirrored below)
   spec_outcome(prog, logs)  -> [(class, message)]: schedule-independent part of the outcome (untimed lock/wait/join
                                succeed, re-lock of an own mutex times out, every thread of a deadlock-free program ends)
   features(items)           -> set of scheduler situations a trace reached (generator distribution evidence)
"""
import re

# Time scale: on the virtual clock every clock reading advances time by 1 us, and a scheduler call made by an ended
# thread while every other thread is paused spins (one trace line per us) until the next timeout: timeouts are kept in
# the microsecond range so that a whole run stays far below the hook's cap of 20000 trace lines.  When every thread is
# blocked the scheduler naps 10 ms (virtually), which lets every pending timeout expire at once.
ROUNDS = 60
EPI_TMO = 0.001
T_SHORT = [0, 0.000002, 0.000005, 0.00001, 0.00002, 0.00005]
T_MED = [0.0001, 0.0002, 0.0005]
T_LONG = [0.001, 0.002]


def fmt_t(t):
    if t is None or t is False:
        return "#f"
    if isinstance(t, int):
        return str(t)
    if t >= 0.5 or abs(float("%.6f" % t) - t) > 1e-9:
        return ("%.8f" % t)       # round 4: k us + 0.25 us (clock shift, equalised wake times): truncation to us robust against rounding
    return ("%.6f" % t)


def fmt_op(op):
    k = op[0]
    if k == "c":
        return "(c %d %s%s)" % (op[1], fmt_t(op[2]), "".join(" " + fmt_op(o) for o in op[3]))
    if k == "w":
        return "(w %d %d %s)" % (op[1], op[2], fmt_t(op[3]))
    if k in ("r", "j"):
        return "(%s %d %s)" % (k, op[1], fmt_t(op[2]))
    if k == "z":
        return "(z %s)" % fmt_t(op[1])
    if k == "y":
        return "(y)"
    return "(%s %d)" % (k, op[1])


def fmt_prog(p):
    return "(prog-rand %d %d '(%s) %d %s)" % (p["nm"], p["nc"], " ".join("(" + " ".join(fmt_op(o) for o in ops) + ")" for ops in p["specs"]), ROUNDS, fmt_t(EPI_TMO))


# --------------------------------------------------------------------------- generator
def shift_clock(rng, p):
    """round 4: the virtual clock starts at <sec>.000000 and the timeouts are <= 2 ms, so the microsecond carry of
    sexp_insert_timed (now.usec + timeout.usec > 10^6) is never reached.  The root starts one thread and both sleep until
    just before the next full second (two sleepers: the hook prints no line for a lone thread's wake-up), so that the
    program's timed waits straddle the second boundary (sums below, exactly at and above 10^6 us)."""
    main = p["specs"][0]
    st = [o for o in main if o[0] == "st"]
    if not st:
        return p
    w = st[0][1]
    main.remove(st[0])
    before = rng.choice([30, 60, 120, 250, 600, 1100, 2300])      # us left to the full second when the root wakes up
    ta = (1000000 - before + 0.25) / 1e6
    tb = (1000000 - before + rng.choice([15, 15, 40, 90, 400]) + 0.25) / 1e6
    p["specs"][0] = [("st", w), ("z", ta)] + main
    p["specs"][w] = [("z", tb)] + p["specs"][w]
    p["shifted"] = True
    p["expr"] = fmt_prog(p)
    return p


def _eq_op(kind, i, nt, t):
    if kind == "z":
        return ("z", t)
    if kind == "c":
        return ("c", 0, t, [("y",)])                 # mutex 0 is held by the root: the timed lock blocks
    if kind == "j":
        return ("j", nt, t)                          # the last thread sleeps long
    return ("c", 1, None, [("w", 1, 0, t)])          # timed condvar wait (releases mutex 1 for the next one)


def eq_program(rng):
    """round 4: programs whose timed waits can be given EQUAL wake times (and wake times 1 us apart).  On the virtual
    clock a wake time is reading + timeout and every reading moves the clock by 1 us, so equal wake times need timeouts
    that compensate the distance of the readings: eq_adjust computes them from the trace of a first run.  Each worker
    blocks in one timed wait (sleep / lock of a mutex the root holds / condvar wait / join of the last thread) while the
    root sleeps longer; then all time out (several threads spliced at once, insertion among equal times)."""
    nt = rng.choice([2, 3, 3, 4])
    n = nt + 1
    kinds = {}
    for i in range(1, n):
        kinds[i] = rng.choice(["z", "c", "w"] + (["j"] if i < nt else ["z"]))
    tails = {i: [rng.choice([("y",), ("n", 3), ("s", 0), ("z", 0.00002), ("c", 1, 0.0001, [("n", 1)])]) for _ in range(rng.choice([0, 1, 2]))] for i in range(1, n)}
    p = dict(nm=3, nc=1, df=True, n=n, eq=dict(kinds=kinds, tails=tails, nt=nt, t={i: 300 for i in range(1, n)}, off={i: 0 for i in range(1, n)}))
    return _eq_build(p)


def _eq_build(p):
    e = p["eq"]
    nt = e["nt"]
    specs = [[("lk", 0)] + [("st", i) for i in range(1, nt + 1)] + [("z", 0.001), ("u", 0), ("b", 0)]]
    for i in range(1, nt + 1):
        t = e["t"][i]
        tv = (t + 0.25) / 1e6
        specs.append([_eq_op(e["kinds"][i], i, nt, tv)] + list(e["tails"][i]))
    p["specs"] = specs
    p["expr"] = fmt_prog(p)
    return p


def eq_adjust(rng, p, items):
    """items: parsed trace of p under the schedule that will be used again.  Returns a copy of p whose workers' wake times
    are d1 + off_i (off_i in {0, 0, 0, -1, +1}), or None when a worker's blocking line is not in the trace."""
    e = p["eq"]
    d = {}
    for req, exp in items:
        op = req.split()[0]
        c = exp["C"]
        if op in ("lock", "unlock", "join", "sleep") and exp["res"] == "#f" and c in e["kinds"] and c not in d and c in exp["T"]:
            tm = exp["T"][c][2]
            if _tv(tm):
                d[c] = _tv(tm)
    if set(d) != set(e["kinds"]):
        return None
    q = dict(p)
    q["eq"] = dict(e, t=dict(e["t"]), off={})
    for i in e["kinds"]:
        off = 0 if i == 1 else rng.choice([0, 0, 0, -1, 1])
        q["eq"]["off"][i] = off
        q["eq"]["t"][i] = e["t"][i] - (d[i] - d[1]) + off
        if q["eq"]["t"][i] < 1:
            return None
    return _eq_build(q)


def gen_program(rng, force_term=None):
    """Deadlock-free by construction unless it uses terminate (df=False): nested critical sections take mutexes in
    increasing order; condvar waits only while holding exactly one mutex (the wait releases it) and untimed ones are
    rescued by the root's epilogue broadcasts; a thread joins only higher-numbered threads and never inside a critical
    section; the root's own joins are timed; while the root holds a raw lock it does nothing that can block for ever."""
    nt = rng.choice([2, 3, 3, 4, 4, 4, 5, 5])           # threads besides the root
    nm = rng.choice([1, 1, 2, 2, 3])
    nc = rng.choice([1, 1, 2])
    n = nt + 1
    use_term = (rng.random() < 0.2) if force_term is None else force_term
    popular = rng.randrange(max(1, nt - 1), nt + 1)        # the thread most joins aim at (long-running)
    hot_m = rng.randrange(nm)                              # the mutex most sections use
    hot_c = rng.randrange(nc)
    style = rng.choice(["mutex", "mutex", "cond", "join", "join", "sleep", "mixed", "mixed", "mixed"])
    W = dict(c=4, w=0, j=2, z=2, y=2, s=1, b=1, n=1, u=0.3)
    if style == "mutex":
        W.update(c=8, z=3)
    elif style == "cond":
        W.update(c=6, s=3, b=2)
    elif style == "join":
        W.update(j=7, c=3, z=3)
    elif style == "sleep":
        W.update(z=6, c=5)

    def tmo(kind="any"):
        x = rng.random()
        if kind == "short" or x < 0.45:
            return rng.choice(T_SHORT)
        if x < 0.85:
            return rng.choice(T_MED)
        return rng.choice(T_LONG)

    def pick_m(lo=0):
        if lo <= hot_m and rng.random() < 0.6:
            return hot_m
        return rng.randrange(lo, nm) if lo < nm else None

    def pick_c():
        return hot_c if rng.random() < 0.7 else rng.randrange(nc)

    budget = {}

    def body_ops(i, held, depth, length):
        """ops for thread i while holding the mutexes in `held` (increasing)"""
        ops = []
        for _ in range(length):
            ks = list(W.keys())
            k = rng.choices(ks, weights=[W[x] for x in ks])[0]
            if k == "c":
                m = pick_m(held[-1] + 1 if held else 0)
                if m is None or depth >= 2:
                    k = "z"
                else:
                    t = None if rng.random() < 0.6 else tmo()
                    inner = body_ops(i, held + [m], depth + 1, rng.choice([1, 1, 2, 2, 3]))
                    if len(held) == 0 and rng.random() < (0.5 if style == "cond" else 0.15):
                        untimed = i != 0 and not use_term and budget.get((i, "w"), 0) < 2 and rng.random() < 0.5
                        if untimed:
                            budget[(i, "w")] = budget.get((i, "w"), 0) + 1
                        inner.insert(rng.randrange(len(inner) + 1), ("w", m, pick_c(), None if untimed else tmo()))
                    if rng.random() < 0.12:
                        inner.insert(rng.randrange(len(inner) + 1), ("r", m, tmo("short")))
                    ops.append(("c", m, t, inner))
                    continue
            if k == "j":
                if held:
                    k = "y"
                else:
                    cands = list(range(i + 1, n)) if i != 0 else list(range(1, n))
                    if not cands:
                        k = "z"
                    else:
                        t = popular if (popular in cands and rng.random() < 0.65) else rng.choice(cands)
                        ops.append(("j", t, tmo() if (i == 0 or rng.random() < 0.35) else None))
                        continue
            if k == "z":
                d = tmo()
                if budget.get((i, "z"), 0) + d > 0.006:
                    d = rng.choice(T_SHORT)
                budget[(i, "z")] = budget.get((i, "z"), 0) + d
                ops.append(("z", d))
            elif k == "y":
                ops.append(("y",))
            elif k == "s":
                ops.append(("s", pick_c()))
            elif k == "b":
                ops.append(("b", pick_c()))
            elif k == "n":
                ops.append(("n", rng.choice([1, 3, 10, 40])))
            elif k == "u":
                ops.append(("u", nm))          # the spare mutex nobody locks: unlock of a free mutex
        return ops

    specs = [None] * n
    for i in range(1, n):
        L = rng.choice([2, 3, 3, 4, 5, 6])
        specs[i] = body_ops(i, [], 0, L)
    # the popular thread runs long (sleeps), so that several joiners pile up on it
    if rng.random() < 0.7:
        specs[popular].insert(rng.randrange(len(specs[popular]) + 1), ("z", rng.choice(T_MED + T_LONG)))
    # a thread that blocked on a mutex / condvar / join earlier and sleeps afterwards (stale event field)
    for i in range(1, n):
        if rng.random() < 0.35:
            specs[i].append(("z", rng.choice(T_MED + T_LONG)))
            if rng.random() < 0.5 and nm:
                specs[i].append(("c", pick_m(0), None, [("y",)]))
    # root: starts, optional raw hold of a mutex (others time out / queue up on it), a few ops, timed joins
    main = []
    others = list(range(1, n))
    rng.shuffle(others)
    by_worker = {}
    if nt >= 3 and rng.random() < 0.3:                     # one thread is started by another thread (its first op)
        a, b = sorted(rng.sample(range(1, n), 2))
        by_worker[b] = a
        specs[a].insert(0, ("st", b))
        others.remove(b)
    hold = None
    if rng.random() < 0.45:
        hold = pick_m(0)
        main.append(("lk", hold))
    for t in others:
        main.append(("st", t))
        x = rng.random()
        if x < 0.25:
            main.append(("y",))
        elif x < 0.35:
            main.append(("z", rng.choice(T_SHORT)))
    if hold is not None:
        for _ in range(rng.choice([1, 2, 3])):
            x = rng.random()
            main.append(("y",) if x < 0.4 else ("z", tmo()) if x < 0.8 else ("s", pick_c()))
        main.append(("u", hold))
    saveW = dict(W)
    W.update(w=0)
    for o in body_ops(0, [], 0, rng.choice([1, 2, 3, 4])):
        # the root never waits untimed on a condvar (it is the rescuer)
        if o[0] == "c":
            o = ("c", o[1], (o[2] if (o[2] is not None or not use_term) else 0.0005), [(("w", x[1], x[2], x[3] if x[3] is not None else 0.02) if x[0] == "w" else x) for x in o[3]])
        main.append(o)
    W.update(saveW)
    if use_term:
        # a terminated thread may leave a mutex locked for ever: the root must then never block without a timeout
        # (timed sections only, no condvar wait, whose re-lock is untimed), or the program could hang by design
        def bounded(ops):
            out = []
            for o in ops:
                if o[0] == "w":
                    out.append(("y",))
                elif o[0] == "c":
                    out.append(("c", o[1], o[2] if o[2] is not None else 0.0005, bounded(o[3])))
                else:
                    out.append(o)
            return out
        main = bounded(main)
        # terminate a thread, preferably while it is blocked: after a sleep of the root
        victim = rng.randrange(1, n)
        killer = 0 if rng.random() < 0.7 else rng.choice([i for i in range(1, n) if i != victim] or [0])
        pos = rng.randrange(len(specs[killer]) + 1) if killer else len(main)
        (specs[killer] if killer else main).insert(pos, ("k", victim))
        if killer == 0 and rng.random() < 0.6:
            main.insert(pos, ("z", rng.choice(T_SHORT + T_MED)))
    specs[0] = main
    p = dict(nm=nm + 1, nc=nc, specs=specs, df=not use_term, n=n)
    p["expr"] = fmt_prog(p)
    return p


# --------------------------------------------------------------------------- s-expression reader (program results)
def read_sexp(s):
    toks = re.findall(r"[()]|[^\s()]+", s)
    pos = [0]

    def rd():
        t = toks[pos[0]]
        pos[0] += 1
        if t == "(":
            out = []
            while toks[pos[0]] != ")":
                out.append(rd())
            pos[0] += 1
            return out
        if t == "#t":
            return True
        if t == "#f":
            return False
        try:
            return int(t)
        except ValueError:
            return t
    return rd()


# --------------------------------------------------------------------------- schedule-independent outcome rules
def spec_outcome(prog, res):
    """res = parsed (bad log0 log1 ...).  Returns [(class, message)] for outcomes no schedule may produce."""
    out = []
    if not isinstance(res, list) or len(res) != prog["n"] + 1:
        return [("result-shape", "unexpected result %r" % (res,))]
    if res[0] != 0:
        out.append(("mutual-exclusion", "%s critical-section monitor failures (two threads between lock and unlock of one mutex)" % res[0]))
    victims = set()
    for ops in prog["specs"]:
        for o in walk(ops):
            if o[0] == "k":
                victims.add(o[1])
    for i, ops in enumerate(prog["specs"]):
        log = list(res[1 + i])
        # walk the ops with the logged values; the structure depends on the lock results
        k = [0]

        def nxt(tag):
            if k[0] >= len(log):
                return None
            e = log[k[0]]
            if not (isinstance(e, list) and len(e) == 2 and e[0] == tag):
                out.append(("log-order", "thread %d: expected a (%s ..) entry at position %d, log %r" % (i, tag, k[0], log)))
                k[0] = len(log)
                return None
            k[0] += 1
            return e

        def go(ops):
            for o in ops:
                if k[0] >= len(log) and o[0] in ("c", "w", "r", "lk", "u", "s", "b", "j"):
                    return False        # the thread did not get that far (terminated / stuck)
                if o[0] == "c":
                    e = nxt("c")
                    if e is None:
                        return False
                    if o[2] is None and e[1] is not True:
                        out.append(("untimed-lock-failed", "thread %d: (mutex-lock! m%d) without timeout returned %r" % (i, o[1], e[1])))
                    if e[1] is True:
                        if not go(o[3]):
                            return False
                        e = nxt("u")
                        if e is None:
                            return False
                        if e[1] is not True:
                            out.append(("unlock-result", "thread %d: (mutex-unlock! m%d) returned %r" % (i, o[1], e[1])))
                elif o[0] == "w":
                    e = nxt("w")
                    if e is None:
                        return False
                    if o[3] is None and e[1] is not True:
                        out.append(("untimed-wait-failed", "thread %d: untimed condvar wait returned %r" % (i, e[1])))
                    e = nxt("l")
                    if e is None:
                        return False
                    if e[1] is not True:
                        out.append(("untimed-lock-failed", "thread %d: re-lock after the condvar wait returned %r" % (i, e[1])))
                elif o[0] == "r":
                    e = nxt("r")
                    if e is None:
                        return False
                    if e[1] is not False:
                        out.append(("recursive-lock-granted", "thread %d: timed lock of mutex m%d which the thread itself holds returned %r" % (i, o[1], e[1])))
                elif o[0] == "lk":
                    e = nxt("lk")
                    if e is None:
                        return False
                    if e[1] is not True:
                        out.append(("untimed-lock-failed", "thread %d: raw lock returned %r" % (i, e[1])))
                elif o[0] in ("u", "s", "b"):
                    if nxt(o[0]) is None:
                        return False
                elif o[0] == "j":
                    e = nxt("j")
                    if e is None:
                        return False
                    if o[1] in victims:
                        continue
                    if o[2] is None and e[1] != 100 + o[1]:
                        out.append(("join-result", "thread %d: untimed (thread-join! t%d) returned %r, expected %d" % (i, o[1], e[1], 100 + o[1])))
                    if o[2] is not None and e[1] not in (100 + o[1], "tmo"):
                        out.append(("join-result", "thread %d: timed (thread-join! t%d) returned %r" % (i, o[1], e[1])))
            return True
        complete = go(ops)
        if i == 0:
            # epilogue entries
            es = log[k[0]:]
            if complete and prog["df"]:
                if [e for e in es if not (isinstance(e, list) and e[0] == "e")] or len(es) != prog["n"] - 1:
                    out.append(("log-order", "root epilogue log %r" % (es,)))
                for t, e in enumerate(es, start=1):
                    if isinstance(e, list) and e[0] == "e" and e[1] != 100 + t:
                        out.append(("thread-never-finished", "thread %d of a deadlock-free program: final join returned %r (expected %d)" % (t, e[1], 100 + t)))
            elif not complete and prog["df"]:
                out.append(("thread-never-finished", "the root thread of a deadlock-free program did not complete its operations: log %r" % (log,)))
        elif prog["df"] and (not complete or k[0] != len(log)):
            out.append(("thread-never-finished", "thread %d of a deadlock-free program stopped early or logged extra entries: %r" % (i, log)))
    return out


def walk(ops):
    for o in ops:
        yield o
        if o[0] == "c":
            for x in walk(o[3]):
                yield x


# --------------------------------------------------------------------------- outcome prediction from the model's answers
class Mismatch(Exception):
    pass


def _w_lock(m, tmo):
    """mutex-lock! of interface.scm: retry until the primitive returns #t; after a #f: yield, then fail iff (thread-timeout?)"""
    while True:
        res, flag = yield ("lock", m, tmo)
        if res:
            return True
        if flag:
            return False


def _w_unlock(m, cv, tmo):
    res, flag = yield ("unlock", m, cv, tmo)
    if res:
        return True
    return not flag


def _w_join(t, tmo, dead_by_term):
    while True:
        res, flag = yield ("join", t, tmo)
        if res:
            return "exc?" if t in dead_by_term else 100 + t
        if tmo is not None and flag:
            return "tmo"


def _w_bcast(c):
    r = False
    while True:
        res, _ = yield ("signal", c)
        if not res:
            return r
        r = True


def _script(i, prog, log, dead_by_term):
    def run(ops):
        for o in ops:
            k = o[0]
            if k == "c":
                r = yield from _w_lock(o[1], o[2])
                log.append(["c", r])
                if r:
                    yield from run(o[3])
                    r = yield from _w_unlock(o[1], None, None)
                    log.append(["u", r])
            elif k == "w":
                r = yield from _w_unlock(o[1], o[2], o[3])
                log.append(["w", r])
                r = yield from _w_lock(o[1], None)
                log.append(["l", r])
            elif k == "r":
                r = yield from _w_lock(o[1], o[2])
                log.append(["r", r])
            elif k == "lk":
                r = yield from _w_lock(o[1], None)
                log.append(["lk", r])
            elif k == "u":
                r = yield from _w_unlock(o[1], None, None)
                log.append(["u", r])
            elif k == "s":
                res, _ = yield ("signal", o[1])
                log.append(["s", res])
            elif k == "b":
                r = yield from _w_bcast(o[1])
                log.append(["b", r])
            elif k == "j":
                r = yield from _w_join(o[1], o[2], dead_by_term)
                log.append(["j", r])
            elif k == "z":
                yield ("sleep", o[1])
            elif k == "k":
                res, _ = yield ("term", o[1])
                if res:
                    yield ("dead",)
            elif k == "st":
                yield ("start", o[1])
    yield from run(prog["specs"][i])
    if i == 0:
        for t in range(1, prog["n"]):
            k = 0
            while True:
                r = yield from _w_join(t, EPI_TMO, dead_by_term)
                if r == "tmo" and k < ROUNDS:
                    for c in range(prog["nc"]):
                        yield from _w_bcast(c)
                    k += 1
                else:
                    log.append(["e", r])
                    break


def _tmo_str(t):
    if t is None:
        return "n"
    if isinstance(t, int):
        return "r%d.0" % t
    return "r%d.%d" % (int(t), int((t - int(t)) * 1000000))


MODEL_RE = re.compile(r"(E[01]) (#[tf]) \| C (\d+) F (\S*) B (\S+) P (\S*) T(.*) M(.*)$")


def predict(prog, items, outs):
    """items: parse_trace output [(req, exp)], outs: the model's answer per item (None for skipped).
    Returns (logs, complete): predicted per-thread logs; complete=False when the trace ended early.
    Raises Mismatch when the trace is not an execution of the program (order of primitives)."""
    n = prog["n"]
    logs = [[] for _ in range(n)]
    dead_by_term = set()
    scripts = [_script(i, prog, logs[i], dead_by_term) for i in range(n)]
    waiting_call = [None] * n        # what script i is suspended on: the expected primitive
    finished = [False] * n
    for i in range(n):
        try:
            waiting_call[i] = next(scripts[i])
        except StopIteration:
            finished[i] = True
    tid2prog = {0: 0}
    mmap, cmap = {}, {}
    blocked = {}                     # prog thread -> True: the primitive returned #f, the answer is sent at resume

    def send(i, val):
        try:
            waiting_call[i] = scripts[i].send(val)
        except StopIteration:
            finished[i] = True
            waiting_call[i] = None

    for (req, exp), o in zip(items, outs):
        if o is None:
            return logs, False
        m = MODEL_RE.match(o)
        if not m:
            return logs, False
        h = req.split()
        op = h[0]
        res = m.group(2) == "#t"
        flags = {}
        for item in m.group(7).split():
            t, fl, e, tm = item.split(":")
            flags[int(t)] = fl
        if op == "sched":
            c = int(m.group(3))
            if c in tid2prog:
                i = tid2prog[c]
                if blocked.get(i) and flags.get(c, "1")[0] == "0":
                    del blocked[i]
                    send(i, (False, flags[c][1] == "1"))
            continue
        c = exp["C"]
        if c not in tid2prog:
            raise Mismatch("primitive %s by an unknown thread %d" % (req, c))
        i = tid2prog[c]
        if blocked.get(i):
            raise Mismatch("thread %d runs %s while its previous primitive has not resumed" % (i, req))
        w = waiting_call[i]
        if w is None:
            raise Mismatch("thread %d runs %s after the end of its program" % (i, req))
        if op == "start":
            if w[0] != "start":
                raise Mismatch("thread %d: trace has %s, program expects %s" % (i, req, w))
            tid2prog[int(h[1])] = w[1]
            send(i, None)
        elif op == "term":
            if w[0] != "term":
                raise Mismatch("thread %d: trace has %s, program expects %s" % (i, req, w))
            dead_by_term.add(w[1])
            send(i, (res, None))
        elif op == "lock":
            if w[0] != "lock" or mmap.setdefault(int(h[1]), w[1]) != w[1] or h[2] != _tmo_str(w[2]):
                raise Mismatch("thread %d: trace has %s, program expects %s" % (i, req, w))
            if res:
                send(i, (True, None))
            else:
                blocked[i] = True
        elif op == "unlock":
            cv = None if h[2] == "-" else int(h[2])
            ok = w[0] == "unlock" and mmap.setdefault(int(h[1]), w[1]) == w[1] and ((cv is None) == (w[2] is None))
            if ok and cv is not None:
                ok = cmap.setdefault(cv, w[2]) == w[2] and h[3] == _tmo_str(w[3])
            if not ok:
                raise Mismatch("thread %d: trace has %s, program expects %s" % (i, req, w))
            if res:
                send(i, (True, None))
            else:
                blocked[i] = True
        elif op == "signal":
            if w[0] != "signal" or cmap.setdefault(int(h[1]), w[1]) != w[1]:
                raise Mismatch("thread %d: trace has %s, program expects %s" % (i, req, w))
            send(i, (res, None))
        elif op == "join":
            if w[0] != "join" or tid2prog.get(int(h[1]), w[1]) != w[1] or h[2] != _tmo_str(w[2]):
                raise Mismatch("thread %d: trace has %s, program expects %s" % (i, req, w))
            if res:
                send(i, (True, None))
            else:
                blocked[i] = True
        elif op == "sleep":
            if w[0] != "sleep" or h[2] != _tmo_str(w[1]):
                raise Mismatch("thread %d: trace has %s, program expects %s" % (i, req, w))
            blocked[i] = True
        else:
            raise Mismatch("unknown trace op " + req)
    return logs, finished[0]


def norm_log(x):
    """program results and predictions in one shape"""
    if isinstance(x, list):
        return [norm_log(y) for y in x]
    return x


# --------------------------------------------------------------------------- specification oracle on the real trace
def _tv(s):
    if "." not in s:
        raise ValueError("bad time %r" % (s,))
    a, b = s.split(".")
    return int(a) * 1000000 + int(b)


def trace_oracle(items, feats=None):
    """Evaluates the property's clauses on the states logged by the real scheduler (independent of the model).
    Ghost state per thread: what it is genuinely waiting for = the last primitive that blocked it."""
    viol = []
    seen = set()

    def V(cls, msg, k):
        if cls not in seen:
            seen.add(cls)
            viol.append((cls, msg, k))

    def feat(x):
        if feats is not None:
            feats.add(x)

    started = {0}
    dead = set()
    ended = set()        # dead threads whose final scheduler call (which wakes the joiners) has been seen
    want = {}            # thread -> ('M',m) | ('C',c) | ('T',t) | ('S',)
    dl = {}              # thread -> deadline in us, None = untimed
    locked = {}
    flags = {}
    retry = {}           # round 4: thread -> ('join', t) | ('lock', m): woken because the awaited event happened (not by timeout),
    killed = set()       # so the wrapper of interface.scm must retry the primitive: it is the thread's next primitive
    prevP, prevF, prevC = [], [], 0
    for k, (req, exp) in enumerate(items):
        h = req.split()
        op = h[0]
        C, F, P, T = exp["C"], exp["F"], exp["P"], exp["T"]
        for t, (fl, e, tm) in T.items():
            flags[t] = (fl, e, tm)
        a = exp["old"] if op == "sched" else C
        res = exp["res"]
        left = [t for t in prevP if t not in P]
        woken = [t for t in left if (t in F or t == C)]

        def block(kind, tmo="r", now=None):
            want[a] = kind
            tm = flags.get(a, ("", "", "0.000000"))[2]
            # the deadline the primitive was asked for: none when it was called without timeout
            dl[a] = None if (_tv(tm) == 0 or tmo == "n") else _tv(tm)
            if tmo.startswith("r") and "." in tmo and now and "." in now:
                # round 4 (deadline_exact): the wake time the real sexp_insert_timed stored must denote the instant
                # clock reading + timeout (seconds and microseconds as the hook logged them)
                ts, tu = tmo[1:].split(".")
                asked = _tv(now) + int(ts) * 1000000 + int(tu)
                if int(tu) and (_tv(now) % 1000000) + int(tu) >= 1000000:
                    feat("carry:%s" % ("exactly-one-second" if (_tv(now) % 1000000) + int(tu) == 1000000 else "over"))
                if _tv(tm) != asked:
                    V("wake-time-is-not-now-plus-timeout", "%s by thread %d at %s: the stored wake time %s is %d us away from clock reading + timeout" % (req, a, now, tm, _tv(tm) - asked), k)
                dl[a] = asked
            if tmo == "n" and _tv(tm) != 0:
                V("untimed-wait-has-a-deadline", "%s by thread %d has no timeout but the thread's wake time is %s (it will be woken as timed out)" % (req, a, tm), k)
            if a not in P:
                V("blocked-thread-not-paused", "%s by thread %d returned #f but the thread is not in the paused list %s" % (req, a, P), k)
            elif flags[a][0][0] != "1":
                V("blocked-thread-not-waiting", "%s by thread %d returned #f but waitp is not set" % (req, a), k)

        def check_wake(kind, what):
            G = [t for t in prevP if want.get(t) == kind]
            if len(G) >= 2:
                feat("%s:%d-waiters" % (kind[0], min(len(G), 3)))
                idx = [prevP.index(t) for t in G]
                feat("%s:waiters-%s" % (kind[0], "adjacent" if max(idx) - min(idx) == len(G) - 1 else "apart"))
            if G and any(dl.get(t) for t in G) and any(not dl.get(t) for t in G):
                feat("%s:timed+untimed-waiters" % kind[0])
            if G and [t for t in prevP if t not in G and flags.get(t, ("", "-", ""))[1] == flags[G[0]][1]]:
                feat("%s:stale-event-bystander" % kind[0])
            if G and [t for t in prevP if want.get(t) == ("S",)]:
                feat("%s:sleeper-among-waiters" % kind[0])
            if not G:
                feat("%s:no-waiter" % kind[0])
            return G

        if op != "sched" and a in retry:
            need = retry.pop(a)
            if not (op == need[0] and int(h[1]) == need[1]):
                V("%s:gave-up-although-the-awaited-event-happened" % need[0], "thread %d was woken because %s (not by a timeout), but its next primitive is %r instead of the retry of %%%s: "
                  "the wait was abandoned (timed wait reported as timed out / lock reported as failed)" % (a, "thread %d ended" % need[1] if need[0] == "join" else "mutex %d was unlocked" % need[1], req, "thread-join!" if need[0] == "join" else "mutex-lock!"), k)
        if op == "start":
            started.add(int(h[1]))
        elif op == "term":
            t = int(h[1])
            killed.add(t)
            retry.pop(t, None)
            if t in prevP:
                feat("terminate:paused-thread")
                if t not in F and t != C:
                    V("terminated-thread-not-runnable", "thread-terminate! of paused thread %d did not make it runnable (it can never end)" % t, k)
            if t in woken:
                woken.remove(t)
            want.pop(t, None)
            dead.add(t)
        elif op == "lock":
            m = int(h[1])
            if res == "#t":
                if locked.get(m):
                    V("lock-granted-on-locked-mutex", "thread %d: %%mutex-lock! returned #t for mutex %d which is locked" % (a, m), k)
                locked[m] = True
            else:
                if not locked.get(m):
                    V("lock-refused-on-free-mutex", "thread %d: %%mutex-lock! blocked on mutex %d which is free" % (a, m), k)
                block(("M", m), h[2], h[3])
        elif op == "unlock":
            m = int(h[1])
            if locked.get(m):
                locked[m] = False
                G = check_wake(("M", m), "unlock")
                if G and not [t for t in woken if t in G]:
                    V("lost-wakeup:mutex-unlock", "unlock of mutex %d: threads %s are blocked on it (paused list %s) but none was made runnable; woken: %s" % (m, G, prevP, woken), k)
            else:
                feat("M:unlock-of-free-mutex")
            for t in woken:
                if want.get(t) != ("M", m):
                    V("spurious-wakeup:mutex-unlock", "unlock of mutex %d made thread %d runnable, which waits for %s" % (m, t, want.get(t)), k)
                elif flags[t][0][:2] != "00":
                    V("wake-flags:mutex-unlock", "thread %d woken by unlock has waitp/timeoutp = %s" % (t, flags[t][0][:2]), k)
                elif t not in dead:
                    retry[t] = ("lock", m)
                want.pop(t, None)
            if h[2] != "-":
                block(("C", int(h[2])), h[3], h[4])
        elif op == "signal":
            c = int(h[1])
            G = check_wake(("C", c), "signal")
            if res == "#f" and G:
                V("lost-wakeup:condvar-signal", "signal/broadcast on condvar %d returned #f although threads %s wait on it (paused list %s)" % (c, G, prevP), k)
            if res == "#t" and not woken:
                V("lost-wakeup:condvar-signal", "signal on condvar %d returned #t but no thread was made runnable" % c, k)
            for t in woken:
                if want.get(t) != ("C", c):
                    V("spurious-wakeup:condvar-signal", "signal on condvar %d made thread %d runnable, which waits for %s" % (c, t, want.get(t)), k)
                elif flags[t][0][:2] != "00":
                    V("wake-flags:condvar-signal", "thread %d woken by signal has waitp/timeoutp = %s" % (t, flags[t][0][:2]), k)
                want.pop(t, None)
        elif op == "join":
            t = int(h[1])
            if res == "#t" and t not in dead:
                V("join-before-termination", "thread %d: %%thread-join! of running thread %d returned #t" % (a, t), k)
            if res == "#f":
                if t in dead:
                    V("join-blocks-on-terminated-thread", "thread %d: %%thread-join! blocked on thread %d which has ended" % (a, t), k)
                block(("T", t), h[2], h[3])
        elif op == "sleep":
            block(("S",), h[2], h[3])
        elif op == "sched":
            now1 = _tv(h[1])
            now2 = _tv(h[2])
            if a in flags and flags[a][0][2] == "0":
                if a in retry and a not in killed:
                    need = retry.pop(a)
                    V("%s:gave-up-although-the-awaited-event-happened" % need[0], "thread %d was woken by the event it waited for (%s %d) and ended without retrying the primitive" % (a, need[0], need[1]), k)
                if a not in ended:
                    dead.add(a)
                    ended.add(a)
                    G = check_wake(("T", a), "end")
                    for t in G:
                        if not (t in F or t == C):
                            V("lost-wakeup:join", "thread %d ended but thread %d joining it was not made runnable (paused before %s, after %s, run queue %s)" % (a, t, prevP, P, F), k)
                        elif flags[t][0][:2] != "00":
                            V("wake-flags:join", "joiner %d woken with waitp/timeoutp = %s" % (t, flags[t][0][:2]), k)
                        elif t not in dead:
                            retry[t] = ("join", a)
                        if t in woken:
                            woken.remove(t)
                        want.pop(t, None)
                    if len(G) >= 2 and [t for t in prevP if t not in G and prevP.index(t) > min(prevP.index(g) for g in G)]:
                        feat("T:joiners-with-other-thread-behind")
            for t in woken:
                fl = flags[t][0]
                if fl[0] == "1":
                    continue            # chosen while still waiting (everything blocked): it naps, not woken
                d = dl.get(t)
                limit = now1 if t != C or now2 == 0 else max(now1, now2 + 10000)
                if t not in want:
                    pass
                elif d is None:
                    V("spurious-wakeup:scheduler", "the scheduler made thread %d runnable, which waits untimed for %s" % (t, want.get(t)), k)
                elif d > limit:          # round 4: exact (was limit + 10 ms: with timeouts <= 2 ms no early wake-up could ever be seen)
                    V("wakeup-before-deadline", "the scheduler woke thread %d (waiting for %s) at %d us, %d us before its deadline" % (t, want.get(t), limit, d - limit), k)
                elif fl[:2] != "01":
                    V("wake-flags:timeout", "thread %d woken by timeout has waitp/timeoutp = %s" % (t, fl[:2]), k)
                else:
                    feat("timeout:%s" % (want[t][0],))
                want.pop(t, None)
            if C in want and flags[C][0][0] == "0" and C not in woken and C == a:
                # the running thread's own timeout (woken in place)
                d = dl.get(C)
                if d is None or d > max(now1, now2 + 10000):
                    V("spurious-wakeup:scheduler", "the scheduler resumed thread %d, which still waits for %s (deadline %s, now %s)" % (C, want.get(C), d, now1), k)
                want.pop(C, None)
            if now1:
                for t in P:
                    tm = _tv(flags[t][2]) if t in flags else 0
                    if tm and tm < now1 and t != C:
                        V("missed-timeout", "thread %d stays paused although its wake time %s is before the scheduler's clock reading %s (paused list %s not time-ordered?)" % (t, flags[t][2], h[1], P), k)
        if op != "sched" and op != "term" and op not in ("unlock", "signal"):
            for t in woken:
                V("spurious-wakeup:" + op, "%s made thread %d leave the paused list" % (req, t), k)
        for t in left:
            if t not in F and t != C and t not in dead:
                V("thread-lost", "after %s thread %d (waiting for %s) is neither running, runnable nor paused: run queue %s paused %s (before: %s)" % (req, t, want.get(t), F, P, prevP), k)
        for t in started - dead:
            if t != C and t not in F and t not in P and t in flags:
                V("thread-lost", "after %s live thread %d is neither running, runnable nor paused: run queue %s paused %s" % (req, t, F, P), k)
        if exp.get("M"):
            i, l, o = exp["M"]
            if (l == "1") != bool(locked.get(i, False)):
                V("mutex-state", "mutex %d lock flag %s after %s" % (i, l, req), k)
        tms = [flags[t][2] for t in P if t in flags and _tv(flags[t][2])]
        if len(set(tms)) < len(tms):
            feat("P:equal-wake-times")
        if [1 for x in tms for y in tms if _tv(x) - _tv(y) == 1]:
            feat("P:wake-times-1us-apart")
        prevP, prevF, prevC = P, F, C
    return viol


# --------------------------------------------------------------------------- round 3: programs of coq/C11/Prog.v
def _us(t):
    return None if t is None else int(round(t * 1000000))


def _sv_fmt(op):
    k = op[0]
    t = lambda u: "#f" if u is None else ("%.6f" % (u / 1000000.0))
    if k == "c":
        return "(c %d %s%s)" % (op[1], t(op[2]), "".join(" " + _sv_fmt(o) for o in op[3]))
    if k == "w":
        return "(w %d %d %s)" % (op[1], op[2], t(op[3]))
    if k == "j":
        return "(j %d %s)" % (op[1], t(op[2]))
    if k == "z":
        return "(z %s)" % t(op[1])
    if k == "y":
        return "(y)"
    if k == "wr":
        return "(wr %d %d)" % (op[1], op[2])
    return "(%s %d)" % (k, op[1])


def _sv_tok(op):
    k = op[0]
    t = lambda u: "n" if u is None else str(u)
    if k == "c":
        return "c %d %s [ %s ]" % (op[1], t(op[2]), " ".join(_sv_tok(o) for o in op[3]))
    if k == "w":
        return "w %d %d %s" % (op[1], op[2], t(op[3]))
    if k == "j":
        return "j %d %s" % (op[1], t(op[2]))
    if k == "z":
        return "z %s" % t(op[1])
    if k == "y":
        return "y"
    if k == "wr":
        return "wr %d %d" % (op[1], op[2])
    return "%s %d" % (k, op[1])


def sv_finish(nm, nc, vmutex, specs, kind):
    """both concrete syntaxes of one program: the Scheme expression for (prog-sv ..) of c11_progs.scm and the token list
    for the `prog` request of ocaml/C11_driver.ml"""
    expr = "(prog-sv %d %d %d '(%s))" % (nm, nc, len(vmutex), " ".join("(" + " ".join(_sv_fmt(o) for o in ops) + ")" for ops in specs))
    toks = "%d %s %d %s" % (len(vmutex), " ".join(str(m) for m in vmutex), len(specs), " ".join("[ " + " ".join(_sv_tok(o) for o in ops) + " ]" for ops in specs))
    return dict(expr=expr, tokens=re.sub(r"\s+", " ", toks).strip(), kind=kind, n=len(specs), nx=len(vmutex))


def to_sv(rng, unlocked=False):
    """a round-2 random program (no thread-terminate!) translated into the language of coq/C11/Prog.v, with read-modify-write
    accesses to shared variables inserted into the untimed critical sections of the mutex assigned to each variable.
    Dropped: timed re-locks of an own mutex, the unlock of the spare mutex; untimed condvar waits become timed (the language
    has no rescue loop); the root's raw lock .. unlock becomes a section; the root ends with an untimed join of every thread.
    unlocked=True additionally appends read-modify-write sequences OUTSIDE any section to two threads (leaves the class)."""
    p = gen_program(rng, force_term=False)
    nm, nc = p["nm"] - 1, p["nc"]
    nx = rng.choice([1, 2, 2, 3])
    vmutex = [rng.randrange(nm) for _ in range(nx)]

    def rmw(x):
        seq = [("rd", x)]
        r = rng.random()
        if r < 0.35:
            seq.append(("y",))
        elif r < 0.5:
            seq.append(("a", rng.randrange(1, 50)))
        elif r < 0.6:
            seq.append(("z", rng.choice([0, 2, 5, 20])))
        seq.append(("wr", x, rng.randrange(1, 1000)))
        return seq

    def conv(ops, timed_ctx):
        out = []
        for o in ops:
            k = o[0]
            if k == "c":
                tmo = _us(o[2])
                body = conv(o[3], timed_ctx or tmo is not None)
                if tmo is None and not timed_ctx:
                    units = [[b] for b in body]          # a read-modify-write is inserted as one unit, never split
                    for x in range(nx):
                        if vmutex[x] == o[1] and rng.random() < 0.7:
                            for _ in range(rng.choice([1, 1, 2])):
                                units.insert(rng.randrange(len(units) + 1), rmw(x))
                    body = [b for u in units for b in u]
                out.append(("c", o[1], tmo, body))
            elif k == "w":
                out.append(("w", o[1], o[2], _us(o[3]) if o[3] is not None else rng.choice([100, 200, 500])))
            elif k in ("r", "k"):
                continue
            elif k == "u":
                continue               # only the spare-mutex unlock reaches here (the root's raw pair is folded below)
            elif k == "n":
                if not timed_ctx:
                    out.append(("a", o[1]))
            elif k == "j":
                out.append(("j", o[1], _us(o[2])))
            elif k == "z":
                out.append(("z", _us(o[1])))
            else:
                out.append(o)
        return out

    specs = []
    for i, ops in enumerate(p["specs"]):
        ops = list(ops)
        if i == 0:
            lk = [j for j, o in enumerate(ops) if o[0] == "lk"]
            if lk:
                a = lk[0]
                h = ops[a][1]
                b = [j for j, o in enumerate(ops) if j > a and o[0] == "u" and o[1] == h][0]
                ops = ops[:a] + [("c", h, None, ops[a + 1:b])] + ops[b + 1:]
        specs.append(conv(ops, False))
    n = len(specs)
    # every variable is updated by at least two threads
    for x in range(nx):
        for i in rng.sample(range(1, n), min(2, n - 1)):
            specs[i].insert(rng.randrange(len(specs[i]) + 1), ("c", vmutex[x], None, rmw(x)))
    if unlocked:
        for i in rng.sample(range(1, n), min(2, n - 1)):
            for _ in range(rng.choice([2, 4])):
                specs[i][len(specs[i]):] = rmw(0)
    specs[0] = specs[0] + [("j", t, None) for t in range(1, n)]
    return sv_finish(nm, nc, vmutex, specs, "unlocked-mixed" if unlocked else "locked")


def neg_program(rng):
    """negative control: 2-4 threads increment one shared variable WITHOUT holding its mutex (no yield inside the
    read-modify-write): the final value depends on where the slices end"""
    nt = rng.choice([2, 3, 3, 4])
    specs = [[("st", t) for t in range(1, nt + 1)] + [("j", t, None) for t in range(1, nt + 1)]]
    for t in range(1, nt + 1):
        ops = []
        for _ in range(rng.choice([4, 6, 8])):
            ops += [("rd", 0), ("wr", 0, rng.choice([1, 1, 7, 100]))]
            if rng.random() < 0.3:
                ops.append(("a", rng.randrange(1, 9)))
        specs.append(ops)
    return sv_finish(1, 1, [0], specs, "unlocked")
