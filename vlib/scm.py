"""Run batches of Scheme expressions in the scratch chibi-scheme, one result line per case."""
import os, subprocess, tempfile
from . import build as B

PRELUDE = r"""
(import (scheme base) (scheme write) (scheme char) (scheme inexact) (scheme complex) (scheme cxr)
        (scheme eval) (scheme read) (scheme process-context) (only (chibi) fixnum?))
(define (verif-kind e)
  (cond ((error-object? e)
         (let ((m (error-object-message e)))
           (string-append "ERR " (if (string? m) m "?"))))
        (else "ERR non-error-object")))
(define (verif-show x)
  (cond ((and (exact? x) (integer? x)) (string-append (if (fixnum? x) "f" "b") (number->string x 16)))
        (else (let ((o (open-output-string))) (write x o) (get-output-string o)))))
(define-syntax verif-case
  (syntax-rules ()
    ((_ n expr)
     (begin
       (write-string (number->string n)) (write-string " ")
       (write-string
        (guard (e (#t (verif-kind e)))
          (call-with-values (lambda () expr)
            (lambda vals
              (let lp ((vs vals) (acc ""))
                (if (null? vs) acc
                    (lp (cdr vs) (string-append acc (if (equal? acc "") "" " ") (verif-show (car vs))))))))))
       (newline)))))
"""


def run_cases(d, exprs, prelude_extra="", timeout=600, extra_env=None, chunk=2000, imports="",
              max_dead=None):
    """exprs: list of Scheme expression strings.  Returns list of result strings (same order):
    the written value(s), 'ERR <message>' for a Scheme error, 'CRASH <rc> <stderr tail>' when the
    process died on that case, 'TIMEOUT' when it hung.  max_dead (or env VERIF_MAX_DEAD): after that
    many TIMEOUT cases the remaining ones are not run and reported as 'SKIPPED' (a deliberately
    broken build can hang on hundreds of cases, each costing a full timeout)."""
    res = [None] * len(exprs)
    os.makedirs(B.SCRATCH, exist_ok=True)
    if max_dead is None and os.environ.get("VERIF_MAX_DEAD"):
        max_dead = int(os.environ["VERIF_MAX_DEAD"])
    dead = [0]

    def run_range(lo, hi):
        if max_dead is not None and dead[0] >= max_dead:
            for i in range(lo, hi):
                res[i] = "SKIPPED"
            return
        body = [PRELUDE, imports, prelude_extra]
        for i in range(lo, hi):
            body.append("(verif-case %d %s)" % (i, exprs[i]))
        body.append('(write-string "DONE")(newline)')
        with tempfile.NamedTemporaryFile("w", suffix=".scm", dir=B.SCRATCH, delete=False) as fh:
            fh.write("\n".join(body))
            path = fh.name
        try:
            try:
                r = B.run_chibi(d, [path], timeout=timeout, extra_env=extra_env)
                out, rc, err = r.stdout, r.returncode, r.stderr
            except subprocess.TimeoutExpired as e:
                out = e.stdout.decode() if isinstance(e.stdout, bytes) else (e.stdout or "")
                rc, err = "TIMEOUT", ""
        finally:
            os.unlink(path)
        done = False
        last = lo - 1
        for line in out.split("\n"):
            if line == "DONE":
                done = True
                continue
            sp = line.find(" ")
            if sp > 0 and line[:sp].isdigit():
                i = int(line[:sp])
                if lo <= i < hi:
                    res[i] = line[sp + 1:]
                    last = max(last, i)
            elif line and last >= lo and res[last] is not None and not done:
                res[last] += "\n" + line       # multi-line written value
        if not done:
            bad = last + 1
            # the case after the last completed one killed the process
            if bad < hi:
                if rc == "TIMEOUT":
                    dead[0] += 1
                res[bad] = ("TIMEOUT" if rc == "TIMEOUT" else "CRASH rc=%s %s" % (rc, (err or "")[-300:].replace("\n", " | ")))
                if bad + 1 < hi:
                    run_range(bad + 1, hi)

    for lo in range(0, len(exprs), chunk):
        run_range(lo, min(len(exprs), lo + chunk))
    return res


def hexlit(z):
    return ("#x-%x" % -z) if z < 0 else ("#x%x" % z)


def parse_int(s):
    """inverse of verif-show for exact integers: returns (repr_class, value) or None"""
    if s and s[0] in "fb":
        try:
            return s[0], int(s[1:], 16)
        except ValueError:
            return None
    return None
