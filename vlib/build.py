"""Scratch builds of chibi-scheme from the *working tree* of $VERIF_REPO (default /repo).

A build lives in $VERIF_SCRATCH (default /var/tmp/verif-<uid>)/<variant>-<hash> where <hash>
is the sha256 of the copied sources, so all checks of one round share one build per variant
and an edited tree always gets a fresh build.  Stale builds (other hashes) are deleted.
"""
import hashlib, os, shutil, subprocess, sys, time, fcntl

REPO = os.environ.get("VERIF_REPO", "/repo")
SCRATCH = os.environ.get("VERIF_SCRATCH", "/var/tmp/verif-%d" % os.getuid())
GUARD = "SEXP_USE_VERIF_HOOKS"

SRC_PATTERNS = ["*.c", "*.h", "include", "lib", "tools", "opt", "Makefile*", "VERSION", "RELEASE",
                "chibi-scheme.pc.in"]

VARIANTS = {
    # name: (make variables, extra env)
    "default": dict(CPPFLAGS="-D%s=1" % GUARD),
    "nohooks": dict(CPPFLAGS=""),
    "asan": dict(CPPFLAGS="-D%s=1" % GUARD, CC="clang",
                 CFLAGS="-fsanitize=address -fno-omit-frame-pointer -O1",
                 LDFLAGS="-fsanitize=address"),
    "nosimplify": dict(CPPFLAGS="-D%s=1 -DSEXP_USE_SIMPLIFY=0" % GUARD),
    "customll": dict(CPPFLAGS="-D%s=1 -DSEXP_USE_CUSTOM_LONG_LONGS=1" % GUARD),
    "tsan": dict(CPPFLAGS="-D%s=1" % GUARD, CC="clang",
                 CFLAGS="-fsanitize=thread -fno-omit-frame-pointer -O1",
                 LDFLAGS="-fsanitize=thread"),
}


def _source_files():
    out = subprocess.run(["git", "-C", REPO, "ls-files", "-c", "-o", "--exclude-standard", "--"] + SRC_PATTERNS,
                         capture_output=True, text=True, check=True).stdout.split("\n")
    files = []
    for f in out:
        if not f or f.startswith("_build/") or f.startswith("tests/"):
            continue
        p = os.path.join(REPO, f)
        if os.path.isfile(p) or os.path.islink(p):
            files.append(f)
    files.sort()
    return files


_hash_cache = {}


def source_hash():
    if "h" in _hash_cache:
        return _hash_cache["h"]
    h = hashlib.sha256()
    for f in _source_files():
        p = os.path.join(REPO, f)
        h.update(f.encode() + b"\0")
        if os.path.islink(p):
            h.update(os.readlink(p).encode())
        else:
            with open(p, "rb") as fh:
                h.update(fh.read())
        h.update(b"\0")
    _hash_cache["h"] = h.hexdigest()[:20]
    return _hash_cache["h"]


class Lock:
    def __init__(self, name):
        os.makedirs(SCRATCH, exist_ok=True)
        self.path = os.path.join(SCRATCH, ".lock-" + name)

    def __enter__(self):
        self.fh = open(self.path, "w")
        fcntl.flock(self.fh, fcntl.LOCK_EX)
        return self

    def __exit__(self, *a):
        fcntl.flock(self.fh, fcntl.LOCK_UN)
        self.fh.close()


def _clean_stale(keep_hash):
    """remove builds of other source hashes (they belong to an older working tree)"""
    if not os.path.isdir(SCRATCH):
        return
    for d in os.listdir(SCRATCH):
        if d.startswith(".") or d.startswith("tmp"):
            continue
        # only directories named <variant>-<source hash> are builds; other scratch directories (work areas of plugins) stay
        v, _, hh = d.rpartition("-")
        if v and len(hh) == len(keep_hash) and all(c in "0123456789abcdef" for c in hh) and hh != keep_hash:
            p = os.path.join(SCRATCH, d)
            if os.path.isdir(p):
                # do not remove a build that is younger than 20 minutes: a concurrent check of
                # another tree (VERIF_REPO override) may be using it
                if os.environ.get("VERIF_REPO") or time.time() - os.path.getmtime(p) > 1200:
                    shutil.rmtree(p, ignore_errors=True)


def build(variant="default", log=None):
    """returns the directory of an up-to-date build of `variant`; raises BuildError."""
    h = source_hash()
    d = os.path.join(SCRATCH, "%s-%s" % (variant, h))
    with Lock("build-" + variant):
        if os.path.exists(os.path.join(d, ".built-ok")):
            return d
        _clean_stale(h)
        if os.path.isdir(d):
            shutil.rmtree(d)
        os.makedirs(d)
        for f in _source_files():
            dst = os.path.join(d, f)
            os.makedirs(os.path.dirname(dst), exist_ok=True)
            src = os.path.join(REPO, f)
            if os.path.islink(src):
                os.symlink(os.readlink(src), dst)
            else:
                shutil.copy2(src, dst)
        mv = VARIANTS[variant]
        cmd = ["make", "-j16", "all"] + ["%s=%s" % kv for kv in mv.items()]
        t0 = time.time()
        env = dict(os.environ)
        env.pop("MAKEFLAGS", None)
        if variant in ("asan", "tsan"):
            env["ASAN_OPTIONS"] = "detect_leaks=0"
        # own process group + time limit: a changed tree can make the freshly built chibi loop forever
        # inside the repository's own make (generation of the .meta files)
        import signal
        proc = subprocess.Popen(cmd, cwd=d, stdout=subprocess.PIPE, stderr=subprocess.PIPE, text=True, env=env,
                                start_new_session=True)
        try:
            so, se = proc.communicate(timeout=BUILD_TIMEOUT)
        except subprocess.TimeoutExpired:
            try:
                os.killpg(proc.pid, signal.SIGKILL)
            except OSError:
                pass
            so, se = proc.communicate()
            with open(os.path.join(d, ".build.log"), "w") as fh:
                fh.write(" ".join(cmd) + "\n" + (so or "") + (se or "") + "\nTIMEOUT after %d s\n" % BUILD_TIMEOUT)
            raise BuildError("build of variant %s did not finish within %d s (see %s/.build.log):\n%s"
                             % (variant, BUILD_TIMEOUT, d, ((so or "") + (se or ""))[-3000:]))
        r = subprocess.CompletedProcess(cmd, proc.returncode, so, se)
        with open(os.path.join(d, ".build.log"), "w") as fh:
            fh.write(" ".join(cmd) + "\n" + r.stdout + r.stderr)
        if r.returncode != 0 or not os.path.exists(os.path.join(d, "chibi-scheme")):
            raise BuildError("build of variant %s failed (see %s/.build.log):\n%s" % (variant, d, (r.stdout + r.stderr)[-3000:]))
        with open(os.path.join(d, ".built-ok"), "w") as fh:
            fh.write("%.1f\n" % (time.time() - t0))
        return d


BUILD_TIMEOUT = int(os.environ.get('VERIF_BUILD_TIMEOUT', '1500'))


class BuildError(Exception):
    pass


def chibi_env(d, extra=None):
    env = dict(os.environ)
    env["LD_LIBRARY_PATH"] = d
    env["CHIBI_MODULE_PATH"] = os.path.join(d, "lib")
    env["CHIBI_IGNORE_SYSTEM_PATH"] = "1"
    if "asan-" in d or "/asan" in d:
        env.setdefault("ASAN_OPTIONS", "detect_leaks=0:abort_on_error=0:exitcode=97")
    if extra:
        env.update(extra)
    return env


def run_chibi(d, args, input=None, timeout=300, extra_env=None, text=True, cwd=None):
    """run the scratch chibi-scheme; returns CompletedProcess"""
    return subprocess.run([os.path.join(d, "chibi-scheme")] + list(args), input=input, capture_output=True,
                          text=text, timeout=timeout, env=chibi_env(d, extra_env), cwd=cwd)


def cc_embed(d, src, out, extra=()):
    """compile a C harness against the scratch build's headers and libchibi-scheme.so"""
    cc = "clang" if ("asan-" in d or "tsan-" in d) else "cc"
    flags = []
    if "asan-" in d:
        flags = ["-fsanitize=address", "-fno-omit-frame-pointer"]
    if "tsan-" in d:
        flags = ["-fsanitize=thread", "-fno-omit-frame-pointer"]
    cmd = [cc, "-O1", "-g", "-Werror=implicit-function-declaration", "-D%s=1" % GUARD, "-I" + os.path.join(d, "include")] + flags + list(extra) + \
          ["-o", out, src, "-L" + d, "-Wl,-rpath," + d, "-lchibi-scheme", "-lm", "-ldl", "-lpthread"]
    r = subprocess.run(cmd, capture_output=True, text=True)
    if r.returncode != 0:
        raise BuildError("harness compile failed: %s\n%s" % (" ".join(cmd), r.stderr[-3000:]))
    return out


def clean_all():
    shutil.rmtree(SCRATCH, ignore_errors=True)


if __name__ == "__main__":
    v = sys.argv[1] if len(sys.argv) > 1 else "default"
    print(build(v))
