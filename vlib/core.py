"""Shared machinery of ./check: Coq obligations, extraction, evidence, findings, decision."""
import json, os, random, re, subprocess, sys, time, hashlib, fcntl, shutil

from . import build as B

ROOT = os.path.dirname(os.path.dirname(os.path.abspath(__file__)))
COQ = os.path.join(ROOT, "coq")
OCAML_BUILD = os.path.join(ROOT, "ocaml", "build")
EVID = os.environ.get("VERIF_EVIDENCE_DIR") or os.path.join(ROOT, "evidence")   # override only for experiments (seeded changes)
REPLAY = os.path.join(EVID, "replay")

# axioms that may appear under Print Assumptions (all declared by Coq's standard library)
ALLOWED_AXIOMS = {
    "functional_extensionality_dep": "Coq.Logic.FunctionalExtensionality",
    "FunctionalExtensionality.functional_extensionality_dep": "Coq.Logic.FunctionalExtensionality",
    "Eqdep.Eq_rect_eq.eq_rect_eq": "Coq.Logic.Eqdep",
    "eq_rect_eq": "Coq.Logic.Eqdep",
    "JMeq_eq": "Coq.Logic.JMeq",
    "JMeq.JMeq_eq": "Coq.Logic.JMeq",
    "Classical_Prop.classic": "Coq.Logic.Classical_Prop",
    "classic": "Coq.Logic.Classical_Prop",
    "proof_irrelevance": "Coq.Logic.ProofIrrelevance",
    "ProofIrrelevance.proof_irrelevance": "Coq.Logic.ProofIrrelevance",
    "propositional_extensionality": "Coq.Logic.PropExtensionality",
    "PropExtensionality.propositional_extensionality": "Coq.Logic.PropExtensionality",
    # the standard library's axiomatisation of the reals (used only through Flocq on the SPEC side of mini-float theorems)
    "ClassicalDedekindReals.sig_forall_dec": "Coq.Reals.ClassicalDedekindReals",
    "ClassicalDedekindReals.sig_not_dec": "Coq.Reals.ClassicalDedekindReals",
    "sig_forall_dec": "Coq.Reals.ClassicalDedekindReals",
    "sig_not_dec": "Coq.Reals.ClassicalDedekindReals",
}

FORBIDDEN_RE = re.compile(
    r"\b(Admitted|admit|Axiom|Axioms|Parameter|Parameters|Conjecture|Conjectures|Admit\s+Obligations|bypass_check|native_compute)\b"
    r"|Unset\s+Guard\s+Checking|Unset\s+Positivity\s+Checking|Unset\s+Universe\s+Checking|-type-in-type|-impredicative-set")

BASE_TRUSTED = [
    "Coq 8.16.1 kernel and coqc (full .vo build, no -vos); vm_compute used for finite sweeps; native_compute not used",
    "the translators under /verif/gen (regenerate coq/Gen/*.v from /repo each run) and clang/gcc used by them",
    "extraction with ExtrOcamlBasic only (Extract Inductive bool/option/unit/list/prod/sumbool/sumor, Extract Inlined Constant andb/orb); Z/N/positive/nat stay inductive; OCaml 4.13.1 and the line-protocol drivers under /verif/ocaml",
    "the correspondence harness (Scheme drivers, C embedding harness, canonicalisers, generators) and the scratch build of /repo made by vlib/build.py",
]


def sh(cmd, cwd=None, timeout=None, env=None, input=None):
    return subprocess.run(cmd, cwd=cwd, capture_output=True, text=True, timeout=timeout, env=env, input=input,
                          shell=isinstance(cmd, str))


class CoqLock:
    """exclusive lock(s) on parts of the Coq tree.  CoqLock() is the global lock (Makefile, _CoqProject,
    Common/); CoqLock(files=[...]) locks the per-property directories those .v files live in (taken in
    sorted order, so two checks never deadlock), so checks of different properties build concurrently."""
    def __init__(self, files=None):
        names = set()
        for f in files or []:
            rel = os.path.relpath(os.path.abspath(f), COQ).split(os.sep)
            top = rel[0]
            if top == "Gen":
                top = rel[-1].split("_")[0]
            m = re.match(r"(?:Properties_|Extract_)?(C\d\d)", top)
            names.add(m.group(1) if m else "global")
        self.names = sorted(names) if files is not None else ["global"]

    def __enter__(self):
        self.fhs = []
        for n in self.names:
            fh = open(os.path.join(COQ, ".lock" if n == "global" else ".lock-" + n), "w")
            fcntl.flock(fh, fcntl.LOCK_EX)
            self.fhs.append(fh)

    def __exit__(self, *a):
        for fh in reversed(self.fhs):
            fcntl.flock(fh, fcntl.LOCK_UN)
            fh.close()


def strip_coq_comments(s):
    out, depth, i = [], 0, 0
    while i < len(s):
        if s.startswith("(*", i):
            depth += 1; i += 2
        elif s.startswith("*)", i) and depth:
            depth -= 1; i += 2
        else:
            if not depth:
                out.append(s[i])
            i += 1
    return "".join(out)


REQ_RE = re.compile(r"From\s+ChibiV\s+Require\s+(?:Import\s+|Export\s+)?(.*?)\.\s", re.S)


def dep_closure(vfile):
    """all .v files under coq/ that vfile (transitively) requires through `From ChibiV Require ...`"""
    seen, todo = [], [os.path.abspath(vfile)]
    while todo:
        f = todo.pop()
        if f in seen or not os.path.exists(f):
            continue
        seen.append(f)
        for m in REQ_RE.finditer(strip_coq_comments(open(f).read()) + " "):
            for mod in m.group(1).split():
                todo.append(os.path.join(COQ, mod.replace(".", "/") + ".v"))
    return sorted(seen)


def forbidden_scan(files=None):
    """grep gate over the development; returns list of (file, line, text)"""
    bad = []
    if files is None:
        files = []
        for dp, dn, fn in os.walk(COQ):
            for f in fn:
                if f.endswith(".v"):
                    files.append(os.path.join(dp, f))
    if True:
        for p in sorted(files):
            txt = strip_coq_comments(open(p).read())
            # string literals may legitimately contain the words
            txt2 = re.sub(r'"[^"]*"', '""', txt)
            for n, line in enumerate(txt2.split("\n"), 1):
                if FORBIDDEN_RE.search(line):
                    bad.append((os.path.relpath(p, ROOT), n, line.strip()))
    return bad


def coq_makefile():
    with CoqLock():
        _coq_makefile_nolock()


def _coq_makefile_nolock():
    # _CoqProject lists every .v under coq/ except Extract_*.v
    vs = []
    for dp, dn, fn in os.walk(COQ):
        for f in sorted(fn):
            if f.endswith(".v") and not f.startswith("Extract_") and not f.startswith("cases_"):
                vs.append(os.path.relpath(os.path.join(dp, f), COQ))
    vs.sort()
    proj = "-Q . ChibiV\n-arg -w -arg -notation-overridden,-deprecated-hint-without-locality,-deprecated-instance-without-locality\n" + "\n".join(vs) + "\n"
    pp = os.path.join(COQ, "_CoqProject")
    old = open(pp).read() if os.path.exists(pp) else None
    if old != proj or not os.path.exists(os.path.join(COQ, "Makefile")):
        open(pp, "w").write(proj)
        r = sh(["coq_makefile", "-f", "_CoqProject", "-o", "Makefile"], cwd=COQ)
        if r.returncode != 0:
            raise RuntimeError("coq_makefile failed: " + r.stderr)


def write_if_changed(path, content):
    os.makedirs(os.path.dirname(path), exist_ok=True)
    if os.path.exists(path) and open(path).read() == content:
        return False
    with open(path, "w") as fh:
        fh.write(content)
    return True


class Ctx:
    def __init__(self, pid, tier, seed):
        self.pid, self.tier, self.seed = pid, tier, seed
        self.rng = random.Random(seed * 1000003 + int(hashlib.sha256(pid.encode()).hexdigest()[:8], 16))
        self.t0 = time.time()
        self.violations = []       # concrete failing inputs: dict(sig, ...)
        self.unproved = []         # broken theorems / correspondences: dict(name, reason)
        self.obligations = []      # (name, ok, assumptions)
        self.cov = dict(evaluations=0, distinct_nontrivial=0, samples=[], rule="", traces_validated_against_impl=0)
        self.assumptions = []
        self.trusted = list(BASE_TRUSTED)
        self.axioms_used = set()
        self.notes = []
        self._distinct = set()
        self.checker_cmds = []
        self.thorough = tier == "thorough"

    # ---------------------------------------------------------------- implementation builds
    def build(self, variant="default"):
        try:
            return B.build(variant)
        except B.BuildError as e:
            self.unproved.append(dict(name="build:" + variant, reason=str(e)[-2000:]))
            raise

    def chibi(self, d, args, **kw):
        return B.run_chibi(d, args, **kw)

    # ---------------------------------------------------------------- coq
    def gen(self, name, content):
        """install a regenerated Gen/<name>.v (only touched when its content changed)"""
        with CoqLock():
            ch = write_if_changed(os.path.join(COQ, "Gen", name + ".v"), content)
        return ch

    def coq_obligations(self, prop_file, timeout=1500):
        """make <prop_file>.vo (full .vo build of its dependency closure), then re-run coqc on the
        property file to read the Print Assumptions output.  Records one obligation per Theorem."""
        vfile = os.path.join(COQ, prop_file + ".v")
        src = strip_coq_comments(open(vfile).read())
        thms = re.findall(r"^\s*(?:Theorem|Corollary)\s+([A-Za-z0-9_']+)", src, re.M)
        bad = forbidden_scan(dep_closure(vfile))
        if bad:
            for b in bad[:10]:
                self.unproved.append(dict(name="forbidden-construct", reason="%s:%d: %s" % b))
        with CoqLock():
            _coq_makefile_nolock()
            common = [os.path.relpath(f, COQ)[:-2] + ".vo" for f in dep_closure(vfile) if os.path.relpath(f, COQ).startswith("Common" + os.sep)]
            # also refreshes .Makefile.d (coqdep) under the global lock, so concurrent per-property makes only read it
            sh("timeout %d make -k -j16 %s" % (timeout, " ".join(common) if common else ".Makefile.d"), cwd=COQ)
        with CoqLock(files=[f for f in dep_closure(vfile) if not os.path.relpath(f, COQ).startswith("Common" + os.sep)]):
            cmd = "timeout %d make -k -j16 %s.vo" % (timeout, prop_file)
            self.checker_cmds.append("cd coq && coq_makefile -f _CoqProject -o Makefile && make -j16 %s.vo && coqc -Q . ChibiV %s.v  # Print Assumptions parsed" % (prop_file, prop_file))
            r = sh(cmd, cwd=COQ)
            ok = r.returncode == 0 and os.path.exists(os.path.join(COQ, prop_file + ".vo"))
            out = ""
            if ok:
                r2 = sh("timeout 600 coqc -Q . ChibiV -w -notation-overridden,-deprecated-hint-without-locality,-deprecated-instance-without-locality %s.v" % prop_file, cwd=COQ)
                ok = r2.returncode == 0
                out = r2.stdout + r2.stderr
                if not ok:
                    r = r2
        os.makedirs(os.path.join(COQ, "logs"), exist_ok=True)
        open(os.path.join(COQ, "logs", prop_file.replace("/", "_") + ".log"), "w").write((r.stdout or "") + (r.stderr or "") + out)
        if not ok:
            err = (r.stdout or "")[-1500:] + (r.stderr or "")[-2500:]
            m = re.search(r'File "([^"]+)", line (\d+)', err)
            where = "%s:%s" % (m.group(1), m.group(2)) if m else "?"
            for t in thms:
                self.obligations.append((prop_file + "." + t, False, None))
            self.unproved.append(dict(name=prop_file, reason="Coq build of %s failed at %s" % (prop_file, where), log=err, theorems=thms))
            return False
        # parse Print Assumptions blocks in order
        blocks = self._parse_assumptions(out)
        prints = re.findall(r"Print\s+Assumptions\s+([A-Za-z0-9_'.]+)\s*\.", src)
        allok = True
        for t in thms:
            if t not in prints:
                self.obligations.append((prop_file + "." + t, False, None))
                self.unproved.append(dict(name=prop_file + "." + t, reason="no Print Assumptions for this theorem"))
                allok = False
        if len(blocks) != len(prints):
            self.unproved.append(dict(name=prop_file, reason="could not parse Print Assumptions output (%d blocks for %d commands)" % (len(blocks), len(prints))))
            for t in thms:
                self.obligations.append((prop_file + "." + t, False, None))
            return False
        for name, axs in zip(prints, blocks):
            notallowed = [a for a in axs if a not in ALLOWED_AXIOMS]
            for a in axs:
                self.axioms_used.add(a)
            if name in thms:
                self.obligations.append((prop_file + "." + name, not notallowed, axs))
            if notallowed:
                allok = False
                self.unproved.append(dict(name=prop_file + "." + name, reason="depends on axioms outside the allow-list: %s" % notallowed))
        return allok

    @staticmethod
    def _parse_assumptions(out):
        blocks, cur = [], None
        for line in out.split("\n"):
            if line.startswith("Closed under the global context"):
                if cur is not None:
                    blocks.append(cur)
                    cur = None
                blocks.append([])
            elif line.startswith("Axioms:"):
                if cur is not None:
                    blocks.append(cur)
                cur = []
            elif cur is not None:
                m = re.match(r"^([A-Za-z_][A-Za-z0-9_'.]*)\s*:", line)
                if m:
                    cur.append(m.group(1))
                elif line and not line.startswith(" ") and not line.startswith("\t"):
                    blocks.append(cur)
                    cur = None
        if cur is not None:
            blocks.append(cur)
        return blocks

    def extract(self, name, driver=None, roots_file=None):
        """build ocaml/build/<name>/modelrun from coq/Extract_<name>.v (which must `Extraction "model.ml" ...`)
        and ocaml/<driver or name_driver>.ml.  Returns path or None (and records unproved)."""
        bd = os.path.join(OCAML_BUILD, name)
        exv = os.path.join(COQ, "Extract_%s.v" % name)
        drv = os.path.join(ROOT, "ocaml", (driver or (name + "_driver")) + ".ml")
        with CoqLock(files=[f for f in dep_closure(exv) if not os.path.relpath(f, COQ).startswith("Common" + os.sep)] + [exv]):
            os.makedirs(bd, exist_ok=True)
            # dependency stamp: hash of every .vo mtime is overkill; hash the sources of coq/ + driver
            h = hashlib.sha256()
            for f in dep_closure(exv):
                h.update(open(f, "rb").read())
            h.update(open(drv, "rb").read())
            for extra in ("common.ml",):
                p = os.path.join(ROOT, "ocaml", extra)
                if os.path.exists(p):
                    h.update(open(p, "rb").read())
            stamp = os.path.join(bd, ".stamp")
            exe = os.path.join(bd, "modelrun")
            if os.path.exists(exe) and os.path.exists(stamp) and open(stamp).read() == h.hexdigest():
                return exe
            for f in os.listdir(bd):
                if not f.startswith("."):
                    try:
                        os.unlink(os.path.join(bd, f))
                    except OSError:
                        pass
            # build the .vo files the extraction file requires
            deps = []
            for m in re.finditer(r"From\s+ChibiV\s+Require\s+(?:Import\s+|Export\s+)?(.*?)\.\s", strip_coq_comments(open(exv).read()) + " ", re.S):
                for mod in m.group(1).split():
                    deps.append(mod.replace(".", "/") + ".vo")
            if deps:
                with CoqLock():
                    _coq_makefile_nolock()
                rr = sh("timeout 1500 make -k -j16 " + " ".join(deps), cwd=COQ)
                if rr.returncode != 0:
                    self.unproved.append(dict(name="extract:" + name, reason="Coq build of the model failed", log=(rr.stdout + rr.stderr)[-3000:]))
                    return None
            r = sh("timeout 900 coqc -Q %s ChibiV -w -extraction-opaque-accessed,-extraction-reserved-identifier,-notation-overridden %s -o %s/Extract_%s.vo" % (COQ, exv, bd, name), cwd=bd)
            if r.returncode != 0 or not os.path.exists(os.path.join(bd, "model.ml")):
                self.unproved.append(dict(name="extract:" + name, reason="extraction failed", log=(r.stdout + r.stderr)[-3000:]))
                return None
            files = ["model.mli", "model.ml"]
            if os.path.exists(os.path.join(ROOT, "ocaml", "common.ml")):
                shutil.copy(os.path.join(ROOT, "ocaml", "common.ml"), os.path.join(bd, "common.ml"))
                files.append("common.ml")
            shutil.copy(drv, os.path.join(bd, "driver.ml"))
            files.append("driver.ml")
            r = sh(["ocamlfind", "ocamlopt", "-O3", "-w", "-a", "-package", "str", "-linkpkg"] + files + ["-o", "modelrun"], cwd=bd)
            if r.returncode != 0:
                r = sh(["ocamlfind", "ocamlopt", "-w", "-a", "-package", "str", "-linkpkg"] + files + ["-o", "modelrun"], cwd=bd)
            if r.returncode != 0:
                self.unproved.append(dict(name="extract:" + name, reason="ocaml build failed", log=(r.stdout + r.stderr)[-3000:]))
                return None
            open(stamp, "w").write(h.hexdigest())
            return exe

    def run_model(self, exe, lines, timeout=1200):
        """feed `lines` (list of str) to an extracted model driver; returns list of output lines"""
        r = subprocess.run([exe], input="\n".join(lines) + "\n", capture_output=True, text=True, timeout=timeout)
        if r.returncode != 0:
            raise RuntimeError("model driver failed: " + r.stderr[-2000:])
        return r.stdout.split("\n")[:-1] if r.stdout.endswith("\n") else r.stdout.split("\n")

    # ---------------------------------------------------------------- bookkeeping
    def count(self, n=1, key=None, nontrivial=True):
        """count one evaluated case; `key` identifies distinct cases"""
        self.cov["evaluations"] += n
        if key is not None and nontrivial:
            k = hashlib.sha1(repr(key).encode()).digest()[:10]
            self._distinct.add(k)

    def sample(self, s, maxn=8):
        if len(self.cov["samples"]) < maxn:
            self.cov["samples"].append(s)

    def violation(self, sig, **detail):
        """a concrete input / history on which the PROPERTY fails on the implementation"""
        detail["sig"] = sig
        self.violations.append(detail)

    def broken(self, name, reason, **kw):
        """a theorem or a correspondence that no longer checks (no failing input known yet)"""
        d = dict(name=name, reason=reason)
        d.update(kw)
        self.unproved.append(d)

    def note(self, s):
        self.notes.append(s)

    def assume(self, s):
        if s not in self.assumptions:
            self.assumptions.append(s)

    def trust(self, s):
        if s not in self.trusted:
            self.trusted.append(s)


def load_findings():
    p = os.path.join(ROOT, "known_findings.json")
    if not os.path.exists(p):
        return dict(findings=[], fixed=[])
    return json.load(open(p))


def finish(ctx):
    """decision + evidence; returns exit code"""
    kf = load_findings()
    known = {f["sig"]: f for f in kf.get("findings", []) if f["property"] == ctx.pid}
    os.makedirs(REPLAY, exist_ok=True)
    for f in os.listdir(REPLAY):
        if f.startswith(ctx.pid + "-"):
            os.unlink(os.path.join(REPLAY, f))
    rc = 0
    lines = []
    seen_known, seen_new = {}, {}
    for v in ctx.violations:
        if v["sig"] in known:
            seen_known.setdefault(v["sig"], v)
        else:
            seen_new.setdefault(v["sig"], []).append(v)
    for sig, v in seen_known.items():
        f = known[sig]
        lines.append("KNOWN-FINDING: property=%s %s [%s] e.g. %s" % (ctx.pid, f["what"], f["id"], json.dumps(v.get("input", ""))[:200]))
    n = 0
    for sig, vs in seen_new.items():
        n += 1
        path = os.path.join(REPLAY, "%s-%d.json" % (ctx.pid, n))
        json.dump(dict(property=ctx.pid, signature=sig, failing_cases=vs[:5], count=len(vs),
                       unproved=[u["name"] for u in ctx.unproved],
                       how=("replay: see 'replay' field of each case; run ./check %s --replay %s" % (ctx.pid, path))),
                  open(path, "w"), indent=1, default=str)
        lines.append("VIOLATION property=%s replay=%s" % (ctx.pid, path))
        rc = 1
    if ctx.unproved and not seen_new:
        path = os.path.join(REPLAY, "%s-unproved.json" % ctx.pid)
        json.dump(dict(property=ctx.pid, no_longer_checks=ctx.unproved,
                       note="a theorem, generated obligation or correspondence no longer checks; the failing-input search found no input on which the property itself fails"),
                  open(path, "w"), indent=1, default=str)
        lines.append("VIOLATION property=%s replay=%s no-failing-input-found" % (ctx.pid, path))
        rc = 1
    # evidence
    cov = dict(ctx.cov)
    cov["distinct_nontrivial"] = len(ctx._distinct)
    cov["obligations"] = len(ctx.obligations)
    cov["discharged"] = sum(1 for o in ctx.obligations if o[1])
    cov["obligation_list"] = [dict(name=o[0], discharged=o[1], axioms=o[2]) for o in ctx.obligations]
    cov["checker_cmd"] = " ; ".join(ctx.checker_cmds) or "none"
    cov["trusted_base"] = ctx.trusted + ["axioms reported by Print Assumptions for this property's theorems: %s" % (sorted(ctx.axioms_used) or "none (Closed under the global context)")]
    cov["known_findings_reproduced"] = sorted(seen_known)
    cov["unproved"] = [u["name"] for u in ctx.unproved]
    cov["notes"] = ctx.notes
    cov["repo_source_hash"] = B.source_hash()
    # keys the evidence schema reserves with a fixed type: a plugin that stored something else there keeps it under <key>_detail
    for k in ("states", "transitions", "traces_validated_against_impl", "programs", "disagreements_checked"):
        if k in cov and not (isinstance(cov[k], int) and not isinstance(cov[k], bool)):
            cov[k + "_detail"] = cov[k]
            cov[k] = len(cov[k]) if isinstance(cov[k], (list, dict, str)) else 0
    for k in ("rule", "explanation", "checker_cmd"):
        if k in cov and not isinstance(cov[k], str):
            cov[k] = json.dumps(cov[k], default=str)
    if "exhaustive" in cov and not isinstance(cov["exhaustive"], bool):
        cov["exhaustive"] = bool(cov["exhaustive"])
    ev = dict(property_id=ctx.pid, tier=ctx.tier, seed=ctx.seed, level="proof", coverage=cov,
              assumptions=ctx.assumptions, wall_s=round(time.time() - ctx.t0, 2),
              violations=len(seen_new) + (1 if (ctx.unproved and not seen_new) else 0))
    os.makedirs(EVID, exist_ok=True)
    tmp = os.path.join(EVID, ".%s.json.tmp" % ctx.pid)
    json.dump(ev, open(tmp, "w"), indent=1, default=str)
    os.replace(tmp, os.path.join(EVID, "%s.json" % ctx.pid))
    for l in lines:
        print(l)
    print("%s %s: obligations %d/%d, evaluations %d (distinct non-trivial %d), known findings %d, new violations %d, unproved %d, %.1fs" % (
        ctx.pid, ctx.tier, cov["discharged"], cov["obligations"], cov["evaluations"], cov["distinct_nontrivial"],
        len(seen_known), len(seen_new), len(ctx.unproved), time.time() - ctx.t0))
    sys.stdout.flush()
    return rc
