"""./check --setup : build the Coq development (full .vo build) and the extracted drivers of every
property claimed in MANIFEST.json (work-in-progress files of unclaimed properties are built too, but
their failures are only reported, they do not fail the setup)."""
import os, re, sys, glob, json
from . import core, build


def claimed_ids():
    try:
        m = json.load(open(os.path.join(core.ROOT, "MANIFEST.json")))
        return [c["property_id"] for c in m.get("checks", [])]
    except Exception:
        return []


def main():
    rc = 0
    ids = claimed_ids()
    # generated files must exist before the Coq build: run every translator once
    try:
        from gen import regen_all
        bad = regen_all.main(ids)
        if bad:
            rc = 1
    except Exception as e:
        print("setup: translators failed:", e)
        rc = 1
    core.coq_makefile()
    targets = ["Properties_%s.vo" % i for i in ids if os.path.exists(os.path.join(core.COQ, "Properties_%s.v" % i))]
    r = core.sh("timeout 3000 make -k -j16 " + " ".join(targets), cwd=core.COQ)
    sys.stdout.write(r.stdout[-2000:])
    if r.returncode != 0:
        sys.stdout.write(r.stderr[-4000:])
        print("setup: Coq build FAILED")
        rc = 1
    ctx = core.Ctx("setup", "quick", 0)
    for ex in sorted(glob.glob(os.path.join(core.COQ, "Extract_*.v"))):
        name = os.path.basename(ex)[len("Extract_"):-2]
        if name[:3] not in ids:
            continue
        exe = ctx.extract(name)
        print("setup: extracted", name, "->", exe)
        if exe is None:
            rc = 1
    for u in ctx.unproved:
        print("setup:", u["name"], u["reason"], u.get("log", "")[-1500:])
    try:
        build.build("default")
    except build.BuildError as e:
        print("setup: scratch build of /repo failed:", str(e)[-1000:])
    closure = set()
    for i in ids:
        for pat in ("Properties_%s.v", "Extract_%s*.v"):
            for f in glob.glob(os.path.join(core.COQ, pat % i)):
                closure.update(core.dep_closure(f))
    bad = core.forbidden_scan(sorted(closure))
    for b in bad:
        print("setup: forbidden construct %s:%d: %s" % b)
        rc = 1
    print("setup done rc=%d" % rc)
    return rc
