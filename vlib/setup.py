"""./check --setup : build the whole Coq development (full .vo build) and every extracted driver."""
import os, re, sys, glob
from . import core, build


def main():
    rc = 0
    # generated files must exist before the Coq build: run every translator once
    try:
        from gen import regen_all
        regen_all.main()
    except Exception as e:
        print("setup: translators failed:", e)
        rc = 1
    core.coq_makefile()
    r = core.sh("timeout 3000 make -k -j16", cwd=core.COQ)
    sys.stdout.write(r.stdout[-2000:])
    if r.returncode != 0:
        sys.stdout.write(r.stderr[-4000:])
        print("setup: Coq build FAILED")
        rc = 1
    ctx = core.Ctx("setup", "quick", 0)
    for ex in sorted(glob.glob(os.path.join(core.COQ, "Extract_*.v"))):
        name = os.path.basename(ex)[len("Extract_"):-2]
        exe = ctx.extract(name)
        print("setup: extracted", name, "->", exe)
        if exe is None:
            rc = 1
    for u in ctx.unproved:
        print("setup:", u["name"], u["reason"], u.get("log", "")[-1500:])
    try:
        build.build("default")
    except build.BuildError as e:
        print("setup: scratch build of /repo failed:", str(e)[-1000:])
    bad = core.forbidden_scan()
    for b in bad:
        print("setup: forbidden construct %s:%d: %s" % b)
        rc = 1
    print("setup done rc=%d" % rc)
    return rc
