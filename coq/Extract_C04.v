From Coq Require Import ExtrOcamlBasic.
From ChibiV Require Import Common.ExtractBase C04.Model C04.Model2 C04.Spec.
Extraction "model.ml" ext_base compare_abs add_digits sub_digits bignum_add bignum_sub
  fxadd fxsub fxmul fxdiv fxrem normalize num_add num_sub num_mul vm_add vm_sub bignum_mul quot_rem
  spec1 spec2.
