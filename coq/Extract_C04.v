From Coq Require Import ExtrOcamlBasic.
From ChibiV Require Import Common.ExtractBase C04.Model C04.Model2 C04.Model3 C04.Model4 C04.Model5 C04.Model6 C04.Model7 C04.Model8 C04.Model10 C04.Spec C04.Spec2 C04.SpecFloat C04.SpecCmp.
Extraction "model.ml" ext_base compare_abs add_digits sub_digits bignum_add bignum_sub
  fxadd fxsub fxmul fxdiv fxrem normalize num_add num_sub num_mul vm_add vm_sub bignum_mul quot_rem
  num_quotient num_remainder vm_quotient vm_remainder bignum_expt write_bignum_digits read_bignum_digits read_number_digits num_compare sqrt_loop ratio_normalize ratio_add ratio_mul ratio_div ratio_compare ratio_sub ratio_round ratio_trunc ratio_floor ratio_ceiling vm_mul
  spec1 spec2 specq1 specq2 spec_radix of_radix specc2 spec_q spec_radix_q spec_radix_c specc_expt
  spec_exact_bits spec_inexact_bits b64_decode inexact_to_exact xres_frac g_add g_sub g_mul g_div nval
  x_compare vm_cmp spec_cmpx2 spec_cmpx_sgn spec_cmpx_all spec_cmpx3_all spec_maxmin.
