From Coq Require Import ExtrOcamlBasic.
From ChibiV Require Import Common.ExtractBase C04.Model C04.Spec.
Extraction "model.ml" ext_base compare_abs add_digits sub_digits bignum_add bignum_sub spec1 spec2.
