(** C05 - tail calls run in constant space; deep recursion ends cleanly: property theorems only. *)
From Coq Require Import ZArith List Bool Arith.
From ChibiV Require Import C03.Defs C03.Model C05.Spec C05.Model C05.Proofs C05.Frames C05.Apply C05.Context C05.Examples.
Import ListNotations.

(** the code generator emits TAIL-CALL exactly at the application sites R7RS 3.5 puts in tail
    position (and CALL at every other application), for every expression and context *)
Theorem tail_calls_emitted : forall e tail svs cur,
  calls_of (generate tail svs cur e) = tail_sites tail e.
Proof. exact Proofs.tail_calls_emitted. Qed.
Print Assumptions tail_calls_emitted.

(** every lambda body is compiled in tail context *)
Theorem lambda_body_in_tail_context : forall svs cur id ps r ls sv fv b fl n c,
  In (IPushProc fl n c) (generate false svs cur (Lam id ps r ls sv fv b)) \/
  In (IMakeProc fl n c) (generate false svs cur (Lam id ps r ls sv fv b)) ->
  calls_of c = tail_sites true b.
Proof. exact Proofs.lambda_body_calls. Qed.
Print Assumptions lambda_body_in_tail_context.

(** TAIL-CALL reuses the caller's frame: same base, stack cut right above the new header, the
    caller's return information inherited, nothing below the base touched; fixed, rest and
    unused-rest callees alike *)
Theorem tail_call_frame_reuse : forall s n proc r j rip rself rfp s',
  nth_error (code_of (self s)) (ip s) = Some (ITailCall n) ->
  stk s = proc :: r -> frame_info s = Some (j, rip, rself, rfp) ->
  step s = Next s' ->
  exists i',
    sget (stk s') (fp s') = Some (vint i') /\
    fp s' - i' = fp s - j /\ i' <= fp s' /\
    length (stk s') = (fp s - j) + i' + 4 /\
    sget (stk s') (fp s' + 1) = Some (vint rip) /\
    sget (stk s') (fp s' + 2) = Some rself /\
    sget (stk s') (fp s' + 3) = Some (vint rfp) /\
    below (fp s - j) (stk s') = below (fp s - j) (stk s) /\
    self s' = proc /\ ip s' = 0.
Proof. exact Proofs.tail_call_frame_reuse. Qed.
Print Assumptions tail_call_frame_reuse.

(** for ALL n: over n steps each of which is a tail call or leaves fp and the frame header alone,
    the frame base is invariant, so every iteration of a tail-recursive loop starts at the same
    height (base + argument count + 4) *)
Theorem tail_loop_bounded : forall n s s' b,
  base_of s = Some b -> chain n s s' -> base_of s' = Some b.
Proof. exact Proofs.tail_loop_bounded. Qed.
Print Assumptions tail_loop_bounded.

Theorem tail_entry_height : forall n s s' s'' b k proc r,
  base_of s = Some b -> chain n s s' ->
  nth_error (code_of (self s')) (ip s') = Some (ITailCall k) -> stk s' = proc :: r -> step s' = Next s'' ->
  exists i', sget (stk s'') (fp s'') = Some (vint i') /\ length (stk s'') = b + i' + 4.
Proof. exact Proofs.tail_entry_height. Qed.
Print Assumptions tail_entry_height.

(** (after fixes/C05-ensure-stack-min-size.patch) whenever sexp_ensure_stack lets execution go on,
    top + n is inside the stack object; the stack never shrinks nor exceeds the maximum *)
Theorem ensure_stack_sufficient : forall top n len len',
  (0 <= top < len)%Z -> (0 <= n)%Z -> (len <= MAX_STACK_SIZE)%Z ->
  ensure_stack true top n len = Enough len' ->
  (top + n < len' /\ len <= len' <= MAX_STACK_SIZE)%Z.
Proof. exact Proofs.ensure_stack_sufficient. Qed.
Print Assumptions ensure_stack_sufficient.

(** deep recursion: the only outcomes are "room enough" or the out-of-stack object, the latter
    exactly when the request does not fit under the maximum *)
Theorem deep_recursion_outcome : forall top n len,
  (0 <= top < len)%Z -> (0 <= n)%Z -> (len <= MAX_STACK_SIZE)%Z ->
  (ensure_stack true top n len = OutOfStack <-> top + n >= MAX_STACK_SIZE)%Z.
Proof. exact Proofs.out_of_stack_iff. Qed.
Print Assumptions deep_recursion_outcome.

(** non-tail recursion of any depth k (one stack check per pending call, at tops top, top+per, ...,
    each asking for n more slots, the stack length threaded through): the out-of-stack error comes
    exactly when the deepest check does not fit below SEXP_MAX_STACK_SIZE; every shallower depth
    succeeds with a stack grown to hold it (never shrunk, never above the maximum) *)
Theorem deep_recursion_by_depth : forall k top per n len,
  (0 < per <= n)%Z -> (0 <= top < len)%Z -> (len <= MAX_STACK_SIZE)%Z ->
  (deep_calls k top per n len = OutOfStack <->
   0 < k /\ (top + (Z.of_nat k - 1) * per + n >= MAX_STACK_SIZE)%Z) /\
  (forall len', deep_calls k top per n len = Enough len' ->
     (len <= len' <= MAX_STACK_SIZE)%Z /\ (0 < k -> (top + (Z.of_nat k - 1) * per + n < len')%Z)).
Proof. exact Proofs.deep_calls_outcome. Qed.
Print Assumptions deep_recursion_by_depth.

(** the frame-preservation premise of tail_loop_bounded, for EVERY opcode of the model VM other than
    CALL / TAIL-CALL / RET / DONE: a step whose operands lie above the frame header (and, for
    LOCAL-SET, whose target is an argument or a local, not the header) keeps fp and the header *)
Theorem frame_preserved_by_every_noncall_opcode : forall s s' i,
  nth_error (code_of (self s)) (ip s) = Some i -> is_ctl i = false ->
  fp s + 4 + pops i <= length (stk s) -> local_set_ok s i ->
  step s = Next s' -> chain_step s s'.
Proof. exact Frames.noncall_step_quiet. Qed.
Print Assumptions frame_preserved_by_every_noncall_opcode.

(** hence, for ALL n: n steps of the model VM none of which is a CALL or a return (every call a
    TAIL-CALL, every other instruction working above the header) keep the frame base *)
Theorem tail_run_bounded : forall n s s' b,
  base_of s = Some b -> run_ok n s s' -> base_of s' = Some b.
Proof. exact Frames.tail_run_bounded. Qed.
Print Assumptions tail_run_bounded.

(** APPLY1 (the tail-only opcode behind [apply], vm.c:1351-1380) reuses the running frame exactly like
    TAIL-CALL, whatever the length of the argument list and for every callee protocol: the callee's
    frame starts at the same base, the stack is cut right above its header, the return information is
    inherited, nothing below the base is touched *)
Theorem apply1_frame_reuse : forall s proc lst r j rip rself rfp s',
  stk s = proc :: lst :: r -> frame_info s = Some (j, rip, rself, rfp) ->
  apply1_step s = Next s' ->
  exists i',
    sget (stk s') (fp s') = Some (vint i') /\
    fp s' - i' = fp s - j /\ i' <= fp s' /\
    length (stk s') = (fp s - j) + i' + 4 /\
    sget (stk s') (fp s' + 1) = Some (vint rip) /\
    sget (stk s') (fp s' + 2) = Some rself /\
    sget (stk s') (fp s' + 3) = Some (vint rfp) /\
    below (fp s - j) (stk s') = below (fp s - j) (stk s) /\
    self s' = proc /\ ip s' = 0.
Proof. exact Apply.apply1_frame_reuse. Qed.
Print Assumptions apply1_frame_reuse.

(** so a loop that iterates through [apply] keeps its frame base too *)
Theorem apply1_keeps_base : forall s proc lst r s' b,
  stk s = proc :: lst :: r -> base_of s = Some b -> apply1_step s = Next s' -> base_of s' = Some b.
Proof. exact Apply.apply1_keeps_base. Qed.
Print Assumptions apply1_keeps_base.

(** "leaving the context usable" (with fixes/C05-apply-exit-top.patch): over ANY sequence of sexp_apply
    calls on one context, each a non-tail recursion of its own depth k - out-of-stack failures
    included -, the context's stack top stays where it was, the stack never shrinks nor exceeds the
    maximum, and every call fails exactly when its OWN deepest stack check does not fit below
    SEXP_MAX_STACK_SIZE: nothing that happened before has any influence *)
Theorem oos_leaves_context_usable : forall c0 per n ks c,
  (0 < per <= n)%Z -> (0 <= c0)%Z -> (0 <= ctop c)%Z -> (ctop c + c0 < clen c)%Z -> (clen c <= MAX_STACK_SIZE)%Z ->
  ctop (snd (session true c0 per n c ks)) = ctop c /\
  (clen c <= clen (snd (session true c0 per n c ks)) <= MAX_STACK_SIZE)%Z /\
  Forall2 (fun (k : nat) (ok : bool) =>
             ok = false <-> 0 < k /\ (ctop c + c0 + (Z.of_nat k - 1) * per + n >= MAX_STACK_SIZE)%Z)
          ks (fst (session true c0 per n c ks)).
Proof. exact Context.oos_leaves_context_usable. Qed.
Print Assumptions oos_leaves_context_usable.

(** F-C05-2, the pinned exit of sexp_apply (context top := top of the failed check - 1): after one
    out-of-stack every later call on that context fails, however shallow *)
Theorem apply_exit_pinned_refuted : forall c0 per n c k k',
  (0 < per <= n)%Z -> (1 <= c0)%Z -> (0 <= ctop c)%Z -> (ctop c + c0 < clen c)%Z -> (clen c <= MAX_STACK_SIZE)%Z ->
  fst (apply_deep false c0 per n c k) = false -> 0 < k' ->
  fst (apply_deep false c0 per n (snd (apply_deep false c0 per n c k)) k') = false.
Proof. exact Context.apply_exit_pinned_refuted. Qed.
Print Assumptions apply_exit_pinned_refuted.
