(** C05 - tail calls run in constant space; deep recursion ends cleanly: property theorems only. *)
From Coq Require Import ZArith List Bool Arith.
From ChibiV Require Import C03.Defs C03.Model C05.Spec C05.Model C05.Proofs C05.Frames C05.Apply C05.Context C05.Examples C05.Depth C05.DepthProofs C05.DepthGen C05.ApplyRun C05.DepthStack.
Import ListNotations.

(** the code generator emits TAIL-CALL exactly at the application sites R7RS 3.5 puts in tail
    position (and CALL at every other application), for every expression and context *)
Theorem tail_calls_emitted : forall e tail svs cur,
  calls_of (generate tail svs cur e) = tail_sites tail e.
Proof. exact Proofs.tail_calls_emitted. Qed.
Print Assumptions tail_calls_emitted.

(** every lambda body is compiled in tail context *)
Theorem lambda_body_in_tail_context : forall svs cur id ps r ls sv fv b fl n c,
  In (IPushProc fl n c) (generate false svs cur (Lam id ps r ls sv fv b)) \/
  In (IMakeProc fl n c) (generate false svs cur (Lam id ps r ls sv fv b)) ->
  calls_of c = tail_sites true b.
Proof. exact Proofs.lambda_body_calls. Qed.
Print Assumptions lambda_body_in_tail_context.

(** TAIL-CALL reuses the caller's frame: same base, stack cut right above the new header, the
    caller's return information inherited, nothing below the base touched; fixed, rest and
    unused-rest callees alike *)
Theorem tail_call_frame_reuse : forall s n proc r j rip rself rfp s',
  nth_error (code_of (self s)) (ip s) = Some (ITailCall n) ->
  stk s = proc :: r -> frame_info s = Some (j, rip, rself, rfp) ->
  step s = Next s' ->
  exists i',
    sget (stk s') (fp s') = Some (vint i') /\
    fp s' - i' = fp s - j /\ i' <= fp s' /\
    length (stk s') = (fp s - j) + i' + 4 /\
    sget (stk s') (fp s' + 1) = Some (vint rip) /\
    sget (stk s') (fp s' + 2) = Some rself /\
    sget (stk s') (fp s' + 3) = Some (vint rfp) /\
    below (fp s - j) (stk s') = below (fp s - j) (stk s) /\
    self s' = proc /\ ip s' = 0.
Proof. exact Proofs.tail_call_frame_reuse. Qed.
Print Assumptions tail_call_frame_reuse.

(** for ALL n: over n steps each of which is a tail call or leaves fp and the frame header alone,
    the frame base is invariant, so every iteration of a tail-recursive loop starts at the same
    height (base + argument count + 4) *)
Theorem tail_loop_bounded : forall n s s' b,
  base_of s = Some b -> chain n s s' -> base_of s' = Some b.
Proof. exact Proofs.tail_loop_bounded. Qed.
Print Assumptions tail_loop_bounded.

Theorem tail_entry_height : forall n s s' s'' b k proc r,
  base_of s = Some b -> chain n s s' ->
  nth_error (code_of (self s')) (ip s') = Some (ITailCall k) -> stk s' = proc :: r -> step s' = Next s'' ->
  exists i', sget (stk s'') (fp s'') = Some (vint i') /\ length (stk s'') = b + i' + 4.
Proof. exact Proofs.tail_entry_height. Qed.
Print Assumptions tail_entry_height.

(** (after fixes/C05-ensure-stack-min-size.patch) whenever sexp_ensure_stack lets execution go on,
    top + n is inside the stack object; the stack never shrinks nor exceeds the maximum *)
Theorem ensure_stack_sufficient : forall top n len len',
  (0 <= top < len)%Z -> (0 <= n)%Z -> (len <= MAX_STACK_SIZE)%Z ->
  ensure_stack true top n len = Enough len' ->
  (top + n < len' /\ len <= len' <= MAX_STACK_SIZE)%Z.
Proof. exact Proofs.ensure_stack_sufficient. Qed.
Print Assumptions ensure_stack_sufficient.

(** deep recursion: the only outcomes are "room enough" or the out-of-stack object, the latter
    exactly when the request does not fit under the maximum *)
Theorem deep_recursion_outcome : forall top n len,
  (0 <= top < len)%Z -> (0 <= n)%Z -> (len <= MAX_STACK_SIZE)%Z ->
  (ensure_stack true top n len = OutOfStack <-> top + n >= MAX_STACK_SIZE)%Z.
Proof. exact Proofs.out_of_stack_iff. Qed.
Print Assumptions deep_recursion_outcome.

(** non-tail recursion of any depth k (one stack check per pending call, at tops top, top+per, ...,
    each asking for n more slots, the stack length threaded through): the out-of-stack error comes
    exactly when the deepest check does not fit below SEXP_MAX_STACK_SIZE; every shallower depth
    succeeds with a stack grown to hold it (never shrunk, never above the maximum) *)
Theorem deep_recursion_by_depth : forall k top per n len,
  (0 < per <= n)%Z -> (0 <= top < len)%Z -> (len <= MAX_STACK_SIZE)%Z ->
  (deep_calls k top per n len = OutOfStack <->
   0 < k /\ (top + (Z.of_nat k - 1) * per + n >= MAX_STACK_SIZE)%Z) /\
  (forall len', deep_calls k top per n len = Enough len' ->
     (len <= len' <= MAX_STACK_SIZE)%Z /\ (0 < k -> (top + (Z.of_nat k - 1) * per + n < len')%Z)).
Proof. exact Proofs.deep_calls_outcome. Qed.
Print Assumptions deep_recursion_by_depth.

(** the frame-preservation premise of tail_loop_bounded, for EVERY opcode of the model VM other than
    CALL / TAIL-CALL / RET / DONE: a step whose operands lie above the frame header (and, for
    LOCAL-SET, whose target is an argument or a local, not the header) keeps fp and the header *)
Theorem frame_preserved_by_every_noncall_opcode : forall s s' i,
  nth_error (code_of (self s)) (ip s) = Some i -> is_ctl i = false ->
  fp s + 4 + pops i <= length (stk s) -> local_set_ok s i ->
  step s = Next s' -> chain_step s s'.
Proof. exact Frames.noncall_step_quiet. Qed.
Print Assumptions frame_preserved_by_every_noncall_opcode.

(** hence, for ALL n: n steps of the model VM none of which is a CALL or a return (every call a
    TAIL-CALL, every other instruction working above the header) keep the frame base *)
Theorem tail_run_bounded : forall n s s' b,
  base_of s = Some b -> run_ok n s s' -> base_of s' = Some b.
Proof. exact Frames.tail_run_bounded. Qed.
Print Assumptions tail_run_bounded.

(** APPLY1 (the tail-only opcode behind [apply], vm.c:1351-1380) reuses the running frame exactly like
    TAIL-CALL, whatever the length of the argument list and for every callee protocol: the callee's
    frame starts at the same base, the stack is cut right above its header, the return information is
    inherited, nothing below the base is touched *)
Theorem apply1_frame_reuse : forall s proc lst r j rip rself rfp s',
  stk s = proc :: lst :: r -> frame_info s = Some (j, rip, rself, rfp) ->
  apply1_step s = Next s' ->
  exists i',
    sget (stk s') (fp s') = Some (vint i') /\
    fp s' - i' = fp s - j /\ i' <= fp s' /\
    length (stk s') = (fp s - j) + i' + 4 /\
    sget (stk s') (fp s' + 1) = Some (vint rip) /\
    sget (stk s') (fp s' + 2) = Some rself /\
    sget (stk s') (fp s' + 3) = Some (vint rfp) /\
    below (fp s - j) (stk s') = below (fp s - j) (stk s) /\
    self s' = proc /\ ip s' = 0.
Proof. exact Apply.apply1_frame_reuse. Qed.
Print Assumptions apply1_frame_reuse.

(** so a loop that iterates through [apply] keeps its frame base too *)
Theorem apply1_keeps_base : forall s proc lst r s' b,
  stk s = proc :: lst :: r -> base_of s = Some b -> apply1_step s = Next s' -> base_of s' = Some b.
Proof. exact Apply.apply1_keeps_base. Qed.
Print Assumptions apply1_keeps_base.

(** "leaving the context usable" (with fixes/C05-apply-exit-top.patch): over ANY sequence of sexp_apply
    calls on one context, each a non-tail recursion of its own depth k - out-of-stack failures
    included -, the context's stack top stays where it was, the stack never shrinks nor exceeds the
    maximum, and every call fails exactly when its OWN deepest stack check does not fit below
    SEXP_MAX_STACK_SIZE: nothing that happened before has any influence *)
Theorem oos_leaves_context_usable : forall c0 per n ks c,
  (0 < per <= n)%Z -> (0 <= c0)%Z -> (0 <= ctop c)%Z -> (ctop c + c0 < clen c)%Z -> (clen c <= MAX_STACK_SIZE)%Z ->
  ctop (snd (session true c0 per n c ks)) = ctop c /\
  (clen c <= clen (snd (session true c0 per n c ks)) <= MAX_STACK_SIZE)%Z /\
  Forall2 (fun (k : nat) (ok : bool) =>
             ok = false <-> 0 < k /\ (ctop c + c0 + (Z.of_nat k - 1) * per + n >= MAX_STACK_SIZE)%Z)
          ks (fst (session true c0 per n c ks)).
Proof. exact Context.oos_leaves_context_usable. Qed.
Print Assumptions oos_leaves_context_usable.

(** F-C05-2, the pinned exit of sexp_apply (context top := top of the failed check - 1): after one
    out-of-stack every later call on that context fails, however shallow *)
Theorem apply_exit_pinned_refuted : forall c0 per n c k k',
  (0 < per <= n)%Z -> (1 <= c0)%Z -> (0 <= ctop c)%Z -> (ctop c + c0 < clen c)%Z -> (clen c <= MAX_STACK_SIZE)%Z ->
  fst (apply_deep false c0 per n c k) = false -> 0 < k' ->
  fst (apply_deep false c0 per n (snd (apply_deep false c0 per n c k)) k') = false.
Proof. exact Context.apply_exit_pinned_refuted. Qed.
Print Assumptions apply_exit_pinned_refuted.

(** the static operand-depth bound (what sexp_bytecode_max_depth stands for), as a checked certificate
    (C05/Depth.v [cert_ok]: per instruction index the height of the frame above its 4-slot header): inside a
    body whose certificate checks, every instruction that neither calls nor returns finds the operands it
    pops above the header and never writes the header - the premise [step_ok] of tail_run_bounded -, stays
    in the body and arrives at the certified depth of its successor.  The checker runs (extracted) on the
    real bytecode of every program of the check and on the model generator's code. *)
Theorem certified_step_above_header : forall s s' i ds,
  cert_ok (code_of (self s)) ds = true -> Inv ds s ->
  nth_error (code_of (self s)) (ip s) = Some i -> is_ctl i = false -> step s = Next s' ->
  step_ok s /\ self s' = self s /\ Inv ds s'.
Proof. exact DepthProofs.certified_step. Qed.
Print Assumptions certified_step_above_header.

(** hence the "operands above the header" premise of tail_run_bounded is discharged by a STATIC property of
    the code: n steps none of which is a CALL or a return, every TAIL-CALL entering a procedure whose body has
    a certificate, form a [run_ok] *)
Theorem certified_run_ok : forall n s s' ds,
  cert_ok (code_of (self s)) ds = true -> Inv ds s -> run_cert n s s' -> run_ok n s s'.
Proof. exact DepthProofs.certified_run_ok. Qed.
Print Assumptions certified_run_ok.

(** "space bounded by a constant", for ALL n: such a run keeps the frame base b and never stands higher than
    fp + 4 + max_depth of the running body's certificate (fp = b + argument count of the running frame).
    _partial: the run relation asks at every TAIL-CALL that the procedure entered has a certified body - true of
    every body the generator emits (generated_code_certified below), but that every procedure value a running
    program can reach IS generator output is not proved here; CALL/RET are not part of the run. *)
Theorem tail_loop_space_bounded_partial : forall n s s' ds b,
  cert_ok (code_of (self s)) ds = true -> Inv ds s -> base_of s = Some b -> run_cert n s s' ->
  base_of s' = Some b /\
  exists ds', cert_ok (code_of (self s')) ds' = true /\ length (stk s') <= fp s' + 4 + max_depth ds'.
Proof. exact DepthProofs.tail_loop_space_bounded. Qed.
Print Assumptions tail_loop_space_bounded_partial.

(** every code body the code generator emits has a depth certificate: for EVERY lambda whose body has the
    shape the analyser produces (sequences non-empty, primitives applied to their number of operands), in every
    compilation context, the code stored in PUSH-procedure / MAKE-PROCEDURE - locals, boxing prologue, body in
    tail context, RET - keeps every operand above the frame header and LOCAL-SET off the header *)
Theorem generated_code_certified : forall svs cur id ps r ls sv fv b fl n c,
  shape_ok b = true ->
  In (IPushProc fl n c) (generate false svs cur (Lam id ps r ls sv fv b)) \/
  In (IMakeProc fl n c) (generate false svs cur (Lam id ps r ls sv fv b)) ->
  exists ds, cert_ok c ds = true.
Proof. exact DepthGen.lambda_body_certified. Qed.
Print Assumptions generated_code_certified.

(** ... and so has the thunk every top-level form is compiled to *)
Theorem toplevel_code_certified : forall e, shape_ok (annotate e) = true ->
  exists ds, cert_ok (compile_toplevel e) ds = true.
Proof. exact DepthGen.toplevel_certified. Qed.
Print Assumptions toplevel_code_certified.

(** the shape hypothesis is part of C03's well-formedness of analyser output (checked on every real AST) *)
Theorem analysed_ast_has_shape : forall e sc, wf sc e = true -> shape_ok e = true.
Proof. exact DepthGen.wf_shape. Qed.
Print Assumptions analysed_ast_has_shape.

(** APPLY1 inside the run relation: for ALL n, n steps each of which is a TAIL-CALL, an instruction working
    above the header, or an APPLY1 (loops iterating through [apply], alone or mixed with direct tail calls)
    keep the frame base *)
Theorem tail_run_bounded_with_apply : forall n s s' b,
  base_of s = Some b -> run_okA n s s' -> base_of s' = Some b.
Proof. exact ApplyRun.tail_run_bounded_with_apply. Qed.
Print Assumptions tail_run_bounded_with_apply.

(** what sexp_ensure_stack(max_depth+64) in make_call is for (with both stack fixes): if the check that precedes a
    procedure's entry asked for at least the certified depth of its body + the 4 header slots and let execution
    go on, then for ALL n, after n steps inside that body (up to its next call or return) the stack still ends
    strictly inside the (possibly grown) stack object, whose length never exceeds the maximum.  The check compares
    the real sexp_bytecode_max_depth with the certified depth of the real bytecode (F-C05-3 was a shortfall). *)
Theorem certified_body_fits_stack : forall n s s' ds nreq len len',
  cert_ok (code_of (self s)) ds = true -> Inv ds s -> run_body n s s' ->
  (Z.of_nat (max_depth ds) + 4 <= nreq)%Z ->
  (Z.of_nat (fp s) < len)%Z -> (len <= MAX_STACK_SIZE)%Z ->
  ensure_stack true (Z.of_nat (fp s)) nreq len = Enough len' ->
  (Z.of_nat (length (stk s')) < len')%Z /\ (len' <= MAX_STACK_SIZE)%Z.
Proof. exact DepthStack.certified_body_fits_stack. Qed.
Print Assumptions certified_body_fits_stack.
