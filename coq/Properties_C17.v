(** C17 — bitwise operations are two's-complement exact: property theorems only.
    [ival] reads a chibi integer object (fixnum, or sign + 64-bit words with spare zero words allowed);
    [wf] is the object invariant (sign is 1 or -1, at least one word, words < 2^64, a negative bignum is
    not zero; fixnums are 62-bit).  The right-hand sides are Coq's Z operations, i.e. the operations on the
    infinite two's-complement bit string (Z.testbit). *)
From ChibiV Require Import Common.Words C17.Model C17.Spec C17.Proofs C17.ProofsOps.
Local Open Scope Z_scope.

(** sexp_set_twos_complement: the converted words are (-|n|) mod B^len *)
Theorem twos_complement_repr : forall l, words l ->
  val (set_tc l) = (- val l) mod B ^ Z.of_nat (length l) /\ words (set_tc l) /\ length (set_tc l) = length l.
Proof. exact twos_complement_repr_all. Qed.
Print Assumptions twos_complement_repr.

(** sexp_bit_and: all signs, fixnum/bignum mixes, all length combinations *)
Theorem bit_and_Z : forall x y, wf x -> wf y -> ival (bit_and x y) = Z.land (ival x) (ival y).
Proof. exact bit_and_ok. Qed.
Print Assumptions bit_and_Z.

Theorem bit_ior_Z : forall x y, wf x -> wf y -> ival (bit_ior x y) = Z.lor (ival x) (ival y).
Proof. exact bit_ior_ok. Qed.
Print Assumptions bit_ior_Z.

Theorem bit_xor_Z : forall x y, wf x -> wf y -> ival (bit_xor x y) = Z.lxor (ival x) (ival y).
Proof. exact bit_xor_ok. Qed.
Print Assumptions bit_xor_Z.
