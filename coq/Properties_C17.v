(** C17 — bitwise operations are two's-complement exact: property theorems only.
    [ival] reads a chibi integer object (fixnum, or sign + 64-bit words with spare zero words allowed);
    [wf] is the object invariant (sign is 1 or -1, at least one word, words < 2^64, a negative bignum is
    not zero; fixnums are 62-bit).  The right-hand sides are Coq's Z operations, i.e. the operations on the
    infinite two's-complement bit string (Z.testbit). *)
From ChibiV Require Import Common.Words C17.Model C17.Spec C17.Proofs C17.ProofsOps C17.ProofsShift C17.ProofsBitset C17.ProofsLength C17.ProofsCount C17.LeafTie Gen.C17_Leaf.
Local Open Scope Z_scope.

(** sexp_set_twos_complement: the converted words are (-|n|) mod B^len *)
Theorem twos_complement_repr : forall l, words l ->
  val (set_tc l) = (- val l) mod B ^ Z.of_nat (length l) /\ words (set_tc l) /\ length (set_tc l) = length l.
Proof. exact twos_complement_repr_all. Qed.
Print Assumptions twos_complement_repr.

(** sexp_bit_and: all signs, fixnum/bignum mixes, all length combinations *)
Theorem bit_and_Z : forall x y, wf x -> wf y -> ival (bit_and x y) = Z.land (ival x) (ival y).
Proof. exact bit_and_ok. Qed.
Print Assumptions bit_and_Z.

Theorem bit_ior_Z : forall x y, wf x -> wf y -> ival (bit_ior x y) = Z.lor (ival x) (ival y).
Proof. exact bit_ior_ok. Qed.
Print Assumptions bit_ior_Z.

Theorem bit_xor_Z : forall x y, wf x -> wf y -> ival (bit_xor x y) = Z.lxor (ival x) (ival y).
Proof. exact bit_xor_ok. Qed.
Print Assumptions bit_xor_Z.

(** sexp_arithmetic_shift: floor (x * 2^c), both directions, fixnum and bignum operands, any count *)
Theorem arithmetic_shift_Z : forall x c, wf x ->
  ival (arithmetic_shift x c) = if c <? 0 then ival x / 2 ^ (- c) else ival x * 2 ^ c.
Proof. exact arithmetic_shift_ok. Qed.
Print Assumptions arithmetic_shift_Z.

(** sexp_bit_set_p: bit i of the infinite two's-complement string *)
Theorem bit_set_Z : forall i x, 0 <= i -> wf x -> bit_set_p i x = Z.testbit (ival x) i.
Proof. exact bit_set_ok. Qed.
Print Assumptions bit_set_Z.

(** sexp_integer_length (including integer_log2 and its 256-entry table, for every 64-bit word):
    integer_length_spec n = bitlen (if n < 0 then lnot n else n), bitlen m = log2 m + 1 for m > 0, 0 for 0 *)
Theorem integer_length_Z : forall x, wf x -> ival (integer_length x) = integer_length_spec (ival x).
Proof. exact integer_length_ok. Qed.
Print Assumptions integer_length_Z.

Theorem integer_log2_word : forall w, isword w -> integer_log2 w = bitlen w.
Proof. exact integer_log2_ok. Qed.
Print Assumptions integer_log2_word.

(** sexp_bit_count: the borrow loop over the words of a bignum, both signs, and the fixnum case.
    PARTIAL: the premise [swar_correct] (the SWAR population count of ONE 64-bit word, bit.c:319-326,
    equals the number of 1 bits) is not proved; the full statement is the same without that premise:
      forall x, wf x -> ival (bit_count x) = bit_count_spec (ival x). *)
Theorem bit_count_Z_partial : swar_correct -> forall x, wf x -> ival (bit_count x) = bit_count_spec (ival x).
Proof. exact bit_count_ok. Qed.
Print Assumptions bit_count_Z_partial.

(** the spec's population count is the count of set bits (SRFI 151's wording) *)
Theorem popcount_is_testbit_count : forall k n, 0 <= n < 2 ^ Z.of_nat k -> Zpopcount n = count_bits k n.
Proof. exact Zpopcount_testbit. Qed.
Print Assumptions popcount_is_testbit_count.

(** (G) the table of integer_log2 and the SWAR constants of bit_count, regenerated from bit.c on every
    run, are the ones in the model *)
Theorem leaf_data_matches_source :
  src_log_table_256 = log_table_256 /\ src_M1 = M1 /\ src_M2a = M2 /\ src_M2b = M2 /\ src_M4 = M4
  /\ src_H01 = H01 /\ src_final_shift = 56.
Proof. exact leaf_data_ok. Qed.
Print Assumptions leaf_data_matches_source.
