(** C17 — bitwise operations are two's-complement exact: property theorems only.
    [ival] reads a chibi integer object (fixnum, or sign + 64-bit words with spare zero words allowed);
    [wf] is the object invariant (sign is 1 or -1, at least one word, words < 2^64, a negative bignum is
    not zero; fixnums are 62-bit).  The right-hand sides are Coq's Z operations, i.e. the operations on the
    infinite two's-complement bit string (Z.testbit). *)
From ChibiV Require Import Common.Words C17.Model C17.Spec C17.Proofs C17.ProofsOps C17.ProofsShift C17.ProofsBitset C17.ProofsLength C17.ProofsCount C17.ProofsSwar C17.LeafTie Gen.C17_Leaf
  C17.SchemeBase Gen.C17_Bitwise C17.ProofsDerivedSeq C17.ProofsDerived Gen.C17_Wrappers C17.ProofsWrappers.
Local Open Scope Z_scope.

(** sexp_set_twos_complement: the converted words are (-|n|) mod B^len *)
Theorem twos_complement_repr : forall l, words l ->
  val (set_tc l) = (- val l) mod B ^ Z.of_nat (length l) /\ words (set_tc l) /\ length (set_tc l) = length l.
Proof. exact twos_complement_repr_all. Qed.
Print Assumptions twos_complement_repr.

(** sexp_bit_and: all signs, fixnum/bignum mixes, all length combinations *)
Theorem bit_and_Z : forall x y, wf x -> wf y -> ival (bit_and x y) = Z.land (ival x) (ival y).
Proof. exact bit_and_ok. Qed.
Print Assumptions bit_and_Z.

Theorem bit_ior_Z : forall x y, wf x -> wf y -> ival (bit_ior x y) = Z.lor (ival x) (ival y).
Proof. exact bit_ior_ok. Qed.
Print Assumptions bit_ior_Z.

Theorem bit_xor_Z : forall x y, wf x -> wf y -> ival (bit_xor x y) = Z.lxor (ival x) (ival y).
Proof. exact bit_xor_ok. Qed.
Print Assumptions bit_xor_Z.

(** sexp_arithmetic_shift: floor (x * 2^c), both directions, fixnum and bignum operands, any count *)
Theorem arithmetic_shift_Z : forall x c, wf x ->
  ival (arithmetic_shift x c) = if c <? 0 then ival x / 2 ^ (- c) else ival x * 2 ^ c.
Proof. exact arithmetic_shift_ok. Qed.
Print Assumptions arithmetic_shift_Z.

(** sexp_bit_set_p: bit i of the infinite two's-complement string *)
Theorem bit_set_Z : forall i x, 0 <= i -> wf x -> bit_set_p i x = Z.testbit (ival x) i.
Proof. exact bit_set_ok. Qed.
Print Assumptions bit_set_Z.

(** sexp_integer_length (including integer_log2 and its 256-entry table, for every 64-bit word):
    integer_length_spec n = bitlen (if n < 0 then lnot n else n), bitlen m = log2 m + 1 for m > 0, 0 for 0 *)
Theorem integer_length_Z : forall x, wf x -> ival (integer_length x) = integer_length_spec (ival x).
Proof. exact integer_length_ok. Qed.
Print Assumptions integer_length_Z.

Theorem integer_log2_word : forall w, isword w -> integer_log2 w = bitlen w.
Proof. exact integer_log2_ok. Qed.
Print Assumptions integer_log2_word.

(** bit_count (bit.c:332-339), the SWAR population count of ONE 64-bit word: for EVERY word the masked
    adds and the final multiplication (constants regenerated from bit.c, theorem leaf_data_matches_source)
    give the number of 1 bits *)
Theorem bit_count_word : forall w, isword w -> bit_count_w w = Zpopcount w.
Proof. exact swar_correct_all. Qed.
Print Assumptions bit_count_word.

(** sexp_bit_count: the borrow loop over the words of a bignum, both signs, and the fixnum case
    (no premise any more: the one-word leaf is bit_count_word) *)
Theorem bit_count_Z : forall x, wf x -> ival (bit_count x) = bit_count_spec (ival x).
Proof. exact bit_count_all. Qed.
Print Assumptions bit_count_Z.

(** the spec's population count is the count of set bits (SRFI 151's wording) *)
Theorem popcount_is_testbit_count : forall k n, 0 <= n < 2 ^ Z.of_nat k -> Zpopcount n = count_bits k n.
Proof. exact Zpopcount_testbit. Qed.
Print Assumptions popcount_is_testbit_count.

(** (G) the table of integer_log2 and the SWAR constants of bit_count, regenerated from bit.c on every
    run, are the ones in the model *)
Theorem leaf_data_matches_source :
  src_log_table_256 = log_table_256 /\ src_M1 = M1 /\ src_M2a = M2 /\ src_M2b = M2 /\ src_M4 = M4
  /\ src_H01 = H01 /\ src_final_shift = 56.
Proof. exact leaf_data_ok. Qed.
Print Assumptions leaf_data_matches_source.

(** * The derived operations of lib/srfi/151/bitwise.scm.
    The functions [s_*] are REGENERATED from bitwise.scm on every run (gen/c17_bitwise.py -> Gen/C17_Bitwise.v), with the
    seven primitives of bit.c replaced by the Z operations they are proved to compute above (bit-and -> Z.land, bit-ior ->
    Z.lor, bit-xor -> Z.lxor, arithmetic-shift -> Z.shiftl, integer-length -> integer_length_spec, bit-set? -> Z.testbit).
    Bits are those of the infinite two's-complement string (Z.testbit), so negative operands are covered everywhere. *)

Theorem bitwise_not_Z : forall i, s_bitwise_not i = Z.lnot i.
Proof. exact s_bitwise_not_lnot. Qed.
Print Assumptions bitwise_not_Z.

(** two-argument and / ior / xor / eqv / nand / nor / andc1 / andc2 / orc1 / orc2 *)
Theorem binary_ops_Z : forall a b,
  s_bitwise_and [a; b] = Z.land a b /\ s_bitwise_ior [a; b] = Z.lor a b /\ s_bitwise_xor [a; b] = Z.lxor a b
  /\ s_bitwise_eqv [a; b] = Z.lnot (Z.lxor a b) /\ s_bitwise_nand [a; b] = Z.lnot (Z.land a b)
  /\ s_bitwise_nor [a; b] = Z.lnot (Z.lor a b)
  /\ s_bitwise_andc1 a b = Z.land (Z.lnot a) b /\ s_bitwise_andc2 a b = Z.land a (Z.lnot b)
  /\ s_bitwise_orc1 a b = Z.lor (Z.lnot a) b /\ s_bitwise_orc2 a b = Z.lor a (Z.lnot b).
Proof. exact binary_ops. Qed.
Print Assumptions binary_ops_Z.

(** the n-ary forms (any number of arguments, 0 included): bit k of the result is the and / or / xor / iterated
    equivalence of the arguments' bits k; n-ary eqv is the fold of BINARY eqv from -1 (SRFI 151), which requires
    fixes/C17-bitwise-eqv-nary.patch *)
Theorem nary_and_Z : forall l k, 0 <= k -> Z.testbit (s_bitwise_and l) k = fold_left (fun acc x => acc && Z.testbit x k) l true.
Proof. exact nary_and_bits. Qed.
Print Assumptions nary_and_Z.
Theorem nary_ior_Z : forall l k, Z.testbit (s_bitwise_ior l) k = fold_left (fun acc x => acc || Z.testbit x k) l false.
Proof. exact nary_ior_bits. Qed.
Print Assumptions nary_ior_Z.
Theorem nary_xor_Z : forall l k, Z.testbit (s_bitwise_xor l) k = fold_left (fun acc x => xorb acc (Z.testbit x k)) l false.
Proof. exact nary_xor_bits. Qed.
Print Assumptions nary_xor_Z.
Theorem nary_eqv_Z : forall l k, 0 <= k -> Z.testbit (s_bitwise_eqv l) k = fold_left (fun acc x => Bool.eqb acc (Z.testbit x k)) l true.
Proof. exact nary_eqv_bits. Qed.
Print Assumptions nary_eqv_Z.

Theorem any_bit_set_Z : forall t i,
  s_any_bit_set_p t i = negb (Z.land t i =? 0)
  /\ (s_any_bit_set_p t i = false <-> forall k, 0 <= k -> Z.testbit t k && Z.testbit i k = false).
Proof. exact any_bit_set_spec. Qed.
Print Assumptions any_bit_set_Z.
Theorem every_bit_set_Z : forall t i,
  s_every_bit_set_p t i = (Z.land t i =? t)
  /\ (s_every_bit_set_p t i = true <-> forall k, 0 <= k -> Z.testbit t k = true -> Z.testbit i k = true).
Proof. exact every_bit_set_spec. Qed.
Print Assumptions every_bit_set_Z.

(** first-set-bit: -1 for 0, else the index of the lowest 1 bit (any sign) *)
Theorem first_set_bit_Z : forall i,
  (i = 0 -> s_first_set_bit i = -1)
  /\ (i <> 0 -> 0 <= s_first_set_bit i /\ Z.testbit i (s_first_set_bit i) = true
               /\ forall m, 0 <= m < s_first_set_bit i -> Z.testbit i m = false).
Proof. exact first_set_bit_spec. Qed.
Print Assumptions first_set_bit_Z.

(** bitwise-if in SRFI 151's argument order: where the mask has a 1 the bit of the FIRST operand *)
Theorem bitwise_if_Z : forall m a b k, 0 <= k ->
  Z.testbit (s_bitwise_if m a b) k = if Z.testbit m k then Z.testbit a k else Z.testbit b k.
Proof. exact bitwise_if_bits. Qed.
Print Assumptions bitwise_if_Z.

(** bit-field: bits start .. end-1 moved down to 0 .. end-start-1, nothing above; any integer n *)
Theorem bit_field_Z : forall n s e k, 0 <= s <= e -> 0 <= k ->
  Z.testbit (s_bit_field n s e) k = (k <? e - s) && Z.testbit n (k + s).
Proof. exact bit_field_bits. Qed.
Print Assumptions bit_field_Z.
Theorem bit_field_range_Z : forall n s e, 0 <= s <= e -> 0 <= s_bit_field n s e < 2 ^ (e - s).
Proof. exact bit_field_range. Qed.
Print Assumptions bit_field_range_Z.
Theorem bit_field_any_Z : forall n s e, 0 <= s <= e ->
  s_bit_field_any_p n s e = negb (field n s e =? 0)
  /\ (s_bit_field_any_p n s e = false <-> forall k, s <= k < e -> Z.testbit n k = false).
Proof. exact bit_field_any_spec. Qed.
Print Assumptions bit_field_any_Z.
Theorem bit_field_every_Z : forall n s e, 0 <= s <= e ->
  s_bit_field_every_p n s e = (field n s e =? Z.ones (e - s))
  /\ (s_bit_field_every_p n s e = true <-> forall k, s <= k < e -> Z.testbit n k = true).
Proof. exact bit_field_every_spec. Qed.
Print Assumptions bit_field_every_Z.

(** [inr s e k] = (s <=? k) && (k <? e) *)
Theorem bit_field_clear_Z : forall n s e k, 0 <= s <= e -> 0 <= k ->
  Z.testbit (s_bit_field_clear n s e) k = if inr s e k then false else Z.testbit n k.
Proof. exact clear_bits. Qed.
Print Assumptions bit_field_clear_Z.
Theorem bit_field_set_Z : forall n s e k, 0 <= s <= e -> 0 <= k ->
  Z.testbit (s_bit_field_set n s e) k = if inr s e k then true else Z.testbit n k.
Proof. exact set_bits. Qed.
Print Assumptions bit_field_set_Z.
Theorem bit_field_replace_Z : forall d r s e k, 0 <= s <= e -> 0 <= k ->
  Z.testbit (s_bit_field_replace d r s e) k = if inr s e k then Z.testbit r (k - s) else Z.testbit d k.
Proof. exact replace_bits. Qed.
Print Assumptions bit_field_replace_Z.
Theorem bit_field_replace_same_Z : forall d r s e k, 0 <= s <= e -> 0 <= k ->
  Z.testbit (s_bit_field_replace_same d r s e) k = if inr s e k then Z.testbit r k else Z.testbit d k.
Proof. exact replace_same_bits. Qed.
Print Assumptions bit_field_replace_same_Z.

(** bit-field-rotate: the field rotated left by count mod width (any integer count, negative = right) *)
Theorem bit_field_rotate_Z : forall n c s e k, 0 <= s < e -> 0 <= k ->
  Z.testbit (s_bit_field_rotate n c s e) k
  = if inr s e k then Z.testbit n (s + (k - s - c) mod (e - s)) else Z.testbit n k.
Proof. exact rotate_bits. Qed.
Print Assumptions bit_field_rotate_Z.

Theorem copy_bit_Z : forall idx i (b : bool) k, 0 <= idx -> 0 <= k ->
  Z.testbit (s_copy_bit idx i b) k = if k =? idx then b else Z.testbit i k.
Proof. exact copy_bit_bits. Qed.
Print Assumptions copy_bit_Z.
Theorem bit_swap_Z : forall i1 i2 i k, 0 <= i1 -> 0 <= i2 -> 0 <= k ->
  Z.testbit (s_bit_swap i1 i2 i) k
  = if k =? i1 then Z.testbit i i2 else if k =? i2 then Z.testbit i i1 else Z.testbit i k.
Proof. exact bit_swap_bits. Qed.
Print Assumptions bit_swap_Z.

(** the oracle of the outer correspondence (coq/C17/Spec.v) is the regenerated source, definition by definition *)
Theorem outer_oracle_matches_source :
  (forall m a b, s_bitwise_if m a b = bitwise_if m a b) /\ (forall n s e, s_bit_field n s e = field n s e)
  /\ (forall d r s e, s_bit_field_replace d r s e = replace d r s e)
  /\ (forall d r s e, s_bit_field_replace_same d r s e = replace_same d r s e)
  /\ (forall n s e, s_bit_field_set n s e = Z.lor n (fmask s e))
  /\ (forall n s e, 0 <= s <= e -> s_bit_field_clear n s e = Z.land n (Z.lnot (fmask s e)))
  /\ (forall i, s_first_set_bit i = first_set_bit i).
Proof.
  exact (conj s_bitwise_if_spec (conj s_bit_field_field (conj s_replace_spec (conj s_replace_same_spec
         (conj s_set_spec (conj s_clear_spec first_set_bit_spec_eq)))))).
Qed.
Print Assumptions outer_oracle_matches_source.

(** * Loops of bitwise.scm (fuel-bounded models: [None] = out of fuel; the stated fuel always suffices) *)

(** bit-field-reverse: bit k of the field becomes bit start+end-1-k *)
Theorem bit_field_reverse_Z : forall i s e fuel, 0 <= s <= e -> (Z.to_nat (e - s) < fuel)%nat ->
  exists r, s_bit_field_reverse fuel i s e = Some r
            /\ forall k, 0 <= k -> Z.testbit r k = if inr s e k then Z.testbit i (s + e - 1 - k) else Z.testbit i k.
Proof. exact reverse_bits. Qed.
Print Assumptions bit_field_reverse_Z.

(** vector->bits / list->bits / bits: element k is bit k *)
Theorem vector_to_bits_Z : forall v fuel, (length v < fuel)%nat ->
  exists r, s_vector_to_bits fuel v = Some r /\ 0 <= r < 2 ^ Z.of_nat (length v)
            /\ forall k, 0 <= k -> Z.testbit r k = nth (Z.to_nat k) v false.
Proof. exact vector_to_bits_ok. Qed.
Print Assumptions vector_to_bits_Z.
Theorem list_to_bits_Z : forall v fuel, (length v < fuel)%nat ->
  exists r, s_list_to_bits fuel v = Some r /\ 0 <= r < 2 ^ Z.of_nat (length v)
            /\ forall k, 0 <= k -> Z.testbit r k = nth (Z.to_nat k) v false.
Proof. exact list_to_bits_ok. Qed.
Print Assumptions list_to_bits_Z.
Theorem bits_Z : forall v fuel, (length v < fuel)%nat ->
  exists r, s_bits fuel v = Some r /\ 0 <= r < 2 ^ Z.of_nat (length v)
            /\ forall k, 0 <= k -> Z.testbit r k = nth (Z.to_nat k) v false.
Proof. exact bits_ok. Qed.
Print Assumptions bits_Z.

(** bits->vector / bits->list, with the optional length or integer-length n; any integer n (with an explicit length the
    sign bits of a negative n fill the tail) *)
Theorem bits_to_vector_Z : forall n o fuel,
  let len := match o with x :: _ => x | [] => integer_length_spec n end in
  0 <= len -> (Z.to_nat len < fuel)%nat ->
  exists v, s_bits_to_vector fuel n o = Some v /\ length v = Z.to_nat len
            /\ forall k, (k < Z.to_nat len)%nat -> nth k v false = Z.testbit n (Z.of_nat k).
Proof. exact bits_to_vector_ok. Qed.
Print Assumptions bits_to_vector_Z.
Theorem bits_to_list_Z : forall n o fuel,
  let len := match o with x :: _ => x | [] => integer_length_spec n end in
  0 <= len -> (Z.to_nat len < fuel)%nat ->
  exists v, s_bits_to_list fuel n o = Some v /\ length v = Z.to_nat len
            /\ forall k, (k < Z.to_nat len)%nat -> nth k v false = Z.testbit n (Z.of_nat k).
Proof. exact bits_to_list_ok. Qed.
Print Assumptions bits_to_list_Z.
Theorem bits_roundtrip_Z : forall n fuel, 0 <= n -> (Z.to_nat (integer_length_spec n) < fuel)%nat ->
  exists l, s_bits_to_list fuel n [] = Some l /\ s_list_to_bits fuel l = Some n.
Proof. exact bits_roundtrip. Qed.
Print Assumptions bits_roundtrip_Z.

(** bitwise-fold / bitwise-for-each: kons / proc applied to the bits 0 .. integer-length-1 in that order, for ANY integer i
    (SRFI 151's wording; for negative i this needs fixes/C17-bitwise-fold-negative.patch -- the pinned loop `until (zero? i)`
    never ends for i < 0) *)
Theorem bitwise_fold_Z : forall (A : Type) (kons : bool -> A -> A) knil i fuel,
  (Z.to_nat (integer_length_spec i) < fuel)%nat ->
  s_bitwise_fold fuel kons knil i
  = Some (fold_left (fun acc b => kons b acc)
            (map (fun k => Z.testbit i (Z.of_nat k)) (seq 0 (Z.to_nat (integer_length_spec i)))) knil).
Proof. exact bitwise_fold_ok. Qed.
Print Assumptions bitwise_fold_Z.
Theorem bitwise_for_each_Z : forall proc i fuel, (Z.to_nat (integer_length_spec i) < fuel)%nat ->
  s_bitwise_for_each fuel proc i
  = Some (fold_left (fun acc b => proc b)
            (map (fun k => Z.testbit i (Z.of_nat k)) (seq 0 (Z.to_nat (integer_length_spec i)))) false).
Proof. exact bitwise_for_each_ok. Qed.
Print Assumptions bitwise_for_each_Z.

(** bitwise-unfold: bit j of the result is (mapper state_j) for the states before the first one that stops *)
Theorem bitwise_unfold_Z : forall (St : Type) (stop mapper : St -> bool) (succ : St -> St) seed (k fuel : nat),
  (forall j, (j < k)%nat -> stop (Nat.iter j succ seed) = false) -> stop (Nat.iter k succ seed) = true -> (k < fuel)%nat ->
  exists r, s_bitwise_unfold fuel stop mapper succ seed = Some r /\ 0 <= r < 2 ^ Z.of_nat k
            /\ forall j, 0 <= j -> Z.testbit r j = (j <? Z.of_nat k) && mapper (Nat.iter (Z.to_nat j) succ seed).
Proof. exact bitwise_unfold_ok. Qed.
Print Assumptions bitwise_unfold_Z.

(** make-bitwise-generator: the k-th call yields bit k (any integer: a negative one yields its sign bit forever) *)
Theorem bitwise_generator_Z : forall i (k : nat),
  fst (s_make_bitwise_generator_step (Nat.iter k (fun s => snd (s_make_bitwise_generator_step s)) i)) = Z.testbit i (Z.of_nat k).
Proof. exact generator_ok. Qed.
Print Assumptions bitwise_generator_Z.

(** the remaining oracle cases of the outer correspondence ([spec] 26-29 of coq/C17/Spec.v) are the regenerated source *)
Theorem outer_oracle_matches_source_fields :
  (forall a c s e, 0 <= s < e ->
     s_bit_field_rotate a c s e
     = (let w := e - s in let k := c mod w in let f := field a s e in
        replace a (Z.land (Z.lor (Z.shiftl f k) (Z.shiftr f (w - k))) (Z.ones w)) s e))
  /\ (forall a s e fuel, 0 <= s <= e -> (Z.to_nat (e - s) < fuel)%nat ->
       s_bit_field_reverse fuel a s e = Some (replace a (rev_bits (Z.to_nat (e - s)) (field a s e) 0) s e))
  /\ (forall idx i b, s_copy_bit idx i (negb (b =? 0)) = replace i (if b =? 0 then 0 else 1) idx (idx + 1))
  /\ (forall i1 i2 a, s_bit_swap i1 i2 a
       = replace (replace a (if Z.testbit a i2 then 1 else 0) i1 (i1 + 1)) (if Z.testbit a i1 then 1 else 0) i2 (i2 + 1)).
Proof. exact (conj spec_rotate (conj spec_reverse (conj spec_copy_bit spec_bit_swap))). Qed.
Print Assumptions outer_oracle_matches_source_fields.

(** * (srfi 142) and (srfi 33): the procedures they define themselves (regenerated from 142.sld / 33.sld), with THEIR
    argument conventions *)

(** SRFI 142 bitwise-if = SRFI 33 bitwise-merge: where the mask has a 1 the bit of the LAST operand *)
Theorem srfi142_bitwise_if_Z : forall mask n m k, 0 <= k ->
  Z.testbit (s142_bitwise_if mask n m) k = if Z.testbit mask k then Z.testbit m k else Z.testbit n k.
Proof. exact s142_bitwise_if_bits. Qed.
Print Assumptions srfi142_bitwise_if_Z.
Theorem srfi33_extract_bit_field_Z : forall size pos n k, 0 <= size -> 0 <= pos -> 0 <= k ->
  Z.testbit (s33_extract_bit_field size pos n) k = (k <? size) && Z.testbit n (k + pos).
Proof. exact s33_extract_bits. Qed.
Print Assumptions srfi33_extract_bit_field_Z.
Theorem srfi33_replace_bit_field_Z : forall size pos nf n k, 0 <= size -> 0 <= pos -> 0 <= k ->
  Z.testbit (s33_replace_bit_field size pos nf n) k
  = if inr pos (pos + size) k then Z.testbit nf (k - pos) else Z.testbit n k.
Proof. exact s33_replace_bits. Qed.
Print Assumptions srfi33_replace_bit_field_Z.
Theorem srfi33_copy_bit_field_Z : forall size pos from to k, 0 <= size -> 0 <= pos -> 0 <= k ->
  Z.testbit (s33_copy_bit_field size pos from to) k
  = if inr pos (pos + size) k then Z.testbit from k else Z.testbit to k.
Proof. exact s33_copy_bits. Qed.
Print Assumptions srfi33_copy_bit_field_Z.

(** SRFI 33 test-bit-field? / clear-bit-field size position n (after fixes/C17-srfi33-field-conventions.patch) *)
Theorem srfi33_test_bit_field_Z : forall size pos n, 0 <= size -> 0 <= pos ->
  s33_test_bit_field_p size pos n = false <-> forall k, pos <= k < pos + size -> Z.testbit n k = false.
Proof. exact s33_test_bits. Qed.
Print Assumptions srfi33_test_bit_field_Z.
Theorem srfi33_clear_bit_field_Z : forall size pos n k, 0 <= size -> 0 <= pos -> 0 <= k ->
  Z.testbit (s33_clear_bit_field size pos n) k = if inr pos (pos + size) k then false else Z.testbit n k.
Proof. exact s33_clear_bits. Qed.
Print Assumptions srfi33_clear_bit_field_Z.
