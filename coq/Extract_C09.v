From Coq Require Import ExtrOcamlBasic.
From ChibiV Require Import Common.ExtractBase C09.CSem Gen.C09_Luint C09.Ast C09.Simplify C09.Sem2 C09.Kinded C09.Sem3 C09.Simplify2 C09.Kinded2 C09.Rest.
Extraction "model.ml" ext_base
  lsint_lt_0 sexp_lsint_fits_sint sexp_luint_fits_uint luint_from_lsint lsint_from_luint lsint_from_sint
  luint_from_uint lsint_to_sint luint_to_uint lsint_to_sint_hi luint_to_uint_hi lsint_negate luint_eq luint_lt
  luint_shl luint_shr luint_add luint_add_uint luint_sub luint_mul_uint lsint_mul_sint luint_div luint_div_uint
  luint_and luint_is_fixnum lsint_is_fixnum
  sexp_simplify simplify run wf run2 ksexp_simplify ksimplify erase dyn0 fold_eval
  run3 eval3 simpN sexp_simplifyN ksimpN ksexp_simplifyN ksize size usedp rest_unused rest_unused_old.
