(** C18 — sorting and container libraries conform to their abstract data types: property theorems only. *)
From ChibiV Require Import C18.Spec C18.Model C18.Proofs C18.Proofs2 C18.Oracle C18.OracleProofs C18.SpecCont C18.ContProofs C18.ISet C18.ISetProofs C18.ISetTie Gen.C18_ISetGuards.

(** the merge step of both C merge sorts is a stable merge (ties: left run first) *)
Theorem merge_stable : forall (A : Type) (lt : A -> A -> bool), strict_weak_order lt ->
  forall l1 l2, StronglySorted (le lt) l1 -> StronglySorted (le lt) l2 ->
  is_stable_merge lt l1 l2 (merge_runs lt l1 l2).
Proof. exact merge_runs_is_stable_merge. Qed.
Print Assumptions merge_stable.

(** sexp_merge_sort_less, every length: fuel = length suffices, the vec segment ends up an ordered,
    stable permutation of its input *)
Theorem merge_sort_sorted_perm_stable : forall (A : Type) (lt : A -> A -> bool), strict_weak_order lt ->
  forall v, exists r s, msort_less lt (length v) v = Some (r, s) /\
    Permutation v r /\ StronglySorted (le lt) r /\ stable_of lt v r.
Proof. exact msort_less_sorted_perm_stable. Qed.
Print Assumptions merge_sort_sorted_perm_stable.

(** there is exactly one stable sort of an input, so "equals the reference sort" is the whole spec *)
Theorem stable_sort_is_unique : forall (A : Type) (lt : A -> A -> bool), strict_weak_order lt ->
  forall inp o1 o2, is_stable_sort lt inp o1 -> is_stable_sort lt inp o2 -> o1 = o2.
Proof. exact stable_sort_unique. Qed.
Print Assumptions stable_sort_is_unique.

Theorem reference_sort_is_stable_sort : forall (A : Type) (lt : A -> A -> bool), strict_weak_order lt ->
  forall l, is_stable_sort lt l (ssort lt l).
Proof. exact ssort_is_stable_sort. Qed.
Print Assumptions reference_sort_is_stable_sort.

(** sexp_sort_x (repaired), branch with a Scheme [less] / [key] *)
Theorem sort_x_less_refines_spec : forall (A : Type) (lt : A -> A -> bool), strict_weak_order lt ->
  forall v, sort_x_less lt v = Some (ssort lt v).
Proof. exact sort_x_less_is_ssort. Qed.
Print Assumptions sort_x_less_refines_spec.

(** sexp_sort_x (repaired), branch with the built-in comparison, ascending and inverse opcodes *)
Theorem sort_x_basic_refines_spec : forall (A : Type) (cmp : A -> A -> Z), strict_weak_order (cmp_lt A cmp) ->
  forall inverse v, sort_x_basic cmp inverse v = Some (ssort (if inverse then cmp_gt A cmp else cmp_lt A cmp) v).
Proof. exact sort_x_basic_is_ssort. Qed.
Print Assumptions sort_x_basic_refines_spec.

(** merge! / merge of SRFI 95 (repaired) and vector-merge of SRFI 132 *)
Theorem merge95_refines_spec : forall (A : Type) (lt : A -> A -> bool), strict_weak_order lt ->
  forall l1 l2, StronglySorted (le lt) l1 -> StronglySorted (le lt) l2 ->
  exists r, merge95 lt l1 l2 = Some r /\ is_stable_merge lt l1 l2 r.
Proof. exact merge95_is_stable_merge. Qed.
Print Assumptions merge95_refines_spec.

Theorem vector_merge132_refines_spec : forall (A : Type) (lt : A -> A -> bool), strict_weak_order lt ->
  forall v1 v2, StronglySorted (le lt) v1 -> StronglySorted (le lt) v2 -> is_stable_merge lt v1 v2 (vmerge132 lt v1 v2).
Proof. exact vmerge132_is_stable_merge. Qed.
Print Assumptions vector_merge132_refines_spec.

(** the extracted instances that the correspondence run executes *)
Theorem extracted_model_sorts_equal_extracted_spec : forall desc keys,
  model_sort_less desc keys = Some (spec_sort desc keys) /\ model_sort_basic desc keys = Some (spec_sort desc keys).
Proof. intros desc keys. split; [exact (model_sort_less_is_spec desc keys) | exact (model_sort_basic_is_spec desc keys)]. Qed.
Print Assumptions extracted_model_sorts_equal_extracted_spec.

Theorem extracted_model_merges_equal_extracted_spec : forall desc k1 k2, keys_sorted desc k1 -> keys_sorted desc k2 ->
  model_merge95 desc k1 k2 = Some (spec_merge desc k1 k2) /\ model_vmerge132 desc k1 k2 = spec_merge desc k1 k2.
Proof. exact model_merge95_is_spec. Qed.
Print Assumptions extracted_model_merges_equal_extracted_spec.

(** the three defects of the pinned code, as refutations of the unrepaired model functions *)
Theorem pinned_sort_x_vector_result_refuted :
  exists (lt : nat * nat -> nat * nat -> bool) v, strict_weak_order lt /\
    sort_x_less_pinned_vector_result lt v <> Some (map Some (ssort lt v)).
Proof. exact sort_x_less_pinned_vector_result_refuted. Qed.
Print Assumptions pinned_sort_x_vector_result_refuted.

Theorem pinned_sort_x_inverse_opcode_refuted :
  exists v, sort_x_basic_pinned kcmp true v <> Some (ssort (cmp_gt _ kcmp) v).
Proof. exact sort_x_basic_pinned_inverse_refuted. Qed.
Print Assumptions pinned_sort_x_inverse_opcode_refuted.

Theorem pinned_merge95_refuted :
  exists l1 l2, StronglySorted (le klt) l1 /\ StronglySorted (le klt) l2 /\
    forall r, merge95_pinned klt l1 l2 = Some r -> ~ is_stable_merge klt l1 l2 r.
Proof. exact merge95_pinned_refuted. Qed.
Print Assumptions pinned_merge95_refuted.

(** ---- container oracles (coq/C18/SpecCont.v): the laws the abstract models satisfy ---- *)
Local Open Scope Z_scope.

(** sets / integer sets: membership after every constructor *)
Theorem set_oracle_membership_laws : forall y x s t,
  set_mem y (set_adjoin x s) = (y =? x) || set_mem y s /\
  set_mem y (set_delete x s) = negb (y =? x) && set_mem y s /\
  set_mem y (set_union s t) = set_mem y s || set_mem y t /\
  set_mem y (set_inter s t) = set_mem y s && set_mem y t /\
  set_mem y (set_diff s t) = set_mem y s && negb (set_mem y t) /\
  set_mem y (set_xor s t) = xorb (set_mem y s) (set_mem y t).
Proof.
  intros. repeat split; [apply set_mem_adjoin | apply set_mem_delete | apply set_mem_union | apply set_mem_inter
                        | apply set_mem_diff | apply set_mem_xor].
Qed.
Print Assumptions set_oracle_membership_laws.

(** the dumps that are compared are canonical: constructors keep them strictly increasing, and two
    strictly increasing lists with the same members are equal *)
Theorem set_oracle_canonical : forall s t, canon s -> canon t ->
  (forall x, canon (set_adjoin x s)) /\ canon (set_union s t) /\ (forall p, canon (filter p s)) /\
  ((forall x, set_mem x s = set_mem x t) -> s = t).
Proof.
  intros s t Hs Ht. split; [intro x; apply canon_adjoin, Hs|]. split; [apply canon_union, Hs|].
  split; [intro p; apply canon_filter, Hs | apply canon_ext; assumption].
Qed.
Print Assumptions set_oracle_canonical.

(** mappings: mapping-ref after mapping-set / mapping-delete / mapping-adjoin / mapping-union *)
Theorem map_oracle_ref_laws : forall j k v m m2,
  map_ref j (map_set k v m) = (if j =? k then Some v else map_ref j m) /\
  map_ref j (map_delete k m) = (if j =? k then None else map_ref j m) /\
  map_ref j (map_adjoin k v m) = (match map_ref j m with Some w => Some w | None => if j =? k then Some v else None end) /\
  map_ref j (map_union m m2) = (match map_ref j m with Some w => Some w | None => map_ref j m2 end).
Proof. intros. repeat split; [apply map_ref_set | apply map_ref_delete | apply map_ref_adjoin | apply map_ref_union]. Qed.
Print Assumptions map_oracle_ref_laws.

(** bags: bag-element-count after bag-increment!/bag-decrement!/bag-adjoin *)
Theorem bag_oracle_count_law : forall y x n b, (forall z, 0 <= bag_count z b) ->
  bag_count y (bag_incr x n b) = if y =? x then Z.max 0 (bag_count x b + n) else bag_count y b.
Proof. exact bag_count_incr. Qed.
Print Assumptions bag_oracle_count_law.

(** sequences (random-access lists, deques, queues): ref after set, back after add-back, FIFO *)
Theorem seq_oracle_laws : forall (l : list Z) i j x d,
  ((i < length l)%nat -> nth i (seq_set i x l) d = x) /\
  (i <> j -> nth j (seq_set i x l) d = nth j l d) /\
  length (seq_set i x l) = length l /\
  seq_remove_back (seq_add_back l x) = l /\ seq_back (seq_add_back l x) = x /\
  (forall added, skipn (length l) (l ++ added) = added).
Proof.
  intros. split; [apply seq_set_same|]. split; [apply seq_set_other|]. split; [apply seq_set_length|].
  split; [apply (proj1 (deque_remove_back_add_back l x))|]. split; [apply (proj2 (deque_remove_back_add_back l x))|].
  intro added. apply (proj2 (fifo l added)).
Qed.
Print Assumptions seq_oracle_laws.

(** (chibi iset) inside the model.  (G) the guards regenerated from lib/chibi/iset/constructors.scm on every run
    (Gen/C18_ISetGuards.v) are the model's guards: an edit of bits-thresh / range->bits /
    iset-should-merge-left? / iset-should-merge-right? re-opens the proofs below *)
Theorem iset_guards_regenerated_equal_model :
  gen_bits_thresh = bits_thresh /\
  (forall s e, gen_range_bits s e = range_bits s e) /\
  (forall a b, gen_should_merge_left a b = should_merge_left a b) /\
  (forall a b, gen_should_merge_right a b = should_merge_right a b).
Proof. exact iset_guards_tied. Qed.
Print Assumptions iset_guards_regenerated_equal_model.

(** the node invariant [wf] (start <= end, bitmap inside [start,end], left subtree entirely below start, right
    subtree entirely above end) holds of the empty iset and is kept by iset-adjoin-node! (every clause, including
    the node-split general case) for any well-formed node b; the result contains exactly b's elements and a's *)
Theorem iset_adjoin_node_keeps_invariant_and_adds_exactly_b : forall a b, wf a -> a <> Nil -> b <> Nil -> node_ok b ->
  (wf (adjoin_node a b) /\ adjoin_node a b <> Nil) /\
  forall m, contains (adjoin_node a b) m = contains (copy_node b) m || contains a m.
Proof. intros a b Ha Hn Hb Hok. split; [exact (adjoin_node_wf a b Ha Hn Hb Hok) | intro m; exact (adjoin_node_contains a b m Ha Hn Hb Hok)]. Qed.
Print Assumptions iset_adjoin_node_keeps_invariant_and_adds_exactly_b.

(** iset-adjoin1! / iset-adjoin refine the set oracle: invariant kept, listing = set_adjoin of the listing *)
Theorem iset_adjoin_refines_set : forall t n, wf t -> t <> Nil ->
  (wf (adjoin1 t n) /\ adjoin1 t n <> Nil) /\
  (forall m, contains (adjoin1 t n) m = (m =? n)%Z || contains t m) /\
  to_list (adjoin1 t n) = set_adjoin n (to_list t).
Proof. intros t n H Hn. split; [exact (adjoin1_wf t n H Hn) | split; [intro m; exact (adjoin1_contains t n m H Hn) | exact (adjoin1_to_list t n H Hn)]]. Qed.
Print Assumptions iset_adjoin_refines_set.

(** iset-delete1! / iset-delete (range split, bit clear, emptied nodes) refine the set oracle *)
Theorem iset_delete_refines_set : forall t n, wf t ->
  wf (delete1 t n) /\
  (forall m, contains (delete1 t n) m = negb (m =? n)%Z && contains t m) /\
  to_list (delete1 t n) = set_delete n (to_list t).
Proof. intros t n H. split; [exact (delete1_wf t n H) | split; [intro m; exact (delete1_contains t n m H) | exact (delete1_to_list t n H)]]. Qed.
Print Assumptions iset_delete_refines_set.

(** iset-union2! (fold of iset-adjoin-node! over the nodes of b) refines set union *)
Theorem iset_union_refines_set : forall a b, wf a -> a <> Nil -> wf b ->
  (wf (union2 a b) /\ union2 a b <> Nil) /\
  (forall m, contains (union2 a b) m = contains a m || contains b m) /\
  to_list (union2 a b) = set_union (to_list a) (to_list b).
Proof. intros a b Ha Hn Hb. split; [exact (union2_wf a b Ha Hn Hb) | split; [intro m; exact (union2_contains a b m Ha Hn Hb) | exact (union2_to_list a b Ha Hn Hb)]]. Qed.
Print Assumptions iset_union_refines_set.

(** iset->list is strictly increasing and lists exactly what iset-contains? accepts; iset-size is its length *)
Theorem iset_listing_sorted_and_exact : forall t, wf t ->
  (StronglySorted Z.lt (to_list t) /\ forall m, In m (to_list t) <-> contains t m = true) /\
  (forall m, contains t m = set_mem m (to_list t)) /\
  iset_size t = Z.of_nat (length (to_list t)).
Proof. intros t H. split; [exact (to_list_spec t H) | split; [intro m; exact (contains_set_mem t m H) | exact (size_spec t H)]]. Qed.
Print Assumptions iset_listing_sorted_and_exact.

(** the recursive call of the general case of iset-adjoin-node! on a itself only reaches the non-recursive clauses,
    which is how coq/C18/ISet.v writes it (adjoin_node_top) *)
Theorem iset_adjoin_node_inner_call_is_top : forall a b, a <> Nil -> (t_start b <= t_end b)%Z ->
  is_empty a = true \/ (t_start a <= t_start b /\ t_end b <= t_end a)%Z -> adjoin_node a b = adjoin_node_top a b.
Proof. exact adjoin_node_top_eq. Qed.
Print Assumptions iset_adjoin_node_inner_call_is_top.
