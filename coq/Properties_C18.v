(** C18 — sorting and container libraries conform to their abstract data types: property theorems only. *)
(* the red-black tree modules come first: later imports take precedence for the few names both define (keys_sorted) *)
From ChibiV Require Import C18.RBDefs C18.RBTree C18.RBInv C18.RBTie Gen.C18_RBTables C18.RBContent C18.RBInvProofs C18.RBTheorems C18.RBCatenate C18.LQueue C18.LQueueProofs.
From ChibiV Require Import C18.RaList C18.RaListProofs C18.Deque C18.DequeProofs C18.Spec C18.Model C18.Proofs C18.Proofs2 C18.Oracle C18.OracleProofs C18.SpecCont C18.ContProofs C18.ISet C18.ISetProofs C18.ISetInter C18.ISetInterProofs C18.ISetInterSummary C18.ISetTie Gen.C18_ISetGuards C18.SeqTie Gen.C18_SeqLeaves.

(** the merge step of both C merge sorts is a stable merge (ties: left run first) *)
Theorem merge_stable : forall (A : Type) (lt : A -> A -> bool), strict_weak_order lt ->
  forall l1 l2, StronglySorted (le lt) l1 -> StronglySorted (le lt) l2 ->
  is_stable_merge lt l1 l2 (merge_runs lt l1 l2).
Proof. exact merge_runs_is_stable_merge. Qed.
Print Assumptions merge_stable.

(** sexp_merge_sort_less, every length: fuel = length suffices, the vec segment ends up an ordered,
    stable permutation of its input *)
Theorem merge_sort_sorted_perm_stable : forall (A : Type) (lt : A -> A -> bool), strict_weak_order lt ->
  forall v, exists r s, msort_less lt (length v) v = Some (r, s) /\
    Permutation v r /\ StronglySorted (le lt) r /\ stable_of lt v r.
Proof. exact msort_less_sorted_perm_stable. Qed.
Print Assumptions merge_sort_sorted_perm_stable.

(** there is exactly one stable sort of an input, so "equals the reference sort" is the whole spec *)
Theorem stable_sort_is_unique : forall (A : Type) (lt : A -> A -> bool), strict_weak_order lt ->
  forall inp o1 o2, is_stable_sort lt inp o1 -> is_stable_sort lt inp o2 -> o1 = o2.
Proof. exact stable_sort_unique. Qed.
Print Assumptions stable_sort_is_unique.

Theorem reference_sort_is_stable_sort : forall (A : Type) (lt : A -> A -> bool), strict_weak_order lt ->
  forall l, is_stable_sort lt l (ssort lt l).
Proof. exact ssort_is_stable_sort. Qed.
Print Assumptions reference_sort_is_stable_sort.

(** sexp_sort_x (repaired), branch with a Scheme [less] / [key] *)
Theorem sort_x_less_refines_spec : forall (A : Type) (lt : A -> A -> bool), strict_weak_order lt ->
  forall v, sort_x_less lt v = Some (ssort lt v).
Proof. exact sort_x_less_is_ssort. Qed.
Print Assumptions sort_x_less_refines_spec.

(** sexp_sort_x (repaired), branch with the built-in comparison, ascending and inverse opcodes *)
Theorem sort_x_basic_refines_spec : forall (A : Type) (cmp : A -> A -> Z), strict_weak_order (cmp_lt A cmp) ->
  forall inverse v, sort_x_basic cmp inverse v = Some (ssort (if inverse then cmp_gt A cmp else cmp_lt A cmp) v).
Proof. exact sort_x_basic_is_ssort. Qed.
Print Assumptions sort_x_basic_refines_spec.

(** merge! / merge of SRFI 95 (repaired) and vector-merge of SRFI 132 *)
Theorem merge95_refines_spec : forall (A : Type) (lt : A -> A -> bool), strict_weak_order lt ->
  forall l1 l2, StronglySorted (le lt) l1 -> StronglySorted (le lt) l2 ->
  exists r, merge95 lt l1 l2 = Some r /\ is_stable_merge lt l1 l2 r.
Proof. exact merge95_is_stable_merge. Qed.
Print Assumptions merge95_refines_spec.

Theorem vector_merge132_refines_spec : forall (A : Type) (lt : A -> A -> bool), strict_weak_order lt ->
  forall v1 v2, StronglySorted (le lt) v1 -> StronglySorted (le lt) v2 -> is_stable_merge lt v1 v2 (vmerge132 lt v1 v2).
Proof. exact vmerge132_is_stable_merge. Qed.
Print Assumptions vector_merge132_refines_spec.

(** the extracted instances that the correspondence run executes *)
Theorem extracted_model_sorts_equal_extracted_spec : forall desc keys,
  model_sort_less desc keys = Some (spec_sort desc keys) /\ model_sort_basic desc keys = Some (spec_sort desc keys).
Proof. intros desc keys. split; [exact (model_sort_less_is_spec desc keys) | exact (model_sort_basic_is_spec desc keys)]. Qed.
Print Assumptions extracted_model_sorts_equal_extracted_spec.

Theorem extracted_model_merges_equal_extracted_spec : forall desc k1 k2, keys_sorted desc k1 -> keys_sorted desc k2 ->
  model_merge95 desc k1 k2 = Some (spec_merge desc k1 k2) /\ model_vmerge132 desc k1 k2 = spec_merge desc k1 k2.
Proof. exact model_merge95_is_spec. Qed.
Print Assumptions extracted_model_merges_equal_extracted_spec.

(** the three defects of the pinned code, as refutations of the unrepaired model functions *)
Theorem pinned_sort_x_vector_result_refuted :
  exists (lt : nat * nat -> nat * nat -> bool) v, strict_weak_order lt /\
    sort_x_less_pinned_vector_result lt v <> Some (map Some (ssort lt v)).
Proof. exact sort_x_less_pinned_vector_result_refuted. Qed.
Print Assumptions pinned_sort_x_vector_result_refuted.

Theorem pinned_sort_x_inverse_opcode_refuted :
  exists v, sort_x_basic_pinned kcmp true v <> Some (ssort (cmp_gt _ kcmp) v).
Proof. exact sort_x_basic_pinned_inverse_refuted. Qed.
Print Assumptions pinned_sort_x_inverse_opcode_refuted.

Theorem pinned_merge95_refuted :
  exists l1 l2, StronglySorted (le klt) l1 /\ StronglySorted (le klt) l2 /\
    forall r, merge95_pinned klt l1 l2 = Some r -> ~ is_stable_merge klt l1 l2 r.
Proof. exact merge95_pinned_refuted. Qed.
Print Assumptions pinned_merge95_refuted.

(** ---- container oracles (coq/C18/SpecCont.v): the laws the abstract models satisfy ---- *)
Local Open Scope Z_scope.

(** sets / integer sets: membership after every constructor *)
Theorem set_oracle_membership_laws : forall y x s t,
  set_mem y (set_adjoin x s) = (y =? x) || set_mem y s /\
  set_mem y (set_delete x s) = negb (y =? x) && set_mem y s /\
  set_mem y (set_union s t) = set_mem y s || set_mem y t /\
  set_mem y (set_inter s t) = set_mem y s && set_mem y t /\
  set_mem y (set_diff s t) = set_mem y s && negb (set_mem y t) /\
  set_mem y (set_xor s t) = xorb (set_mem y s) (set_mem y t).
Proof.
  intros. repeat split; [apply set_mem_adjoin | apply set_mem_delete | apply set_mem_union | apply set_mem_inter
                        | apply set_mem_diff | apply set_mem_xor].
Qed.
Print Assumptions set_oracle_membership_laws.

(** the dumps that are compared are canonical: constructors keep them strictly increasing, and two
    strictly increasing lists with the same members are equal *)
Theorem set_oracle_canonical : forall s t, canon s -> canon t ->
  (forall x, canon (set_adjoin x s)) /\ canon (set_union s t) /\ (forall p, canon (filter p s)) /\
  ((forall x, set_mem x s = set_mem x t) -> s = t).
Proof.
  intros s t Hs Ht. split; [intro x; apply canon_adjoin, Hs|]. split; [apply canon_union, Hs|].
  split; [intro p; apply canon_filter, Hs | apply canon_ext; assumption].
Qed.
Print Assumptions set_oracle_canonical.

(** mappings: mapping-ref after mapping-set / mapping-delete / mapping-adjoin / mapping-union *)
Theorem map_oracle_ref_laws : forall j k v m m2,
  map_ref j (map_set k v m) = (if j =? k then Some v else map_ref j m) /\
  map_ref j (map_delete k m) = (if j =? k then None else map_ref j m) /\
  map_ref j (map_adjoin k v m) = (match map_ref j m with Some w => Some w | None => if j =? k then Some v else None end) /\
  map_ref j (map_union m m2) = (match map_ref j m with Some w => Some w | None => map_ref j m2 end).
Proof. intros. repeat split; [apply map_ref_set | apply map_ref_delete | apply map_ref_adjoin | apply map_ref_union]. Qed.
Print Assumptions map_oracle_ref_laws.

(** bags: bag-element-count after bag-increment!/bag-decrement!/bag-adjoin *)
Theorem bag_oracle_count_law : forall y x n b, (forall z, 0 <= bag_count z b) ->
  bag_count y (bag_incr x n b) = if y =? x then Z.max 0 (bag_count x b + n) else bag_count y b.
Proof. exact bag_count_incr. Qed.
Print Assumptions bag_oracle_count_law.

(** sequences (random-access lists, deques, queues): ref after set, back after add-back, FIFO *)
Theorem seq_oracle_laws : forall (l : list Z) i j x d,
  ((i < length l)%nat -> nth i (seq_set i x l) d = x) /\
  (i <> j -> nth j (seq_set i x l) d = nth j l d) /\
  length (seq_set i x l) = length l /\
  seq_remove_back (seq_add_back l x) = l /\ seq_back (seq_add_back l x) = x /\
  (forall added, skipn (length l) (l ++ added) = added).
Proof.
  intros. split; [apply seq_set_same|]. split; [apply seq_set_other|]. split; [apply seq_set_length|].
  split; [apply (proj1 (deque_remove_back_add_back l x))|]. split; [apply (proj2 (deque_remove_back_add_back l x))|].
  intro added. apply (proj2 (fifo l added)).
Qed.
Print Assumptions seq_oracle_laws.

(** (chibi iset) inside the model.  (G) the guards regenerated from lib/chibi/iset/constructors.scm on every run
    (Gen/C18_ISetGuards.v) are the model's guards: an edit of bits-thresh / range->bits /
    iset-should-merge-left? / iset-should-merge-right? re-opens the proofs below *)
Theorem iset_guards_regenerated_equal_model :
  gen_bits_thresh = bits_thresh /\
  (forall s e, gen_range_bits s e = range_bits s e) /\
  (forall a b, gen_should_merge_left a b = should_merge_left a b) /\
  (forall a b, gen_should_merge_right a b = should_merge_right a b).
Proof. exact iset_guards_tied. Qed.
Print Assumptions iset_guards_regenerated_equal_model.

(** the node invariant [wf] (start <= end, bitmap inside [start,end], left subtree entirely below start, right
    subtree entirely above end) holds of the empty iset and is kept by iset-adjoin-node! (every clause, including
    the node-split general case) for any well-formed node b; the result contains exactly b's elements and a's *)
Theorem iset_adjoin_node_keeps_invariant_and_adds_exactly_b : forall a b, wf a -> a <> Nil -> b <> Nil -> node_ok b ->
  (wf (adjoin_node a b) /\ adjoin_node a b <> Nil) /\
  forall m, contains (adjoin_node a b) m = contains (copy_node b) m || contains a m.
Proof. intros a b Ha Hn Hb Hok. split; [exact (adjoin_node_wf a b Ha Hn Hb Hok) | intro m; exact (adjoin_node_contains a b m Ha Hn Hb Hok)]. Qed.
Print Assumptions iset_adjoin_node_keeps_invariant_and_adds_exactly_b.

(** iset-adjoin1! / iset-adjoin refine the set oracle: invariant kept, listing = set_adjoin of the listing *)
Theorem iset_adjoin_refines_set : forall t n, wf t -> t <> Nil ->
  (wf (adjoin1 t n) /\ adjoin1 t n <> Nil) /\
  (forall m, contains (adjoin1 t n) m = (m =? n)%Z || contains t m) /\
  to_list (adjoin1 t n) = set_adjoin n (to_list t).
Proof. intros t n H Hn. split; [exact (adjoin1_wf t n H Hn) | split; [intro m; exact (adjoin1_contains t n m H Hn) | exact (adjoin1_to_list t n H Hn)]]. Qed.
Print Assumptions iset_adjoin_refines_set.

(** iset-delete1! / iset-delete (range split, bit clear, emptied nodes) refine the set oracle *)
Theorem iset_delete_refines_set : forall t n, wf t ->
  wf (delete1 t n) /\
  (forall m, contains (delete1 t n) m = negb (m =? n)%Z && contains t m) /\
  to_list (delete1 t n) = set_delete n (to_list t).
Proof. intros t n H. split; [exact (delete1_wf t n H) | split; [intro m; exact (delete1_contains t n m H) | exact (delete1_to_list t n H)]]. Qed.
Print Assumptions iset_delete_refines_set.

(** iset-union2! (fold of iset-adjoin-node! over the nodes of b) refines set union *)
Theorem iset_union_refines_set : forall a b, wf a -> a <> Nil -> wf b ->
  (wf (union2 a b) /\ union2 a b <> Nil) /\
  (forall m, contains (union2 a b) m = contains a m || contains b m) /\
  to_list (union2 a b) = set_union (to_list a) (to_list b).
Proof. intros a b Ha Hn Hb. split; [exact (union2_wf a b Ha Hn Hb) | split; [intro m; exact (union2_contains a b m Ha Hn Hb) | exact (union2_to_list a b Ha Hn Hb)]]. Qed.
Print Assumptions iset_union_refines_set.

(** iset->list is strictly increasing and lists exactly what iset-contains? accepts; iset-size is its length *)
Theorem iset_listing_sorted_and_exact : forall t, wf t ->
  (StronglySorted Z.lt (to_list t) /\ forall m, In m (to_list t) <-> contains t m = true) /\
  (forall m, contains t m = set_mem m (to_list t)) /\
  iset_size t = Z.of_nat (length (to_list t)).
Proof. intros t H. split; [exact (to_list_spec t H) | split; [intro m; exact (contains_set_mem t m H) | exact (size_spec t H)]]. Qed.
Print Assumptions iset_listing_sorted_and_exact.

(** the recursive call of the general case of iset-adjoin-node! on a itself only reaches the non-recursive clauses,
    which is how coq/C18/ISet.v writes it (adjoin_node_top) *)
Theorem iset_adjoin_node_inner_call_is_top : forall a b, a <> Nil -> (t_start b <= t_end b)%Z ->
  is_empty a = true \/ (t_start a <= t_start b /\ t_end b <= t_end a)%Z -> adjoin_node a b = adjoin_node_top a b.
Proof. exact adjoin_node_top_eq. Qed.
Print Assumptions iset_adjoin_node_inner_call_is_top.

(** ---- SRFI 134 immutable deques inside the model (coq/C18/Deque.v mirrors lib/srfi/134.scm; proofs in DequeProofs.v) *)
Local Open Scope nat_scope.
(** 134.scm check: from consistent cached lengths it returns a balanced record (lenf <= 3 lenr + 1, lenr <= 3 lenf + 1) denoting the same list *)
Theorem ideque_check_balances :
  forall A lf (f : list A) lr r, lf = length f -> lr = length r ->
  dq_wf (dq_check lf f lr r) /\ dq_to_list (dq_check lf f lr r) = f ++ rev r.
Proof. exact dq_check_balances. Qed.
Print Assumptions ideque_check_balances.

(** every SRFI 134 procedure that builds a deque keeps the balance invariant and denotes the list operation it stands for *)
Theorem ideque_constructors_keep_balance_and_refine_lists :
  (forall A, dq_wf (@dq_empty A) /\ dq_to_list (@dq_empty A) = []) /\
  (forall A (l : list A), dq_wf (dq_of_list l) /\ dq_to_list (dq_of_list l) = l) /\
  (forall A size (init : nat -> A),
     dq_wf (dq_tabulate size init) /\ dq_to_list (dq_tabulate size init) = map init (seq 0 size)) /\
  (forall A (d : dq A) x, dq_wf d ->
     dq_wf (dq_add_front d x) /\ dq_to_list (dq_add_front d x) = x :: dq_to_list d) /\
  (forall A (d : dq A) x, dq_wf d ->
     dq_wf (dq_add_back d x) /\ dq_to_list (dq_add_back d x) = dq_to_list d ++ [x]) /\
  (forall A (d : dq A), dq_wf d ->
     (forall d', dq_remove_front d = Some d' -> dq_wf d' /\ dq_to_list d' = tl (dq_to_list d)) /\
     (dq_remove_front d = None <-> dq_to_list d = [])) /\
  (forall A (d : dq A), dq_wf d ->
     (forall d', dq_remove_back d = Some d' -> dq_wf d' /\ dq_to_list d' = removelast (dq_to_list d)) /\
     (dq_remove_back d = None <-> dq_to_list d = [])) /\
  (forall A (d : dq A), dq_wf d ->
     dq_wf (dq_reverse d) /\ dq_to_list (dq_reverse d) = rev (dq_to_list d)) /\
  (forall A (d : dq A) n, dq_wf d -> n <= dq_length d ->
     dq_wf (dq_take_ d n) /\ dq_to_list (dq_take_ d n) = firstn n (dq_to_list d)) /\
  (forall A (d : dq A) n, dq_wf d -> n <= dq_length d ->
     dq_wf (dq_drop_ d n) /\ dq_to_list (dq_drop_ d n) = skipn n (dq_to_list d)) /\
  (forall A (d : dq A) n, dq_wf d ->
     match dq_take d n with
     | Some d' => n <= length (dq_to_list d) /\ dq_wf d' /\ dq_to_list d' = firstn n (dq_to_list d)
     | None => length (dq_to_list d) < n
     end) /\
  (forall A (d : dq A) n, dq_wf d ->
     match dq_drop d n with
     | Some d' => n <= length (dq_to_list d) /\ dq_wf d' /\ dq_to_list d' = skipn n (dq_to_list d)
     | None => length (dq_to_list d) < n
     end) /\
  (forall A (d : dq A) n, dq_wf d ->
     match dq_take_right d n with
     | Some d' => n <= length (dq_to_list d) /\ dq_wf d' /\
                  dq_to_list d' = skipn (length (dq_to_list d) - n) (dq_to_list d)
     | None => length (dq_to_list d) < n
     end) /\
  (forall A (d : dq A) n, dq_wf d ->
     match dq_drop_right d n with
     | Some d' => n <= length (dq_to_list d) /\ dq_wf d' /\
                  dq_to_list d' = firstn (length (dq_to_list d) - n) (dq_to_list d)
     | None => length (dq_to_list d) < n
     end) /\
  (forall A (d : dq A) n, dq_wf d ->
     match dq_split_at d n with
     | Some (d1, d2) => n <= length (dq_to_list d) /\ dq_wf d1 /\ dq_wf d2 /\
                        dq_to_list d1 = firstn n (dq_to_list d) /\ dq_to_list d2 = skipn n (dq_to_list d)
     | None => length (dq_to_list d) < n
     end) /\
  (forall A (ds : list (dq A)),
     dq_wf (dq_append_all ds) /\ dq_to_list (dq_append_all ds) = concat (map (@dq_to_list A) ds)) /\
  (forall A (d1 d2 : dq A),
     dq_wf (dq_append d1 d2) /\ dq_to_list (dq_append d1 d2) = dq_to_list d1 ++ dq_to_list d2) /\
  (forall A B (g : A -> B) (d : dq A), dq_wf d ->
     dq_wf (dq_map g d) /\ dq_to_list (dq_map g d) = map g (dq_to_list d)) /\
  (forall A B (g : A -> option B) (d : dq A),
     dq_wf (dq_filter_map g d) /\ dq_to_list (dq_filter_map g d) = filter_map_list g (dq_to_list d)) /\
  (forall A B (g : A -> list B) (d : dq A),
     dq_wf (dq_append_map g d) /\ dq_to_list (dq_append_map g d) = flat_map g (dq_to_list d)) /\
  (forall A (p : A -> bool) (d : dq A),
     dq_wf (dq_filter p d) /\ dq_to_list (dq_filter p d) = filter p (dq_to_list d)) /\
  (forall A (p : A -> bool) (d : dq A),
     dq_wf (dq_remove p d) /\ dq_to_list (dq_remove p d) = remove_list p (dq_to_list d)) /\
  (forall A (p : A -> bool) (d : dq A),
     dq_wf (fst (dq_partition p d)) /\ dq_wf (snd (dq_partition p d)) /\
     dq_to_list (fst (dq_partition p d)) = fst (partition p (dq_to_list d)) /\
     dq_to_list (snd (dq_partition p d)) = snd (partition p (dq_to_list d)) /\
     dq_to_list (fst (dq_partition p d)) = filter p (dq_to_list d) /\
     dq_to_list (snd (dq_partition p d)) = filter (fun x => negb (p x)) (dq_to_list d)) /\
  (forall A (p : A -> bool) (d : dq A), dq_wf d ->
     dq_wf (dq_take_while p d) /\ dq_to_list (dq_take_while p d) = fst (span_list p (dq_to_list d))) /\
  (forall A (p : A -> bool) (d : dq A), dq_wf d ->
     dq_wf (dq_drop_while p d) /\ dq_to_list (dq_drop_while p d) = snd (span_list p (dq_to_list d))) /\
  (forall A (p : A -> bool) (d : dq A), dq_wf d ->
     dq_wf (dq_take_while_right p d) /\
     dq_to_list (dq_take_while_right p d) = rev (fst (span_list p (rev (dq_to_list d))))) /\
  (forall A (p : A -> bool) (d : dq A), dq_wf d ->
     dq_wf (dq_drop_while_right p d) /\
     dq_to_list (dq_drop_while_right p d) = rev (snd (span_list p (rev (dq_to_list d))))) /\
  (forall A (p : A -> bool) (d : dq A), dq_wf d ->
     dq_wf (fst (dq_span p d)) /\ dq_wf (snd (dq_span p d)) /\
     dq_to_list (fst (dq_span p d)) = fst (span_list p (dq_to_list d)) /\
     dq_to_list (snd (dq_span p d)) = snd (span_list p (dq_to_list d))) /\
  (forall A (p : A -> bool) (d : dq A), dq_wf d ->
     dq_wf (fst (dq_break p d)) /\ dq_wf (snd (dq_break p d)) /\
     dq_to_list (fst (dq_break p d)) = fst (break_list p (dq_to_list d)) /\
     dq_to_list (snd (dq_break p d)) = snd (break_list p (dq_to_list d))) /\
  (forall A B (d1 : dq A) (d2 : dq B),
     dq_wf (dq_zip2 d1 d2) /\ dq_to_list (dq_zip2 d1 d2) = combine (dq_to_list d1) (dq_to_list d2)).
Proof. exact dq_constructors_keep_invariant_and_refine_lists. Qed.
Print Assumptions ideque_constructors_keep_balance_and_refine_lists.

(** every observer answers what the denoted list answers; front/back/ref/length/empty?/generator need the balance invariant *)
Theorem ideque_observers_refine_lists :
  (forall A (d : dq A), dq_wf d -> dq_front d = hd_error (dq_to_list d)) /\
  (forall A (d : dq A), dq_wf d -> dq_back d = hd_error (rev (dq_to_list d))) /\
  (forall A (d : dq A) n, dq_wf d -> dq_ref d n = nth_error (dq_to_list d) n) /\
  (forall A (d : dq A), dq_wf d -> dq_length d = length (dq_to_list d)) /\
  (forall A (d : dq A), dq_wf d -> (dq_is_empty d = true <-> dq_to_list d = [])) /\
  (forall A S (proc : A -> S -> S) (knil : S) (d : dq A),
     dq_fold proc knil d = fold_left (fun acc x => proc x acc) (dq_to_list d) knil) /\
  (forall A S (proc : A -> S -> S) (knil : S) (d : dq A),
     dq_fold_right proc knil d = fold_right proc knil (dq_to_list d)) /\
  (forall A (p : A -> bool) (d : dq A), dq_any p d = existsb p (dq_to_list d)) /\
  (forall A (p : A -> bool) (d : dq A), dq_every p d = forallb p (dq_to_list d)) /\
  (forall A (p : A -> bool) (d : dq A), dq_find p d = find p (dq_to_list d)) /\
  (forall A (p : A -> bool) (d : dq A), dq_find_right p d = find p (rev (dq_to_list d))) /\
  (forall A (p : A -> bool) (d : dq A), dq_count p d = count_list p (dq_to_list d)) /\
  (forall A (d : dq A), dq_for_each_order d = dq_to_list d) /\
  (forall A (d : dq A), dq_for_each_right_order d = rev (dq_to_list d)) /\
  (forall A (d : dq A), dq_wf d -> dq_drain (dq_length d) d = Some (dq_to_list d)).
Proof. exact dq_observers_refine_lists. Qed.
Print Assumptions ideque_observers_refine_lists.

(** two-argument ideque= equals list= on the denoted lists for a SYMMETRIC elt= (134.scm:197 applies elt= with swapped arguments: see dq_equal_swaps_elt_eq_arguments) *)
Theorem ideque_equal_refines_list_equal_partial :
  forall A (eqb : A -> A -> bool) (d1 d2 : dq A),
  (forall x y, eqb x y = eqb y x) -> dq_wf d1 -> dq_wf d2 ->
  dq_equal eqb d1 d2 = list_eq eqb (dq_to_list d1) (dq_to_list d2).
Proof. exact dq_equal_refines_list_eq_partial. Qed.
Print Assumptions ideque_equal_refines_list_equal_partial.

(** the change class 'a constructor skips check': filter ending in %make-dq breaks ideque-front *)
Theorem ideque_filter_without_check_refuted :
  exists (d : dq nat) (p : nat -> bool),
    dq_wf d /\ dq_front (dq_filter_unchecked p d) <> hd_error (dq_to_list (dq_filter_unchecked p d)).
Proof. exact dq_filter_unchecked_refuted. Qed.
Print Assumptions ideque_filter_without_check_refuted.

(** ---- SRFI 101 random-access lists inside the model (coq/C18/RaList.v mirrors lib/srfi/101.scm; proofs in RaListProofs.v) *)
(** 101.scm ra:cons keeps the canonical skew-binary form (perfect trees of sizes 2^h-1, heights strictly increasing except possibly the first two) and conses *)
Theorem ralist_cons_keeps_canonical_form :
  forall A (x : A) ls, ra_canon ls ->
  ra_canon (ra_cons x ls) /\ ra_flat (ra_cons x ls) = x :: ra_flat ls /\
  ra_length (ra_cons x ls) = S (ra_length ls).
Proof. exact ra_cons_canon. Qed.
Print Assumptions ralist_cons_keeps_canonical_form.

(** ra:car+cdr on a canonical non-empty list: head, canonical tail *)
Theorem ralist_car_cdr_keep_canonical_form :
  forall A (ls : ralist A), ra_canon ls -> ls <> [] ->
  exists a d, ra_car_cdr ls = Some (a, d) /\ ra_canon d /\ ra_flat ls = a :: ra_flat d /\
              ra_length ls = S (ra_length d).
Proof. exact ra_car_cdr_canon. Qed.
Print Assumptions ralist_car_cdr_keep_canonical_form.

(** random-access-list->linear-access-list (the car/cdr walk) lists the preorder of the trees *)
Theorem ralist_listing_by_car_cdr :
  forall A (ls : ralist A), ra_canon ls ->
  ra_to_list (ra_length ls) ls = Some (ra_flat ls).
Proof. exact ra_to_list_flat. Qed.
Print Assumptions ralist_listing_by_car_cdr.

(** the canonical form is unique per length: lists of equal length have equal tree sizes (the fact the n-ary map relies on) *)
Theorem ralist_canonical_form_unique_per_length :
  forall A B (l1 : ralist A) (l2 : ralist B),
  ra_canon l1 -> ra_canon l2 -> ra_length l1 = ra_length l2 -> ra_sizes l1 = ra_sizes l2.
Proof. exact ra_canon_unique_shape. Qed.
Print Assumptions ralist_canonical_form_unique_per_length.

(** largest-skew-binary n is the largest 2^k-1 <= n *)
Theorem ralist_largest_skew_binary_correct :
  forall n, 1 <= n ->
  exists k, 1 <= k /\ ra_largest_skew_binary n n = Some (2 ^ k - 1) /\ 2 ^ k - 1 <= n /\ n < 2 ^ (S k) - 1.
Proof. exact ra_largest_skew_binary_spec. Qed.
Print Assumptions ralist_largest_skew_binary_correct.

(** ra:make-list (greedy decomposition by largest-skew-binary) ends, is canonical and holds k copies *)
Theorem ralist_make_list_canonical :
  forall A k (x : A),
  exists ls, ra_make_list k x = Some ls /\ ra_canon ls /\ ra_flat ls = repeat x k /\ ra_length ls = k.
Proof. exact ra_make_list_canon. Qed.
Print Assumptions ralist_make_list_canonical.

(** n-ary map (two lists) over canonical lists of equal length succeeds, is canonical and maps the zipped elements *)
Theorem ralist_binary_map_on_equal_lengths :
  forall A B C (f : A -> B -> C) l1 l2,
  ra_canon l1 -> ra_canon l2 -> ra_length l1 = ra_length l2 ->
  exists r, ra_map2 f l1 l2 = Some r /\ ra_canon r /\
    ra_flat r = map (fun p => f (fst p) (snd p)) (combine (ra_flat l1) (ra_flat l2)) /\
    ra_sizes r = ra_sizes l1.
Proof. exact ra_map2_canon. Qed.
Print Assumptions ralist_binary_map_on_equal_lengths.

(** the same with three lists *)
Theorem ralist_ternary_map_on_equal_lengths :
  forall A B C D (f : A -> B -> C -> D) l1 l2 l3,
  ra_canon l1 -> ra_canon l2 -> ra_canon l3 ->
  ra_length l1 = ra_length l2 -> ra_length l1 = ra_length l3 ->
  exists r, ra_map3 f l1 l2 l3 = Some r /\ ra_canon r /\
    ra_flat r = map (fun p => f (fst (fst p)) (snd (fst p)) (snd p))
                    (combine (combine (ra_flat l1) (ra_flat l2)) (ra_flat l3)) /\
    ra_sizes r = ra_sizes l1.
Proof. exact ra_map3_canon. Qed.
Print Assumptions ralist_ternary_map_on_equal_lengths.

(** for-each with two lists (repaired: tree-for-each/n) visits the zipped elements in order *)
Theorem ralist_binary_for_each_in_order :
  forall A B C (f : A -> B -> C) l1 l2,
  ra_canon l1 -> ra_canon l2 -> ra_length l1 = ra_length l2 ->
  ra_for_each2 f l1 l2 = Some (map (fun p => f (fst p) (snd p)) (combine (ra_flat l1) (ra_flat l2))).
Proof. exact ra_for_each2_canon. Qed.
Print Assumptions ralist_binary_for_each_in_order.

(** ra:list-ref (tree-ref, tree-ref/a) = nth, None exactly out of range *)
Theorem ralist_list_ref_refines_nth :
  forall A (ls : ralist A) i, ra_canon ls ->
  ra_list_ref ls i = nth_error (ra_flat ls) i.
Proof. exact ra_list_ref_refines_nth. Qed.
Print Assumptions ralist_list_ref_refines_nth.

(** ra:list-ref/update (tree-ref/update) = nth and functional update, shape unchanged *)
Theorem ralist_list_ref_update_refines :
  forall A (ls : ralist A) i (f : A -> A),
  ra_canon ls -> i < ra_length ls ->
  exists v ls', ra_list_ref_update ls i f = Some (v, ls') /\ nth_error (ra_flat ls) i = Some v /\
    ra_flat ls' = firstn i (ra_flat ls) ++ f v :: skipn (S i) (ra_flat ls) /\
    ra_canon ls' /\ ra_sizes ls' = ra_sizes ls.
Proof. exact ra_list_ref_update_refines. Qed.
Print Assumptions ralist_list_ref_update_refines.

(** ra:list / linear-access-list->random-access-list *)
Theorem ralist_of_list_canonical :
  forall A (xs : list A),
  ra_canon (ra_of_list xs) /\ ra_flat (ra_of_list xs) = xs.
Proof. exact ra_of_list_canon. Qed.
Print Assumptions ralist_of_list_canonical.

(** ra:append *)
Theorem ralist_append_canonical :
  forall A (l1 l2 : ralist A), ra_canon l2 ->
  ra_canon (ra_append l1 l2) /\ ra_flat (ra_append l1 l2) = ra_flat l1 ++ ra_flat l2.
Proof. exact ra_append_canon. Qed.
Print Assumptions ralist_append_canonical.

(** ra:reverse *)
Theorem ralist_reverse_canonical :
  forall A (ls : ralist A),
  ra_canon (ra_reverse ls) /\ ra_flat (ra_reverse ls) = rev (ra_flat ls).
Proof. exact ra_reverse_canon. Qed.
Print Assumptions ralist_reverse_canonical.

(** unary ra:map *)
Theorem ralist_map_canonical :
  forall A B (f : A -> B) (ls : ralist A), ra_canon ls ->
  ra_canon (ra_map f ls) /\ ra_flat (ra_map f ls) = map f (ra_flat ls) /\
  ra_sizes (ra_map f ls) = ra_sizes ls.
Proof. exact ra_map_canon. Qed.
Print Assumptions ralist_map_canonical.

(** ra:list-tail *)
Theorem ralist_list_tail_canonical :
  forall A (ls : ralist A) j, ra_canon ls -> j <= ra_length ls ->
  exists d, ra_list_tail ls j = Some d /\ ra_canon d /\ ra_flat d = skipn j (ra_flat ls).
Proof. exact ra_list_tail_canon. Qed.
Print Assumptions ralist_list_tail_canonical.

(** equal? (structural equality of the records) on canonical lists = equality of the denoted lists *)
Theorem ralist_equal_on_canonical_forms :
  forall A (eqb : A -> A -> bool), (forall x y, eqb x y = true <-> x = y) ->
  forall l1 l2, ra_canon l1 -> ra_canon l2 -> (ra_equal eqb l1 l2 = true <-> ra_flat l1 = ra_flat l2).
Proof. exact ra_equal_canon. Qed.
Print Assumptions ralist_equal_on_canonical_forms.

(** the change class 'largest-skew-binary off by one at 2^k-1': make-list 3 with sizes (1 1 1) answers length/ref/listing correctly, is not canonical, and the binary map with (list 1 2 3) fails *)
Theorem ralist_noncanonical_make_list_refuted :
  ra_largest_skew_binary_ge 3 3 = Some 1 /\
  ra_largest_skew_binary 3 3 = Some 3 /\
  ~ ra_canon ra_bad3 /\
  ra_flat ra_bad3 = [0; 0; 0] /\ ra_length ra_bad3 = 3 /\
  (forall i, ra_list_ref ra_bad3 i = nth_error [0; 0; 0] i) /\
  ra_to_list 3 ra_bad3 = Some [0; 0; 0] /\
  ra_map2 Nat.add ra_bad3 (ra_of_list [1; 2; 3]) = None /\
  (exists r, ra_make_list 3 0 = Some r /\ ra_sizes r = [3] /\
             ra_map2 Nat.add r (ra_of_list [1; 2; 3]) = Some (ra_of_list [1; 2; 3])).
Proof. exact ra_noncanonical_make_list_refuted. Qed.
Print Assumptions ralist_noncanonical_make_list_refuted.

(** (G) half, skew-succ, largest-skew-binary of lib/srfi/101.scm and C, check of lib/srfi/134.scm, regenerated from the Scheme
    source on every run, are the model functions the theorems above are about *)
Theorem seq_leaves_regenerated_equal_model :
  (forall n, gen_half n = ra_half n) /\
  (forall t, gen_skew_succ t = ra_skew_succ t) /\
  (forall fuel n, gen_largest_skew_binary fuel n = ra_largest_skew_binary fuel n) /\
  gen_C = dq_C /\
  (forall A lf (f : list A) lr r, gen_check lf f lr r = dq_check lf f lr r).
Proof. exact seq_leaves_tied. Qed.
Print Assumptions seq_leaves_regenerated_equal_model.

(** ---- SRFI 146 red-black tree inside the model (coq/C18/RBTree.v mirrors lib/srfi/146/rbtree.scm and the mapping.scm procedures on top) *)

(** (G) the `tree-match` clause tables regenerated from lib/srfi/146/rbtree.scm on every run (Gen/C18_RBTables.v) are the model's
    tables (by conversion): an edited pattern / template / clause order re-opens the proofs *)
Theorem rbtree_tables_regenerated_equal_model :
  (forall t, gen_blacken t = blacken t) /\ (forall t, gen_redden t = redden t) /\
  (forall t, gen_white_to_black t = white_to_black t) /\ (forall t, gen_balance t = balance t) /\
  (forall t, gen_rotate t = rotate t) /\ (forall t, gen_min_delete t = min_delete t) /\
  (forall t c a b, gen_remove_at t c a b = remove_at t c a b).
Proof. exact rb_tables_tied. Qed.
Print Assumptions rbtree_tables_regenerated_equal_model.

Local Open Scope Z_scope.
Import ListNotations.

(** tree-search (rbtree.scm:221-279) with EVERY decision of its continuations (insert / ignore / escape when the key is absent;
    update / remove / escape when it is present): on a tree that satisfies the red-black invariant (root black, only black leaves,
    no white = double-black node, no red node with a red child, equal black height on all paths) it never raises "tree does
    not match any pattern", and the tree it returns satisfies the invariant again.  Covers insertion (balance), update
    (identity) and deletion (rotate / min+delete / the white nodes of Germane & Might). *)
Theorem rbtree_search_keeps_red_black_invariant : forall t obj f s, rb_inv t ->
  match tree_search t obj f s with Built t' => rb_inv t' | Escaped => True | Raised => False end.
Proof. exact tree_search_keeps_rb_invariant. Qed.
Print Assumptions rbtree_search_keeps_red_black_invariant.

(** the search-tree order and the content: when the continuations keep the searched key, the in-order listing of the returned
    tree is the abstract map after the corresponding insertion / replacement / deletion, and its keys still strictly increase *)
Theorem rbtree_search_refines_map : forall t obj f s t',
  RBInv.keys_sorted t -> (forall k v, f = Insert k v -> k = obj) -> (forall old k v, s obj old = Update k v -> k = obj) ->
  tree_search t obj f s = Built t' ->
  elements t' = map_apply obj f s (elements t) /\ RBInv.keys_sorted t'.
Proof. exact tree_search_refines_map. Qed.
Print Assumptions rbtree_search_refines_map.

(** the rotations and recolourings never change the in-order listing *)
Theorem rbtree_tables_preserve_listing :
  (forall t, elements (balance t) = elements t) /\
  (forall t t', rotate t = Some t' -> elements t' = elements t) /\
  (forall t x t', min_delete t = Some (x, t') -> elements t = x :: elements t') /\
  (forall t, elements (blacken t) = elements t) /\ (forall t, elements (redden t) = elements t).
Proof. exact (conj elements_balance (conj elements_rotate (conj elements_min_delete (conj elements_blacken elements_redden)))). Qed.
Print Assumptions rbtree_tables_preserve_listing.

(** mapping-set / -delete / -adjoin / -replace / -update/default / -delete-all on a valid mapping (red-black invariant + order):
    they return, the result is valid, and it denotes what the finite-map oracle (SpecCont.v) computes *)
Theorem mapping_updates_refine_map_oracle : forall m, mapping_ok m ->
  (forall k v, exists m', mapping_set m k v = Some m' /\ mapping_ok m' /\ elements m' = map_set k v (elements m)) /\
  (forall k, exists m', mapping_delete m k = Some m' /\ mapping_ok m' /\ elements m' = map_delete k (elements m)) /\
  (forall k v, exists m', mapping_adjoin m k v = Some m' /\ mapping_ok m' /\ elements m' = map_adjoin k v (elements m)) /\
  (forall k v, exists m', mapping_replace m k v = Some m' /\ mapping_ok m' /\ elements m' = map_replace k v (elements m)) /\
  (forall k d, exists m', mapping_update m k (fun y => y + 1) d = Some m' /\ mapping_ok m' /\ elements m' = map_bump k d (elements m)) /\
  (forall ks, exists m', mapping_delete_all m ks = Some m' /\ mapping_ok m' /\
              elements m' = fold_left (fun a k => map_delete k a) ks (elements m)).
Proof. exact mapping_updates_total_correct. Qed.
Print Assumptions mapping_updates_refine_map_oracle.

(** mapping-union (left-biased) / -intersection / -difference / -xor of two valid mappings *)
Theorem mapping_set_operations_refine_map_oracle : forall m1 m2, mapping_ok m1 -> mapping_ok m2 ->
  (exists m', mapping_union m1 m2 = Some m' /\ mapping_ok m' /\ elements m' = map_union (elements m1) (elements m2)) /\
  (exists m', mapping_intersection m1 m2 = Some m' /\ mapping_ok m' /\ elements m' = map_inter (elements m1) (elements m2)) /\
  (exists m', mapping_difference m1 m2 = Some m' /\ mapping_ok m' /\ elements m' = map_diff (elements m1) (elements m2)) /\
  (exists m', mapping_xor m1 m2 = Some m' /\ mapping_ok m' /\ elements m' = map_xor (elements m1) (elements m2)).
Proof. exact mapping_set_operations_total_correct. Qed.
Print Assumptions mapping_set_operations_refine_map_oracle.

Theorem mapping_filter_refines_map_oracle : forall (q : Z -> Z -> bool) m, mapping_ok m ->
  exists m', mapping_filter (fun k v => Some (q k v)) m = Some m' /\ mapping_ok m' /\
             elements m' = filter (fun kv => q (fst kv) (snd kv)) (elements m).
Proof. exact mapping_filter_total_correct. Qed.
Print Assumptions mapping_filter_refines_map_oracle.

(** mapping-ref / -contains? / mapping->alist (sorted by key, exactly the denoted map) / -keys / -size / -empty? *)
Theorem mapping_observers_refine_map_oracle : forall m, mapping_ok m ->
  (forall k, mapping_ref m k = Some (map_ref k (elements m))) /\
  (forall k, mapping_contains m k = Some (map_has k (elements m))) /\
  mapping_to_alist m = Some (elements m) /\ StronglySorted Z.lt (map fst (elements m)) /\
  mapping_keys m = Some (map fst (elements m)) /\
  mapping_size m = Some (Z.of_nat (length (elements m))) /\
  mapping_empty m = Some (match elements m with [] => true | _ => false end).
Proof. exact mapping_observers_refine_map. Qed.
Print Assumptions mapping_observers_refine_map_oracle.

Theorem mapping_empty_is_valid : mapping_ok make_tree /\ elements make_tree = [].
Proof. exact mapping_ok_empty. Qed.
Print Assumptions mapping_empty_is_valid.

(** what the invariant buys: no path is longer than twice the black height *)
Theorem rbtree_height_at_most_twice_black_height : forall t, rb_inv t -> (height t <= 2 * bh t)%nat.
Proof. exact height_bound. Qed.
Print Assumptions rbtree_height_at_most_twice_black_height.

(** ---- SRFI 117 list queues inside the model (coq/C18/LQueue.v mirrors lib/srfi/117/queue.scm over a heap of mutable pairs;
    proofs in LQueueProofs.v) *)

(** every constructor / mutator of lib/srfi/117/queue.scm, on well-formed queues ([lq_is h q xs]: the chain from the first pointer is a
    finite acyclic list segment of the heap holding xs AND the last pointer is its last pair, '() iff empty): it returns (or raises exactly
    where the Scheme code does), keeps the invariant, and the list afterwards is the list operation *)
Theorem list_queue_mutators_keep_invariant_and_refine_lists :
  (* make-list-queue, one argument: any proper list of the heap; the new queue SHARES its pairs *)
  (forall h p xs, is_list h p xs -> exists q, lq_make1 h p = Some q /\ q_first q = p /\ lq_is h q xs) /\
  (* make-list-queue, two arguments: correct iff the caller passes the last pair *)
  (forall h p locs xs, lseg h p PNil locs xs -> lq_is h (lq_make2 p (last_ptr locs)) xs) /\
  (* (list-queue x ...) *)
  (forall h xs, exists h' q, lq_of_list h xs = Some (h', q) /\ lq_is h' q xs) /\
  (* list-queue-copy: a new queue with the same elements, the old one is as before *)
  (forall h q xs, lq_is h q xs ->
     exists h' q', lq_copy h q = Some (h', q') /\ lq_is h' q' xs /\ lq_is h' q xs /\ lq_disjoint h' q' q) /\
  (* list-queue-add-front!: cons *)
  (forall h q x xs, lq_is h q xs ->
     exists h' q', lq_add_front h q x = (h', q') /\ lq_is h' q' (x :: xs)) /\
  (* list-queue-add-back!: snoc *)
  (forall h q x xs, lq_is h q xs ->
     exists h' q', lq_add_back h q x = Some (h', q') /\ lq_is h' q' (xs ++ [x])) /\
  (* list-queue-remove-front!: an error on the empty queue, else returns the head, leaves the tail *)
  (forall h q, lq_is h q [] -> lq_remove_front h q = None) /\
  (forall h q a xs, lq_is h q (a :: xs) ->
     exists q', lq_remove_front h q = Some (q', a) /\ lq_is h q' xs) /\
  (* list-queue-remove-back!: an error on the empty queue, else returns the last element, leaves
     the list without it *)
  (forall h q, lq_is h q [] -> lq_remove_back h q = None) /\
  (forall h q xs z, lq_is h q (xs ++ [z]) ->
     exists h' q', lq_remove_back h q = Some (h', q', z) /\ lq_is h' q' xs) /\
  (forall h q xs, lq_is h q xs -> xs <> [] ->
     exists h' q', lq_remove_back h q = Some (h', q', last xs 0%Z) /\ lq_is h' q' (removelast xs)) /\
  (* list-queue-remove-all!: the queue is empty, the result is the old list *)
  (forall h q xs, lq_is h q xs ->
     lq_is h (fst (lq_remove_all q)) [] /\ is_list h (snd (lq_remove_all q)) xs) /\
  (* list-queue-set-list!, no optional argument: any proper list; the old value of q is irrelevant *)
  (forall h q p xs, is_list h p xs -> exists q', lq_set_list1 h q p = Some q' /\ q_first q' = p /\ lq_is h q' xs) /\
  (* list-queue-set-list! with [last]: correct iff the caller passes the last pair *)
  (forall h q p locs xs, lseg h p PNil locs xs -> lq_is h (lq_set_list2 q p (last_ptr locs)) xs) /\
  (* list-queue-concatenate / list-queue-append / list-queue-append!: concat, in fresh pairs *)
  (forall h qs xss, Forall2 (lq_is h) qs xss ->
     exists h' q, lq_concatenate h qs = Some (h', q) /\ lq_is h' q (concat xss) /\ Forall2 (lq_is h') qs xss) /\
  (forall h qs xss, Forall2 (lq_is h) qs xss ->
     exists h' q, lq_append h qs = Some (h', q) /\ lq_is h' q (concat xss) /\ Forall2 (lq_is h') qs xss) /\
  (forall h qs xss, Forall2 (lq_is h) qs xss ->
     exists h' q, lq_append_bang h qs = Some (h', q) /\ lq_is h' q (concat xss) /\ Forall2 (lq_is h') qs xss) /\
  (* list-queue-map: a new queue; list-queue-map!: the same queue with a new list *)
  (forall f h q xs, lq_is h q xs ->
     exists h' q', lq_map f h q = Some (h', q') /\ lq_is h' q' (map f xs) /\ lq_is h' q xs) /\
  (forall f h q xs, lq_is h q xs ->
     exists h' q', lq_map_bang f h q = Some (h', q') /\ lq_is h' q' (map f xs)) /\
  (* list-queue-unfold: [ys] is what SRFI 1 unfold returns; with a queue the elements go in front *)
  (forall fuel stop mapper succ seed ys h, unfold_list fuel stop mapper succ seed = Some ys ->
     (exists h' q', lq_unfold fuel stop mapper succ seed h None = Some (h', q') /\ lq_is h' q' ys) /\
     (forall q xs, lq_is h q xs ->
        exists h' q', lq_unfold fuel stop mapper succ seed h (Some q) = Some (h', q') /\
                      lq_is h' q' (ys ++ xs))) /\
  (* list-queue-unfold-right: with a queue the elements go to the back *)
  (forall fuel stop mapper succ seed ys h, unfold_right_list fuel stop mapper succ seed [] = Some ys ->
     (exists h' q', lq_unfold_right fuel stop mapper succ seed h None = Some (h', q') /\ lq_is h' q' ys) /\
     (forall q xs, lq_is h q xs ->
        exists h' q', lq_unfold_right fuel stop mapper succ seed h (Some q) = Some (h', q') /\
                      lq_is h' q' (xs ++ ys))).
Proof. exact lq_mutators_keep_invariant_and_refine_lists. Qed.
Print Assumptions list_queue_mutators_keep_invariant_and_refine_lists.

(** the observers answer what the list answers *)
Theorem list_queue_observers_refine_lists :
  (* list-queue-front = car of the list, an error on the empty queue *)
  (forall h q xs, lq_is h q xs -> lq_front h q = hd_error xs) /\
  (* list-queue-back = the last element, an error on the empty queue *)
  (forall h q, lq_is h q [] -> lq_back h q = None) /\
  (forall h q xs z, lq_is h q (xs ++ [z]) -> lq_back h q = Some z) /\
  (forall h q xs, lq_is h q xs -> xs <> [] -> lq_back h q = Some (last xs 0%Z)) /\
  (* list-queue-empty? *)
  (forall h q xs, lq_is h q xs -> (lq_is_empty q = true <-> xs = [])) /\
  (* list-queue-list returns the pointer to the list itself (no copy) *)
  (forall h q xs, lq_is h q xs -> chain h (lq_list_ptr q) = Some xs) /\
  (* list-queue-first-last: the list and its last pair, which make-list-queue accepts back *)
  (forall h q xs, lq_is h q xs ->
     exists locs, lseg h (fst (lq_first_last q)) PNil locs xs /\ snd (lq_first_last q) = last_ptr locs /\
                  lq_make2 (fst (lq_first_last q)) (snd (lq_first_last q)) = q) /\
  (* list-queue-for-each calls proc on the elements from first to last *)
  (forall (S : Type) (f : Z -> S -> S) h q xs s, lq_is h q xs ->
     lq_for_each f h q s = Some (fold_left (fun s x => f x s) xs s)) /\
  (forall h q xs, lq_is h q xs -> lq_for_each (fun x tr => tr ++ [x]) h q [] = Some xs).
Proof. exact lq_observers_refine_lists. Qed.
Print Assumptions list_queue_observers_refine_lists.

(** no interference: a set-cdr! / record update on one queue leaves every DISJOINT well-formed queue of the same heap as it was *)
Theorem list_queue_frame :
  (forall h q1 q2 x xs2,
     lq_wf h q1 -> lq_is h q2 xs2 -> lq_disjoint h q1 q2 ->
     exists h' q1', lq_add_back h q1 x = Some (h', q1') /\ lq_undisturbed h h' q1' q2 xs2) /\
  (forall h q1 q2 xs2 h' q1' z,
     lq_wf h q1 -> lq_is h q2 xs2 -> lq_disjoint h q1 q2 ->
     lq_remove_back h q1 = Some (h', q1', z) -> lq_undisturbed h h' q1' q2 xs2) /\
  (forall f h q1 q2 xs2 h' q1',
     lq_wf h q1 -> lq_is h q2 xs2 ->
     lq_map_bang f h q1 = Some (h', q1') ->
     lq_is h' q2 xs2 /\ lq_locs h' q2 = lq_locs h q2 /\ lq_disjoint h' q1' q2).
Proof. exact lq_frame. Qed.
Print Assumptions list_queue_frame.

(** the same for every destructive operation ([lq_step]); the conclusion re-establishes the hypotheses, so it iterates *)
Theorem list_queue_frame_every_mutator : forall h q1 h' q1' q2 xs2,
  lq_wf h q1 -> lq_step h q1 h' q1' -> lq_is h q2 xs2 -> lq_disjoint h q1 q2 ->
  lq_wf h' q1' /\ lq_undisturbed h h' q1' q2 xs2.
Proof. exact lq_frame_all_mutators. Qed.
Print Assumptions list_queue_frame_every_mutator.

(** queues that SHARE pairs (make-list-queue on another queue's list) do disturb each other: SRFI 117 leaves that to the caller *)
Theorem list_queue_frame_without_disjointness_refuted :
  ~ (forall h q1 q2 x xs2 h' q1',
       lq_wf h q1 -> lq_is h q2 xs2 -> lq_add_back h q1 x = Some (h', q1') -> lq_is h' q2 xs2).
Proof. exact lq_frame_without_disjointness_refuted. Qed.
Print Assumptions list_queue_frame_without_disjointness_refuted.

(** regression witness of the repaired defect (e)7: the pinned remove-back! loop left the last pointer on the removed pair *)
Theorem list_queue_remove_back_before_fix_refuted :
  exists h q h1 q1 h2 q2,
    lq_is h q [1; 2; 3]%Z /\
    lq_remove_back_before_fix h q = Some (h1, q1, 3%Z) /\ lq_list h1 q1 = Some [1; 2]%Z /\
    ~ lq_wf h1 q1 /\ lq_back h1 q1 = Some 3%Z /\
    lq_add_back h1 q1 4%Z = Some (h2, q2) /\ lq_list h2 q2 = Some [1; 2]%Z.
Proof. exact lq_remove_back_before_fix_refuted. Qed.
Print Assumptions list_queue_remove_back_before_fix_refuted.

(** F-C18-14 as a theorem about the code AS IT IS (coq/C18/RBCatenate.v: black-height's patterns bind the colour instead of testing it, so it is
    constantly 0 and tree-catenate always puts a black node on top): two valid mappings whose catenation violates the red-black invariant;
    a deletion on the result leaves a white leaf, on which mapping->alist raises *)
Theorem rbtree_catenate_keeps_invariant_refuted :
  rb_inv f14_t1 /\ rb_inv f14_t2 /\ RBInv.keys_sorted f14_t1 /\ RBInv.keys_sorted f14_t2 /\
  exists t, tree_catenate f14_t1 2 0 f14_t2 = Some t /\ ~ rb_inv t /\
    exists t', mapping_delete t 1 = Some t' /\ ~ rb_inv t' /\ mapping_to_alist t' = None.
Proof. exact tree_catenate_keeps_invariant_refuted. Qed.
Print Assumptions rbtree_catenate_keeps_invariant_refuted.

(** ---- (chibi iset) intersection / difference inside the model (coq/C18/ISetInter.v mirrors iset-intersection2! and iset-difference2! of
    lib/chibi/iset/constructors.scm: the loops over the pre-collected node lists; the in-place mutation of a's nodes is an in-order
    traversal threading the list of b-nodes; proofs in ISetInterProofs.v) *)
Theorem iset_intersection_refines_set : forall a b t m, wf a -> wf b -> a <> Nil -> b <> Nil ->
  intersection2 a b = Some t ->
  wf t /\ t <> Nil /\ contains t m = (contains a m && contains b m)%bool.
Proof. exact ISetInterProofs.iset_intersection_refines_set. Qed.
Print Assumptions iset_intersection_refines_set.

Theorem iset_difference_refines_set : forall a b t m, wf a -> wf b -> a <> Nil -> b <> Nil ->
  difference2 a b = Some t ->
  wf t /\ t <> Nil /\ contains t m = (contains a m && negb (contains b m))%bool.
Proof. exact ISetInterProofs.iset_difference_refines_set. Qed.
Print Assumptions iset_difference_refines_set.

(** the listings are the oracle's set_inter / set_diff, and the fuel of the two loops (a function of the node counts only) always suffices *)
Theorem iset_intersection_difference_listings_and_termination : forall a b, wf a -> wf b ->
  (exists t, intersection2 a b = Some t /\ to_list t = set_inter (to_list a) (to_list b)) /\
  (exists t, difference2 a b = Some t /\ to_list t = set_diff (to_list a) (to_list b)).
Proof. exact iset_interdiff_listings_total. Qed.
Print Assumptions iset_intersection_difference_listings_and_termination.
