From Coq Require Import ExtrOcamlBasic.
From ChibiV Require Import Common.ExtractBase C06.Defs C06.WindSpec Gen.C06_Travel C06.Machine C06.StackModel C06.ValuesModel.
Extraction "model.ml" ext_base run_script_impl run_script_spec step_spec init travel_to_point wind_script travel_fuel save_stack restore_stack restore_stack_g cwv_args cont_deliver values.
