(** C05 — the frame-preservation premise of [tail_loop_bounded], opcode by opcode: every
    instruction of the model VM that neither calls nor returns leaves fp and the four header
    slots of the running frame alone, provided the operand stack stays above the header (the
    instruction pops only what was pushed above fp+4) and LOCAL-SET addresses an argument or a
    local, not the header (true of generated code: C03 param_index_layout). *)
From Coq Require Import ZArith List Bool Arith Lia.
From ChibiV Require Import C03.Defs C03.Model C03.Proofs C05.Spec C05.Model C05.Proofs.
Import ListNotations.
Local Open Scope nat_scope.

Lemma sget_app_base : forall (pre r : list value) k, k < length r -> sget (pre ++ r) k = sget r k.
Proof.
  induction pre as [|v pre IH]; intros r k H; [reflexivity|].
  simpl app. rewrite sget_push; [apply IH; assumption|]. rewrite app_length. lia.
Qed.

Lemma frame_info_ext : forall s s', fp s' = fp s ->
  (forall k, fp s <= k < fp s + 4 -> sget (stk s') k = sget (stk s) k) -> frame_info s' = frame_info s.
Proof.
  intros s s' Hf H. unfold frame_info. rewrite Hf. rewrite !H by lia. reflexivity.
Qed.

(** two stacks that share everything from the header downwards have the same frame *)
Lemma shared_base_quiet : forall s s' pre pre' r,
  step s = Next s' -> fp s' = fp s -> stk s = pre ++ r -> stk s' = pre' ++ r -> fp s + 4 <= length r ->
  chain_step s s'.
Proof.
  intros s s' pre pre' r Hs Hf E E' L. apply cs_quiet; [assumption|assumption|].
  apply frame_info_ext; [assumption|]. intros k Hk. rewrite E, E'. rewrite !sget_app_base by lia. reflexivity.
Qed.

(** number of operands an instruction takes off the stack *)
Definition pops (i : instr) : nat :=
  match i with
  | IMakeProc _ _ _ | ILocalSet _ | ICdr | IDrop | IJumpUnless _ => 1
  | ISetCdr | ICons | IMakeVector => 2
  | IVectorSet => 3
  | IPrim p => match p with PCar | PCdr | PNullp | PPairp | PNot => 1 | _ => 2 end
  | _ => 0
  end.

Definition is_ctl (i : instr) : bool :=
  match i with ICall _ | ITailCall _ | IRet | IDone => true | _ => false end.

Ltac crush_match H :=
  repeat (match type of H with
          | context [match ?x with _ => _ end] => destruct x; try discriminate
          end).

Ltac shape2 := refine (ex_intro _ [_; _] (ex_intro _ [_] (ex_intro _ _ (conj eq_refl (conj eq_refl eq_refl))))).
Ltac shape1 := refine (ex_intro _ [_] (ex_intro _ [_] (ex_intro _ _ (conj eq_refl (conj eq_refl eq_refl))))).

Lemma prim_step_shape : forall p st h st' h',
  prim_step p st h = inl (Some (st', h')) ->
  exists pre pre' r, st = pre ++ r /\ st' = pre' ++ r /\ length pre = pops (IPrim p).
Proof.
  intros p st h st' h' H.
  destruct st as [|a [|b r]]; destruct p; cbn [prim_step alloc] in H; try discriminate;
    crush_match H; inversion H; subst; first [shape2 | shape1].
Qed.

Ltac shape_any :=
  first [ refine (ex_intro _ [] (ex_intro _ [] (ex_intro _ _ (conj eq_refl (conj eq_refl eq_refl)))))
        | refine (ex_intro _ [] (ex_intro _ [_] (ex_intro _ _ (conj eq_refl (conj eq_refl eq_refl)))))
        | refine (ex_intro _ [_] (ex_intro _ [] (ex_intro _ _ (conj eq_refl (conj eq_refl eq_refl)))))
        | refine (ex_intro _ [_] (ex_intro _ [_] (ex_intro _ _ (conj eq_refl (conj eq_refl eq_refl)))))
        | refine (ex_intro _ [_; _] (ex_intro _ [] (ex_intro _ _ (conj eq_refl (conj eq_refl eq_refl)))))
        | refine (ex_intro _ [_; _] (ex_intro _ [_] (ex_intro _ _ (conj eq_refl (conj eq_refl eq_refl)))))
        | refine (ex_intro _ [_; _; _] (ex_intro _ [] (ex_intro _ _ (conj eq_refl (conj eq_refl eq_refl))))) ].

(** every instruction other than CALL / TAIL-CALL / RET / DONE / LOCAL-SET keeps fp and only
    replaces the [pops i] topmost operands by at most one result *)
Lemma step_shape : forall s s' i,
  nth_error (code_of (self s)) (ip s) = Some i -> is_ctl i = false ->
  (forall k, i <> ILocalSet k) -> step s = Next s' ->
  fp s' = fp s /\ exists pre pre' r, stk s = pre ++ r /\ stk s' = pre' ++ r /\ length pre = pops i.
Proof.
  intros s s' i Hi Hc Hl H. unfold step in H. rewrite Hi in H. cbv zeta in H.
  remember (stk s) as st eqn:Est.
  destruct i; try discriminate; try (exfalso; eapply Hl; reflexivity).
  all: try (destruct (prim_step p st (heap s)) as [[[st' h']|]|] eqn:P; try discriminate;
            inversion H; subst s'; cbn [stk fp]; split; [reflexivity|]; eapply prim_step_shape; eassumption).
  all: cbn [alloc] in H; crush_match H; inversion H; subst s'; cbn [stk fp]; (split; [reflexivity|]); shape_any.
Qed.

Lemma list_set_length : forall (A : Type) (l : list A) n v, length (list_set l n v) = length l.
Proof. induction l as [|x l IH]; intros [|n] v; simpl; auto. Qed.

Lemma list_set_other : forall (A : Type) (l : list A) n m v, n <> m -> nth_error (list_set l n v) m = nth_error l m.
Proof.
  induction l as [|x l IH]; intros [|n] [|m] v H; simpl; auto; try congruence.
Qed.

Lemma sget_list_set_other : forall r a k v, a < length r -> k < length r -> k <> a ->
  sget (list_set r (length r - 1 - a) v) k = sget r k.
Proof.
  intros r a k v Ha Hk Hne. unfold sget. rewrite list_set_length.
  destruct (k <? length r); [|reflexivity]. apply list_set_other. lia.
Qed.

(** LOCAL-SET k writes stack[fp-1-k]: an argument (below fp) or a local (at or above fp+4) *)
Lemma local_set_quiet : forall s s' k,
  nth_error (code_of (self s)) (ip s) = Some (ILocalSet k) ->
  fp s + 4 + 1 <= length (stk s) ->
  (forall a, slot (fp s) k = Some a -> a < fp s \/ fp s + 4 <= a) ->
  step s = Next s' -> chain_step s s'.
Proof.
  intros s s' k Hi L Hk H. apply cs_quiet; [assumption| |]; unfold step in H; rewrite Hi in H; cbv zeta in H;
    destruct (stk s) as [|v r] eqn:Est; try discriminate;
    destruct (slot (fp s) k) as [a|] eqn:Sl; try discriminate;
    unfold sset in H; destruct (a <? length r) eqn:La; try discriminate; inversion H; subst s'; cbn [stk fp]; [reflexivity|].
  apply frame_info_ext; [reflexivity|]. cbn [stk fp]. intros j Hj. rewrite Est.
  apply Nat.ltb_lt in La. simpl length in L.
  rewrite sget_push by lia. apply sget_list_set_other; try lia.
  destruct (Hk a eq_refl); lia.
Qed.

Definition local_set_ok (s : state) (i : instr) : Prop :=
  match i with
  | ILocalSet k => forall a, slot (fp s) k = Some a -> a < fp s \/ fp s + 4 <= a
  | _ => True
  end.

(** the [cs_quiet] premise of [tail_loop_bounded], for EVERY opcode of the model VM that is not a
    call or a return: if the operands the instruction pops lie above the frame header, the step
    keeps fp and the header, i.e. it is a [chain_step] *)
Theorem noncall_step_quiet : forall s s' i,
  nth_error (code_of (self s)) (ip s) = Some i -> is_ctl i = false ->
  fp s + 4 + pops i <= length (stk s) -> local_set_ok s i ->
  step s = Next s' -> chain_step s s'.
Proof.
  intros s s' i Hi Hc L Hk H.
  destruct i; try solve [eapply local_set_quiet; eauto];
    match goal with Hi' : nth_error _ _ = Some ?i |- _ =>
      destruct (step_shape s s' i Hi' Hc) as [Hf [pre [pre' [r [E [E' Lp]]]]]];
        [intros k0; discriminate|assumption|]
    end;
    eapply shared_base_quiet; try eassumption; rewrite E, app_length in L; cbn [pops] in *; lia.
Qed.

(** hence: a run of the model VM in which no instruction returns and every call is a TAIL-CALL keeps
    the frame base, whatever the instructions in between are *)
Definition step_ok (s : state) : Prop :=
  match nth_error (code_of (self s)) (ip s) with
  | Some (ITailCall _) => exists proc r, stk s = proc :: r
  | Some i => is_ctl i = false /\ fp s + 4 + pops i <= length (stk s) /\ local_set_ok s i
  | None => False
  end.

Inductive run_ok : nat -> state -> state -> Prop :=
| run_0 : forall s, run_ok 0 s s
| run_S : forall n s s' s'', run_ok n s s' -> step_ok s' -> step s' = Next s'' -> run_ok (S n) s s''.

Lemma run_ok_chain : forall n s s', run_ok n s s' -> chain n s s'.
Proof.
  induction 1 as [|n s s' s'' H IH Hok Hs]; [constructor|].
  econstructor; [exact IH|]. unfold step_ok in Hok.
  destruct (nth_error (code_of (self s')) (ip s')) as [i|] eqn:Hi; [|contradiction].
  destruct i; try (destruct Hok as [A [B C]]; eapply noncall_step_quiet; eassumption).
  destruct Hok as [proc [r E]]. eapply cs_tail; eassumption.
Qed.

Theorem tail_run_bounded : forall n s s' b,
  base_of s = Some b -> run_ok n s s' -> base_of s' = Some b.
Proof. intros n s s' b Hb H. eapply tail_loop_bounded; [exact Hb|apply run_ok_chain; exact H]. Qed.
