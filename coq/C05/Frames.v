(** C05 — the frame-preservation premise of [tail_loop_bounded], opcode by opcode: every
    instruction of the model VM that neither calls nor returns leaves fp and the four header
    slots of the running frame alone, provided the operand stack stays above the header (the
    instruction pops only what was pushed above fp+4) and LOCAL-SET addresses an argument or a
    local, not the header (true of generated code: C03 param_index_layout). *)
From Coq Require Import ZArith List Bool Arith Lia.
From ChibiV Require Import C03.Defs C03.Model C03.Proofs C05.Spec C05.Model C05.Proofs.
Import ListNotations.
Local Open Scope nat_scope.

Lemma sget_app_base : forall (pre r : list value) k, k < length r -> sget (pre ++ r) k = sget r k.
Proof.
  induction pre as [|v pre IH]; intros r k H; [reflexivity|].
  simpl app. rewrite sget_push; [apply IH; assumption|]. rewrite app_length. lia.
Qed.

Lemma frame_info_ext : forall s s', fp s' = fp s ->
  (forall k, k < fp s + 4 -> sget (stk s') k = sget (stk s) k) -> frame_info s' = frame_info s.
Proof.
  intros s s' Hf H. unfold frame_info. rewrite Hf. rewrite !H by lia. reflexivity.
Qed.

(** two stacks that share everything from the header downwards have the same frame *)
Lemma shared_base_quiet : forall s s' pre pre' r,
  step s = Next s' -> fp s' = fp s -> stk s = pre ++ r -> stk s' = pre' ++ r -> fp s + 4 <= length r ->
  chain_step s s'.
Proof.
  intros s s' pre pre' r Hs Hf E E' L. apply cs_quiet; [assumption|assumption|].
  apply frame_info_ext; [assumption|]. intros k Hk. rewrite E, E'. rewrite !sget_app_base by lia. reflexivity.
Qed.

(** number of operands an instruction takes off the stack *)
Definition pops (i : instr) : nat :=
  match i with
  | IMakeProc _ _ _ | ILocalSet _ | ICdr | IDrop | IJumpUnless _ => 1
  | ISetCdr | ICons | IMakeVector => 2
  | IVectorSet => 3
  | IPrim p => match p with PCar | PCdr | PNullp | PPairp | PNot => 1 | _ => 2 end
  | _ => 0
  end.

Definition is_ctl (i : instr) : bool :=
  match i with ICall _ | ITailCall _ | IRet | IDone => true | _ => false end.

Ltac crush_match H :=
  repeat (match type of H with
          | context [match ?x with _ => _ end] => destruct x; try discriminate
          end).

Ltac shape2 := refine (ex_intro _ [_; _] (ex_intro _ [_] (ex_intro _ _ (conj eq_refl (conj eq_refl eq_refl))))).
Ltac shape1 := refine (ex_intro _ [_] (ex_intro _ [_] (ex_intro _ _ (conj eq_refl (conj eq_refl eq_refl))))).

Lemma prim_step_shape : forall p st h st' h',
  prim_step p st h = inl (Some (st', h')) ->
  exists pre pre' r, st = pre ++ r /\ st' = pre' ++ r /\ length pre = pops (IPrim p).
Proof.
  intros p st h st' h' H.
  destruct st as [|a [|b r]]; destruct p; cbn [prim_step alloc] in H; try discriminate;
    crush_match H; inversion H; subst; first [shape2 | shape1].
Qed.

Ltac shape_any :=
  first [ refine (ex_intro _ [] (ex_intro _ [] (ex_intro _ _ (conj eq_refl (conj eq_refl eq_refl)))))
        | refine (ex_intro _ [] (ex_intro _ [_] (ex_intro _ _ (conj eq_refl (conj eq_refl eq_refl)))))
        | refine (ex_intro _ [_] (ex_intro _ [] (ex_intro _ _ (conj eq_refl (conj eq_refl eq_refl)))))
        | refine (ex_intro _ [_] (ex_intro _ [_] (ex_intro _ _ (conj eq_refl (conj eq_refl eq_refl)))))
        | refine (ex_intro _ [_; _] (ex_intro _ [] (ex_intro _ _ (conj eq_refl (conj eq_refl eq_refl)))))
        | refine (ex_intro _ [_; _] (ex_intro _ [_] (ex_intro _ _ (conj eq_refl (conj eq_refl eq_refl)))))
        | refine (ex_intro _ [_; _; _] (ex_intro _ [] (ex_intro _ _ (conj eq_refl (conj eq_refl eq_refl))))) ].

(** every instruction other than CALL / TAIL-CALL / RET / DONE / LOCAL-SET keeps fp and only
    replaces the [pops i] topmost operands by at most one result *)
Lemma step_shape : forall s s' i,
  nth_error (code_of (self s)) (ip s) = Some i -> is_ctl i = false ->
  (forall k, i <> ILocalSet k) -> step s = Next s' ->
  fp s' = fp s /\ exists pre pre' r, stk s = pre ++ r /\ stk s' = pre' ++ r /\ length pre = pops i.
Proof.
  intros s s' i Hi Hc Hl H. unfold step in H. rewrite Hi in H. cbv zeta in H.
  remember (stk s) as st eqn:Est.
  destruct i; try discriminate; try (exfalso; eapply Hl; reflexivity).
  all: try (destruct (prim_step p st (heap s)) as [[[st' h']|]|] eqn:P; try discriminate;
            inversion H; subst s'; cbn [stk fp]; split; [reflexivity|]; eapply prim_step_shape; eassumption).
  all: cbn [alloc] in H; crush_match H; inversion H; subst s'; cbn [stk fp]; (split; [reflexivity|]); shape_any.
Qed.
