(** C05 — APPLY1 reuses the frame like TAIL-CALL: whatever make_call is entered with "new arguments
    on top of the part of the stack below the running frame's base" starts the callee's frame at
    that base. *)
From Coq Require Import ZArith List Bool Arith Lia.
From ChibiV Require Import C03.Defs C03.Model C03.Proofs C05.Spec C05.Model C05.Proofs.
Import ListNotations.
Local Open Scope nat_scope.

Lemma skipn_app_exact : forall (A : Type) (a b : list A), skipn (length a) (a ++ b) = b.
Proof. intros A a b. rewrite skipn_app, skipn_all, Nat.sub_diag. reflexivity. Qed.

(** make_call entered with the stack [args ++ bl] (the [length args] arguments on top of [bl]): the
    callee's frame starts right above [bl], for every callee protocol (fixed arity, rest list
    built, empty rest list inserted, unused rest) *)
Lemma make_call_on_base : forall s proc args bl rip rself rfp s',
  make_call s proc (args ++ bl) (length args) rip rself rfp = Next s' ->
  exists i',
    sget (stk s') (fp s') = Some (vint i') /\
    fp s' - i' = length bl /\ i' <= fp s' /\
    length (stk s') = length bl + i' + 4 /\
    sget (stk s') (fp s' + 1) = Some (vint rip) /\
    sget (stk s') (fp s' + 2) = Some rself /\
    sget (stk s') (fp s' + 3) = Some (vint rfp) /\
    below (length bl) (stk s') = bl /\
    self s' = proc /\ ip s' = 0.
Proof.
  intros s proc args bl rip rself rfp s' Hstep.
  set (base := length bl) in *. set (n := length args) in *.
  destruct proc as [l|a|a|flags nargs c vars|g]; try discriminate.
  destruct (make_call_cases _ _ _ _ _ _ _ _ _ _ _ Hstep) as [Li [Ln Hc]]. cbv zeta in Hc.
  assert (Hgen : forall st' i' h', length st' = base + i' -> (exists pre, st' = pre ++ bl) ->
            entered s' (VProc flags nargs c vars) st' i' rip rself rfp h' (globals s) ->
            exists i'0,
              sget (stk s') (fp s') = Some (vint i'0) /\ fp s' - i'0 = base /\ i'0 <= fp s' /\
              length (stk s') = base + i'0 + 4 /\
              sget (stk s') (fp s' + 1) = Some (vint rip) /\ sget (stk s') (fp s' + 2) = Some rself /\
              sget (stk s') (fp s' + 3) = Some (vint rfp) /\
              below base (stk s') = bl /\ self s' = VProc flags nargs c vars /\ ip s' = 0).
  { intros st' i' h' Hl [pre Hp] E. unfold entered in E. subst s'. cbn [stk fp self ip heap globals].
    destruct (sget_header (vint rfp) rself (vint rip) (vint i') st') as [A [B [C D]]].
    exists i'. split; [exact A|]. split; [lia|]. split; [lia|]. split; [simpl; lia|].
    split; [exact B|]. split; [exact C|]. split; [exact D|]. split; [|split; reflexivity].
    rewrite Hp.
    change (vint rfp :: rself :: vint rip :: vint i' :: pre ++ bl)
      with ((vint rfp :: rself :: vint rip :: vint i' :: pre) ++ bl).
    apply below_app_exact. reflexivity. }
  assert (Hsk : skipn n (args ++ bl) = bl) by apply skipn_app_exact.
  assert (Hfn : forall m, m <= n -> length (firstn m (args ++ bl)) = m).
  { intros m Hm. rewrite firstn_length, app_length. fold n. lia. }
  destruct Hc as [[Hfl E]|[[V [U [Lt [h' [l [B E]]]]]]|[V [U [Eq E]]]]].
  - apply (Hgen (args ++ bl) n (heap s)); [rewrite app_length; fold n base; lia|eauto|exact E].
  - apply (Hgen (firstn nargs (args ++ bl) ++ l :: skipn n (args ++ bl)) (S nargs) h'); [| |exact E].
    + rewrite app_length, Hfn by lia. simpl. rewrite Hsk. fold base. lia.
    + exists (firstn nargs (args ++ bl) ++ [l]). rewrite <- app_assoc. simpl. rewrite Hsk. reflexivity.
  - apply (Hgen (firstn n (args ++ bl) ++ VLit LNil :: skipn n (args ++ bl)) (S n) (heap s)); [| |exact E].
    + rewrite app_length, Hfn by lia. simpl. rewrite Hsk. fold base. lia.
    + exists (firstn n (args ++ bl) ++ [VLit LNil]). rewrite <- app_assoc. simpl. rewrite Hsk. reflexivity.
Qed.

(** APPLY1 from a frame whose arguments start at [base = fp - j]: the callee's frame starts at the
    same base whatever the length of the argument list is, the stack ends right above the callee's
    header, the return information is the running frame's own, nothing below the base changes *)
Theorem apply1_frame_reuse : forall s proc lst r j rip rself rfp s',
  stk s = proc :: lst :: r -> frame_info s = Some (j, rip, rself, rfp) ->
  apply1_step s = Next s' ->
  exists i',
    sget (stk s') (fp s') = Some (vint i') /\
    fp s' - i' = fp s - j /\ i' <= fp s' /\
    length (stk s') = (fp s - j) + i' + 4 /\
    sget (stk s') (fp s' + 1) = Some (vint rip) /\
    sget (stk s') (fp s' + 2) = Some rself /\
    sget (stk s') (fp s' + 3) = Some (vint rfp) /\
    below (fp s - j) (stk s') = below (fp s - j) (stk s) /\
    self s' = proc /\ ip s' = 0.
Proof.
  intros s proc lst r j rip rself rfp s' Hs Hf Hstep.
  unfold apply1_step in Hstep. rewrite Hs, Hf in Hstep.
  destruct (list_of_heap (S (length (heap s))) (heap s) lst) as [args|]; [|discriminate].
  destruct (fp s <? j) eqn:G; [discriminate|]. apply Nat.ltb_ge in G.
  assert (Hfp : fp s - j <= length (proc :: lst :: r)).
  { unfold frame_info in Hf. rewrite Hs in Hf. unfold sget in Hf at 1.
    destruct (fp s <? length (proc :: lst :: r)) eqn:L; [|discriminate].
    apply Nat.ltb_lt in L. lia. }
  rewrite <- Hs in Hstep, Hfp.
  pose proof (below_length (fp s - j) (stk s) Hfp) as Hbl.
  destruct (make_call_on_base s proc args (below (fp s - j) (stk s)) rip rself rfp s' Hstep)
    as [i' [A [B [B' [C [D [E [F [H [I J]]]]]]]]]].
  rewrite Hbl in *. exists i'. repeat split; assumption.
Qed.

(** hence a loop whose iteration goes through [apply] keeps its frame base as well: APPLY1 is a
    [chain]-compatible step (same statement as chain_step_base for TAIL-CALL) *)
Theorem apply1_keeps_base : forall s proc lst r s' b,
  stk s = proc :: lst :: r -> base_of s = Some b -> apply1_step s = Next s' -> base_of s' = Some b.
Proof.
  intros s proc lst r s' b Hs Hb Hstep. unfold base_of in Hb.
  destruct (frame_info s) as [[[[j rip] rself] rfp]|] eqn:F; [|discriminate]. inversion Hb; subst b.
  destruct (apply1_frame_reuse s proc lst r j rip rself rfp s' Hs F Hstep)
    as [i' [A [B [B' [C [D [E [G _]]]]]]]].
  unfold base_of. rewrite (frame_info_after_tail s' i' rip rself rfp A D E G). f_equal. exact B.
Qed.
