(** C05 — proofs: tail calls are emitted exactly at tail sites; a tail call reuses the frame;
    chains of tail calls keep the frame base; the stack growth policy. *)
From Coq Require Import ZArith List Bool Arith Lia.
From ChibiV Require Import C03.Defs C03.Model C03.Proofs C05.Spec C05.Model.
Import ListNotations.
Local Open Scope nat_scope.

(* ------------------------------------------------------------------ calls_of *)

Lemma calls_of_app : forall a b, calls_of (a ++ b) = calls_of a ++ calls_of b.
Proof.
  induction a as [|i a IH]; intro b; [reflexivity|].
  destruct i; simpl; rewrite ?IH; reflexivity.
Qed.

Lemma calls_of_repeat_prim : forall p n, calls_of (repeat (IPrim p) n) = [].
Proof. induction n; simpl; auto. Qed.

Lemma calls_of_repeat_push : forall l n, calls_of (repeat (IPush l) n) = [].
Proof. induction n; simpl; auto. Qed.

Lemma opapp_calls : forall p c n,
  calls_of (c ++ (if prim_arith p then repeat (IPrim (prim_opcode p)) n else [IPrim (prim_opcode p)])) = calls_of c.
Proof.
  intros. rewrite calls_of_app. destruct (prim_arith p); [rewrite calls_of_repeat_prim|simpl]; apply app_nil_r.
Qed.

Lemma calls_of_ngr : forall svs cur x o u, calls_of (gen_non_global_ref svs cur x o u) = [].
Proof.
  intros. unfold gen_non_global_ref. rewrite calls_of_app.
  destruct cur as [c|]; [destruct (loc_eqb o (Local (l_id c)))|]; destruct (u && memn x (sv_of svs o)); reflexivity.
Qed.

Lemma calls_of_gen_ref : forall svs cur x o u, calls_of (gen_ref svs cur x o u) = [].
Proof.
  intros. unfold gen_ref. destruct o; [destruct u; reflexivity|].
  destruct cur; [apply calls_of_ngr|reflexivity].
Qed.

Lemma calls_of_closure_fill : forall svs cur l k, calls_of (closure_fill svs cur k l) = [].
Proof.
  induction l as [|[x o] t IH]; intro k; [reflexivity|].
  simpl. rewrite calls_of_app, calls_of_ngr. simpl. apply IH.
Qed.

Lemma calls_of_box_code : forall ps r ls sv, calls_of (box_code ps r ls sv) = [].
Proof. intros. unfold box_code. induction sv; simpl; auto. Qed.

Lemma generate_set_shape : forall tail svs cur x o v, exists mid,
  generate tail svs cur (SetV x o v) = generate false svs cur v ++ mid ++ [IPush LVoid] /\ calls_of mid = [].
Proof.
  intros. cbn [generate]. eexists. split; [reflexivity|].
  destruct o as [|m]; [reflexivity|]. destruct (memn x (svs m)); [|reflexivity].
  rewrite calls_of_app, calls_of_gen_ref. reflexivity.
Qed.

Lemma calls_of_drop_prev_set : forall x o v tail svs cur,
  calls_of (drop_prev (SetV x o v) (generate tail svs cur (SetV x o v))) = calls_of (generate false svs cur v).
Proof.
  intros. destruct (generate_set_shape tail svs cur x o v) as [mid [E M]].
  unfold drop_prev. cbn [is_set_or_lit]. rewrite E.
  rewrite app_assoc, removelast_last, calls_of_app, M, app_nil_r. reflexivity.
Qed.

(* the three list traversals of generate / tail_sites, named so that they can be rewritten *)
Definition gen_rev (tail : bool) (svs : nat -> list name) (cur : option lctx) : list ast -> code :=
  fix go (l : list ast) : code :=
    match l with [] => [] | a :: r => go r ++ generate false svs cur a end.
Definition gen_fwd (svs : nat -> list name) (cur : option lctx) : list ast -> code :=
  fix go (l : list ast) : code :=
    match l with [] => [] | a :: r => generate false svs cur a ++ go r end.
Definition gen_seq (tail : bool) (svs : nat -> list name) (cur : option lctx) : list ast -> code :=
  fix go (l : list ast) : code :=
    match l with
    | [] => []
    | e :: r =>
        match r with
        | [] => generate tail svs cur e
        | _ :: _ => (if is_lit e then [] else drop_prev e (generate false svs cur e)) ++ go r
        end
    end.
Definition ts_rev : list ast -> list (bool * nat) :=
  fix go (l : list ast) : list (bool * nat) :=
    match l with [] => [] | a :: r => go r ++ tail_sites false a end.
Definition ts_fwd : list ast -> list (bool * nat) :=
  fix go (l : list ast) : list (bool * nat) :=
    match l with [] => [] | a :: r => tail_sites false a ++ go r end.
Definition ts_seq (tail : bool) : list ast -> list (bool * nat) :=
  fix go (l : list ast) : list (bool * nat) :=
    match l with
    | [] => []
    | a :: r => match r with [] => tail_sites tail a | _ :: _ => tail_sites false a ++ go r end
    end.

Section Emitted.
  Variable svs0 : unit.
  Let IHT (e : ast) := forall tail svs cur, calls_of (generate tail svs cur e) = tail_sites tail e.

  Lemma gen_rev_calls : forall args, Forall IHT args ->
    forall svs cur, calls_of (gen_rev false svs cur args) = ts_rev args.
  Proof.
    induction 1 as [|a r Ha Hr IH]; intros svs cur; [reflexivity|].
    simpl. rewrite calls_of_app, IH, Ha. reflexivity.
  Qed.

  Lemma gen_fwd_calls : forall args, Forall IHT args ->
    forall svs cur, calls_of (gen_fwd svs cur args) = ts_fwd args.
  Proof.
    induction 1 as [|a r Ha Hr IH]; intros svs cur; [reflexivity|].
    simpl. rewrite calls_of_app, IH, Ha. reflexivity.
  Qed.

  Lemma drop_prev_calls : forall e, IHT e -> forall svs cur,
    calls_of (if is_lit e then [] else drop_prev e (generate false svs cur e)) = tail_sites false e.
  Proof.
    intros e He svs cur. destruct e; cbn [is_lit]; try reflexivity;
      try (unfold drop_prev; cbn [is_set_or_lit]; rewrite calls_of_app, He; simpl; rewrite ?app_nil_r; reflexivity).
    rewrite calls_of_drop_prev_set. simpl tail_sites. specialize (He false svs cur).
    destruct (generate_set_shape false svs cur x o e) as [mid [E M]].
    rewrite E in He. rewrite !calls_of_app, M in He. simpl in He. rewrite !app_nil_r in He. exact He.
  Qed.

  Lemma gen_seq_calls : forall es, Forall IHT es ->
    forall tail svs cur, calls_of (gen_seq tail svs cur es) = ts_seq tail es.
  Proof.
    induction 1 as [|e r He Hr IH]; intros tail svs cur; [reflexivity|].
    destruct r as [|e2 r2].
    - simpl. apply He.
    - change (gen_seq tail svs cur (e :: e2 :: r2))
        with ((if is_lit e then [] else drop_prev e (generate false svs cur e)) ++ gen_seq tail svs cur (e2 :: r2)).
      change (ts_seq tail (e :: e2 :: r2)) with (tail_sites false e ++ ts_seq tail (e2 :: r2)).
      rewrite calls_of_app, IH, (drop_prev_calls e He). reflexivity.
  Qed.
End Emitted.

(** generate emits CALL / TAIL-CALL n exactly at the application sites of R7RS 3.5, with the
    tail flag the SPEC gives them: for every expression, tail context, lambda context *)
Lemma tail_calls_emitted : forall e tail svs cur,
  calls_of (generate tail svs cur e) = tail_sites tail e.
Proof.
  induction e using ast_ind'; intros tail svs cur.
  - reflexivity.
  - simpl. apply calls_of_gen_ref.
  - destruct (generate_set_shape tail svs cur x o e) as [mid [E M]].
    rewrite E, !calls_of_app, M, IHe. simpl. rewrite app_nil_r. reflexivity.
  - cbn [generate]. cbv zeta. rewrite !calls_of_app, IHe1, IHe2, IHe3. simpl. reflexivity.
  - change (generate tail svs cur (Seq es)) with (gen_seq tail svs cur es).
    change (tail_sites tail (Seq es)) with (ts_seq tail es).
    apply gen_seq_calls. assumption.
  - cbn [generate]. cbv zeta. destruct fv as [|f0 fr].
    + reflexivity.
    + rewrite !calls_of_app, calls_of_closure_fill. reflexivity.
  - change (generate tail svs cur (App e args))
      with (gen_rev false svs cur args ++ generate false svs cur e
            ++ [if tail then ITailCall (length args) else ICall (length args)]).
    change (tail_sites tail (App e args)) with (ts_rev args ++ tail_sites false e ++ [(tail, length args)]).
    rewrite !calls_of_app, (gen_rev_calls args H), IHe. destruct tail; reflexivity.
  - change (generate tail svs cur (OpApp p args))
      with ((if prim_inverse p then gen_fwd svs cur args else gen_rev false svs cur args)
            ++ (if prim_arith p then repeat (IPrim (prim_opcode p)) (length args - 1) else [IPrim (prim_opcode p)])).
    change (tail_sites tail (OpApp p args)) with (if operands_forward p then ts_fwd args else ts_rev args).
    rewrite opapp_calls.
    replace (operands_forward p) with (prim_inverse p) by (destruct p; reflexivity).
    destruct (prim_inverse p); [apply gen_fwd_calls|apply gen_rev_calls]; assumption.
Qed.

Definition is_proc (i : instr) : bool :=
  match i with IPushProc _ _ _ | IMakeProc _ _ _ => true | _ => false end.

Lemma ngr_no_proc : forall svs cur x o u i, In i (gen_non_global_ref svs cur x o u) -> is_proc i = false.
Proof.
  intros svs cur x o u i H. unfold gen_non_global_ref in H. apply in_app_or in H. destruct H as [H|H].
  - destruct cur as [c0|]; [destruct (loc_eqb o (Local (l_id c0)))|]; destruct H as [<-|[]]; reflexivity.
  - destruct (u && memn x (sv_of svs o)); [destruct H as [<-|[]]; reflexivity|destruct H].
Qed.

Lemma closure_fill_no_proc : forall svs cur l k i, In i (closure_fill svs cur k l) -> is_proc i = false.
Proof.
  induction l as [|[x o] t IH]; intros k i H; [destruct H|].
  simpl in H. apply in_app_or in H. destruct H as [H|H]; [eapply ngr_no_proc; eassumption|].
  destruct H as [<-|[<-|[<-|H]]]; try reflexivity. eapply IH; eassumption.
Qed.

(** a lambda body is compiled in tail context: its code = entry code ++ body ++ RET, and the calls in
    it are exactly the tail sites of the body with [tail = true] *)
Lemma lambda_body_calls : forall svs cur id ps r ls sv fv b fl n c,
  In (IPushProc fl n c) (generate false svs cur (Lam id ps r ls sv fv b)) \/
  In (IMakeProc fl n c) (generate false svs cur (Lam id ps r ls sv fv b)) ->
  calls_of c = tail_sites true b.
Proof.
  intros svs cur id ps r ls sv fv b fl n c H. cbn [generate] in H. cbv zeta in H.
  assert (E : forall body,
            body = repeat (IPush LUndef) (length ls) ++ box_code ps r ls sv
                   ++ generate true (fun m => if m =? id then sv else svs m) (Some (mk_lctx id ps r ls fv)) b ++ [IRet] ->
            calls_of body = tail_sites true b).
  { intros body ->. rewrite !calls_of_app, calls_of_repeat_push, calls_of_box_code, tail_calls_emitted.
    simpl. apply app_nil_r. }
  destruct fv as [|f0 fr].
  - destruct H as [[H|[]]|[H|[]]]; inversion H; subst. apply E. reflexivity.
  - match type of H with In _ (?pre ++ ?mid ++ [?last]) \/ _ =>
      assert (G : forall i, is_proc i = true -> In i (pre ++ mid ++ [last]) -> i = last)
    end.
    { intros i Hi Hin. apply in_app_or in Hin. destruct Hin as [Hin|Hin].
      - destruct Hin as [<-|[<-|[<-|[]]]]; discriminate.
      - apply in_app_or in Hin. destruct Hin as [Hin|[<-|[]]]; [|reflexivity].
        apply closure_fill_no_proc in Hin. congruence. }
    destruct H as [H|H]; apply G in H; try reflexivity; inversion H; subst. apply E. reflexivity.
Qed.

Example tail_calls_example :
  calls_of (generate true (fun _ => []) None
              (Cnd (App (Ref 1 Global) []) (Seq [App (Ref 2 Global) [Lit (LInt 1)]; App (Ref 3 Global) []])
                   (OpApp PAdd [App (Ref 4 Global) []; Lit (LInt 1)])))
  = [(false, 0); (false, 1); (true, 0); (false, 0)].
Proof. reflexivity. Qed.

(* ------------------------------------------------------------------ frame reuse *)

Lemma below_length : forall k s, k <= length s -> length (below k s) = k.
Proof. intros. unfold below. rewrite skipn_length. lia. Qed.

Lemma below_app_exact : forall (a b : list value) k, length b = k -> below k (a ++ b) = b.
Proof.
  intros a b k H. unfold below. rewrite app_length.
  replace (length a + length b - k) with (length a + 0) by lia.
  rewrite skipn_app. rewrite Nat.add_0_r, skipn_all, Nat.sub_diag. reflexivity.
Qed.

(** TAIL-CALL n from a frame whose arguments start at [base = fp - (number of arguments of the
    running procedure)]: the callee's frame starts at the same base, the stack ends right above
    the callee's header (base + its argument count + 4), the return information is the
    caller's own (so the callee returns to the caller's caller), and nothing below base changes. *)
Lemma tail_call_frame_reuse : forall s n proc r j rip rself rfp s',
  nth_error (code_of (self s)) (ip s) = Some (ITailCall n) ->
  stk s = proc :: r -> frame_info s = Some (j, rip, rself, rfp) ->
  step s = Next s' ->
  exists i',
    sget (stk s') (fp s') = Some (vint i') /\
    fp s' - i' = fp s - j /\ i' <= fp s' /\
    length (stk s') = (fp s - j) + i' + 4 /\
    sget (stk s') (fp s' + 1) = Some (vint rip) /\
    sget (stk s') (fp s' + 2) = Some rself /\
    sget (stk s') (fp s' + 3) = Some (vint rfp) /\
    below (fp s - j) (stk s') = below (fp s - j) (stk s) /\
    self s' = proc /\ ip s' = 0.
Proof.
  intros s n proc r j rip rself rfp s' Hi Hs Hf Hstep.
  unfold step in Hstep. rewrite Hi, Hs, Hf in Hstep.
  destruct ((length r <? n) || (fp s <? j)) eqn:G; [discriminate|].
  apply orb_false_iff in G. destruct G as [G1 G2].
  apply Nat.ltb_ge in G1. apply Nat.ltb_ge in G2.
  assert (Hfp : fp s - j <= length (proc :: r)).
  { (* the frame header is inside the stack, so fp < length *)
    unfold frame_info in Hf. rewrite Hs in Hf. unfold sget in Hf at 1.
    destruct (fp s <? length (proc :: r)) eqn:L; [|discriminate].
    apply Nat.ltb_lt in L. lia. }
  set (base := fp s - j) in *.
  set (bl := below base (proc :: r)) in *.
  assert (Hbl : length bl = base) by (apply below_length; assumption).
  destruct proc as [l|a|a|flags nargs c vars|g]; try discriminate.
  destruct (make_call_cases _ _ _ _ _ _ _ _ _ _ _ Hstep) as [Li [Ln Hc]]. cbv zeta in Hc.
  assert (Hst : length (firstn n r ++ bl) = n + base).
  { rewrite app_length, firstn_length, Hbl. lia. }
  assert (Hgen : forall st' i' h', length st' = base + i' -> (exists pre, st' = pre ++ bl) ->
            entered s' (VProc flags nargs c vars) st' i' rip rself rfp h' (globals s) ->
            exists i'0,
              sget (stk s') (fp s') = Some (vint i'0) /\ fp s' - i'0 = base /\ i'0 <= fp s' /\
              length (stk s') = base + i'0 + 4 /\
              sget (stk s') (fp s' + 1) = Some (vint rip) /\ sget (stk s') (fp s' + 2) = Some rself /\
              sget (stk s') (fp s' + 3) = Some (vint rfp) /\
              below base (stk s') = bl /\ self s' = VProc flags nargs c vars /\ ip s' = 0).
  { intros st' i' h' Hl [pre Hp] E. unfold entered in E. subst s'. cbn [stk fp self ip heap globals].
    destruct (sget_header (vint rfp) rself (vint rip) (vint i') st') as [A [B [C D]]].
    exists i'. split; [exact A|]. split; [lia|]. split; [lia|]. split; [simpl; lia|].
    split; [exact B|]. split; [exact C|]. split; [exact D|]. split; [|split; reflexivity].
    rewrite Hp.
    change (vint rfp :: rself :: vint rip :: vint i' :: pre ++ bl)
      with ((vint rfp :: rself :: vint rip :: vint i' :: pre) ++ bl).
    apply below_app_exact. exact Hbl. }
  assert (Hbb : below base (stk s) = bl) by (rewrite Hs; reflexivity).
  rewrite Hbb.
  destruct Hc as [[Hfl E]|[[V [U [Lt [h' [l [B E]]]]]]|[V [U [Eq E]]]]].
  - apply (Hgen (firstn n r ++ bl) n (heap s)); [lia|eauto|exact E].
  - apply (Hgen (firstn nargs (firstn n r ++ bl) ++ l :: skipn n (firstn n r ++ bl)) (S nargs) h'); [| |exact E].
    + rewrite app_length, firstn_length. simpl. rewrite skipn_length. lia.
    + exists (firstn nargs (firstn n r ++ bl) ++ [l]).
      rewrite <- app_assoc. simpl. f_equal. f_equal.
      rewrite skipn_app. rewrite firstn_length.
      replace (n - Nat.min n (length r)) with 0 by lia. simpl.
      rewrite skipn_all2; [reflexivity|]. rewrite firstn_length. lia.
  - subst n. apply (Hgen (firstn nargs (firstn nargs r ++ bl) ++ VLit LNil :: skipn nargs (firstn nargs r ++ bl)) (S nargs) (heap s)); [| |exact E].
    + rewrite app_length, firstn_length. simpl. rewrite skipn_length. lia.
    + exists (firstn nargs (firstn nargs r ++ bl) ++ [VLit LNil]).
      rewrite <- app_assoc. simpl. f_equal. f_equal.
      rewrite skipn_app. rewrite firstn_length.
      replace (nargs - Nat.min nargs (length r)) with 0 by lia. simpl.
      rewrite skipn_all2; [reflexivity|]. rewrite firstn_length. lia.
Qed.

(** Chains of tail calls.  [tail_step s s'] : s executes TAIL-CALL and s' is the callee's entry.
    [quiet s s'] : any other step that keeps fp and the frame header (premise, stated visibly: it
    holds for every instruction that neither calls nor returns and stays above the header).
    Over any number of such steps the frame base never moves, hence at every loop iteration
    (every callee entry) the stack height is base + argument count + 4: bounded independently of
    the number of iterations. *)
Definition base_of (s : state) : option nat :=
  match frame_info s with Some (j, _, _, _) => Some (fp s - j) | None => None end.

Inductive chain_step : state -> state -> Prop :=
| cs_quiet : forall s s', step s = Next s' -> fp s' = fp s -> frame_info s' = frame_info s -> chain_step s s'
| cs_tail : forall s s' n proc r, nth_error (code_of (self s)) (ip s) = Some (ITailCall n) ->
    stk s = proc :: r -> step s = Next s' -> chain_step s s'.

Inductive chain : nat -> state -> state -> Prop :=
| chain_0 : forall s, chain 0 s s
| chain_S : forall n s s' s'', chain n s s' -> chain_step s' s'' -> chain (S n) s s''.

Lemma frame_info_after_tail : forall s' i' rip rself rfp,
  sget (stk s') (fp s') = Some (vint i') -> sget (stk s') (fp s' + 1) = Some (vint rip) ->
  sget (stk s') (fp s' + 2) = Some rself -> sget (stk s') (fp s' + 3) = Some (vint rfp) ->
  frame_info s' = Some (i', rip, rself, rfp).
Proof.
  intros s' i' rip rself rfp A B C D. unfold frame_info. rewrite A, B, C, D. unfold vint.
  destruct ((Z.of_nat i' <? 0)%Z || (Z.of_nat rip <? 0)%Z || (Z.of_nat rfp <? 0)%Z) eqn:G.
  - exfalso. apply orb_true_iff in G. destruct G as [G|G]; [apply orb_true_iff in G; destruct G as [G|G]|];
      apply Z.ltb_lt in G; lia.
  - rewrite !Nat2Z.id. reflexivity.
Qed.

Lemma chain_step_base : forall s s' b, base_of s = Some b -> chain_step s s' -> base_of s' = Some b.
Proof.
  intros s s' b Hb H. destruct H as [s s' Hs Hfp Hfi|s s' n proc r Hi Hst Hs].
  - unfold base_of in *. rewrite Hfi, Hfp. exact Hb.
  - unfold base_of in Hb. destruct (frame_info s) as [[[[j rip] rself] rfp]|] eqn:F; [|discriminate].
    inversion Hb; subst b.
    destruct (tail_call_frame_reuse s n proc r j rip rself rfp s' Hi Hst F Hs)
      as [i' [A [B [B' [C [D [E [G [_ _]]]]]]]]].
    unfold base_of. rewrite (frame_info_after_tail s' i' rip rself rfp A D E G). f_equal. exact B.
Qed.

Lemma tail_loop_bounded : forall n s s' b,
  base_of s = Some b -> chain n s s' -> base_of s' = Some b.
Proof.
  intros n s s' b Hb H. induction H as [|n s s' s'' H IH Hs]; [assumption|].
  eapply chain_step_base; [apply IH; assumption|eassumption].
Qed.

(** the height right after any tail call of the chain *)
Lemma tail_entry_height : forall n s s' s'' b k proc r,
  base_of s = Some b -> chain n s s' ->
  nth_error (code_of (self s')) (ip s') = Some (ITailCall k) -> stk s' = proc :: r -> step s' = Next s'' ->
  exists i', sget (stk s'') (fp s'') = Some (vint i') /\ length (stk s'') = b + i' + 4.
Proof.
  intros n s s' s'' b k proc r Hb Hc Hi Hst Hs.
  pose proof (tail_loop_bounded n s s' b Hb Hc) as Hb'.
  unfold base_of in Hb'. destruct (frame_info s') as [[[[j rip] rself] rfp]|] eqn:F; [|discriminate].
  inversion Hb'; subst b.
  destruct (tail_call_frame_reuse s' k proc r j rip rself rfp s'' Hi Hst F Hs)
    as [i' [A [B [B' [C _]]]]].
  exists i'. split; assumption.
Qed.

(** instances of the [cs_quiet] premise: instructions that only push a value are quiet whenever the
    stack is at or above the end of the frame header *)
Lemma sget_push : forall v l k, k < length l -> sget (v :: l) k = sget l k.
Proof.
  intros v l k H. unfold sget. simpl length.
  destruct (Nat.ltb_spec k (S (length l))) as [A|A]; [|lia].
  destruct (Nat.ltb_spec k (length l)) as [B|B]; [|lia].
  replace (S (length l) - 1 - k) with (S (length l - 1 - k)) by lia. reflexivity.
Qed.

Lemma push_keeps_frame : forall s v ip',
  fp s + 4 <= length (stk s) ->
  frame_info (mkst (v :: stk s) (fp s) (self s) ip' (heap s) (globals s)) = frame_info s.
Proof.
  intros s v ip' H. unfold frame_info. cbn [stk fp]. rewrite !sget_push by lia. reflexivity.
Qed.

Lemma push_is_quiet : forall s l, fp s + 4 <= length (stk s) ->
  nth_error (code_of (self s)) (ip s) = Some (IPush l) ->
  exists s', step s = Next s' /\ chain_step s s'.
Proof.
  intros s l H Hi. eexists. split.
  - unfold step. rewrite Hi. reflexivity.
  - apply cs_quiet.
    + unfold step. rewrite Hi. reflexivity.
    + reflexivity.
    + apply push_keeps_frame. assumption.
Qed.

Lemma closure_ref_is_quiet : forall s k s', fp s + 4 <= length (stk s) ->
  nth_error (code_of (self s)) (ip s) = Some (IClosureRef k) -> step s = Next s' -> chain_step s s'.
Proof.
  intros s k s' H Hi Hs. apply cs_quiet; [assumption| |].
  - unfold step in Hs. rewrite Hi in Hs.
    destruct (vars_of (self s)); try discriminate. destruct (nth_error (heap s) a) as [[|els]|]; try discriminate.
    destruct (nth_error els k); [|discriminate]. inversion Hs. reflexivity.
  - unfold step in Hs. rewrite Hi in Hs.
    destruct (vars_of (self s)); try discriminate. destruct (nth_error (heap s) a) as [[|els]|]; try discriminate.
    destruct (nth_error els k); [|discriminate]. inversion Hs. apply push_keeps_frame. assumption.
Qed.

(* ------------------------------------------------------------------ stack growth policy *)

Local Open Scope Z_scope.

(** (repaired code) when sexp_ensure_stack(n) lets execution continue, top + n is inside the stack *)
Lemma ensure_stack_sufficient : forall top n len len',
  0 <= top < len -> 0 <= n -> len <= MAX_STACK_SIZE ->
  ensure_stack true top n len = Enough len' ->
  top + n < len' /\ len <= len' <= MAX_STACK_SIZE.
Proof.
  intros top n len len' Ht Hn Hl H. unfold ensure_stack in H.
  destruct (top + n >=? len) eqn:G.
  - unfold grow_stack in H. cbn [andb] in H.
    destruct (len * 2 <? top + n + 1) eqn:A;
    [destruct (top + n + 1 >? MAX_STACK_SIZE) eqn:B | destruct (len * 2 >? MAX_STACK_SIZE) eqn:B].
    + rewrite orb_true_r in H. discriminate.
    + inversion H; subst. apply Z.ltb_lt in A. rewrite Z.gtb_ltb in B. apply Z.ltb_ge in B. lia.
    + destruct (len =? MAX_STACK_SIZE) eqn:C; simpl in H.
      * discriminate.
      * destruct (top + n + 1 >? MAX_STACK_SIZE) eqn:D; [discriminate|].
        inversion H; subst. rewrite Z.gtb_ltb in D. apply Z.ltb_ge in D. lia.
    + inversion H; subst. apply Z.ltb_ge in A. rewrite Z.gtb_ltb in B. apply Z.ltb_ge in B. lia.
  - inversion H; subst. rewrite Z.geb_leb in G. apply Z.leb_gt in G. lia.
Qed.

(** the outcome is never anything but "enough room" or the out-of-stack object; the stack never
    shrinks and never exceeds the configured maximum *)
Lemma grow_policy : forall top n len,
  0 <= top < len -> 0 <= n -> len <= MAX_STACK_SIZE ->
  ensure_stack true top n len = OutOfStack \/
  exists len', ensure_stack true top n len = Enough len' /\ top + n < len' /\ len <= len' <= MAX_STACK_SIZE.
Proof.
  intros top n len Ht Hn Hl. destruct (ensure_stack true top n len) as [len'|] eqn:E; [right|left; reflexivity].
  exists len'. split; [reflexivity|]. apply (ensure_stack_sufficient top n len len' Ht Hn Hl E).
Qed.

(** out of stack exactly when the request cannot fit below the maximum *)
Lemma out_of_stack_iff : forall top n len,
  0 <= top < len -> 0 <= n -> len <= MAX_STACK_SIZE ->
  (ensure_stack true top n len = OutOfStack <-> top + n >= MAX_STACK_SIZE).
Proof.
  intros top n len Ht Hn Hl. unfold ensure_stack, grow_stack. cbn [andb].
  destruct (top + n >=? len) eqn:G.
  - apply Z.geb_le in G.
    destruct (len * 2 <? top + n + 1) eqn:A;
    [destruct (top + n + 1 >? MAX_STACK_SIZE) eqn:B | destruct (len * 2 >? MAX_STACK_SIZE) eqn:B].
    + rewrite orb_true_r. apply Z.gtb_lt in B. split; [lia|reflexivity].
    + rewrite Z.gtb_ltb in B. apply Z.ltb_ge in B. split; [discriminate|lia].
    + destruct (len =? MAX_STACK_SIZE) eqn:C; simpl.
      * apply Z.eqb_eq in C. split; [lia|reflexivity].
      * destruct (top + n + 1 >? MAX_STACK_SIZE) eqn:D.
        -- apply Z.gtb_lt in D. split; [lia|reflexivity].
        -- rewrite Z.gtb_ltb in D. apply Z.ltb_ge in D. split; [discriminate|lia].
    + apply Z.ltb_ge in A. rewrite Z.gtb_ltb in B. apply Z.ltb_ge in B. split; [discriminate|lia].
  - rewrite Z.geb_leb in G. apply Z.leb_gt in G. split; [discriminate|lia].
Qed.

(** the pinned macro passes the *additional* room as the minimum *length*: F-C05-1 *)
Lemma ensure_stack_pinned_refuted :
  ensure_stack false 600 2064 1024 = Enough 2064 /\ ~ (600 + 2064 < 2064).
Proof. split; [reflexivity|lia]. Qed.

Example ensure_stack_example :
  ensure_stack true 600 2064 1024 = Enough 2665 /\
  ensure_stack true 1023990 100 1024000 = OutOfStack /\
  ensure_stack true 1000 100 1024 = Enough 2048.
Proof. repeat split. Qed.

(* ------------------------------------------------------------------ deep (non-tail) recursion *)

Lemma deep_iter_inv : forall per n top len, 0 < per <= n -> 0 <= top < len -> len <= MAX_STACK_SIZE ->
  forall k : nat,
  let st := Nat.iter k (deep_step per n) (top, Enough len) in
  (snd st = OutOfStack /\ (0 < k)%nat /\ top + (Z.of_nat k - 1) * per + n >= MAX_STACK_SIZE) \/
  (exists len', st = (top + Z.of_nat k * per, Enough len') /\ len <= len' <= MAX_STACK_SIZE /\
                top + Z.of_nat k * per < len' /\ ((0 < k)%nat -> top + (Z.of_nat k - 1) * per + n < len')).
Proof.
  intros per n top len Hp Ht Hl k. induction k as [|k IH].
  - right. exists len. unfold Nat.iter; cbn [nat_rect]. change (Z.of_nat 0) with 0. rewrite Z.mul_0_l, Z.add_0_r.
    repeat split; try lia.
  - cbv zeta in IH |- *. change (Nat.iter (S k) (deep_step per n) (top, Enough len)) with (deep_step per n (Nat.iter k (deep_step per n) (top, Enough len))). set (st := Nat.iter k (deep_step per n) (top, Enough len)) in *.
    rewrite Nat2Z.inj_succ. destruct IH as [[E [K G]]|[len' [E [L [T P]]]]].
    + left. unfold deep_step. rewrite E. split; [exact E|]. split; [lia|]. nia.
    + rewrite E. unfold deep_step. cbn [fst snd].
      replace (Z.succ (Z.of_nat k) - 1) with (Z.of_nat k) by lia.
      assert (Ht' : 0 <= top + Z.of_nat k * per < len') by nia.
      assert (Hn : 0 <= n) by lia.
      destruct (ensure_stack true (top + Z.of_nat k * per) n len') as [len''|] eqn:R.
      * right. exists len''.
        destruct (ensure_stack_sufficient _ _ _ _ Ht' Hn (proj2 L) R) as [A B].
        split; [f_equal; lia|]. split; [lia|]. split; [lia|]. intros _. exact A.
      * left. split; [reflexivity|]. split; [lia|].
        apply (out_of_stack_iff _ _ _ Ht' Hn (proj2 L)) in R. exact R.
Qed.

(** Non-tail recursion of depth k (k pending calls, each checked with [ensure_stack] at tops
    top, top+per, ...): out of stack exactly when the deepest check does not fit below the
    configured maximum; otherwise the stack has been grown so that the deepest frame fits, it
    never shrinks and never exceeds the maximum.  In particular every depth whose frames fit
    below SEXP_MAX_STACK_SIZE succeeds, however much deeper than the initial stack it is. *)
Lemma deep_calls_outcome : forall k top per n len,
  0 < per <= n -> 0 <= top < len -> len <= MAX_STACK_SIZE ->
  (deep_calls k top per n len = OutOfStack <->
   (0 < k)%nat /\ top + (Z.of_nat k - 1) * per + n >= MAX_STACK_SIZE) /\
  (forall len', deep_calls k top per n len = Enough len' ->
     len <= len' <= MAX_STACK_SIZE /\ ((0 < k)%nat -> top + (Z.of_nat k - 1) * per + n < len')).
Proof.
  intros k top per n len Hp Ht Hl. unfold deep_calls.
  destruct (deep_iter_inv per n top len Hp Ht Hl k) as [[E [K G]]|[len' [E [L [T P]]]]]; cbv zeta in *.
  - split; [split; [intros _; split; assumption|intros _; exact E]|].
    intros len' H. rewrite E in H. discriminate.
  - rewrite E. cbn [snd]. split.
    + split; [discriminate|]. intros [K G]. specialize (P K). lia.
    + intros l H. inversion H; subst l. split; assumption.
Qed.

Lemma deep_outcome_calls : forall k top per n len, 0 <= k ->
  deep_outcome k top per n len = deep_calls (Z.to_nat k) top per n len.
Proof.
  intros k top per n len Hk. unfold deep_outcome, deep_calls.
  destruct k as [|p|p]; [reflexivity| |lia].
  cbn [Z.iter Z.to_nat]. rewrite Pos2Nat.inj_iter. reflexivity.
Qed.

Example deep_calls_example :
  deep_outcome 189 11 5 69 1024 = Enough 1024 /\ deep_outcome 190 11 5 69 1024 = Enough 2048 /\
  deep_outcome 2000 11 5 69 1024 = Enough 16384 /\
  deep_calls 3 1023917 5 69 524288 = Enough 1024000 /\ deep_calls 4 1023917 5 69 524288 = OutOfStack.
Proof. repeat split; vm_compute; reflexivity. Qed.
