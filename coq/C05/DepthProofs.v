(** C05 - soundness of the depth-certificate checker of C05/Depth.v: in a code body whose certificate
    checks, every instruction that neither calls nor returns finds its operands above the frame header
    (the premise [step_ok] of Frames.tail_run_bounded), so a run through certified bodies in which every
    call is a TAIL-CALL keeps the frame base AND stays within base + arguments + 4 + max_depth slots:
    the space of a tail-recursive loop is bounded by a constant read off the code, for any number of steps. *)
From Coq Require Import ZArith List Bool Arith Lia.
From ChibiV Require Import C03.Defs C03.Model C03.Proofs C05.Spec C05.Model C05.Proofs C05.Frames C05.Depth.
Import ListNotations.
Local Open Scope nat_scope.

Lemma dpops_pops : forall i, dpops i = pops i.
Proof. destruct i; try reflexivity. Qed.

Definition succ_ok (i : instr) (ip ip' : nat) : Prop :=
  match i with
  | IJumpUnless n => ip' = S ip \/ ip' = S ip + n
  | IJump n => ip' = S ip + n
  | _ => ip' = S ip
  end.

Lemma prim_step_effect : forall p st h st' h',
  prim_step p st h = inl (Some (st', h')) -> length st' + dpops (IPrim p) = length st + 1.
Proof.
  intros p st h st' h' H.
  destruct st as [|a [|b r]]; destruct p; cbn [prim_step alloc] in H; try discriminate;
    crush_match H; inversion H; subst; simpl; lia.
Qed.

(** what one step of an instruction that neither calls nor returns does to fp, self, the height and ip *)
Lemma step_effect : forall s s' i,
  nth_error (code_of (self s)) (ip s) = Some i -> is_ctl i = false -> step s = Next s' ->
  fp s' = fp s /\ self s' = self s /\
  length (stk s') + dpops i = length (stk s) + dpushes i /\ succ_ok i (ip s) (ip s').
Proof.
  intros s s' i Hi Hc H. unfold step in H. rewrite Hi in H. cbv zeta in H.
  remember (stk s) as st eqn:Est.
  destruct i; try discriminate.
  all: try (destruct (prim_step p st (heap s)) as [[[st' h']|]|] eqn:P; try discriminate;
            inversion H; subst s'; cbn [stk fp self ip succ_ok dpushes];
            repeat split; eapply prim_step_effect; eassumption).
  all: try match type of Hi with
       | _ = Some (ILocalSet ?k) =>
           destruct st as [|v r]; [discriminate|]; destruct (slot (fp s) k) as [a|]; [|discriminate];
           destruct (sset r a v) as [r'|] eqn:SS; [|discriminate]; inversion H; subst s';
           cbn [stk fp self ip succ_ok dpops dpushes];
           unfold sset in SS; destruct (a <? length r); [|discriminate]; inversion SS; subst r';
           rewrite list_set_length; simpl; repeat split; lia
       end.
  all: cbn [alloc] in H; crush_match H; inversion H; subst s';
    cbn [stk fp self ip succ_ok dpops dpushes length]; repeat split; auto; lia.
Qed.

(** the invariant a certificate maintains: the height above the header is the certified depth *)
Definition Inv (ds : list nat) (s : state) : Prop :=
  exists d, nth_error ds (ip s) = Some d /\ length (stk s) = fp s + 4 + d.

Lemma cert_from_nth : forall ds c i0 k ins,
  cert_from ds i0 c = true -> nth_error c k = Some ins ->
  exists d, nth_error ds (i0 + k) = Some d /\ cert_instr ds (i0 + k) ins d = true.
Proof.
  intros ds c. induction c as [|x c IH]; intros i0 k ins H Hk; [destruct k; discriminate|].
  cbn [cert_from] in H. apply andb_true_iff in H. destruct H as [H1 H2].
  destruct k as [|k].
  - simpl in Hk. inversion Hk; subst x. rewrite Nat.add_0_r.
    destruct (nth_error ds i0) as [d|]; [|discriminate]. exists d. split; [reflexivity|assumption].
  - simpl in Hk. replace (i0 + S k) with (S i0 + k) by lia. eapply IH; eassumption.
Qed.

Lemma deq_true : forall ds i d, deq ds i d = true -> nth_error ds i = Some d.
Proof.
  intros ds i d H. unfold deq in H. destruct (nth_error ds i) as [x|]; [|discriminate].
  apply Nat.eqb_eq in H. congruence.
Qed.

Lemma cert_at : forall s ds i d,
  cert_ok (code_of (self s)) ds = true -> nth_error (code_of (self s)) (ip s) = Some i ->
  nth_error ds (ip s) = Some d -> cert_instr ds (ip s) i d = true.
Proof.
  intros s ds i d Hc Hi Hd. unfold cert_ok in Hc. apply andb_true_iff in Hc. destruct Hc as [_ Hc].
  destruct (cert_from_nth _ _ 0 _ _ Hc Hi) as [d' [E C]]. simpl in E, C. congruence.
Qed.

Definition plain (i : instr) : bool :=
  match i with
  | ICall _ | ITailCall _ | IRet | IDone | IJumpUnless _ | IJump _ => false
  | _ => true
  end.

Lemma cert_instr_plain : forall ds k i d, plain i = true ->
  cert_instr ds k i d = (dpops i <=? d) && local_set_static i && deq ds (S k) (d - dpops i + dpushes i).
Proof. intros ds k i d H. destruct i; try discriminate; reflexivity. Qed.

Lemma succ_plain : forall i a b, plain i = true -> succ_ok i a b -> b = S a.
Proof. intros i a b H S. destruct i; try discriminate; exact S. Qed.

Lemma local_set_static_ok : forall s i, local_set_static i = true -> local_set_ok s i.
Proof.
  intros s i H. destruct i; try exact I. cbn [local_set_ok]. cbn [local_set_static] in H.
  intros a Ha. unfold slot in Ha.
  destruct (Z.of_nat (fp s) - 1 - k <? 0)%Z eqn:E; [discriminate|]. inversion Ha; subst a.
  apply Z.ltb_ge in E. apply orb_true_iff in H. destruct H as [H|H]; [apply Z.leb_le in H|apply Z.leb_le in H]; lia.
Qed.

Lemma step_ok_intro : forall s i, nth_error (code_of (self s)) (ip s) = Some i -> is_ctl i = false ->
  fp s + 4 + pops i <= length (stk s) -> local_set_ok s i -> step_ok s.
Proof.
  intros s i Hi Hc L K. unfold step_ok. rewrite Hi. destruct i; try discriminate; auto.
Qed.

(** one step inside a certified body: the step satisfies the operand premise of Frames.tail_run_bounded,
    stays in the body, and arrives at the certified depth of its successor *)
Theorem certified_step : forall s s' i ds,
  cert_ok (code_of (self s)) ds = true -> Inv ds s ->
  nth_error (code_of (self s)) (ip s) = Some i -> is_ctl i = false -> step s = Next s' ->
  step_ok s /\ self s' = self s /\ Inv ds s'.
Proof.
  intros s s' i ds Hc [d [Hd HL]] Hi Hctl Hs.
  pose proof (cert_at s ds i d Hc Hi Hd) as C.
  destruct (step_effect s s' i Hi Hctl Hs) as [Hf [Hself [Hlen Hsucc]]].
  destruct (plain i) eqn:P.
  - rewrite cert_instr_plain in C by assumption.
    apply andb_true_iff in C. destruct C as [C C3]. apply andb_true_iff in C. destruct C as [C1 C2].
    apply Nat.leb_le in C1. apply deq_true in C3. apply succ_plain in Hsucc; [|assumption].
    split; [|split; [assumption|]].
    + eapply step_ok_intro; eauto; [rewrite <- dpops_pops; lia|apply local_set_static_ok; assumption].
    + exists (d - dpops i + dpushes i). rewrite Hsucc, Hf. split; [assumption|lia].
  - destruct i; try discriminate.
    + (* JUMP-UNLESS *)
      cbn [cert_instr] in C. apply andb_true_iff in C. destruct C as [C C3]. apply andb_true_iff in C. destruct C as [C1 C2].
      apply Nat.leb_le in C1. apply deq_true in C2. apply deq_true in C3. cbn [succ_ok dpops dpushes] in *.
      split; [|split; [assumption|]].
      * eapply step_ok_intro; eauto; [cbn [pops]; lia|exact I].
      * exists (d - 1). rewrite Hf. destruct Hsucc as [E|E]; rewrite E; (split; [assumption|lia]).
    + (* JUMP *)
      cbn [cert_instr] in C. apply deq_true in C. cbn [succ_ok dpops dpushes] in *.
      split; [|split; [assumption|]].
      * eapply step_ok_intro; eauto; [cbn [pops]; lia|exact I].
      * exists d. rewrite Hf, Hsucc. split; [assumption|lia].
Qed.

(* ------------------------------------------------------------------ runs through certified bodies *)

Definition certified (v : value) : Prop := exists ds, cert_ok (code_of v) ds = true.

(** n steps none of which is a CALL or a return; every TAIL-CALL enters a procedure whose body has a
    certificate (a static property of that procedure's code) *)
Inductive run_cert : nat -> state -> state -> Prop :=
| rc_0 : forall s, run_cert 0 s s
| rc_S : forall n s s' s'' i, run_cert n s s' ->
    nth_error (code_of (self s')) (ip s') = Some i ->
    match i with
    | ICall _ | IRet | IDone => False
    | ITailCall _ => certified (self s'')
    | _ => True
    end ->
    step s' = Next s'' -> run_cert (S n) s s''.

Lemma tail_step_frame : forall s s' n,
  nth_error (code_of (self s)) (ip s) = Some (ITailCall n) -> step s = Next s' ->
  exists proc r j rip rself rfp, stk s = proc :: r /\ frame_info s = Some (j, rip, rself, rfp).
Proof.
  intros s s' n Hi H. unfold step in H. rewrite Hi in H. cbv zeta in H.
  destruct (stk s) as [|proc r]; [discriminate|].
  destruct (frame_info s) as [[[[j rip] rself] rfp]|]; [|discriminate].
  exists proc, r, j, rip, rself, rfp. split; reflexivity.
Qed.

Lemma certified_run : forall n s s' ds,
  cert_ok (code_of (self s)) ds = true -> Inv ds s -> run_cert n s s' ->
  run_ok n s s' /\ exists ds', cert_ok (code_of (self s')) ds' = true /\ Inv ds' s'.
Proof.
  intros n s s' ds Hc HI H. induction H as [s|n s s' s'' i H IH Hi Hk Hs].
  - split; [constructor|]. exists ds. split; assumption.
  - destruct (IH Hc HI) as [R [ds' [Hc' HI']]].
    destruct (is_ctl i) eqn:Ctl.
    + destruct i; try discriminate; try contradiction.
      (* TAIL-CALL *)
      destruct (tail_step_frame _ _ _ Hi Hs) as [proc [r [j [rip [rself [rfp [Est F]]]]]]].
      split.
      * econstructor; [exact R| |exact Hs]. unfold step_ok. rewrite Hi. exists proc, r. exact Est.
      * destruct Hk as [ds'' Hc'']. exists ds''. split; [assumption|].
        destruct (tail_call_frame_reuse s' n0 proc r j rip rself rfp s'' Hi Est F Hs)
          as [i' [_ [B1 [B2 [B3 [_ [_ [_ [_ [_ Hip]]]]]]]]]].
        exists 0. rewrite Hip. split.
        -- unfold cert_ok in Hc''. apply andb_true_iff in Hc''. destruct Hc'' as [D _]. apply deq_true in D. exact D.
        -- lia.
    + destruct (certified_step s' s'' i ds' Hc' HI' Hi Ctl Hs) as [Ok [Hself HI'']].
      split.
      * econstructor; [exact R|exact Ok|exact Hs].
      * exists ds'. rewrite Hself. split; assumption.
Qed.

Lemma max_depth_ge : forall ds k d, nth_error ds k = Some d -> d <= max_depth ds.
Proof.
  induction ds as [|x ds IH]; intros [|k] d H; try discriminate; simpl in *.
  - inversion H; subst. unfold max_depth. simpl. lia.
  - apply IH in H. unfold max_depth in *. simpl. lia.
Qed.

(** "space bounded by a constant", for ALL n: through certified bodies, n steps in which every call is a
    TAIL-CALL keep the frame base b, and the stack never stands higher than fp + 4 + the static
    max_depth of the running body (fp = b + the running frame's argument count) *)
Theorem tail_loop_space_bounded : forall n s s' ds b,
  cert_ok (code_of (self s)) ds = true -> Inv ds s -> base_of s = Some b -> run_cert n s s' ->
  base_of s' = Some b /\
  exists ds', cert_ok (code_of (self s')) ds' = true /\ length (stk s') <= fp s' + 4 + max_depth ds'.
Proof.
  intros n s s' ds b Hc HI Hb H.
  destruct (certified_run n s s' ds Hc HI H) as [R [ds' [Hc' [d [Hd HL]]]]].
  split; [eapply tail_run_bounded; eassumption|].
  exists ds'. split; [assumption|]. apply max_depth_ge in Hd. lia.
Qed.

(** the operand premise of Frames.tail_run_bounded is discharged by the certificates *)
Theorem certified_run_ok : forall n s s' ds,
  cert_ok (code_of (self s)) ds = true -> Inv ds s -> run_cert n s s' -> run_ok n s s'.
Proof. intros n s s' ds Hc HI H. exact (proj1 (certified_run n s s' ds Hc HI H)). Qed.

(* ------------------------------------------------------------------ the hypotheses are satisfiable *)

(** the hand-written loop procedure of C05/Examples.v: its inferred certificate checks, 2 slots above the header *)
Example cert_example_loop :
  body_depth [IPush (LInt 5); IGlobalRef 7; ITailCall 1; IRet] = Some 2.
Proof. vm_compute. reflexivity. Qed.

(** (define (loop i acc) (if (= i 0) acc (loop (- i 1) (+ acc 1)))) through the model's code generator: the
    top-level thunk and the procedure body both have certificates; the body needs 3 slots above its header *)
Definition ex_loop_ast : ast :=
  SetV 9 Global
    (Lam 1 [0; 1] None [] [] []
       (Cnd (OpApp PEqn [Ref 0 (Local 1); Lit (LInt 0)]) (Ref 1 (Local 1))
            (App (Ref 9 Global) [OpApp PSub [Ref 0 (Local 1); Lit (LInt 1)];
                                 OpApp PAdd [Ref 1 (Local 1); Lit (LInt 1)]]))).

Example cert_example_generated : bodies_depth 5 (compile_toplevel ex_loop_ast) = [Some 2; Some 3].
Proof. vm_compute. reflexivity. Qed.

(** a body that pops below its header has no certificate: DROP at depth 0 *)
Example cert_example_refused : body_depth [IDrop; IPush LVoid; IRet] = None.
Proof. vm_compute. reflexivity. Qed.

(** [Inv] and [run_cert] on a concrete state: one whole iteration of the hand-written loop (3 steps from the
    procedure entry back to the procedure entry) is a [run_cert], the state at entry satisfies [Inv] *)
Example run_cert_example :
  let loopc := [IPush (LInt 5); IGlobalRef 7; ITailCall 1; IRet] in
  let lp := VProc 0 1 loopc (VLit LVoid) in
  let s0 := mkst [vint 0; final_resumer; vint 0; vint 1; VLit (LInt 3); VLit LVoid] 2 lp 0 [] [(7, lp)] in
  Inv (infer loopc) s0 /\ cert_ok (code_of (self s0)) (infer loopc) = true /\
  exists s3, run_cert 3 s0 s3 /\ self s3 = lp /\ ip s3 = 0 /\ length (stk s3) = length (stk s0).
Proof.
  cbv zeta. split; [exists 0; split; reflexivity|]. split; [vm_compute; reflexivity|].
  eexists. split.
  - eapply rc_S; [eapply rc_S; [eapply rc_S; [apply rc_0| | |]| | |]| | |];
      try (vm_compute; reflexivity); try exact I.
    cbv beta iota. exists (infer [IPush (LInt 5); IGlobalRef 7; ITailCall 1; IRet]). vm_compute. reflexivity.
  - vm_compute. repeat split; reflexivity.
Qed.
