(** C05 — "leaving the context usable": sexp_apply called again and again on one context.
    With the repaired exit (fixes/C05-apply-exit-top.patch) every call starts from the same stack
    top, so its outcome depends on its own depth only, whatever failed before
    ([oos_leaves_context_usable]); with the pinned exit one out-of-stack makes every later call fail
    ([apply_exit_pinned_refuted], finding F-C05-2). *)
From Coq Require Import ZArith List Bool Arith Lia.
From ChibiV Require Import C05.Model C05.Proofs.
Import ListNotations.
Local Open Scope Z_scope.

(** a request that does not fit below the maximum fails, whatever the length is *)
Lemma ensure_stack_beyond : forall top n len,
  len <= MAX_STACK_SIZE -> top + n >= MAX_STACK_SIZE -> ensure_stack true top n len = OutOfStack.
Proof.
  intros top n len Hl H. unfold ensure_stack.
  destruct (top + n >=? len) eqn:G; [|rewrite Z.geb_leb in G; apply Z.leb_gt in G; lia].
  unfold grow_stack. cbn [andb].
  assert (M : (top + n + 1 >? MAX_STACK_SIZE) = true) by (apply Z.gtb_lt; lia).
  destruct (len * 2 <? top + n + 1) eqn:A.
  - rewrite M. rewrite orb_true_r. reflexivity.
  - apply Z.ltb_ge in A. assert (B : (len * 2 >? MAX_STACK_SIZE) = true) by (apply Z.gtb_lt; lia).
    rewrite B, M, orb_true_r. reflexivity.
Qed.

Lemma trace_frozen : forall per n t l (k : nat), Nat.iter k (trace_step per n) (t, l, true) = (t, l, true).
Proof. induction k as [|k IH]; [reflexivity|]. cbn [Nat.iter nat_rect] in *. unfold Nat.iter in IH. rewrite IH. reflexivity. Qed.

Lemma iter_shift : forall (A : Type) (f : A -> A) (k : nat) (x : A), Nat.iter (S k) f x = Nat.iter k f (f x).
Proof.
  intros A f k. induction k as [|k IH]; intro x; [reflexivity|].
  change (Nat.iter (S (S k)) f x) with (f (Nat.iter (S k) f x)). rewrite IH. reflexivity.
Qed.

(** invariant of the trace: the length never shrinks nor exceeds the maximum; a failure happened at
    a check that does not fit below the maximum; otherwise every check so far fitted *)
Lemma trace_inv : forall per n top len, 0 < per <= n -> 0 <= top < len -> len <= MAX_STACK_SIZE ->
  forall k : nat,
  exists t l f, deep_trace k top per n len = (t, l, f) /\ len <= l <= MAX_STACK_SIZE /\
    (f = true -> (0 < k)%nat /\ top <= t <= top + (Z.of_nat k - 1) * per /\ t + n >= MAX_STACK_SIZE) /\
    (f = false -> t = top + Z.of_nat k * per /\ t < l /\
                  ((0 < k)%nat -> top + (Z.of_nat k - 1) * per + n < l)).
Proof.
  intros per n top len Hp Ht Hl k. unfold deep_trace. induction k as [|k IH].
  - exists top, len, false. unfold Nat.iter; cbn [nat_rect]. split; [reflexivity|]. split; [lia|].
    split; [discriminate|]. intros _. change (Z.of_nat 0) with 0. repeat split; lia.
  - destruct IH as [t [l [f [E [L [Ft Ff]]]]]].
    change (Nat.iter (S k) (trace_step per n) (top, len, false))
      with (trace_step per n (Nat.iter k (trace_step per n) (top, len, false))).
    rewrite E. rewrite Nat2Z.inj_succ. destruct f.
    + exists t, l, true. cbn [trace_step]. split; [reflexivity|]. split; [exact L|].
      split; [|discriminate]. intros _. destruct (Ft eq_refl) as [K [B G]]. split; [lia|]. split; [nia|exact G].
    + destruct (Ff eq_refl) as [Et [Tl P]]. unfold trace_step.
      assert (Ht' : 0 <= t < l) by nia. assert (Hn : 0 <= n) by lia.
      destruct (ensure_stack true t n l) as [l'|] eqn:R.
      * destruct (ensure_stack_sufficient _ _ _ _ Ht' Hn (proj2 L) R) as [A B].
        exists (t + per), l', false. split; [reflexivity|]. split; [lia|]. split; [discriminate|].
        intros _. split; [lia|]. split; [lia|]. intros _. replace (Z.succ (Z.of_nat k) - 1) with (Z.of_nat k) by lia. lia.
      * apply (out_of_stack_iff _ _ _ Ht' Hn (proj2 L)) in R.
        exists t, l, true. split; [reflexivity|]. split; [exact L|]. split; [|discriminate].
        intros _. split; [lia|]. split; [nia|exact R].
Qed.

(** the trace agrees with [deep_calls] (theorem deep_recursion_by_depth) on the outcome *)
Lemma trace_failed_iff : forall per n top len k, 0 < per <= n -> 0 <= top < len -> len <= MAX_STACK_SIZE ->
  forall t l f, deep_trace k top per n len = (t, l, f) ->
  (f = true <-> (0 < k)%nat /\ top + (Z.of_nat k - 1) * per + n >= MAX_STACK_SIZE).
Proof.
  intros per n top len k Hp Ht Hl t l f E.
  destruct (trace_inv per n top len Hp Ht Hl k) as [t' [l' [f' [E' [L [Ft Ff]]]]]].
  rewrite E in E'. inversion E'; subst t' l' f'. destruct f.
  - destruct (Ft eq_refl) as [K [B G]]. split; [intros _; split; [exact K|nia]|reflexivity].
  - destruct (Ff eq_refl) as [Et [Tl P]]. split; [discriminate|]. intros [K G]. specialize (P K). lia.
Qed.

(** one call with the repaired exit: the context top is the entry top again, the stack length never
    shrinks nor exceeds the maximum, and the call fails exactly when its own deepest check does not
    fit below the maximum *)
Lemma apply_deep_fixed : forall c0 per n c k,
  0 < per <= n -> 0 <= c0 -> 0 <= ctop c -> ctop c + c0 < clen c -> clen c <= MAX_STACK_SIZE ->
  ctop (snd (apply_deep true c0 per n c k)) = ctop c /\
  clen c <= clen (snd (apply_deep true c0 per n c k)) <= MAX_STACK_SIZE /\
  (fst (apply_deep true c0 per n c k) = false <->
   (0 < k)%nat /\ ctop c + c0 + (Z.of_nat k - 1) * per + n >= MAX_STACK_SIZE).
Proof.
  intros c0 per n c k Hp H0 Ht Hl Hm. unfold apply_deep.
  assert (Ht' : 0 <= ctop c + c0 < clen c) by lia.
  destruct (trace_inv per n (ctop c + c0) (clen c) Hp Ht' Hm k) as [t [l [f [E [L _]]]]].
  pose proof (trace_failed_iff per n (ctop c + c0) (clen c) k Hp Ht' Hm t l f E) as F.
  rewrite E. unfold apply_exit. destruct f; cbn [fst snd ctop clen].
  - split; [reflexivity|]. split; [exact L|]. split; [intros _; apply F; reflexivity|reflexivity].
  - split; [reflexivity|]. split; [exact L|]. split; [discriminate|]. intro G. apply F in G. discriminate.
Qed.

(** "leaving the context usable": over any sequence of calls on one context - failed ones included -
    the context top stays where it was and every single call fails exactly when its OWN depth does
    not fit below SEXP_MAX_STACK_SIZE; what happened before (an out-of-stack, a grown stack) has no
    influence on it *)
Theorem oos_leaves_context_usable : forall c0 per n ks c,
  0 < per <= n -> 0 <= c0 -> 0 <= ctop c -> ctop c + c0 < clen c -> clen c <= MAX_STACK_SIZE ->
  ctop (snd (session true c0 per n c ks)) = ctop c /\
  clen c <= clen (snd (session true c0 per n c ks)) <= MAX_STACK_SIZE /\
  Forall2 (fun (k : nat) (ok : bool) =>
             ok = false <-> (0 < k)%nat /\ ctop c + c0 + (Z.of_nat k - 1) * per + n >= MAX_STACK_SIZE)
          ks (fst (session true c0 per n c ks)).
Proof.
  intros c0 per n ks. induction ks as [|k r IH]; intros c Hp H0 Ht Hl Hm.
  - cbn [session fst snd]. split; [reflexivity|]. split; [lia|constructor].
  - cbn [session].
    destruct (apply_deep_fixed c0 per n c k Hp H0 Ht Hl Hm) as [A [B C]].
    destruct (apply_deep true c0 per n c k) as [ok c1] eqn:E1. cbn [fst snd] in A, B, C.
    assert (Ht1 : 0 <= ctop c1) by lia. assert (Hl1 : ctop c1 + c0 < clen c1) by lia.
    destruct (IH c1 Hp H0 Ht1 Hl1 (proj2 B)) as [A2 [B2 C2]].
    destruct (session true c0 per n c1 r) as [oks c2] eqn:E2. cbn [fst snd] in *.
    split; [lia|]. split; [lia|]. constructor; [exact C|]. rewrite A in C2. exact C2.
Qed.

(** F-C05-2: with the pinned exit (context top = top of the failed check - 1) one out-of-stack makes
    every later call on the context fail, however shallow *)
Theorem apply_exit_pinned_refuted : forall c0 per n c k k',
  0 < per <= n -> 1 <= c0 -> 0 <= ctop c -> ctop c + c0 < clen c -> clen c <= MAX_STACK_SIZE ->
  fst (apply_deep false c0 per n c k) = false -> (0 < k')%nat ->
  fst (apply_deep false c0 per n (snd (apply_deep false c0 per n c k)) k') = false.
Proof.
  intros c0 per n c k k' Hp H0 Ht Hl Hm F K. unfold apply_deep in *.
  assert (Ht' : 0 <= ctop c + c0 < clen c) by lia.
  destruct (trace_inv per n (ctop c + c0) (clen c) Hp Ht' Hm k) as [t [l [f [E [L [Ft _]]]]]].
  rewrite E in *. unfold apply_exit in F |- *. destruct f; [|discriminate]. cbn [fst snd ctop clen].
  destruct (Ft eq_refl) as [_ [_ G]].
  destruct k' as [|m]; [lia|]. unfold deep_trace. rewrite iter_shift.
  unfold trace_step at 2. rewrite (ensure_stack_beyond (t - 1 + c0) n l (proj2 L)) by lia.
  rewrite trace_frozen. reflexivity.
Qed.

Lemma deep_trace_z_nat : forall k top per n len, 0 <= k ->
  deep_trace_z k top per n len = deep_trace (Z.to_nat k) top per n len.
Proof.
  intros k top per n len Hk. unfold deep_trace_z, deep_trace.
  destruct k as [|p|p]; [reflexivity| |lia]. cbn [Z.iter Z.to_nat]. rewrite Pos2Nat.inj_iter. reflexivity.
Qed.

(** hypotheses satisfiable, and the two exits side by side: a context at top 0 with the initial stack;
    a recursion whose frames need 5 slots, first check at top 11, each check asking for 69 slots *)
Example session_example :
  fst (session true 11 5 69 (mkcs 0 1024) [10; 2000; 10]%nat) = [true; true; true] /\
  snd (session true 11 5 69 (mkcs 0 1024) [10; 2000; 10]%nat) = mkcs 0 16384 /\
  (* near the maximum (context top 1023900 of a 1024000-slot stack): 4 pending calls still fit, 5 do not *)
  apply_deep true 11 5 69 (mkcs 1023900 1024000) 4 = (true, mkcs 1023900 1024000) /\
  apply_deep true 11 5 69 (mkcs 1023900 1024000) 5 = (false, mkcs 1023900 1024000) /\
  apply_deep false 11 5 69 (mkcs 1023900 1024000) 5 = (false, mkcs 1023930 1024000) /\
  fst (session true 11 5 69 (mkcs 1023900 1024000) [5; 1; 4]%nat) = [false; true; true] /\
  fst (session false 11 5 69 (mkcs 1023900 1024000) [5; 1; 4]%nat) = [false; false; false].
Proof. repeat split; vm_compute; reflexivity. Qed.
