(** C05 - the static operand-depth bound of a code body (what sexp_context_depth / sexp_bytecode_max_depth
    of vm.c:145-150 stand for): a checker for depth certificates.  Executable, no proofs here.

    A certificate [ds] gives for every instruction index of a code body the number of slots the running
    frame holds above its 4-slot header (locals + operands) right before that instruction executes.
    [cert_ok] checks it instruction by instruction (every instruction finds the operands it pops above
    the header, LOCAL-SET never addresses the header, every successor - fall-through and jump target -
    has the depth the instruction leaves).  [infer] computes a candidate certificate in one forward pass
    (all jumps of chibi's generator go forward); it is not trusted: only [cert_ok]'s answer matters.
    [max_depth] of a certified body is the room the body needs above its header; it is what
    sexp_bytecode_max_depth must cover (vm.c:1430 sexp_ensure_stack(max_depth+64)). *)
From Coq Require Import ZArith List Bool Arith.
From ChibiV Require Import C03.Defs C03.Model.
Import ListNotations.
Local Open Scope nat_scope.

(** operands an instruction takes off the stack / results it leaves (instructions that neither call
    nor return; the same table as C05/Frames.v [pops]) *)
Definition dpops (i : instr) : nat :=
  match i with
  | IMakeProc _ _ _ | ILocalSet _ | ICdr | IDrop | IJumpUnless _ => 1
  | ISetCdr | ICons | IMakeVector => 2
  | IVectorSet => 3
  | IPrim p => match p with PCar | PCdr | PNullp | PPairp | PNot => 1 | _ => 2 end
  | _ => 0
  end.

Definition dpushes (i : instr) : nat :=
  match i with
  | IPush _ | IPushProc _ _ _ | IMakeProc _ _ _ | ILocalRef _ | IClosureRef _ | IGlobalRef _ | IPushCell _
  | ICdr | ICons | IMakeVector | IStackRef _ | IPrim _ => 1
  | _ => 0
  end.

(** LOCAL-SET k writes stack[fp-1-k]: an argument (k >= 0) or a local (k <= -5), never the header *)
Definition local_set_static (i : instr) : bool :=
  match i with ILocalSet k => (0 <=? k)%Z || (k <=? -5)%Z | _ => true end.

Definition deq (ds : list nat) (i d : nat) : bool :=
  match nth_error ds i with Some x => Nat.eqb x d | None => false end.

Definition cert_instr (ds : list nat) (i : nat) (ins : instr) (d : nat) : bool :=
  match ins with
  | ICall n => (S n <=? d) && deq ds (S i) (d - n)
  | ITailCall n => S n <=? d
  | IRet | IDone => 1 <=? d
  | IJumpUnless n => (1 <=? d) && deq ds (S i) (d - 1) && deq ds (S i + n) (d - 1)
  | IJump n => deq ds (S i + n) d
  | _ => (dpops ins <=? d) && local_set_static ins && deq ds (S i) (d - dpops ins + dpushes ins)
  end.

Fixpoint cert_from (ds : list nat) (i : nat) (c : code) : bool :=
  match c with
  | [] => true
  | ins :: r =>
      match nth_error ds i with Some d => cert_instr ds i ins d | None => false end && cert_from ds (S i) r
  end.

(** a body is entered with nothing above the header (vm.c make_call: top = fp + 4) *)
Definition cert_ok (c : code) (ds : list nat) : bool := deq ds 0 0 && cert_from ds 0 c.

(* ------------------------------------------------------------------ the (untrusted) forward pass *)

Fixpoint put (l : list (option nat)) (i d : nat) : list (option nat) :=
  match l, i with
  | [], _ => []
  | None :: t, 0 => Some d :: t
  | x :: t, 0 => x :: t
  | x :: t, S j => x :: put t j d
  end.

Fixpoint infer_from (c : code) (i : nat) (ds : list (option nat)) : list (option nat) :=
  match c with
  | [] => ds
  | ins :: r =>
      let ds' :=
        match nth i ds None with
        | Some d =>
            match ins with
            | ICall n | ITailCall n => put ds (S i) (d - n)       (* as if the call had returned its value *)
            | IRet | IDone => put ds (S i) d
            | IJumpUnless n => put (put ds (S i) (d - 1)) (S i + n) (d - 1)
            | IJump n => put ds (S i + n) d
            | _ => put ds (S i) (d - dpops ins + dpushes ins)
            end
        | None => ds
        end in
      infer_from r (S i) ds'
  end.

Definition infer (c : code) : list nat :=
  map (fun o => match o with Some d => d | None => 0 end)
      (infer_from c 0 (Some 0 :: repeat None (length c))).

Definition max_depth (ds : list nat) : nat := fold_right Nat.max 0 ds.

(** one code body: Some (room needed above the header) when the inferred certificate checks *)
Definition body_depth (c : code) : option nat :=
  let ds := infer c in if cert_ok c ds then Some (max_depth ds) else None.

(** every code body of a program, in the order of [C05.Model.bodies_calls] *)
Fixpoint bodies_depth (fuel : nat) (c : code) : list (option nat) :=
  match fuel with
  | 0 => []
  | S f =>
      body_depth c ::
      flat_map (fun i => match i with
                         | IPushProc _ _ b => bodies_depth f b
                         | IMakeProc _ _ b => bodies_depth f b
                         | _ => []
                         end) c
  end.
