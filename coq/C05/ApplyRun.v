(** C05 - APPLY1 inside the run relation: loops that iterate through [apply] (the tail-only opcode APPLY1,
    C05/Model.v [apply1_step]) mixed with TAIL-CALLs and frame-preserving instructions keep the frame base. *)
From Coq Require Import ZArith List Bool Arith Lia.
From ChibiV Require Import C03.Defs C03.Model C05.Spec C05.Model C05.Proofs C05.Frames C05.Apply C05.Examples.
Import ListNotations.
Local Open Scope nat_scope.

(** n steps, each either a step of the VM that satisfies [step_ok] (a TAIL-CALL, or an instruction working above
    the header) or an APPLY1 step *)
Inductive run_okA : nat -> state -> state -> Prop :=
| ra_0 : forall s, run_okA 0 s s
| ra_step : forall n s s' s'', run_okA n s s' -> step_ok s' -> step s' = Next s'' -> run_okA (S n) s s''
| ra_apply : forall n s s' s'' proc lst r, run_okA n s s' ->
    stk s' = proc :: lst :: r -> apply1_step s' = Next s'' -> run_okA (S n) s s''.

Theorem tail_run_bounded_with_apply : forall n s s' b,
  base_of s = Some b -> run_okA n s s' -> base_of s' = Some b.
Proof.
  intros n s s' b Hb H. induction H as [s|n s s' s'' H IH Ok Hs|n s s' s'' proc lst r H IH Est Hs].
  - exact Hb.
  - apply (tail_run_bounded 1 s' s'' b (IH Hb)). econstructor; [constructor|exact Ok|exact Hs].
  - eapply apply1_keeps_base; [exact Est|exact (IH Hb)|exact Hs].
Qed.

(** [run_ok] is the APPLY1-free part *)
Lemma run_ok_run_okA : forall n s s', run_ok n s s' -> run_okA n s s'.
Proof. induction 1; [constructor|eapply ra_step; eassumption]. Qed.

(** the hypotheses are satisfiable: the APPLY1 state of C05/Examples.v makes one [ra_apply] step *)
Example run_okA_example : exists s', run_okA 1 ex_a0 s' /\ base_of s' = Some 1.
Proof.
  destruct (apply1_step ex_a0) as [s'| |] eqn:E; try (vm_compute in E; discriminate).
  assert (R : run_okA 1 ex_a0 s').
  { apply (ra_apply 0 ex_a0 ex_a0 s' ex_Q (VPair 1)
             [vint 0; VLit LVoid; vint 0; vint 2; VLit (LInt 8); VLit (LInt 9); VLit LVoid]);
      [apply ra_0|reflexivity|exact E]. }
  exists s'. split; [exact R|].
  apply (tail_run_bounded_with_apply 1 ex_a0 s' 1); [reflexivity|exact R].
Qed.
