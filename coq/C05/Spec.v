(** C05 — SPEC: which procedure calls are tail calls (R7RS 3.5), as a structural recursion over
    the core AST, and what the stack policy must guarantee.

    R7RS 3.5: the body of a lambda is in tail position; if ⟨if⟩ is in tail position so are its
    two branches (not the test); if ⟨begin⟩ is, so is its last expression; operands, operator,
    the value of set! and non-last sequence elements never are.  [tail_sites tail e] lists every
    general application inside [e] (not entering nested lambda bodies, which are bodies of
    their own) with its tail flag and argument count, in the order in which a right-to-left
    evaluator meets the call instants. *)
From Coq Require Import ZArith List Bool Arith.
From ChibiV Require Import C03.Defs.
Import ListNotations.

Definition operands_forward (p : prim) : bool := match p with PGt | PGe => true | _ => false end.

Fixpoint tail_sites (tail : bool) (e : ast) {struct e} : list (bool * nat) :=
  match e with
  | Lit _ => []
  | Ref _ _ => []
  | Lam _ _ _ _ _ _ _ => []
  | SetV _ _ v => tail_sites false v
  | Cnd t p f => tail_sites false t ++ tail_sites tail p ++ tail_sites tail f
  | Seq es =>
      (fix go (l : list ast) : list (bool * nat) :=
         match l with
         | [] => []
         | a :: r => match r with [] => tail_sites tail a | _ :: _ => tail_sites false a ++ go r end
         end) es
  | App f args =>
      (fix go (l : list ast) : list (bool * nat) :=
         match l with [] => [] | a :: r => go r ++ tail_sites false a end) args
      ++ tail_sites false f ++ [(tail, length args)]
  | OpApp p args =>
      if operands_forward p
      then (fix go (l : list ast) : list (bool * nat) :=
              match l with [] => [] | a :: r => tail_sites false a ++ go r end) args
      else (fix go (l : list ast) : list (bool * nat) :=
              match l with [] => [] | a :: r => go r ++ tail_sites false a end) args
  end.

(** the same notion by paths (child indices: set! value 0; if 0/1/2; begin i; application
    operator 0, operand i at i+1): the applications in tail position of a body *)
Fixpoint tail_paths (e : ast) {struct e} : list (list nat) :=
  match e with
  | App _ _ => [[]]
  | Cnd _ p f => map (cons 1) (tail_paths p) ++ map (cons 2) (tail_paths f)
  | Seq es =>
      (fix go (i : nat) (l : list ast) : list (list nat) :=
         match l with
         | [] => []
         | a :: r => match r with [] => map (cons i) (tail_paths a) | _ :: _ => go (S i) r end
         end) 0 es
  | _ => []
  end.

(** number of tail calls among the sites *)
Definition count_tail (l : list (bool * nat)) : nat := length (filter fst l).
