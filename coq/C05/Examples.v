(** C05 — the hypotheses of the VM theorems are satisfiable: a concrete loop on a concrete state.
    P = the procedure (lambda (x) (P 5)) stored in global 7:  PUSH 5; GLOBAL-REF 7; TAIL-CALL 1; RET.
    The stack (top first): header of P's frame (fp 2: argument count 1, return ip 0, return self,
    return fp 0), the argument 9, one slot below the frame (base 1). *)
From Coq Require Import ZArith List Bool Arith Lia.
From ChibiV Require Import C03.Defs C03.Model C03.Proofs C05.Spec C05.Model C05.Proofs C05.Frames C05.Apply.
Import ListNotations.
Local Open Scope nat_scope.

Definition ex_code : code := [IPush (LInt 5); IGlobalRef 7; ITailCall 1; IRet].
Definition ex_P : value := VProc 0 1 ex_code (VLit LVoid).
Definition ex_s0 : state :=
  mkst [vint 0; VLit LVoid; vint 0; vint 1; VLit (LInt 9); VLit LVoid] 2 ex_P 0 [] [(7, ex_P)].
Definition after (s : state) : state := match step s with Next s' => s' | _ => s end.
Definition ex_s1 := after ex_s0.
Definition ex_s2 := after ex_s1.
Definition ex_s3 := after ex_s2.

(** theorem frame_preserved_by_every_noncall_opcode on the PUSH of the loop *)
Example noncall_step_quiet_example : chain_step ex_s0 ex_s1 /\ frame_info ex_s1 = Some (1, 0, VLit LVoid, 0).
Proof.
  split; [|reflexivity].
  apply (noncall_step_quiet ex_s0 ex_s1 (IPush (LInt 5)));
    first [reflexivity | exact I | (vm_compute; repeat constructor)].
Qed.

(** theorem tail_run_bounded: one full iteration (PUSH, GLOBAL-REF, TAIL-CALL) is a [run_ok], the next
    iteration starts at ip 0 of P with the same base, the same height, and the new argument *)
Example run_ok_example :
  run_ok 3 ex_s0 ex_s3 /\ base_of ex_s0 = Some 1 /\ base_of ex_s3 = Some 1 /\
  ip ex_s3 = 0 /\ self ex_s3 = ex_P /\ length (stk ex_s3) = length (stk ex_s0) /\
  sget (stk ex_s3) 1 = Some (VLit (LInt 5)).
Proof.
  split; [|repeat split; reflexivity].
  apply (run_S 2 ex_s0 ex_s2 ex_s3); [apply (run_S 1 ex_s0 ex_s1 ex_s2); [apply (run_S 0 ex_s0 ex_s0 ex_s1); [apply run_0| |]| |]| |];
    first [reflexivity
          | (unfold step_ok; change (nth_error (code_of (self ex_s2)) (ip ex_s2)) with (Some (ITailCall 1));
             eexists; eexists; reflexivity)
          | (vm_compute; repeat split; repeat constructor)].
Qed.

(** ... and the general theorem applied to it *)
Example tail_run_bounded_example : base_of ex_s3 = Some 1.
Proof. apply (tail_run_bounded 3 ex_s0 ex_s3 1); [reflexivity|apply run_ok_example]. Qed.

(** APPLY1: the frame of [apply] (2 arguments: base 1, fp 3) is running; on the stack the procedure
    Q = (lambda (a . r) ..) with a used rest list and the argument list (3 4) in the heap.  The
    callee's frame starts at the same base 1 (2 slots: a, the rest list), whatever the list length *)
Definition ex_Q : value := VProc 1 1 [ILocalRef 0; IRet] (VLit LVoid).
Definition ex_a0 : state :=
  mkst [ex_Q; VPair 1; vint 0; VLit LVoid; vint 0; vint 2; VLit (LInt 8); VLit (LInt 9); VLit LVoid] 3
       (VProc 0 2 [] (VLit LVoid)) 0
       [HPair (VLit (LInt 4)) (VLit LNil); HPair (VLit (LInt 3)) (VPair 0)] [].

Example apply1_example :
  base_of ex_a0 = Some 1 /\
  match apply1_step ex_a0 with
  | Next s' => base_of s' = Some 1 /\ length (stk s') = 1 + 2 + 4 /\ self s' = ex_Q /\
               sget (stk s') 2 = Some (VLit (LInt 3)) /\ sget (stk s') 1 = Some (VPair 2) /\
               nth_error (heap s') 2 = Some (HPair (VLit (LInt 4)) (VLit LNil))
  | _ => False
  end.
Proof. vm_compute. repeat split. Qed.
