(** C05 — model side: reading the calls off generated code, and the stack growth arithmetic.
    Shares the code generator and the VM of C03 (coq/C03/Model.v).  No proofs here.

    Mirrors: vm.c:860-885 sexp_grow_stack -> [grow_stack]; vm.c:1039-1052 sexp_ensure_stack ->
    [ensure_stack]; features.h:877-886 SEXP_INIT_STACK_SIZE / SEXP_MAX_STACK_SIZE. *)
From Coq Require Import ZArith List Bool Arith.
From ChibiV Require Import C03.Defs C03.Model.
Import ListNotations.

(** CALL / TAIL-CALL instructions of one code body in order (nested procedure bodies not entered) *)
Fixpoint calls_of (c : code) : list (bool * nat) :=
  match c with
  | [] => []
  | ICall n :: r => (false, n) :: calls_of r
  | ITailCall n :: r => (true, n) :: calls_of r
  | _ :: r => calls_of r
  end.

(** every code body of a program in the order the bodies appear in the code, with its calls *)
Fixpoint bodies_calls (fuel : nat) (c : code) : list (list (bool * nat)) :=
  match fuel with
  | 0 => []
  | S f =>
      calls_of c ::
      flat_map (fun i => match i with
                         | IPushProc _ _ b => bodies_calls f b
                         | IMakeProc _ _ b => bodies_calls f b
                         | _ => []
                         end) c
  end.

Definition INIT_STACK_SIZE : Z := 1024.
Definition MAX_STACK_SIZE : Z := 1024000.

(** vm.c:861-885 sexp_grow_stack: the new length, or None when no stack of the requested length
    can be had.  [fixed = true] is the repaired code (fixes/C05-ensure-stack-min-size.patch: a
    request above the maximum fails instead of being clipped); [fixed = false] the pinned one. *)
Definition grow_stack (fixed : bool) (size min_size : Z) : option Z :=
  let new_size := (size * 2)%Z in
  let new_size := if (new_size <? min_size)%Z then min_size else new_size in
  if (new_size >? MAX_STACK_SIZE)%Z then
    if (size =? MAX_STACK_SIZE)%Z || (fixed && (min_size >? MAX_STACK_SIZE)%Z) then None
    else Some MAX_STACK_SIZE
  else Some new_size.

Inductive ensured := Enough (len : Z) | OutOfStack.

(** vm.c:1040-1049 sexp_ensure_stack(n) at stack top [top] with stack length [len].  The pinned
    macro asks sexp_grow_stack for a stack of [n] slots (the *additional* room wanted), the
    repaired one for [top + n + 1]. *)
Definition ensure_stack (fixed : bool) (top n len : Z) : ensured :=
  if (top + n >=? len)%Z then
    match grow_stack fixed len (if fixed then top + n + 1 else n)%Z with
    | Some len' => Enough len'
    | None => OutOfStack
    end
  else Enough len.

(** Non-tail recursion of depth [k]: the VM runs the stack check of make_call (vm.c:1409
    [sexp_ensure_stack(max_depth(callee)+64)]) once per pending call, the j-th one at stack top
    [top + j*per] ([per] = slots one pending call keeps: its arguments + the 4 header slots + what the
    caller left on its operand stack), always asking for [n] more slots; the stack length is threaded
    through.  State = (top of the next check, outcome so far); once a check has failed the error
    object is returned through all frames (vm.c:1046 goto end_loop) and nothing changes any more. *)
Definition deep_step (per n : Z) (st : Z * ensured) : Z * ensured :=
  match snd st with
  | OutOfStack => st
  | Enough len => ((fst st + per)%Z, ensure_stack true (fst st) n len)
  end.

Definition deep_calls (k : nat) (top per n len : Z) : ensured :=
  snd (Nat.iter k (deep_step per n) (top, Enough len)).

(** the same with the depth in binary (the extracted driver is asked about depths of millions) *)
Definition deep_outcome (k : Z) (top per n len : Z) : ensured :=
  snd (Z.iter k (deep_step per n) (top, Enough len)).
