(** C05 — model side: reading the calls off generated code, and the stack growth arithmetic.
    Shares the code generator and the VM of C03 (coq/C03/Model.v).  No proofs here.

    Mirrors: vm.c:860-885 sexp_grow_stack -> [grow_stack]; vm.c:1039-1052 sexp_ensure_stack ->
    [ensure_stack]; features.h:877-886 SEXP_INIT_STACK_SIZE / SEXP_MAX_STACK_SIZE. *)
From Coq Require Import ZArith List Bool Arith.
From ChibiV Require Import C03.Defs C03.Model.
Import ListNotations.

(** CALL / TAIL-CALL instructions of one code body in order (nested procedure bodies not entered) *)
Fixpoint calls_of (c : code) : list (bool * nat) :=
  match c with
  | [] => []
  | ICall n :: r => (false, n) :: calls_of r
  | ITailCall n :: r => (true, n) :: calls_of r
  | _ :: r => calls_of r
  end.

(** every code body of a program in the order the bodies appear in the code, with its calls *)
Fixpoint bodies_calls (fuel : nat) (c : code) : list (list (bool * nat)) :=
  match fuel with
  | 0 => []
  | S f =>
      calls_of c ::
      flat_map (fun i => match i with
                         | IPushProc _ _ b => bodies_calls f b
                         | IMakeProc _ _ b => bodies_calls f b
                         | _ => []
                         end) c
  end.

Definition INIT_STACK_SIZE : Z := 1024.
Definition MAX_STACK_SIZE : Z := 1024000.

(** vm.c:861-885 sexp_grow_stack: the new length, or None when no stack of the requested length
    can be had.  [fixed = true] is the repaired code (fixes/C05-ensure-stack-min-size.patch: a
    request above the maximum fails instead of being clipped); [fixed = false] the pinned one. *)
Definition grow_stack (fixed : bool) (size min_size : Z) : option Z :=
  let new_size := (size * 2)%Z in
  let new_size := if (new_size <? min_size)%Z then min_size else new_size in
  if (new_size >? MAX_STACK_SIZE)%Z then
    if (size =? MAX_STACK_SIZE)%Z || (fixed && (min_size >? MAX_STACK_SIZE)%Z) then None
    else Some MAX_STACK_SIZE
  else Some new_size.

Inductive ensured := Enough (len : Z) | OutOfStack.

(** vm.c:1040-1049 sexp_ensure_stack(n) at stack top [top] with stack length [len].  The pinned
    macro asks sexp_grow_stack for a stack of [n] slots (the *additional* room wanted), the
    repaired one for [top + n + 1]. *)
Definition ensure_stack (fixed : bool) (top n len : Z) : ensured :=
  if (top + n >=? len)%Z then
    match grow_stack fixed len (if fixed then top + n + 1 else n)%Z with
    | Some len' => Enough len'
    | None => OutOfStack
    end
  else Enough len.

(** Non-tail recursion of depth [k]: the VM runs the stack check of make_call (vm.c:1409
    [sexp_ensure_stack(max_depth(callee)+64)]) once per pending call, the j-th one at stack top
    [top + j*per] ([per] = slots one pending call keeps: its arguments + the 4 header slots + what the
    caller left on its operand stack), always asking for [n] more slots; the stack length is threaded
    through.  State = (top of the next check, outcome so far); once a check has failed the error
    object is returned through all frames (vm.c:1046 goto end_loop) and nothing changes any more. *)
Definition deep_step (per n : Z) (st : Z * ensured) : Z * ensured :=
  match snd st with
  | OutOfStack => st
  | Enough len => ((fst st + per)%Z, ensure_stack true (fst st) n len)
  end.

Definition deep_calls (k : nat) (top per n len : Z) : ensured :=
  snd (Nat.iter k (deep_step per n) (top, Enough len)).

(** the same with the depth in binary (the extracted driver is asked about depths of millions) *)
Definition deep_outcome (k : Z) (top per n len : Z) : ensured :=
  snd (Z.iter k (deep_step per n) (top, Enough len)).

(** The same recursion with the stack length and the failure remembered: state = (top of the next
    stack check - after a failure: of the failed one -, stack length, out of stack?). *)
Definition trace_step (per n : Z) (st : Z * Z * bool) : Z * Z * bool :=
  let '(t, l, failed) := st in
  if failed then st else
  match ensure_stack true t n l with
  | OutOfStack => (t, l, true)
  | Enough l' => ((t + per)%Z, l', false)
  end.

Definition deep_trace (k : nat) (top per n len : Z) : Z * Z * bool :=
  Nat.iter k (trace_step per n) (top, len, false).

Definition deep_trace_z (k : Z) (top per n len : Z) : Z * Z * bool :=
  Z.iter k (trace_step per n) (top, len, false).

(** what a context keeps between two calls of sexp_apply: the top and the length of its stack *)
Record cstack := mkcs { ctop : Z; clen : Z }.

(** sexp_apply(ctx, proc, args) running a non-tail recursion of depth [k] on the context's own stack.
    Entry (vm.c:1171): top = sexp_context_top(ctx); the first stack check of the recursion happens
    [c0] slots higher.  Exit (vm.c:2436-2438): a value comes back through the RET of every frame and
    the final resumer, and the exit's [--top] is the entry top again.  The out-of-stack object leaves
    the loop from inside the failing check (vm.c:1059 [goto end_loop]) with [top] still at that
    check: the pinned exit stores [top - 1] into the context, the repaired one
    (fixes/C05-apply-exit-top.patch) the entry top.  Result: (a value came back?, the context). *)
Definition apply_exit (fixed : bool) (entry : Z) (tr : Z * Z * bool) : bool * cstack :=
  let '(t, l, failed) := tr in
  if failed then (false, mkcs (if fixed then entry else (t - 1)%Z) l) else (true, mkcs entry l).

Definition apply_deep (fixed : bool) (c0 per n : Z) (c : cstack) (k : nat) : bool * cstack :=
  apply_exit fixed (ctop c) (deep_trace k (ctop c + c0)%Z per n (clen c)).

Definition apply_deep_z (fixed : bool) (c0 per n : Z) (c : cstack) (k : Z) : bool * cstack :=
  apply_exit fixed (ctop c) (deep_trace_z k (ctop c + c0)%Z per n (clen c)).

(** a sequence of such calls on the same context *)
Fixpoint session (fixed : bool) (c0 per n : Z) (c : cstack) (ks : list nat) : list bool * cstack :=
  match ks with
  | [] => ([], c)
  | k :: r =>
      let '(ok, c1) := apply_deep fixed c0 per n c k in
      let '(oks, c2) := session fixed c0 per n c1 r in
      (ok :: oks, c2)
  end.

Fixpoint session_z (fixed : bool) (c0 per n : Z) (c : cstack) (ks : list Z) : list (bool * cstack) :=
  match ks with
  | [] => []
  | k :: r =>
      let oc := apply_deep_z fixed c0 per n c k in
      oc :: session_z fixed c0 per n (snd oc) r
  end.

(** the elements of a proper list in the heap (what sexp_length and the copy loop of APPLY1 walk
    over); a proper list in a heap of m objects has at most m pairs, the fuel covers them *)
Fixpoint list_of_heap (fuel : nat) (h : list hobj) (v : value) : option (list value) :=
  match fuel with
  | O => None
  | S f =>
      match v with
      | VLit LNil => Some []
      | VPair a =>
          match nth_error h a with
          | Some (HPair x d) =>
              match list_of_heap f h d with Some r => Some (x :: r) | None => None end
          | _ => None
          end
      | _ => None
      end
  end.

(** vm.c:1351-1380 SEXP_OP_APPLY1 (the tail-only opcode behind [apply]): stack = procedure, argument
    list, ...; the list elements are written over the running frame from its base upwards
    ([for (top=fp-j+i-1; pairp(tmp2); tmp2=cdr(tmp2), top--) stack[top] = car(tmp2)]: the first
    element ends up on top), [top = fp+i-j], the procedure is pushed and make_call entered with the
    running frame's own return information.  A circular or improper list is the error
    "apply: circular list" / "apply: improper args list".  (The stack check sexp_ensure_stack of
    line 1359 is the subject of [ensure_stack]; the model stack is a list.) *)
Definition apply1_step (s : state) : outcome :=
  match stk s, frame_info s with
  | proc :: lst :: _, Some (j, rip, rself, rfp) =>
      match list_of_heap (S (length (heap s))) (heap s) lst with
      | None => Fail EType
      | Some args =>
          if fp s <? j then Fail EStuck
          else make_call s proc (args ++ below (fp s - j) (stk s)) (length args) rip rself rfp
      end
  | _, _ => Fail EStuck
  end.
