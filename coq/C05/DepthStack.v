(** C05 - the stack check of make_call and the certified depth together: what sexp_ensure_stack(max_depth+64)
    (vm.c:1430) is for.  If the check that precedes the entry of a procedure asked for at least
    (certified depth of its body + 4 header slots) and let execution go on, no instruction of that body - up to
    its next call or return - ever stands above the end of the stack object. *)
From Coq Require Import ZArith List Bool Arith Lia.
From ChibiV Require Import C03.Defs C03.Model C05.Spec C05.Model C05.Proofs C05.Frames C05.Depth C05.DepthProofs.
Import ListNotations.
Local Open Scope nat_scope.

(** n steps inside one body: none of them a CALL, TAIL-CALL, RET or DONE *)
Inductive run_body : nat -> state -> state -> Prop :=
| rb_0 : forall s, run_body 0 s s
| rb_S : forall n s s' s'' i, run_body n s s' ->
    nth_error (code_of (self s')) (ip s') = Some i -> is_ctl i = false -> step s' = Next s'' ->
    run_body (S n) s s''.

Lemma run_body_inv : forall n s s' ds,
  cert_ok (code_of (self s)) ds = true -> Inv ds s -> run_body n s s' ->
  fp s' = fp s /\ self s' = self s /\ Inv ds s'.
Proof.
  intros n s s' ds Hc HI H. induction H as [s|n s s' s'' i H IH Hi Ctl Hs]; [auto|].
  destruct (IH Hc HI) as [Hf [Hself HI']]. rewrite <- Hself in Hc.
  destruct (certified_step s' s'' i ds Hc HI' Hi Ctl Hs) as [_ [Hself' HI'']].
  destruct (step_effect s' s'' i Hi Ctl Hs) as [Hf' _].
  repeat split; [congruence|congruence|exact HI''].
Qed.

(** [top] = the stack top at the check (the arguments are pushed: it is the callee's fp), [nreq] = the room asked
    for, [len] / [len'] = the length of the stack object before / after the check *)
Theorem certified_body_fits_stack : forall n s s' ds nreq len len',
  cert_ok (code_of (self s)) ds = true -> Inv ds s -> run_body n s s' ->
  (Z.of_nat (max_depth ds) + 4 <= nreq)%Z ->
  (Z.of_nat (fp s) < len)%Z -> (len <= MAX_STACK_SIZE)%Z ->
  ensure_stack true (Z.of_nat (fp s)) nreq len = Enough len' ->
  (Z.of_nat (length (stk s')) < len')%Z /\ (len' <= MAX_STACK_SIZE)%Z.
Proof.
  intros n s s' ds nreq len len' Hc HI H Hn Hl Hm He.
  destruct (run_body_inv n s s' ds Hc HI H) as [Hf [_ [d [Hd HL]]]].
  apply max_depth_ge in Hd.
  destruct (ensure_stack_sufficient (Z.of_nat (fp s)) nreq len len') as [A B]; try assumption; try lia.
Qed.

(** the hypotheses are satisfiable: the hand-written loop body at the entry state of [run_cert_example], two steps
    (PUSH, GLOBAL-REF) into the body, checked with the request max_depth + 64 on a 1024-slot stack *)
Example certified_body_fits_stack_example :
  let loopc := [IPush (LInt 5); IGlobalRef 7; ITailCall 1; IRet] in
  let lp := VProc 0 1 loopc (VLit LVoid) in
  let s0 := mkst [vint 0; final_resumer; vint 0; vint 1; VLit (LInt 3); VLit LVoid] 2 lp 0 [] [(7, lp)] in
  exists s2, run_body 2 s0 s2 /\ (Z.of_nat (length (stk s2)) < 1024)%Z.
Proof.
  cbv zeta. eexists. split.
  - eapply rb_S; [eapply rb_S; [apply rb_0| | |]| | |]; vm_compute; reflexivity.
  - vm_compute. reflexivity.
Qed.
