(** C05 - every code body the model's code generator emits has a depth certificate (C05/Depth.v):
    for every expression of the right shape (sequences non-empty, primitives applied to their number of
    arguments - what the analyser produces), [generate] yields a fragment that takes the frame from height
    d to d+1 with every instruction finding its operands above the header, in any surrounding code. *)
From Coq Require Import ZArith List Bool Arith Lia.
From ChibiV Require Import C03.Defs C03.Model C03.Proofs C05.Spec C05.Model C05.Proofs C05.Frames C05.Depth C05.DepthProofs.
Import ListNotations.
Local Open Scope nat_scope.

(** [c] is certifiable from height d0 to height d1 wherever it stands: depths [ds] for its instructions
    such that the local checks hold in every certificate that contains ds followed by d1 *)
Definition fragc (c : code) (d0 d1 : nat) : Prop :=
  exists ds, length ds = length c /\ nth_error (ds ++ [d1]) 0 = Some d0 /\
    forall pre post, cert_from (pre ++ ds ++ d1 :: post) (length pre) c = true.

Lemma cert_from_app : forall D c1 c2 i,
  cert_from D i (c1 ++ c2) = cert_from D i c1 && cert_from D (i + length c1) c2.
Proof.
  intros D c1. induction c1 as [|x c1 IH]; intros c2 i; simpl.
  - rewrite Nat.add_0_r. reflexivity.
  - rewrite IH. replace (S i + length c1) with (i + S (length c1)) by lia. apply andb_assoc.
Qed.

Lemma nth_skip : forall (A : Type) (a b : list A) k, nth_error (a ++ b) (length a + k) = nth_error b k.
Proof. intros. rewrite nth_error_app2 by lia. f_equal. lia. Qed.

Lemma nth_skip0 : forall (A : Type) (a b : list A), nth_error (a ++ b) (length a) = nth_error b 0.
Proof. intros. rewrite <- (Nat.add_0_r (length a)) at 1. apply nth_skip. Qed.

Lemma entry_ext : forall (ds : list nat) x d rest, nth_error (ds ++ [x]) 0 = Some d -> nth_error (ds ++ x :: rest) 0 = Some d.
Proof. intros [|y ds] x d rest H; simpl in *; assumption. Qed.

Lemma fragc_eq : forall c d0 d1 d1', fragc c d0 d1 -> d1 = d1' -> fragc c d0 d1'.
Proof. intros. subst. assumption. Qed.

Lemma frag_nil : forall d, fragc [] d d.
Proof. intro d. exists []. repeat split. Qed.

Lemma frag_app : forall c1 c2 d0 dm d1, fragc c1 d0 dm -> fragc c2 dm d1 -> fragc (c1 ++ c2) d0 d1.
Proof.
  intros c1 c2 d0 dm d1 [ds1 [L1 [E1 C1]]] [ds2 [L2 [E2 C2]]].
  exists (ds1 ++ ds2). split; [rewrite !app_length; lia|]. split.
  - destruct ds1 as [|x ds1]; simpl in *; [|assumption]. inversion E1; subst. assumption.
  - intros pre post. rewrite cert_from_app. apply andb_true_iff. split.
    + destruct ds2 as [|y ds2]; simpl in E2; inversion E2; subst.
      * rewrite app_nil_r. apply C1.
      * rewrite <- app_assoc. apply (C1 pre (ds2 ++ d1 :: post)).
    + specialize (C2 (pre ++ ds1) post). rewrite app_length, L1 in C2.
      rewrite <- !app_assoc in C2. rewrite <- app_assoc. exact C2.
Qed.

Lemma frag_cons : forall i c d0 dm d1, fragc [i] d0 dm -> fragc c dm d1 -> fragc (i :: c) d0 d1.
Proof. intros. change (i :: c) with ([i] ++ c). eapply frag_app; eassumption. Qed.

Lemma frag_one : forall i d d1,
  (forall D k, nth_error D (S k) = Some d1 -> cert_instr D k i d = true) -> fragc [i] d d1.
Proof.
  intros i d d1 H. exists [d]. split; [reflexivity|]. split; [reflexivity|].
  intros pre post. cbn [cert_from app]. rewrite nth_skip0. cbn [nth_error]. rewrite andb_true_r.
  apply H. replace (S (length pre)) with (length pre + 1) by lia. rewrite nth_skip. reflexivity.
Qed.

Lemma deq_intro : forall D k d, nth_error D k = Some d -> deq D k d = true.
Proof. intros D k d H. unfold deq. rewrite H. apply Nat.eqb_refl. Qed.

Lemma frag_plain : forall i d d1, plain i = true -> dpops i <= d -> local_set_static i = true ->
  d1 = d - dpops i + dpushes i -> fragc [i] d d1.
Proof.
  intros i d d1 P L ST E. apply frag_one. intros D k H. rewrite cert_instr_plain by assumption.
  rewrite ST. subst d1. rewrite (deq_intro _ _ _ H). apply Nat.leb_le in L. rewrite L. reflexivity.
Qed.

Lemma frag_call : forall n d d1, S n <= d -> d1 = d - n -> fragc [ICall n] d d1.
Proof.
  intros n d d1 L E. apply frag_one. intros D k H. cbn [cert_instr]. subst d1.
  rewrite (deq_intro _ _ _ H). apply Nat.leb_le in L. rewrite L. reflexivity.
Qed.

(** nothing is required of what follows a TAIL-CALL or a RET *)
Lemma frag_tailcall : forall n d d1, S n <= d -> fragc [ITailCall n] d d1.
Proof. intros n d d1 L. apply frag_one. intros D k H. cbn [cert_instr]. apply Nat.leb_le. exact L. Qed.

Lemma frag_ret : forall d d1, 1 <= d -> fragc [IRet] d d1.
Proof. intros d d1 L. apply frag_one. intros D k H. cbn [cert_instr]. apply Nat.leb_le. exact L. Qed.

Ltac plain1 := apply frag_plain; [reflexivity | cbn [dpops]; lia | reflexivity | cbn [dpops dpushes]; lia].

(** the code shape of generate_cnd *)
Lemma frag_cnd : forall cp cf d e, fragc cp d e -> fragc cf d e ->
  fragc ([IJumpUnless (S (length cp))] ++ cp ++ [IJump (length cf)] ++ cf) (S d) e.
Proof.
  intros cp cf d e [dp [Lp [Ep Cp]]] [df [Lf [Ef Cf]]].
  exists ([S d] ++ dp ++ [e] ++ df). split; [rewrite !app_length; simpl; lia|]. split; [reflexivity|].
  intros pre post.
  assert (ED : pre ++ ([S d] ++ dp ++ [e] ++ df) ++ e :: post = pre ++ [S d] ++ dp ++ [e] ++ df ++ e :: post)
    by (rewrite <- !app_assoc; reflexivity).
  rewrite ED. clear ED. set (D := pre ++ [S d] ++ dp ++ [e] ++ df ++ e :: post).
  rewrite !cert_from_app. rewrite !andb_true_iff. repeat split.
  - (* JUMP-UNLESS *)
    cbn [cert_from]. unfold D at 1. rewrite nth_skip0. cbn [app nth_error]. rewrite andb_true_r.
    cbn [cert_instr]. rewrite !andb_true_iff. repeat split.
    + apply deq_intro. unfold D. replace (S (length pre)) with (length pre + 1) by lia.
      rewrite nth_skip. cbn [app nth_error]. replace (S d - 1) with d by lia.
      change (dp ++ e :: df ++ e :: post) with (dp ++ e :: (df ++ e :: post)). apply entry_ext. exact Ep.
    + apply deq_intro. unfold D.
      replace (S (length pre) + S (length cp)) with (length pre + S (length dp + 1)) by lia.
      rewrite nth_skip. cbn [app nth_error]. rewrite nth_skip. cbn [app nth_error].
      replace (S d - 1) with d by lia. apply entry_ext. exact Ef.
  - (* the pass branch *)
    specialize (Cp (pre ++ [S d]) (df ++ e :: post)). rewrite app_length in Cp. cbn [length] in Cp.
    rewrite <- !app_assoc in Cp. cbn [length]. exact Cp.
  - (* JUMP over the fail branch *)
    cbn [cert_from length]. rewrite andb_true_r.
    assert (N : nth_error D (length pre + 1 + length cp) = Some e).
    { unfold D. replace (length pre + 1 + length cp) with (length pre + S (length dp + 0)) by lia.
      rewrite nth_skip. cbn [app nth_error]. rewrite nth_skip. reflexivity. }
    rewrite N. cbn [cert_instr]. apply deq_intro. unfold D.
    replace (S (length pre + 1 + length cp) + length cf) with (length pre + S (length dp + S (length df + 0))) by lia.
    rewrite nth_skip. cbn [app nth_error]. rewrite nth_skip. cbn [app nth_error]. rewrite nth_skip. reflexivity.
  - (* the fail branch *)
    specialize (Cf (pre ++ [S d] ++ dp ++ [e]) post). rewrite !app_length in Cf. cbn [length] in Cf.
    rewrite <- !app_assoc in Cf. cbn [length].
    replace (length pre + 1 + length cp + 1) with (length pre + (1 + (length dp + 1))) by lia. exact Cf.
Qed.

(* ------------------------------------------------------------------ the pieces of generate *)

Lemma ngr_frag : forall svs cur x o u d, fragc (gen_non_global_ref svs cur x o u) d (S d).
Proof.
  intros. unfold gen_non_global_ref. eapply (frag_app _ _ d (S d) (S d)).
  - destruct cur as [c|]; [destruct (loc_eqb o (Local (l_id c)))|]; plain1.
  - destruct (u && memn x (sv_of svs o)); [plain1|apply frag_nil].
Qed.

Lemma gen_ref_frag : forall svs cur x o u d, fragc (gen_ref svs cur x o u) d (S d).
Proof.
  intros. unfold gen_ref. destruct o; [destruct u; plain1|]. destruct cur; [apply ngr_frag|plain1].
Qed.

Lemma closure_fill_frag : forall svs cur l k d, fragc (closure_fill svs cur k l) (S d) (S d).
Proof.
  induction l as [|[x o] t IH]; intros k d; [apply frag_nil|].
  cbn [closure_fill]. eapply (frag_app _ _ _ (S (S d))); [apply ngr_frag|].
  cbn [app]. eapply (frag_cons _ _ _ (S (S (S d)))); [plain1|]. eapply (frag_cons _ _ _ (S (S (S (S d))))); [plain1|].
  eapply (frag_cons _ _ _ (S d)); [|apply IH].
  apply frag_plain; [reflexivity|cbn [dpops]; lia|reflexivity|cbn [dpops dpushes]; lia].
Qed.

Lemma param_index_static : forall ps r ls x, local_set_static (ILocalSet (param_index ps r ls x)) = true.
Proof.
  intros. cbn [local_set_static]. unfold param_index. apply orb_true_iff.
  destruct (index_of x ps) as [i|]; [left; apply Z.leb_le; lia|].
  destruct (match r with Some y => y =? x | None => false end); [left; apply Z.leb_le; lia|].
  destruct (index_of x ls) as [i|]; right; apply Z.leb_le; lia.
Qed.

Lemma box_code_frag : forall ps r ls sv d, fragc (box_code ps r ls sv) d d.
Proof.
  intros ps r ls sv d. unfold box_code. induction sv as [|x sv IH]; [apply frag_nil|].
  cbn [flat_map]. cbv zeta. cbn [app].
  eapply (frag_cons _ _ _ (S d)); [plain1|]. eapply (frag_cons _ _ _ (S (S d))); [plain1|].
  eapply (frag_cons _ _ _ (S d)); [plain1|]. eapply (frag_cons _ _ _ d); [|exact IH].
  apply frag_plain; [reflexivity|cbn [dpops]; lia|apply param_index_static|cbn [dpops dpushes]; lia].
Qed.

Lemma repeat_push_frag : forall l k d, fragc (repeat (IPush l) k) d (d + k).
Proof.
  intros l k. induction k as [|k IH]; intro d.
  - rewrite Nat.add_0_r. apply frag_nil.
  - cbn [repeat]. eapply (frag_cons _ _ _ (S d)); [plain1|]. eapply fragc_eq; [apply (IH (S d))|lia].
Qed.

Lemma repeat_prim_frag : forall op k d, dpops (IPrim op) = 2 -> fragc (repeat (IPrim op) k) (S d + k) (S d).
Proof.
  intros op k d H. induction k as [|k IH].
  - rewrite Nat.add_0_r. apply frag_nil.
  - cbn [repeat]. eapply (frag_cons _ _ _ (S d + k)); [|exact IH].
    apply frag_plain; [reflexivity|rewrite H; lia|reflexivity|rewrite H; cbn [dpushes]; lia].
Qed.

(* ------------------------------------------------------------------ shape of analysed expressions *)

Fixpoint shape_ok (e : ast) : bool :=
  match e with
  | Lit _ | Ref _ _ => true
  | SetV _ _ v => shape_ok v
  | Cnd t p f => shape_ok t && shape_ok p && shape_ok f
  | Seq es => match es with [] => false | _ :: _ => forallb shape_ok es end
  | Lam _ _ _ _ _ _ b => shape_ok b
  | App f args => shape_ok f && forallb shape_ok args
  | OpApp p args =>
      (if prim_arith p then 1 <=? length args else Nat.eqb (length args) (prim_arity p)) && forallb shape_ok args
  end.

(** what the induction carries: the expression's code is a d -> d+1 fragment; for a set! also its value's *)
Definition Q (e : ast) : Prop :=
  (forall tail svs cur d, fragc (generate tail svs cur e) d (S d)) /\
  match e with SetV _ _ v => forall svs cur d, fragc (generate false svs cur v) d (S d) | _ => True end.
Definition P (e : ast) : Prop := shape_ok e = true -> Q e.

Lemma Forall_P_Q : forall es, Forall P es -> forallb shape_ok es = true -> Forall Q es.
Proof.
  induction 1 as [|e r He Hr IH]; intro SH; [constructor|].
  cbn [forallb] in SH. apply andb_true_iff in SH. destruct SH as [S1 S2]. constructor; [apply He; exact S1|apply IH; exact S2].
Qed.

Lemma set_mid_frag : forall svs cur x o d,
  fragc (match o with
         | Global => [IPushCell x; ISetCdr]
         | Local m =>
             if memn x (svs m) then gen_ref svs cur x o false ++ [ISetCdr]
             else [ILocalSet (match cur with
                              | Some c => if Nat.eqb m (l_id c)
                                          then param_index (l_params c) (l_rest c) (l_locals c) x
                                          else (-10000)%Z
                              | None => (-10000)%Z
                              end)]
         end) (S d) d.
Proof.
  intros. destruct o as [|m].
  - eapply (frag_cons _ _ _ (S (S d))); [plain1|]. plain1.
  - destruct (memn x (svs m)).
    + eapply (frag_app _ _ _ (S (S d))); [apply gen_ref_frag|]. plain1.
    + apply frag_plain; [reflexivity|cbn [dpops]; lia| |cbn [dpops dpushes]; lia].
      destruct cur as [c|]; [destruct (Nat.eqb m (l_id c)); [apply param_index_static|reflexivity]|reflexivity].
Qed.

Lemma gen_rev_frag : forall args, Forall Q args ->
  forall svs cur d, fragc (gen_rev false svs cur args) d (d + length args).
Proof.
  induction 1 as [|a r Ha Hr IH]; intros svs cur d.
  - rewrite Nat.add_0_r. apply frag_nil.
  - change (gen_rev false svs cur (a :: r)) with (gen_rev false svs cur r ++ generate false svs cur a).
    eapply (frag_app _ _ _ (d + length r)); [apply IH|]. eapply fragc_eq; [apply (proj1 Ha)|cbn [length]; lia].
Qed.

Lemma gen_fwd_frag : forall args, Forall Q args ->
  forall svs cur d, fragc (gen_fwd svs cur args) d (d + length args).
Proof.
  induction 1 as [|a r Ha Hr IH]; intros svs cur d.
  - rewrite Nat.add_0_r. apply frag_nil.
  - change (gen_fwd svs cur (a :: r)) with (generate false svs cur a ++ gen_fwd svs cur r).
    eapply (frag_app _ _ _ (S d)); [apply (proj1 Ha)|]. eapply fragc_eq; [apply (IH svs cur (S d))|cbn [length]; lia].
Qed.

(** a non-final sequence element leaves the height where it was (vm.c generate_seq + generate_drop_prev) *)
Lemma drop_frag : forall e, Q e -> forall svs cur d,
  fragc (if is_lit e then [] else drop_prev e (generate false svs cur e)) d d.
Proof.
  intros e [H1 H2] svs cur d.
  destruct e; cbn [is_lit]; try apply frag_nil;
    try (unfold drop_prev; cbn [is_set_or_lit]; eapply (frag_app _ _ _ (S d)); [apply H1|plain1]).
  (* set!: the trailing PUSH void is rewound *)
  unfold drop_prev. cbn [is_set_or_lit]. cbn [generate]. rewrite !app_assoc, removelast_last.
  eapply (frag_app _ _ _ (S d)); [apply H2|apply set_mid_frag].
Qed.

Lemma gen_seq_frag : forall es, Forall Q es -> es <> [] ->
  forall tail svs cur d, fragc (gen_seq tail svs cur es) d (S d).
Proof.
  induction 1 as [|e r He Hr IH]; intros NE tail svs cur d; [congruence|].
  destruct r as [|e2 r2].
  - simpl. apply (proj1 He).
  - change (gen_seq tail svs cur (e :: e2 :: r2))
      with ((if is_lit e then [] else drop_prev e (generate false svs cur e)) ++ gen_seq tail svs cur (e2 :: r2)).
    eapply (frag_app _ _ _ d); [apply drop_frag; exact He|apply IH; discriminate].
Qed.

Lemma prim_opcode_pops : forall p, dpops (IPrim (prim_opcode p)) = prim_arity p.
Proof. destruct p; reflexivity. Qed.

Lemma prim_arith_pops : forall p, prim_arith p = true -> dpops (IPrim (prim_opcode p)) = 2.
Proof. destruct p; try discriminate; reflexivity. Qed.

(** for every expression of the right shape, in every context and at every height: generate emits a
    fragment that raises the height by exactly one (the value) and never reaches below its starting height *)
Theorem generate_frag_all : forall e, P e.
Proof.
  induction e using ast_ind'; intro SH; cbn [shape_ok] in SH.
  - split; [|exact I]. intros. cbn [generate]. plain1.
  - split; [|exact I]. intros. cbn [generate]. apply gen_ref_frag.
  - destruct (IHe SH) as [Hv _]. split; [|intros; apply Hv].
    intros. cbn [generate]. eapply (frag_app _ _ _ (S d)); [apply Hv|]. eapply (frag_app _ _ _ d); [apply set_mid_frag|plain1].
  - apply andb_true_iff in SH. destruct SH as [SH S3]. apply andb_true_iff in SH. destruct SH as [S1 S2].
    destruct (IHe1 S1) as [H1 _]. destruct (IHe2 S2) as [H2 _]. destruct (IHe3 S3) as [H3 _].
    split; [|exact I]. intros. cbn [generate]. cbv zeta. eapply (frag_app _ _ _ (S d)); [apply H1|].
    apply frag_cnd; [apply H2|apply H3].
  - split; [|exact I]. intros.
    change (generate tail svs cur (Seq es)) with (gen_seq tail svs cur es).
    destruct es as [|e0 es0]; [discriminate|].
    apply gen_seq_frag; [apply Forall_P_Q; assumption|discriminate].
  - split; [|exact I]. intros. cbn [generate]. cbv zeta. destruct fv as [|f0 fr]; [plain1|].
    cbn [app]. eapply (frag_cons _ _ _ (S d)); [plain1|]. eapply (frag_cons _ _ _ (S (S d))); [plain1|].
    eapply (frag_cons _ _ _ (S d)); [plain1|].
    eapply (frag_app _ _ _ (S d)); [apply closure_fill_frag|]. plain1.
  - apply andb_true_iff in SH. destruct SH as [S1 S2]. destruct (IHe S1) as [He _].
    split; [|exact I]. intros.
    change (generate tail svs cur (App e args))
      with (gen_rev false svs cur args ++ generate false svs cur e
            ++ [if tail then ITailCall (length args) else ICall (length args)]).
    eapply (frag_app _ _ _ (d + length args)); [apply gen_rev_frag; apply Forall_P_Q; assumption|].
    eapply (frag_app _ _ _ (S (d + length args))); [apply He|].
    destruct tail; [apply frag_tailcall; lia|apply frag_call; lia].
  - apply andb_true_iff in SH. destruct SH as [S1 S2].
    split; [|exact I]. intros.
    change (generate tail svs cur (OpApp p args))
      with ((if prim_inverse p then gen_fwd svs cur args else gen_rev false svs cur args)
            ++ (if prim_arith p then repeat (IPrim (prim_opcode p)) (length args - 1) else [IPrim (prim_opcode p)])).
    assert (QA : Forall Q args) by (apply Forall_P_Q; assumption).
    eapply (frag_app _ _ _ (d + length args)).
    + destruct (prim_inverse p); [apply gen_fwd_frag|apply gen_rev_frag]; exact QA.
    + destruct (prim_arith p) eqn:A.
      * apply Nat.leb_le in S1.
        replace (d + length args) with (S d + (length args - 1)) by lia.
        apply repeat_prim_frag. apply prim_arith_pops. exact A.
      * apply Nat.eqb_eq in S1.
        apply frag_plain; [reflexivity|rewrite prim_opcode_pops; lia|reflexivity|
                           rewrite prim_opcode_pops; cbn [dpushes]; lia].
Qed.

Lemma fragc_cert : forall c d1, fragc c 0 d1 -> exists ds, cert_ok c ds = true.
Proof.
  intros c d1 [ds [L [E C]]]. exists (ds ++ [d1]). unfold cert_ok. apply andb_true_iff. split.
  - apply deq_intro. exact E.
  - exact (C [] []).
Qed.

(** the body of every lambda the generator compiles - locals, boxing prologue, the body expression in tail
    context, RET - has a certificate *)
Lemma lambda_body_frag : forall svs cur ps r ls sv b d1, shape_ok b = true ->
  fragc (repeat (IPush LUndef) (length ls) ++ box_code ps r ls sv ++ generate true svs cur b ++ [IRet]) 0 d1.
Proof.
  intros svs cur ps r ls sv b d1 SH.
  eapply (frag_app _ _ _ (0 + length ls)); [apply repeat_push_frag|].
  eapply (frag_app _ _ _ (0 + length ls)); [apply box_code_frag|].
  eapply (frag_app _ _ _ (S (0 + length ls))); [apply (proj1 (generate_frag_all b SH))|]. apply frag_ret. lia.
Qed.

Theorem lambda_body_certified : forall svs cur id ps r ls sv fv b fl n c,
  shape_ok b = true ->
  In (IPushProc fl n c) (generate false svs cur (Lam id ps r ls sv fv b)) \/
  In (IMakeProc fl n c) (generate false svs cur (Lam id ps r ls sv fv b)) ->
  exists ds, cert_ok c ds = true.
Proof.
  intros svs cur id ps r ls sv fv b fl n c SH H. cbn [generate] in H. cbv zeta in H.
  assert (E : forall body,
            body = repeat (IPush LUndef) (length ls) ++ box_code ps r ls sv
                   ++ generate true (fun m => if m =? id then sv else svs m) (Some (mk_lctx id ps r ls fv)) b ++ [IRet] ->
            exists ds, cert_ok body ds = true).
  { intros body ->. eapply fragc_cert. apply (lambda_body_frag _ _ ps r ls sv b 0 SH). }
  destruct fv as [|f0 fr].
  - destruct H as [[H|[]]|[H|[]]]; inversion H; subst. apply E. reflexivity.
  - match type of H with In _ (?pre ++ ?mid ++ [?last]) \/ _ =>
      assert (G : forall i, is_proc i = true -> In i (pre ++ mid ++ [last]) -> i = last)
    end.
    { intros i Hi Hin. apply in_app_or in Hin. destruct Hin as [Hin|Hin].
      - destruct Hin as [<-|[<-|[<-|[]]]]; discriminate.
      - apply in_app_or in Hin. destruct Hin as [Hin|[<-|[]]]; [|reflexivity].
        apply closure_fill_no_proc in Hin. congruence. }
    destruct H as [H|H]; apply G in H; try reflexivity; inversion H; subst. apply E. reflexivity.
Qed.

(** ... and so has the thunk a top-level form is compiled to (eval.c sexp_generate_op) *)
Theorem toplevel_certified : forall e, shape_ok (annotate e) = true ->
  exists ds, cert_ok (compile_toplevel e) ds = true.
Proof.
  intros e SH. unfold compile_toplevel. eapply fragc_cert.
  eapply (frag_app _ _ _ 1); [apply (proj1 (generate_frag_all _ SH))|]. apply (frag_ret 1 1). lia.
Qed.

(** the shape hypothesis is what C03's well-formedness check of analyser output contains *)
Lemma wf_shape : forall e sc, wf sc e = true -> shape_ok e = true.
Proof.
  induction e using ast_ind'; intros sc W; cbn [wf shape_ok] in *; auto.
  - apply andb_true_iff in W. destruct W as [_ W]. eapply IHe; eassumption.
  - apply andb_true_iff in W. destruct W as [W W3]. apply andb_true_iff in W. destruct W as [W1 W2].
    rewrite (IHe1 _ W1), (IHe2 _ W2), (IHe3 _ W3). reflexivity.
  - destruct es as [|e0 es0]; [discriminate|].
    apply forallb_forall. intros x Hx. rewrite forallb_forall in W. rewrite Forall_forall in H.
    eapply H; [exact Hx|apply W; exact Hx].
  - apply andb_true_iff in W. destruct W as [_ W]. eapply IHe; eassumption.
  - apply andb_true_iff in W. destruct W as [W1 W2]. rewrite (IHe _ W1). cbn [andb].
    apply forallb_forall. intros x Hx. rewrite forallb_forall in W2. rewrite Forall_forall in H.
    eapply H; [exact Hx|apply W2; exact Hx].
  - apply andb_true_iff in W. destruct W as [W1 W2]. apply andb_true_iff. split.
    + apply Nat.eqb_eq in W1. destruct (prim_arith p) eqn:A; [|apply Nat.eqb_eq; exact W1].
      apply Nat.leb_le. rewrite W1. destruct p; simpl; lia.
    + apply forallb_forall. intros x Hx. rewrite forallb_forall in W2. rewrite Forall_forall in H.
      eapply H; [exact Hx|apply W2; exact Hx].
Qed.

Example generate_certified_example :
  shape_ok (annotate ex_loop_ast) = true /\ wf_program (annotate ex_loop_ast) = true.
Proof. split; vm_compute; reflexivity. Qed.
