From Coq Require Import ExtrOcamlBasic.
From ChibiV Require Import Common.ExtractBase C16.Model C16.History C16.NumOs.
Extraction "model.ml" ext_base gc gc_pinned gc_after_mark mark_loop step run init mem madd nstep nrun ninit names.
