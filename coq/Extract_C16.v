From Coq Require Import ExtrOcamlBasic.
From ChibiV Require Import Common.ExtractBase C16.Model C16.History C16.NumOs C16.Gate C16.AutoGc.
Extraction "model.ml" ext_base gc gc_pinned gc_after_mark mark_loop step run init mem madd nstep nrun ninit names step_sched run_sched pinned_policy.
