(** C07 — macro expansion is hygienic: property theorems only. *)
From Coq Require Import NArith List Bool.
From ChibiV Require Import C07.Env C07.EnvProofs C07.Expand C07.RenamerProofs C07.ScopeProofs C07.ExpandProofs
  C07.SynCloProofs C07.Strip C07.StripProofs C07.CoreProofs C07.Template C07.TemplateProofs C07.TemplateProofs2.
Import ListNotations.

(** referential transparency: an identifier inserted by a macro (closure object over the definition
    environment E, no free names) resolves, in any use environment U ++ E that does not bind that very
    object, to what its name means in E — whatever U binds under the bare name *)
Theorem inserted_ref_resolves_at_definition : forall (U E : env) i s,
  fresh_key (Clo i E [] (Sym s)) (U ++ E) ->
  env_cell [] (U ++ E) (Clo i E [] (Sym s)) false = sym_cell E s.
Proof. exact inserted_ref_resolves_at_definition_proof. Qed.
Print Assumptions inserted_ref_resolves_at_definition.

Theorem inserted_ref_any_use_env : forall (rho E : env) i s,
  fresh_key (Clo i E [] (Sym s)) rho ->
  env_cell [] rho (Clo i E [] (Sym s)) false = sym_cell E s.
Proof. exact inserted_ref_any_use_env_proof. Qed.
Print Assumptions inserted_ref_any_use_env.

(** a frame whose keys are all closure objects (binders introduced by an expansion) is invisible to
    every bare symbol the user wrote, in every analysis context *)
Theorem introduced_binder_does_not_capture : forall cfv (f : frame) rho s,
  closure_keys f ->
  env_cell cfv (f :: rho) (Sym s) false = env_cell cfv rho (Sym s) false.
Proof. exact introduced_binder_does_not_capture_proof. Qed.
Print Assumptions introduced_binder_does_not_capture.

Theorem introduced_binder_only_binds_itself : forall (f : frame) rho k,
  fresh_in_frame k f -> cell_loc1 (f :: rho) k false = cell_loc1 rho k false.
Proof. exact introduced_binder_only_binds_itself_proof. Qed.
Print Assumptions introduced_binder_only_binds_itself.

Theorem introduced_binder_binds_own_refs : forall i E x c others rho,
  env_cell [] (Frame [] ((Clo i E [] x, c) :: others) :: rho) (Clo i E [] x) false = Some c.
Proof. exact introduced_binder_binds_own_refs_proof. Qed.
Print Assumptions introduced_binder_binds_own_refs.

(** free names of a syntactic closure resolve at the use site *)
Theorem free_name_resolves_at_use : forall rho i E fv s,
  memq (Sym s) fv = true ->
  cell_loc1 rho (Clo i E fv (Sym s)) false = None ->
  env_cell [] rho (Clo i E fv (Sym s)) false = sym_cell rho s.
Proof. exact free_name_resolves_at_use_proof. Qed.
Print Assumptions free_name_resolves_at_use.

Theorem context_fv_redirects : forall cfv rho e i E fv s,
  fv_first_env (fv_memq (Sym s) cfv) = Some e ->
  env_cell cfv rho (Clo i E fv (Sym s)) false =
    match cell_loc1 e (Clo i E fv (Sym s)) false with
    | Some c => Some c
    | None => sym_cell e s
    end.
Proof. exact context_fv_redirects_proof. Qed.
Print Assumptions context_fv_redirects.

(** the innermost binding of an object wins (no context free-variable list) ... *)
Theorem innermost_binding_wins : forall f rho k c,
  frame_lookup k f = Some c -> env_cell [] (f :: rho) k false = Some c.
Proof. exact innermost_binding_wins_proof. Qed.
Print Assumptions innermost_binding_wins.

(** ... but not inside a closure with free names (known finding F-C07-2, behaviour of the pinned code:
    a rebinding of the free name inside the closure is ignored) *)
Theorem sc_free_name_rebinding_refuted :
  ~ (forall cfv f rho k c, frame_lookup k f = Some c -> env_cell cfv (f :: rho) k false = Some c).
Proof. exact sc_free_name_rebinding_refuted_proof. Qed.
Print Assumptions sc_free_name_rebinding_refuted.

(** identifier=? : same binding cell, or both unbound with the same object / underlying symbol *)
Theorem identifier_eq_spec : forall cfv e1 id1 e2 id2,
  identifier_eq cfv e1 id1 e2 id2 = true <->
  (exists c1 c2, env_cell cfv e1 id1 false = Some c1 /\ env_cell cfv e2 id2 false = Some c2 /\ cid c1 = cid c2)
  \/ (env_cell cfv e1 id1 false = None /\ env_cell cfv e2 id2 false = None /\
      (key_eqb id1 id2 = true \/ key_eqb (id_name id1) (id_name id2) = true)).
Proof. exact identifier_eq_spec_proof. Qed.
Print Assumptions identifier_eq_spec.

(** a literal of the macro (else, =>) does not match a user variable of the same name *)
Theorem shadowed_literal_not_matched : forall U E i s c,
  fresh_key (Clo i E [] (Sym s)) (U ++ E) ->
  cell_loc1 (U ++ E) (Sym s) false = Some c ->
  (forall c', sym_cell E s = Some c' -> cid c' <> cid c) ->
  identifier_eq [] (U ++ E) (Clo i E [] (Sym s)) (U ++ E) (Sym s) = false.
Proof. exact shadowed_literal_not_matched_proof. Qed.
Print Assumptions shadowed_literal_not_matched.

(** make-renamer *)
Theorem renamer_memoises : forall E rs x rs1 c1,
  idp x = true -> rename E rs x = (rs1, c1) -> rename E rs1 x = (rs1, c1).
Proof. exact renamer_memoises_proof. Qed.
Print Assumptions renamer_memoises.

Theorem renamer_fresh : forall E rs x rs' c,
  memo_ok E rs -> assq x (snd rs) = None -> rename E rs x = (rs', c) ->
  c = Clo (fst rs) E [] x /\ fst rs' = N.succ (fst rs) /\
  forall k v, In (k, v) (snd rs) -> key_eqb v c = false.
Proof. exact renamer_fresh_proof. Qed.
Print Assumptions renamer_fresh.

Theorem renamer_injective : forall E rs x y rs1 cx rs2 cy,
  memo_ok E rs -> idp x = true -> idp y = true -> key_eqb x y = false ->
  rename E rs x = (rs1, cx) -> rename E rs1 y = (rs2, cy) -> key_eqb cx cy = false.
Proof. exact renamer_injective_proof. Qed.
Print Assumptions renamer_injective.

Theorem expansions_disjoint : forall m args n n' x,
  expand m args n = Some (n', x) -> (n <= n')%N.
Proof. exact expansions_disjoint_proof. Qed.
Print Assumptions expansions_disjoint.

(** strip-syntactic-closures leaves no closure in quoted data *)
Theorem strip_removes_all_closures : forall x, no_clo (strip x).
Proof. exact strip_removes_all_closures_proof. Qed.
Print Assumptions strip_removes_all_closures.

(** renaming invariance, the part that is proved (full statement: coq/C07/ExpandProofs.v header).
    Guarded lookups — the bare symbols a, b must resolve to lambda-bound cells — answer the same cell
    after swapping a and b in the user text and in the user frames; closure keys, the macro
    environments and the global part G are untouched, and b may be any name they use. *)
Theorem rename_invariance_lookup_partial : forall a b U G k r,
  no_local G -> wf_id k = true ->
  lookup_g [a; b] [] (U ++ G) k = OK r ->
  lookup_g [] [] (swap_env a b U ++ G) (swapU a b k) = OK r /\ (r = None -> swapU a b k = k).
Proof. exact rename_invariance_lookup_partial_proof. Qed.
Print Assumptions rename_invariance_lookup_partial.

(** macro expansion commutes with swapping user names: templates never inspect them *)
Theorem expand_equivariant : forall a b m args n n' x,
  expand m args n = Some (n', x) ->
  expand m (map (swapU a b) args) n = Some (n', swapU a b x).
Proof. exact expand_equivariant_proof. Qed.
Print Assumptions expand_equivariant.

(** ** round 2: scoping of the local macro binding forms ([bind_syntax] mirrors analyze_let_syntax_aux +
    analyze_bind_syntax, eval.c:1005-1094; it is part of [resolve], which is compared with (chibi ast) analyze) *)

(** let-syntax closes every transformer in the OUTER environment *)
Theorem let_syntax_transformers_closed_outside : forall cfv rho specs base next fr ms n',
  bind_syntax false cfv rho specs base next = Some (fr, ms, n') ->
  Forall (fun m => m_env m = rho) ms.
Proof. exact let_syntax_transformers_closed_outside_proof. Qed.
Print Assumptions let_syntax_transformers_closed_outside.

(** letrec-syntax closes every transformer in (new frame :: outer environment) *)
Theorem letrec_syntax_transformers_closed_inside : forall cfv rho specs base next fr ms n',
  bind_syntax true cfv rho specs base next = Some (fr, ms, n') ->
  Forall (fun m => m_env m = fr :: rho) ms.
Proof. exact letrec_syntax_transformers_closed_inside_proof. Qed.
Print Assumptions letrec_syntax_transformers_closed_inside.

(** both forms bind every keyword, as a macro, in the NEW frame (found with localp = true) *)
Theorem syntax_keywords_bound_in_new_frame : forall recp cfv rho specs base next fr ms n' k,
  bind_syntax recp cfv rho specs base next = Some (fr, ms, n') ->
  memq k (spec_keys specs) = true ->
  exists c, cell_loc1 (fr :: rho) k true = Some c /\ is_macro_cell c.
Proof. exact syntax_keywords_bound_in_new_frame_proof. Qed.
Print Assumptions syntax_keywords_bound_in_new_frame.

(** an identifier inserted by the template of a let-syntax macro means what its name means OUTSIDE the
    let-syntax form, whatever the form itself binds (sibling keywords, the macro's own name) and whatever
    the use site U binds under the bare name *)
Theorem let_syntax_inserted_name_resolves_outside :
  forall cfv rho specs base next fr ms n' m U i s,
  bind_syntax false cfv rho specs base next = Some (fr, ms, n') -> In m ms ->
  fresh_key (Clo i (m_env m) [] (Sym s)) (U ++ fr :: rho) ->
  env_cell [] (U ++ fr :: rho) (Clo i (m_env m) [] (Sym s)) false = sym_cell rho s.
Proof. exact let_syntax_inserted_name_resolves_outside_proof. Qed.
Print Assumptions let_syntax_inserted_name_resolves_outside.

(** for letrec-syntax the lookup starts at the new frame ... *)
Theorem letrec_syntax_inserted_name_resolves_inside :
  forall cfv rho specs base next fr ms n' m U i s,
  bind_syntax true cfv rho specs base next = Some (fr, ms, n') -> In m ms ->
  fresh_key (Clo i (m_env m) [] (Sym s)) (U ++ fr :: rho) ->
  env_cell [] (U ++ fr :: rho) (Clo i (m_env m) [] (Sym s)) false = sym_cell (fr :: rho) s.
Proof. exact letrec_syntax_inserted_name_resolves_inside_proof. Qed.
Print Assumptions letrec_syntax_inserted_name_resolves_inside.

(** ... so the name of a sibling keyword denotes the sibling macro *)
Theorem letrec_syntax_sibling_name_is_sibling :
  forall cfv rho specs base next fr ms n' m U i s,
  bind_syntax true cfv rho specs base next = Some (fr, ms, n') -> In m ms ->
  memq (Sym s) (spec_keys specs) = true ->
  fresh_key (Clo i (m_env m) [] (Sym s)) (U ++ fr :: rho) ->
  exists c, env_cell [] (U ++ fr :: rho) (Clo i (m_env m) [] (Sym s)) false = Some c /\ is_macro_cell c.
Proof. exact letrec_syntax_sibling_name_is_sibling_proof. Qed.
Print Assumptions letrec_syntax_sibling_name_is_sibling.

(** ** round 2: the renamer on identifiers that are already closures (macro-generated macros) *)

(** a closure handed to rename is closed once more in a NEW object: never returned as is, same underlying
    name, different from everything remembered *)
Theorem renamer_closure_arg_fresh : forall E n memo i E0 fv e rs' c,
  memo_ok E (n, memo) -> (i < n)%N -> assq (Clo i E0 fv e) memo = None ->
  rename E (n, memo) (Clo i E0 fv e) = (rs', c) ->
  c = Clo n E [] (Clo i E0 fv e) /\ key_eqb c (Clo i E0 fv e) = false /\
  id_name c = id_name e /\ fst rs' = N.succ n /\
  (forall k v, In (k, v) memo -> key_eqb v c = false).
Proof. exact renamer_closure_arg_fresh_proof. Qed.
Print Assumptions renamer_closure_arg_fresh.

(** two expansions (renamers working at different allocation counters) give different objects for the
    same identifier, symbol or closure *)
Theorem renamer_distinct_across_expansions : forall E1 E2 x n1 m1 n2 m2 rs1 c1 rs2 c2,
  assq x m1 = None -> assq x m2 = None -> n1 <> n2 ->
  rename E1 (n1, m1) x = (rs1, c1) -> rename E2 (n2, m2) x = (rs2, c2) ->
  key_eqb c1 c2 = false.
Proof. exact renamer_distinct_across_expansions_proof. Qed.
Print Assumptions renamer_distinct_across_expansions.

(** *** round 3: user code closed with free names (sexp_extend_synclo_env), and the two-stage strip *)

(** inside user code that a macro closed in the use environment U with free names fv (and placed under its
    own bindings, rho), a symbol U binds — by a binding or by a rename entry (= an import) — that is not a
    free name keeps U's cell, whatever rho binds under that name *)
Theorem closed_code_keeps_use_env_binding : forall cfv rho U fv s c,
  memq (Sym s) fv = false ->
  fv_memq (Sym s) cfv = [] ->
  cell_loc1 U (Sym s) false = Some c ->
  env_cell (enter_fv cfv rho fv) (enter_env cfv rho U fv) (Sym s) false = Some c.
Proof. exact closed_code_keeps_use_env_binding_proof. Qed.
Print Assumptions closed_code_keeps_use_env_binding.

Theorem closed_code_keeps_import : forall cfv rho U1 r b U2 fv s c,
  memq (Sym s) fv = false ->
  fv_memq (Sym s) cfv = [] ->
  cell_loc1 U1 (Sym s) false = None ->
  lookup_list (Sym s) r = Some c ->
  env_cell (enter_fv cfv rho fv) (enter_env cfv rho (U1 ++ Frame r b :: U2) fv) (Sym s) false = Some c.
Proof. exact closed_code_keeps_import_proof. Qed.
Print Assumptions closed_code_keeps_import.

Theorem closed_code_free_name_at_use : forall cfv rho U fv s,
  memq (Sym s) fv = true ->
  env_cell (enter_fv cfv rho fv) (enter_env cfv rho U fv) (Sym s) false = cell_loc1 rho (Sym s) false.
Proof. exact closed_code_free_name_at_use_proof. Qed.
Print Assumptions closed_code_free_name_at_use.

(** the "does it contain any closure" test that gates the copy is complete: a closure anywhere in the datum
    (car, any cdr, dotted tail, any vector slot, nested, under closure layers) within the bound is seen *)
Theorem contains_syntax_complete : forall depth x,
  hgt x < depth -> has_clo x = true -> contains depth x = true.
Proof. exact contains_syntax_complete_proof. Qed.
Print Assumptions contains_syntax_complete.

Theorem contains_syntax_sound : forall depth x, contains depth x = true -> has_clo x = true.
Proof. exact contains_sound_proof. Qed.
Print Assumptions contains_syntax_sound.

(** predicate + copy = the specification (remove every closure layer, keep everything else) *)
Theorem strip_correct : forall bound x, hgt x < bound -> strip_synclos bound x = strip_spec x.
Proof. exact strip_correct_proof. Qed.
Print Assumptions strip_correct.

Theorem strip_leaves_no_closure : forall bound x, hgt x < bound -> has_clo (strip_synclos bound x) = false.
Proof. exact strip_leaves_no_closure_proof. Qed.
Print Assumptions strip_leaves_no_closure.

Theorem strip_idempotent : forall x, strip_spec (strip_spec x) = strip_spec x.
Proof. exact strip_idempotent_proof. Qed.
Print Assumptions strip_idempotent.

(** the list-only [strip] used by the model of analyze is this specification on the embedded data *)
Theorem strip_model_is_spec : forall x, strip_spec (embed x) = embed (strip x).
Proof. exact strip_embed. Qed.
Print Assumptions strip_model_is_spec.

(** *** renaming invariance of the model expander + analyze (round 3: the induction over [resolve])
    if in the analysis of a program the bare symbols a, b only ever resolve to lambda-bound cells and never
    occur in quoted data (the guarded run [a; b] succeeds; it also refuses let-syntax / letrec-syntax), then
    swapping a and b in the user text and in the keys of the user frames U — b may be if, tmp, car, any name
    the macro templates or the global environment G use — gives the very same analysis result (binding
    structure, cells, final state), for every macro table of the model's template language *)
Theorem rename_invariance_core : forall a b mt G fuel st U x r,
  no_local G -> wfx x = true ->
  resolve [a; b] mt fuel st [] (U ++ G) x = OK r ->
  resolve [] mt fuel st [] (swap_env a b U ++ G) (swapU a b x) = OK r.
Proof. exact rename_invariance_core_thm. Qed.
Print Assumptions rename_invariance_core.

(** *** round 4: expand-template of syntax-rules (lib/init-7.scm:1024-1069) with ellipsis (any depth), ellipsis
    escapes (... tmpl), the literal ellipsis (... ...), custom ellipsis identifiers, vector and dotted templates.
    [Template.compile] mirrors the named let `lp` (t, dim, ell-esc), [Template.eval] runs the generated code
    (map / apply append / append / cons-source / list->vector); [TRen s] = (rename 's), a syntactic closure over
    the macro's definition environment; the bindings [rho] are what the pattern matcher produced. *)

(** THE hygiene statement for templates: whatever the template (ellipsis depth, escapes, vectors, dotted tails),
    whatever the ellipsis identifier, if the values of the pattern variables carry no bare identifier of the
    template language (they are user text, [TUser]), the instantiated template contains NO bare identifier: every
    identifier the macro inserts went through the renamer *)
Theorem template_inserted_identifiers_are_renamed : forall c vars fuel t rho out,
  (forall s v, Template.assocN s rho = Some v -> Template.nobare v = true) ->
  Template.expand_template c vars fuel t rho = Some out -> Template.nobare out = true.
Proof. exact template_output_clean. Qed.
Print Assumptions template_inserted_identifiers_are_renamed.

(** the same for the code compiled at any ellipsis depth and in either escape state *)
Theorem template_code_inserts_only_renamed : forall c vars fuel t dim esc k rho out,
  Template.compile c vars fuel t dim esc = Template.TOK k ->
  (forall s v, Template.assocN s rho = Some v -> Template.nobare v = true) ->
  Template.eval k rho = Some out -> Template.nobare out = true.
Proof. exact template_code_clean. Qed.
Print Assumptions template_code_inserts_only_renamed.

(** (... tmpl) is tmpl compiled with the ellipsis switched off ... *)
Theorem ellipsis_escape_unwraps : forall c vars f x dim,
  Template.ell_off c = false ->
  Template.compile c vars (S f) (Template.TPair (Template.TSym (Template.ell c)) (Template.TPair x Template.TNil)) dim false
  = Template.compile c vars f x dim true.
Proof. exact escape_unwraps. Qed.
Print Assumptions ellipsis_escape_unwraps.

(** ... and for a tmpl that does not mention the ellipsis identifier the escape changes NOTHING: identifiers under
    an escape are treated exactly like identifiers outside one (the seeded change C14-c2 quoted them instead) *)
Theorem escaped_template_compiles_like_plain : forall c vars f x dim,
  Template.ell_off c = false -> Template.nomark c x = true ->
  Template.compile c vars (S f) (Template.TPair (Template.TSym (Template.ell c)) (Template.TPair x Template.TNil)) dim false
  = Template.compile c vars f x dim false.
Proof. exact escaped_plain_template. Qed.
Print Assumptions escaped_template_compiles_like_plain.

(** a rule body (... x) instantiates to the plain substitution of x: pattern variables by their values, EVERY other
    identifier — the ellipsis identifier included — renamed; nothing is repeated *)
Theorem escaped_template_is_substitution : forall c vars f x rho out,
  Template.ell_off c = false ->
  (forall s d, Template.assocN s vars = Some d -> Template.assocN s rho <> None) ->
  Template.expand_template c vars (S f) (Template.TPair (Template.TSym (Template.ell c)) (Template.TPair x Template.TNil)) rho = Some out ->
  out = Template.subst vars rho x.
Proof. exact escape_form_is_substitution. Qed.
Print Assumptions escaped_template_is_substitution.

(** templates that do not mention the ellipsis identifier: the generated code computes the substitution *)
Theorem plain_template_is_substitution : forall fuel c vars t dim esc k rho,
  Template.nomark c t = true ->
  (forall s d, Template.assocN s vars = Some d -> Template.assocN s rho <> None) ->
  Template.compile c vars fuel t dim esc = Template.TOK k ->
  Template.eval k rho = Some (Template.subst vars rho t).
Proof. exact TemplateProofs.plain_template_is_substitution. Qed.
Print Assumptions plain_template_is_substitution.

(** (... ...) is the RENAMED ellipsis identifier *)
Theorem literal_ellipsis_is_renamed : forall c vars f dim,
  Template.ell_off c = false -> Template.assocN (Template.ell c) vars = None ->
  Template.compile c vars (S (S f)) (Template.TPair (Template.TSym (Template.ell c)) (Template.TPair (Template.TSym (Template.ell c)) Template.TNil)) dim false
  = Template.TOK (Template.CRen (Template.ell c)).
Proof. exact literal_ellipsis. Qed.
Print Assumptions literal_ellipsis_is_renamed.

(** the fuel of [compile] is not a restriction: any fuel above the size of the template suffices *)
Theorem template_compile_fuel_suffices : forall fuel c vars t dim esc,
  Template.size t < fuel -> Template.compile c vars fuel t dim esc <> Template.TErr Template.E_FUEL.
Proof. exact compile_fuel_suffices. Qed.
Print Assumptions template_compile_fuel_suffices.

(** nothing but the template's own identifiers is ever inserted: every renamed identifier of the instantiated template
    is an identifier written in the template (pattern-variable values are user text and carry none) *)
Theorem template_inserts_only_its_own_identifiers : forall c vars fuel t rho out,
  (forall s v, Template.assocN s rho = Some v -> rens_in (Template.syms t) v = true) ->
  Template.expand_template c vars fuel t rho = Some out -> rens_in (Template.syms t) out = true.
Proof. exact template_rens_from_template. Qed.
Print Assumptions template_inserts_only_its_own_identifiers.

(** one ellipsis after an ellipsis-free compound sub-template: (a ...) instantiates to the list of the substitution
    instances of a, one per repetition, the ellipsis variables (the pattern variables of a of depth > dim) bound to
    the elements of that repetition, every other identifier renamed in every instance *)
Theorem single_ellipsis_is_mapped_substitution : forall f c vars a dim rho k,
  Template.ell_off c = false -> Template.nomark c a = true -> Template.is_sym a = false ->
  (forall s d, Template.assocN s vars = Some d -> Template.assocN s rho <> None) ->
  Template.compile c vars (S f) (Template.TPair a (Template.TPair (Template.TSym (Template.ell c)) Template.TNil)) dim false = Template.TOK k ->
  exists vals,
    Template.map_opt (fun v => Template.assocN v rho) (Template.fv vars (dim + 1) a []) = Some vals /\
    Template.eval k rho =
      Some (Template.of_list (map (fun i => Template.subst vars (combine (Template.fv vars (dim + 1) a []) (Template.row (map Template.tm_list vals) i) ++ rho) a)
                                  (seq 0 (Template.min_len (map Template.tm_list vals))))).
Proof. exact single_ellipsis_spec. Qed.
Print Assumptions single_ellipsis_is_mapped_substitution.
