From Coq Require Import ExtrOcamlBasic.
From ChibiV Require Import Common.ExtractBase C03.Defs C03.Model C03.Spec.
Extraction "model.ml" ext_base annotate compile_toplevel wf_program run_program eval_program lam_fv param_index rest_unused rest_unused_p.
