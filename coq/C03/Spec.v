(** C03 — SPEC: a definitional interpreter for the core AST (R7RS 4.1 / 7.2 style: environments map
    variables to locations, a store maps locations to values), independent of the compiler and
    of the VM.  It ignores the analyser's annotations (sv, fv) completely.

    Freedoms R7RS leaves open and how they are fixed here (the generated programs are
    insensitive to them): operands are evaluated right to left, then the operator (what chibi
    does; any order is allowed); pairs are immutable trees because the primitive set has no
    set-car!/set-cdr!; eq? is only defined on atoms (on pairs the spec answers #f, programs do
    not ask). *)
From Coq Require Import ZArith List Bool Arith.
From ChibiV Require Import C03.Defs.
Import ListNotations.

Inductive sval :=
| SLit (l : lit)
| SPair (a d : sval)
| SClo (id : nat) (ps : list name) (r : option name) (ls : list name) (body : ast)
       (env : list (vref * nat)).

Definition senv := list (vref * nat).

Record sstore := mkstore { cells : list sval; sglobals : list (nat * sval) }.

Inductive sres := SVal (v : sval) (st : sstore) | SErr (e : err) | SOut.

Fixpoint env_lookup (r : vref) (e : senv) : option nat :=
  match e with
  | [] => None
  | (k, a) :: t => if vref_eqb r k then Some a else env_lookup r t
  end.

Fixpoint glob_lookup (g : nat) (l : list (nat * sval)) : option sval :=
  match l with
  | [] => None
  | (k, v) :: t => if Nat.eqb g k then Some v else glob_lookup g t
  end.

Fixpoint glob_set (g : nat) (v : sval) (l : list (nat * sval)) : list (nat * sval) :=
  match l with
  | [] => [(g, v)]
  | (k, w) :: t => if Nat.eqb g k then (g, v) :: t else (k, w) :: glob_set g v t
  end.

Fixpoint cell_set (l : list sval) (n : nat) (v : sval) : list sval :=
  match l, n with
  | [], _ => []
  | _ :: t, 0 => v :: t
  | h :: t, S m => h :: cell_set t m v
  end.

Fixpoint slist (vs : list sval) : sval :=
  match vs with [] => SLit LNil | v :: r => SPair v (slist r) end.

Definition sbool (b : bool) : sval := SLit (LBool b).

Definition slit_eqb (a b : lit) : bool :=
  match a, b with
  | LInt x, LInt y => Z.eqb x y
  | LBool x, LBool y => Bool.eqb x y
  | LNil, LNil | LVoid, LVoid | LUndef, LUndef => true
  | LSym x, LSym y => Nat.eqb x y
  | LOpaque x, LOpaque y => Nat.eqb x y
  | _, _ => false
  end.

(** primitives, arguments in source order *)
Definition prim_sem (p : prim) (vs : list sval) : option sval + err :=
  match p, vs with
  | (PAdd | PSub | PMul | PLt | PLe | PGt | PGe | PEqn), [SLit (LInt a); SLit (LInt b)] =>
      inl (Some (match p with
                 | PAdd => SLit (LInt (a + b)) | PSub => SLit (LInt (a - b)) | PMul => SLit (LInt (a * b))
                 | PLt => sbool (a <? b)%Z | PLe => sbool (a <=? b)%Z
                 | PGt => sbool (b <? a)%Z | PGe => sbool (b <=? a)%Z
                 | _ => sbool (a =? b)%Z
                 end))
  | (PAdd | PSub | PMul | PLt | PLe | PGt | PGe | PEqn), [_; _] => inr EType
  | PEq, [SLit a; SLit b] => inl (Some (sbool (slit_eqb a b)))
  | PEq, [_; _] => inl (Some (sbool false))
  | PCons, [a; d] => inl (Some (SPair a d))
  | PCar, [SPair a _] => inl (Some a)
  | PCdr, [SPair _ d] => inl (Some d)
  | (PCar | PCdr), [_] => inr EType
  | PNullp, [v] => inl (Some (sbool (match v with SLit LNil => true | _ => false end)))
  | PPairp, [v] => inl (Some (sbool (match v with SPair _ _ => true | _ => false end)))
  | PNot, [v] => inl (Some (sbool (match v with SLit (LBool false) => true | _ => false end)))
  | _, _ => inl None            (* wrong number of operands: outside the modelled fragment *)
  end.

(** fresh locations for the variables of lambda [id], in order *)
Fixpoint bind_all (id : nat) (xs : list name) (vs : list sval) (e : senv) (cs : list sval) : senv * list sval :=
  match xs, vs with
  | x :: xr, v :: vr => bind_all id xr vr (((x, Local id), length cs) :: e) (cs ++ [v])
  | _, _ => (e, cs)
  end.

Section Eval.
  (* evaluation of a list left to right, threading the store *)
  Variable ev : ast -> senv -> sstore -> sres.
  Fixpoint evlist (l : list ast) (env : senv) (st : sstore) : (list sval * sstore) + sres :=
    match l with
    | [] => inl ([], st)
    | a :: r =>
        match ev a env st with
        | SVal v st1 =>
            match evlist r env st1 with
            | inl (vs, st2) => inl (v :: vs, st2)
            | inr x => inr x
            end
        | x => inr x
        end
    end.
End Eval.

Fixpoint eval (fuel : nat) (e : ast) (env : senv) (st : sstore) {struct fuel} : sres :=
  match fuel with
  | 0 => SOut
  | S fuel' =>
    match e with
    | Lit l => SVal (SLit (lit_value l)) st            (* a literal node denotes its datum *)
    | Ref x Global =>
        match glob_lookup x (sglobals st) with Some v => SVal v st | None => SErr EUndefGlobal end
    | Ref x o =>
        match env_lookup (x, o) env with
        | Some a => match nth_error (cells st) a with Some v => SVal v st | None => SErr EStuck end
        | None => SErr EStuck
        end
    | SetV x o v =>
        match eval fuel' v env st with
        | SVal w st1 =>
            match o with
            | Global => SVal (SLit LVoid) (mkstore (cells st1) (glob_set x w (sglobals st1)))
            | Local _ =>
                match env_lookup (x, o) env with
                | Some a => SVal (SLit LVoid) (mkstore (cell_set (cells st1) a w) (sglobals st1))
                | None => SErr EStuck
                end
            end
        | r => r
        end
    | Cnd t p f =>
        match eval fuel' t env st with
        | SVal (SLit (LBool false)) st1 => eval fuel' f env st1
        | SVal _ st1 => eval fuel' p env st1
        | r => r
        end
    | Seq es =>
        (fix go (l : list ast) (st : sstore) : sres :=
           match l with
           | [] => SVal (SLit LVoid) st
           | a :: r =>
               match r with
               | [] => eval fuel' a env st
               | _ :: _ => match eval fuel' a env st with SVal _ st1 => go r st1 | x => x end
               end
           end) es st
    | Lam id ps r ls _ _ b => SVal (SClo id ps r ls b env) st
    | App f args =>
        match evlist (eval fuel') (rev args) env st with
        | inr x => x
        | inl (rvs, st1) =>
            let vs := rev rvs in
            match eval fuel' f env st1 with
            | SVal (SClo id ps r ls b cenv) st2 =>
                let n := length ps in
                if length vs <? n then SErr ENotEnoughArgs
                else if (match r with None => n <? length vs | Some _ => false end) then SErr ETooManyArgs
                else
                  let '(e1, c1) := bind_all id ps (firstn n vs) cenv (cells st2) in
                  let '(e2, c2) := match r with
                                   | Some x => bind_all id [x] [slist (skipn n vs)] e1 c1
                                   | None => (e1, c1)
                                   end in
                  let '(e3, c3) := bind_all id ls (repeat (SLit LUndef) (length ls)) e2 c2 in
                  eval fuel' b e3 (mkstore c3 (sglobals st2))
            | SVal _ _ => SErr ENotProc
            | x => x
            end
        end
    | OpApp p args =>
        (* chibi evaluates operands of ordinary primitives right to left, of the "inverse"
           ones (> >=) left to right *)
        match evlist (eval fuel') (if match p with PGt | PGe => true | _ => false end then args else rev args) env st with
        | inr x => x
        | inl (rvs, st1) =>
            let vs := if match p with PGt | PGe => true | _ => false end then rvs else rev rvs in
            match prim_sem p vs with
            | inl (Some v) => SVal v st1
            | inl None => SErr EStuck
            | inr e => SErr e
            end
        end
    end
  end.

(** a program is a list of top-level forms evaluated in order in the empty local environment *)
Fixpoint eval_program (fuel : nat) (forms : list ast) (st : sstore) : sres :=
  match forms with
  | [] => SErr EStuck
  | e :: r =>
      match eval fuel e [] st with
      | SVal v st1 => match r with [] => SVal v st1 | _ :: _ => eval_program fuel r st1 end
      | x => x
      end
  end.

(* ------------------------------------------------------------------ spec-level predicates *)

(** [occurs_free id x e]: variable x of lambda id is referenced or assigned somewhere in e *)
Fixpoint mentions (id : nat) (x : name) (e : ast) {struct e} : bool :=
  match e with
  | Lit _ => false
  | Ref n o => Nat.eqb n x && loc_eqb o (Local id)
  | SetV n o v => (Nat.eqb n x && loc_eqb o (Local id)) || mentions id x v
  | Cnd t p f => mentions id x t || mentions id x p || mentions id x f
  | Seq es => existsb (mentions id x) es
  | Lam _ _ _ _ _ _ b => mentions id x b
  | App f args => mentions id x f || existsb (mentions id x) args
  | OpApp _ args => existsb (mentions id x) args
  end.

(** all variable occurrences (references and assignment targets) that are not global *)
Fixpoint local_occurrences (e : ast) {struct e} : list vref :=
  match e with
  | Lit _ => []
  | Ref n o => match o with Local _ => [(n, o)] | Global => [] end
  | SetV n o v => match o with Local _ => [(n, o)] | Global => [] end ++ local_occurrences v
  | Cnd t p f => local_occurrences t ++ local_occurrences p ++ local_occurrences f
  | Seq es => flat_map local_occurrences es
  | Lam _ _ _ _ _ _ b => local_occurrences b
  | App f args => local_occurrences f ++ flat_map local_occurrences args
  | OpApp _ args => flat_map local_occurrences args
  end.

(** variable occurrences of [e] that are free in [e]: an occurrence is bound by the nearest
    enclosing lambda that owns it and lists its name among parameters / rest / locals *)
Definition bound_by (id : nat) (bound : list name) (x : vref) : bool :=
  loc_eqb (snd x) (Local id) && memn (fst x) bound.

Fixpoint free_occ (e : ast) {struct e} : list vref :=
  match e with
  | Lit _ => []
  | Ref n o => match o with Local _ => [(n, o)] | Global => [] end
  | SetV n o v => free_occ v ++ match o with Local _ => [(n, o)] | Global => [] end
  | Cnd t p f => free_occ t ++ free_occ p ++ free_occ f
  | Seq es => flat_map free_occ es
  | Lam id ps r ls _ _ b =>
      filter (fun x => negb (bound_by id (ls ++ ps ++ match r with Some y => [y] | None => [] end) x)) (free_occ b)
  | App f args => free_occ f ++ flat_map free_occ args
  | OpApp _ args => flat_map free_occ args
  end.
