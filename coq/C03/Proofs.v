(** C03 — proofs about the model of the analyser's passes and of the code generator. *)
From Coq Require Import ZArith List Bool Arith Lia.
From ChibiV Require Import C03.Defs C03.Model C03.Spec.
Import ListNotations.
Local Open Scope nat_scope.

(* ------------------------------------------------------------------ index_of / param_index *)

Lemma index_of_some : forall x l i, index_of x l = Some i -> nth_error l i = Some x /\ i < length l.
Proof.
  induction l as [|y r IH]; simpl; intros i H; [discriminate|].
  destruct (Nat.eqb y x) eqn:E.
  - inversion H; subst. apply Nat.eqb_eq in E. subst. simpl. split; [reflexivity|lia].
  - destruct (index_of x r) as [n|] eqn:F; simpl in H; [|discriminate].
    inversion H; subst. destruct (IH n eq_refl) as [H1 H2]. simpl. split; [assumption|lia].
Qed.

Lemma index_of_none : forall x l, index_of x l = None -> ~ In x l.
Proof.
  induction l as [|y r IH]; simpl; intros H; [tauto|].
  destruct (Nat.eqb y x) eqn:E; [discriminate|].
  destruct (index_of x r) eqn:F; simpl in H; [discriminate|].
  apply Nat.eqb_neq in E. intros [A|A]; [congruence|]. exact (IH eq_refl A).
Qed.

Lemma index_of_in : forall x l, In x l -> exists i, index_of x l = Some i.
Proof.
  intros x l H. destruct (index_of x l) eqn:E; [eauto|]. exfalso. exact (index_of_none _ _ E H).
Qed.

Lemma param_index_class : forall ps r ls x, In x (frame_vars ps r ls) ->
  (exists i, index_of x ps = Some i /\ param_index ps r ls x = Z.of_nat i) \/
  (~ In x ps /\ r = Some x /\ param_index ps r ls x = Z.of_nat (length ps)) \/
  (~ In x ps /\ r <> Some x /\ exists i, index_of x ls = Some i /\ param_index ps r ls x = (- Z.of_nat i - 5)%Z).
Proof.
  intros ps r ls x Hin. unfold param_index.
  destruct (index_of x ps) as [i|] eqn:E; [left; eauto|].
  pose proof (index_of_none _ _ E) as Hn. right.
  unfold frame_vars in Hin. apply in_app_or in Hin. destruct Hin as [Hin|Hin]; [tauto|].
  apply in_app_or in Hin.
  destruct r as [y|].
  - destruct (Nat.eqb y x) eqn:F.
    + apply Nat.eqb_eq in F. subst. left. auto.
    + apply Nat.eqb_neq in F. right. destruct Hin as [[A|[]]|Hin]; [congruence|].
      destruct (index_of_in _ _ Hin) as [i Hi]. rewrite Hi.
      split; [assumption|]. split; [congruence|]. eauto.
  - right. destruct Hin as [[]|Hin].
    destruct (index_of_in _ _ Hin) as [i Hi]. rewrite Hi.
    split; [assumption|]. split; [congruence|]. eauto.
Qed.

(** distinct frame variables get distinct slots *)
Lemma param_index_injective : forall ps r ls x y,
  In x (frame_vars ps r ls) -> In y (frame_vars ps r ls) ->
  param_index ps r ls x = param_index ps r ls y -> x = y.
Proof.
  intros ps r ls x y Hx Hy E.
  destruct (param_index_class ps r ls x Hx) as [[i [Hi Pi]]|[[Nx [Rx Pi]]|[Nx [Rx [i [Hi Pi]]]]]];
  destruct (param_index_class ps r ls y Hy) as [[j [Hj Pj]]|[[Ny [Ry Pj]]|[Ny [Ry [j [Hj Pj]]]]]];
  rewrite Pi, Pj in E.
  - apply Nat2Z.inj in E. subst j.
    destruct (index_of_some _ _ _ Hi) as [A _]. destruct (index_of_some _ _ _ Hj) as [B _]. congruence.
  - destruct (index_of_some _ _ _ Hi) as [_ A]. lia.
  - lia.
  - destruct (index_of_some _ _ _ Hj) as [_ A]. lia.
  - congruence.
  - lia.
  - lia.
  - lia.
  - assert (i = j) by lia. subst j.
    destruct (index_of_some _ _ _ Hi) as [A _]. destruct (index_of_some _ _ _ Hj) as [B _]. congruence.
Qed.

(** where each kind of variable lives: parameter k at k, the rest list right after the fixed
    parameters, the k-th local (in lambda-locals order) at -5-k *)
Lemma param_index_layout : forall ps r ls x, In x (frame_vars ps r ls) ->
  (exists k, nth_error ps k = Some x /\ param_index ps r ls x = Z.of_nat k) \/
  (r = Some x /\ param_index ps r ls x = Z.of_nat (length ps)) \/
  (exists k, nth_error ls k = Some x /\ param_index ps r ls x = (- Z.of_nat k - 5)%Z).
Proof.
  intros ps r ls x H.
  destruct (param_index_class ps r ls x H) as [[i [Hi Pi]]|[[Nx [Rx Pi]]|[Nx [Rx [i [Hi Pi]]]]]].
  - left. exists i. split; [apply (index_of_some _ _ _ Hi)|assumption].
  - right. left. auto.
  - right. right. exists i. split; [apply (index_of_some _ _ _ Hi)|assumption].
Qed.

Example param_index_example :
  map (param_index [10; 11] (Some 12) [14; 13]) [10; 11; 12; 14; 13] = [0; 1; 2; -5; -6]%Z.
Proof. reflexivity. Qed.

(* ------------------------------------------------------------------ make_call: the frame a callee sees *)

Lemma sget_frame : forall a b c d st k, k < length st ->
  sget (a :: b :: c :: d :: st) (length st - 1 - k) = nth_error st k.
Proof.
  intros a b c d st k H. unfold sget. simpl length.
  destruct (Nat.ltb_spec (length st - 1 - k) (S (S (S (S (length st)))))) as [L|L]; [|lia].
  replace (S (S (S (S (length st)))) - 1 - (length st - 1 - k)) with (4 + k) by lia.
  reflexivity.
Qed.

Lemma sget_header : forall a b c d st,
  sget (a :: b :: c :: d :: st) (length st) = Some d /\
  sget (a :: b :: c :: d :: st) (length st + 1) = Some c /\
  sget (a :: b :: c :: d :: st) (length st + 2) = Some b /\
  sget (a :: b :: c :: d :: st) (length st + 3) = Some a.
Proof.
  intros. unfold sget. simpl length.
  repeat split.
  - destruct (Nat.ltb_spec (length st) (S (S (S (S (length st)))))); [|lia].
    replace (S (S (S (S (length st)))) - 1 - length st) with 3 by lia. reflexivity.
  - destruct (Nat.ltb_spec (length st + 1) (S (S (S (S (length st)))))); [|lia].
    replace (S (S (S (S (length st)))) - 1 - (length st + 1)) with 2 by lia. reflexivity.
  - destruct (Nat.ltb_spec (length st + 2) (S (S (S (S (length st)))))); [|lia].
    replace (S (S (S (S (length st)))) - 1 - (length st + 2)) with 1 by lia. reflexivity.
  - destruct (Nat.ltb_spec (length st + 3) (S (S (S (S (length st)))))); [|lia].
    replace (S (S (S (S (length st)))) - 1 - (length st + 3)) with 0 by lia. reflexivity.
Qed.

Lemma nth_error_firstn_lt : forall (A : Type) (l : list A) n k, k < n -> nth_error (firstn n l) k = nth_error l k.
Proof.
  induction l as [|a t IH]; intros n k H.
  - rewrite firstn_nil. reflexivity.
  - destruct n as [|n]; [lia|]. destruct k as [|k]; simpl; [reflexivity|]. apply IH. lia.
Qed.

Lemma slot_nat : forall fp k, k < fp -> slot fp (Z.of_nat k) = Some (fp - 1 - k).
Proof.
  intros fp k H. unfold slot.
  destruct (Z.ltb_spec (Z.of_nat fp - 1 - Z.of_nat k) 0) as [L|L]; [lia|].
  f_equal. lia.
Qed.

(** the shape of the state make_call produces: [st'] is the argument area + everything below *)
Definition entered (s' : state) (proc : value) (st' : list value) (i' : nat)
           (rip : nat) (rself : value) (rfp : nat) (h' : list hobj) (g : list (nat * value)) : Prop :=
  s' = mkst (vint rfp :: rself :: vint rip :: vint i' :: st') (length st') proc 0 h' g.

Lemma make_call_cases : forall s flags nargs c vars st i rip rself rfp s',
  make_call s (VProc flags nargs c vars) st i rip rself rfp = Next s' ->
  i <= length st /\ nargs <= i /\
  let proc := VProc flags nargs c vars in
  (* unused rest, or exact count without a rest list to build: nothing moves *)
  ((Nat.testbit flags 0 = false \/ Nat.testbit flags 1 = true) /\
     entered s' proc st i rip rself rfp (heap s) (globals s)) \/
  (* surplus arguments collected into a list *)
  (Nat.testbit flags 0 = true /\ Nat.testbit flags 1 = false /\ nargs < i /\
     exists h' l, build_list (heap s) (firstn (i - nargs) (skipn nargs st)) = (h', l) /\
       entered s' proc (firstn nargs st ++ l :: skipn i st) (S nargs) rip rself rfp h' (globals s)) \/
  (* no surplus: an empty rest list is inserted *)
  (Nat.testbit flags 0 = true /\ Nat.testbit flags 1 = false /\ i = nargs /\
     entered s' proc (firstn i st ++ VLit LNil :: skipn i st) (S i) rip rself rfp (heap s) (globals s)).
Proof.
  intros s flags nargs c vars st i rip rself rfp s' H. unfold make_call in H.
  destruct (Nat.ltb_spec (length st) i) as [L1|L1]; [discriminate|].
  destruct (Nat.ltb_spec i nargs) as [L2|L2]; [discriminate|].
  split; [assumption|]. split; [assumption|]. cbv zeta.
  destruct (Nat.ltb_spec 0 (i - nargs)) as [L3|L3].
  - destruct (Nat.testbit flags 0) eqn:V; [|discriminate].
    destruct (Nat.testbit flags 1) eqn:U.
    + left. split; [auto|]. inversion H. reflexivity.
    + right. left. destruct (build_list (heap s) (firstn (i - nargs) (skipn nargs st))) as [h' l] eqn:B.
      inversion H. repeat split; try lia. exists h', l. split; reflexivity.
  - destruct (Nat.testbit flags 0) eqn:V; destruct (Nat.testbit flags 1) eqn:U; simpl in H; inversion H.
    + left. split; [auto|]. reflexivity.
    + right. right. repeat split; try lia.
    + left. split; [auto|]. reflexivity.
    + left. split; [auto|]. reflexivity.
Qed.

(** Frame-slot agreement: whatever protocol make_call follows, in the callee
    (1) the frame header sits at fp..fp+3 and the stack ends right above it,
    (2) LOCAL-REF k (k < number of fixed parameters) reads the k-th argument of the call,
    (3) when a rest list is built it sits in slot [nargs] = param_index of the rest parameter,
        and it is the list of the surplus arguments in order. *)
Lemma make_call_frame : forall s flags nargs c vars st i rip rself rfp s',
  make_call s (VProc flags nargs c vars) st i rip rself rfp = Next s' ->
  self s' = VProc flags nargs c vars /\ ip s' = 0 /\ length (stk s') = fp s' + 4 /\
  (exists i', sget (stk s') (fp s') = Some (vint i') /\ nargs <= i' /\ i' <= fp s') /\
  sget (stk s') (fp s' + 1) = Some (vint rip) /\
  sget (stk s') (fp s' + 2) = Some rself /\
  sget (stk s') (fp s' + 3) = Some (vint rfp) /\
  (forall k, k < nargs ->
     exists a, slot (fp s') (Z.of_nat k) = Some a /\ sget (stk s') a = nth_error st k) /\
  (Nat.testbit flags 0 = true -> Nat.testbit flags 1 = false ->
     exists a l, slot (fp s') (Z.of_nat nargs) = Some a /\ sget (stk s') a = Some l /\
       build_list (heap s) (firstn (i - nargs) (skipn nargs st)) = (heap s', l)).
Proof.
  intros s flags nargs c vars st i rip rself rfp s' H.
  destruct (make_call_cases _ _ _ _ _ _ _ _ _ _ _ H) as [Li [Ln Hc]]. cbv zeta in Hc.
  assert (Hfix : forall st' , (forall k, k < nargs -> nth_error st' k = nth_error st k) -> nargs <= length st' ->
            forall a b c0 d k, k < nargs ->
            exists ad, slot (length st') (Z.of_nat k) = Some ad /\ sget (a :: b :: c0 :: d :: st') ad = nth_error st k).
  { intros st' Hn Hl a b c0 d k Hk. exists (length st' - 1 - k). split.
    - apply slot_nat. lia.
    - rewrite sget_frame by lia. apply Hn. assumption. }
  assert (Hgen : forall st' i' h', nargs <= i' -> i' <= length st' ->
     (forall k, k < nargs -> nth_error st' k = nth_error st k) ->
     entered s' (VProc flags nargs c vars) st' i' rip rself rfp h' (globals s) ->
     self s' = VProc flags nargs c vars /\ ip s' = 0 /\ length (stk s') = fp s' + 4 /\
     (exists i'0, sget (stk s') (fp s') = Some (vint i'0) /\ nargs <= i'0 /\ i'0 <= fp s') /\
     sget (stk s') (fp s' + 1) = Some (vint rip) /\ sget (stk s') (fp s' + 2) = Some rself /\
     sget (stk s') (fp s' + 3) = Some (vint rfp) /\
     (forall k, k < nargs -> exists a, slot (fp s') (Z.of_nat k) = Some a /\ sget (stk s') a = nth_error st k)).
  { intros st' i' h' Hi1 Hi2 Hn E. unfold entered in E. subst s'. cbn [stk fp self ip heap globals].
    destruct (sget_header (vint rfp) rself (vint rip) (vint i') st') as [A [B [C D]]].
    split; [reflexivity|]. split; [reflexivity|]. split; [simpl; lia|].
    split; [exists i'; split; [exact A|split; assumption]|].
    split; [exact B|]. split; [exact C|]. split; [exact D|].
    intros k Hk. apply Hfix; [assumption|lia|assumption]. }
  destruct Hc as [[Hf E]|[[V [U [Lt [h' [l [B E]]]]]]|[V [U [Eq E]]]]].
  - destruct (Hgen st i (heap s)) as [G1 [G2 [G3 [G4 [G5 [G6 [G7 G8]]]]]]]; [lia|lia|auto|exact E|].
    repeat (split; [assumption|]).
    intros V U. destruct Hf as [Hf|Hf]; congruence.
  - set (st' := firstn nargs st ++ l :: skipn i st) in *.
    assert (Hlen : length st' = S nargs + (length st - i)).
    { unfold st'. rewrite app_length, firstn_length. simpl. rewrite skipn_length. lia. }
    assert (Hn : forall k, k < nargs -> nth_error st' k = nth_error st k).
    { intros k0 Hk0. unfold st'. rewrite nth_error_app1 by (rewrite firstn_length; lia).
      apply nth_error_firstn_lt. assumption. }
    destruct (Hgen st' (S nargs) h') as [G1 [G2 [G3 [G4 [G5 [G6 [G7 G8]]]]]]]; [lia|lia|exact Hn|exact E|].
    repeat (split; [assumption|]).
    intros _ _. unfold entered in E. subst s'. cbn [stk fp self ip heap globals].
    exists (length st' - 1 - nargs), l. split; [apply slot_nat; lia|]. split.
    + rewrite sget_frame by lia. unfold st'.
      rewrite nth_error_app2 by (rewrite firstn_length; lia).
      rewrite firstn_length. replace (nargs - Nat.min nargs (length st)) with 0 by lia. reflexivity.
    + assumption.
  - subst i. set (st' := firstn nargs st ++ VLit LNil :: skipn nargs st) in *.
    assert (Hlen : length st' = S nargs + (length st - nargs)).
    { unfold st'. rewrite app_length, firstn_length. simpl. rewrite skipn_length. lia. }
    assert (Hn : forall k, k < nargs -> nth_error st' k = nth_error st k).
    { intros k0 Hk0. unfold st'. rewrite nth_error_app1 by (rewrite firstn_length; lia).
      apply nth_error_firstn_lt. assumption. }
    destruct (Hgen st' (S nargs) (heap s)) as [G1 [G2 [G3 [G4 [G5 [G6 [G7 G8]]]]]]]; [lia|lia|exact Hn|exact E|].
    repeat (split; [assumption|]).
    intros _ _. unfold entered in E. subst s'. cbn [stk fp self ip heap globals].
    exists (length st' - 1 - nargs), (VLit LNil). split; [apply slot_nat; lia|]. split.
    + rewrite sget_frame by lia. unfold st'.
      rewrite nth_error_app2 by (rewrite firstn_length; lia).
      rewrite firstn_length. replace (nargs - Nat.min nargs (length st)) with 0 by lia. reflexivity.
    + rewrite Nat.sub_diag. reflexivity.
Qed.

Example make_call_frame_example :
  exists s', make_call (mkst [] 0 final_resumer 0 [] []) (VProc 1 1 [IRet] (VLit LVoid))
               [vint 7; vint 8; vint 9; vint 100] 3 5 final_resumer 0 = Next s'
             /\ fp s' = 3 /\ sget (stk s') 2 = Some (vint 7) /\ sget (stk s') 1 = Some (VPair 1)
             /\ heap s' = [HPair (vint 9) (VLit LNil); HPair (vint 8) (VPair 0)].
Proof. eexists. repeat split. Qed.

(* ------------------------------------------------------------------ unused rest parameter *)

Lemma usedp_mentions : forall id v e, usedp true id v e = mentions id v e.
Proof.
  intros id v. induction e using ast_ind'; simpl; try reflexivity.
  - rewrite IHe. reflexivity.
  - rewrite IHe1, IHe2, IHe3. reflexivity.
  - induction H as [|e es He Hes IH]; simpl; [reflexivity|]. rewrite He, IH. reflexivity.
  - assumption.
  - rewrite IHe. f_equal.
    induction H as [|a args Ha Hargs IH]; simpl; [reflexivity|]. rewrite Ha, IH. reflexivity.
  - induction H as [|a args Ha Hargs IH]; simpl; [reflexivity|]. rewrite Ha, IH. reflexivity.
Qed.

(** (repaired code) the unused-rest flag is only set when the body never mentions the rest
    parameter, neither as a reference nor as the target of an assignment *)
Lemma rest_unused_sound : forall id v body,
  rest_unused true id (Some v) body = true -> mentions id v body = false.
Proof.
  intros id v body H. unfold rest_unused in H. rewrite usedp_mentions in H.
  destruct (mentions id v body); [discriminate|reflexivity].
Qed.

Lemma rest_unused_complete : forall id v body,
  mentions id v body = false -> rest_unused true id (Some v) body = true.
Proof. intros id v body H. unfold rest_unused. rewrite usedp_mentions, H. reflexivity. Qed.

(** the pinned function (target of set! ignored) is unsound: F-C03-1's procedure body *)
Definition f_c03_1_body : ast := Seq [SetV 2 (Local 0) (Lit (LInt 5)); Ref 1 (Local 0)].
Lemma rest_unused_pinned_refuted :
  rest_unused false 0 (Some 2) f_c03_1_body = true /\ mentions 0 2 f_c03_1_body = true.
Proof. split; reflexivity. Qed.

Example rest_unused_example :
  rest_unused true 0 (Some 2) f_c03_1_body = false /\
  rest_unused true 0 (Some 2) (Ref 1 (Local 0)) = true.
Proof. split; reflexivity. Qed.

(* ---- sexp_rest_unused_p as of /repo 7788b66: the set-vars are consulted before usedp *)

Lemma rest_in_sv_In : forall v sv, rest_in_sv (Some v) sv = true <-> In v sv.
Proof.
  intros v sv. unfold rest_in_sv. rewrite existsb_exists. split.
  - intros [x [Hx E]]. apply Nat.eqb_eq in E. subst x. exact Hx.
  - intros H. exists v. split; [exact H|apply Nat.eqb_refl].
Qed.

Lemma rest_unused_p_sound : forall id v sv body,
  rest_unused_p true id (Some v) sv body = true -> mentions id v body = false /\ ~ In v sv.
Proof.
  intros id v sv body H. unfold rest_unused_p in H.
  destruct (rest_in_sv (Some v) sv) eqn:E; [discriminate H|]. split.
  - exact (rest_unused_sound id v body H).
  - intro Hin. apply rest_in_sv_In in Hin. congruence.
Qed.

Lemma rest_unused_p_complete : forall id v sv body,
  mentions id v body = false -> ~ In v sv -> rest_unused_p true id (Some v) sv body = true.
Proof.
  intros id v sv body Hm Hn. unfold rest_unused_p.
  destruct (rest_in_sv (Some v) sv) eqn:E.
  - exfalso. apply Hn. apply rest_in_sv_In. exact E.
  - apply rest_unused_complete. exact Hm.
Qed.

Lemma lam_flags_sv_nil : forall id r b, lam_flags_sv id r [] b = lam_flags id r b.
Proof. intros id [x|] b; reflexivity. Qed.

(** the two flag functions agree unless the set-vars list a rest parameter the body never mentions
    (a stale entry: simplification removed every assignment) *)
Lemma lam_flags_sv_eq : forall id r sv b,
  (rest_in_sv r sv = true -> rest_unused true id r b = false) ->
  lam_flags_sv id r sv b = lam_flags id r b.
Proof.
  intros id [x|] sv b H; [|reflexivity]. unfold lam_flags_sv, lam_flags, rest_unused_p.
  destruct (rest_in_sv (Some x) sv) eqn:E; [|reflexivity]. rewrite (H eq_refl). reflexivity.
Qed.

Lemma lam_flags_sv_stale : forall id x sv b,
  rest_in_sv (Some x) sv = true -> lam_flags_sv id (Some x) sv b = PROC_VARIADIC.
Proof. intros id x sv b E. unfold lam_flags_sv, rest_unused_p. rewrite E. reflexivity. Qed.

(** a procedure flagged UNUSED_REST gets no rest slot from make_call (frame position #fixed then belongs
    to whatever lies below: a surplus argument or the CALLER's stack); the prologue (vm.c:699-707
    [box_code]) must therefore never store into slot #fixed: it only touches fixed parameters (0 <= k <
    #fixed) and internal defines (k < 0). *)
Lemma unused_rest_prologue_safe : forall id ps v ls sv b k,
  rest_unused_p true id (Some v) sv b = true ->
  (forall x, In x sv -> In x (frame_vars ps (Some v) ls)) ->
  In (ILocalSet k) (box_code ps (Some v) ls sv) ->
  (0 <= k < Z.of_nat (length ps))%Z \/ (k < 0)%Z.
Proof.
  intros id ps v ls sv b k Hu Hsv Hin.
  destruct (rest_unused_p_sound id v sv b Hu) as [_ Hnot].
  unfold box_code in Hin. apply in_flat_map in Hin. destruct Hin as [x [Hx Hk]].
  cbv zeta in Hk. simpl in Hk.
  destruct Hk as [Hk|[Hk|[Hk|[Hk|[]]]]]; try discriminate Hk.
  assert (Ek : k = param_index ps (Some v) ls x) by (inversion Hk; reflexivity). clear Hk.
  destruct (param_index_class ps (Some v) ls x (Hsv x Hx)) as [[i [Hi Pi]]|[[Nx [Rx Pi]]|[Nx [Rx [i [Hi Pi]]]]]].
  - left. destruct (index_of_some _ _ _ Hi) as [_ Hlt]. lia.
  - exfalso. inversion Rx. subst x. exact (Hnot Hx).
  - right. lia.
Qed.

(** the function before 7788b66 (usedp only) violates it: a stale set-vars entry for the rest parameter
    ([(lambda (a . r) (if #f (set! r 1)) a)] after simplification) is flagged AND boxed at slot #fixed *)
Definition stale_sv_lam_body : ast := Ref 1 (Local 0).
Lemma rest_unused_stale_sv_refuted :
  rest_unused true 0 (Some 2) stale_sv_lam_body = true /\
  In (ILocalSet 1%Z) (box_code [1] (Some 2) [] [2]) /\
  rest_unused_p true 0 (Some 2) [2] stale_sv_lam_body = false.
Proof. split; [reflexivity|]. split; [simpl; tauto|reflexivity]. Qed.

Example unused_rest_prologue_safe_example :
  rest_unused_p true 0 (Some 2) [1; 3] stale_sv_lam_body = true /\
  box_code [1] (Some 2) [3] [1; 3] =
    [ILocalRef 0%Z; IPush (LSym 1); ICons; ILocalSet 0%Z; ILocalRef (-5)%Z; IPush (LSym 3); ICons; ILocalSet (-5)%Z].
Proof. split; reflexivity. Qed.

(* ------------------------------------------------------------------ free variables *)

Definition fv_list : list ast -> list vref -> list vref :=
  fix go (l : list ast) (acc : list vref) : list vref :=
    match l with [] => acc | e :: r => go r (free_vars e acc) end.

Lemma insert_free_var_in : forall x fv r, In r (insert_free_var x fv) <-> r = x \/ In r fv.
Proof.
  intros x fv r. unfold insert_free_var. destruct (existsb (vref_eqb x) fv) eqn:E.
  - apply existsb_exists in E. destruct E as [y [Hy Ey]]. apply vref_eqb_eq in Ey. subst y.
    split; [auto|]. intros [->|H]; assumption.
  - simpl. split; intros [H|H]; auto.
Qed.

Lemma insert_free_var_nodup : forall x fv, NoDup fv -> NoDup (insert_free_var x fv).
Proof.
  intros x fv H. unfold insert_free_var. destruct (existsb (vref_eqb x) fv) eqn:E; [assumption|].
  constructor; [|assumption]. intro Hin.
  assert (existsb (vref_eqb x) fv = true).
  { apply existsb_exists. exists x. split; [assumption|]. apply vref_eqb_eq. reflexivity. }
  congruence.
Qed.

Lemma fold_insert_in : forall fv1 fv2 r,
  In r (fold_left (fun res x => insert_free_var x res) fv1 fv2) <-> In r fv1 \/ In r fv2.
Proof.
  induction fv1 as [|a t IH]; simpl; intros fv2 r; [tauto|].
  rewrite IH, insert_free_var_in. split; intros [H|H]; auto; destruct H; auto.
Qed.

Lemma fold_insert_nodup : forall fv1 fv2, NoDup fv2 ->
  NoDup (fold_left (fun res x => insert_free_var x res) fv1 fv2).
Proof.
  induction fv1 as [|a t IH]; simpl; intros fv2 H; [assumption|].
  apply IH. apply insert_free_var_nodup. assumption.
Qed.

Lemma union_free_vars_in : forall fv1 fv2 r, In r (union_free_vars fv1 fv2) <-> In r fv1 \/ In r fv2.
Proof.
  intros fv1 fv2 r. unfold union_free_vars. destruct fv2 as [|b t].
  - simpl. tauto.
  - apply fold_insert_in.
Qed.

Lemma union_free_vars_nodup : forall fv1 fv2, NoDup fv1 -> NoDup fv2 -> NoDup (union_free_vars fv1 fv2).
Proof.
  intros fv1 fv2 H1 H2. unfold union_free_vars. destruct fv2 as [|b t]; [assumption|].
  apply fold_insert_nodup. assumption.
Qed.

Lemma diff_fold_in : forall id bound fv acc r,
  In r (fold_left (fun res x => if diff_keep id bound x then x :: res else res) fv acc)
  <-> (In r fv /\ diff_keep id bound r = true) \/ In r acc.
Proof.
  intros id bound. induction fv as [|a t IH]; simpl; intros acc r; [tauto|].
  rewrite IH. destruct (diff_keep id bound a) eqn:E; simpl.
  - split; intro H; intuition (subst; auto).
  - split; intro H; intuition (subst; auto; congruence).
Qed.

Lemma diff_fold_nodup : forall id bound fv acc,
  NoDup (fv ++ acc) ->
  NoDup (fold_left (fun res x => if diff_keep id bound x then x :: res else res) fv acc).
Proof.
  intros id bound. induction fv as [|a t IH]; simpl; intros acc H; [assumption|].
  inversion H as [|? ? Hn Hd]; subst. destruct (diff_keep id bound a).
  - apply IH. apply (proj2 (NoDup_Add (Add_app a t acc))). split; assumption.
  - apply IH. assumption.
Qed.

Lemma diff_free_vars_in : forall id fv bound r,
  In r (diff_free_vars id fv bound) <-> In r fv /\ diff_keep id bound r = true.
Proof.
  intros. unfold diff_free_vars. rewrite diff_fold_in. simpl. tauto.
Qed.

Lemma diff_free_vars_nodup : forall id fv bound, NoDup fv -> NoDup (diff_free_vars id fv bound).
Proof. intros. unfold diff_free_vars. apply diff_fold_nodup. rewrite app_nil_r. assumption. Qed.

Lemma diff_keep_bound_by : forall id ps r ls x,
  diff_keep id (bound_names ps r ls) x = negb (bound_by id (ls ++ ps ++ match r with Some y => [y] | None => [] end) x).
Proof.
  intros. unfold diff_keep, bound_by, bound_names. rewrite negb_andb. reflexivity.
Qed.

Lemma fv_list_spec : forall es,
  Forall (fun e => forall acc r, In r (free_vars e acc) <-> In r (free_occ e) \/ In r acc) es ->
  forall acc r, In r (fv_list es acc) <-> In r (flat_map free_occ es) \/ In r acc.
Proof.
  induction 1 as [|e es He Hes IH]; simpl; intros acc r; [tauto|].
  rewrite IH, He, in_app_iff. tauto.
Qed.

(** sexp_free_vars computes exactly the free occurrences (as a set), threaded through the accumulator *)
Lemma free_vars_spec : forall e acc r, In r (free_vars e acc) <-> In r (free_occ e) \/ In r acc.
Proof.
  induction e using ast_ind'; intros acc q.
  - simpl. tauto.
  - simpl. destruct o; simpl; [tauto|]. rewrite insert_free_var_in. intuition (subst; auto).
  - simpl. destruct o; simpl.
    + rewrite IHe, app_nil_r. tauto.
    + rewrite insert_free_var_in, IHe, in_app_iff. simpl. intuition (subst; auto).
  - simpl. rewrite IHe3, IHe2, IHe1, !in_app_iff. tauto.
  - change (free_vars (Seq es) acc) with (fv_list es acc). simpl free_occ. apply fv_list_spec. assumption.
  - simpl. rewrite union_free_vars_in, diff_free_vars_in, filter_In, IHe, diff_keep_bound_by. simpl. tauto.
  - change (free_vars (App e args) acc) with (fv_list args (free_vars e acc)). simpl free_occ.
    rewrite (fv_list_spec args H), IHe, in_app_iff. tauto.
  - change (free_vars (OpApp p args) acc) with (fv_list args acc). simpl free_occ. apply fv_list_spec. assumption.
Qed.

Lemma fv_list_nodup : forall es,
  Forall (fun e => forall acc, NoDup acc -> NoDup (free_vars e acc)) es ->
  forall acc, NoDup acc -> NoDup (fv_list es acc).
Proof.
  induction 1 as [|e es He Hes IH]; simpl; intros acc Hacc; [assumption|]. apply IH. apply He. assumption.
Qed.

Lemma free_vars_nodup : forall e acc, NoDup acc -> NoDup (free_vars e acc).
Proof.
  induction e using ast_ind'; intros acc Hacc.
  - assumption.
  - simpl. destruct o; [assumption|]. apply insert_free_var_nodup. assumption.
  - simpl. destruct o; [apply IHe; assumption|]. apply insert_free_var_nodup. apply IHe. assumption.
  - simpl. apply IHe3, IHe2, IHe1. assumption.
  - change (free_vars (Seq es) acc) with (fv_list es acc). apply fv_list_nodup; assumption.
  - simpl. apply union_free_vars_nodup; [|assumption]. apply diff_free_vars_nodup. apply IHe. constructor.
  - change (free_vars (App e args) acc) with (fv_list args (free_vars e acc)).
    apply fv_list_nodup; [assumption|]. apply IHe. assumption.
  - change (free_vars (OpApp p args) acc) with (fv_list args acc). apply fv_list_nodup; assumption.
Qed.

(** the fv list stored in a lambda = its body's free occurrences not bound by the lambda; no duplicates *)
Lemma lam_fv_complete : forall id ps r ls b x,
  In x (lam_fv id ps r ls b) <->
  In x (free_occ b) /\ bound_by id (ls ++ ps ++ match r with Some y => [y] | None => [] end) x = false.
Proof.
  intros. unfold lam_fv. rewrite diff_free_vars_in, free_vars_spec, diff_keep_bound_by. simpl.
  rewrite negb_true_iff. tauto.
Qed.

Lemma lam_fv_nodup : forall id ps r ls b, NoDup (lam_fv id ps r ls b).
Proof. intros. unfold lam_fv. apply diff_free_vars_nodup. apply free_vars_nodup. constructor. Qed.

Lemma free_vars_complete : forall id ps r ls b,
  NoDup (lam_fv id ps r ls b) /\
  forall x, In x (lam_fv id ps r ls b) <->
            In x (free_occ b) /\ bound_by id (ls ++ ps ++ match r with Some y => [y] | None => [] end) x = false.
Proof. intros. split; [apply lam_fv_nodup | intro; apply lam_fv_complete]. Qed.

Example lam_fv_example :
  lam_fv 1 [5] None []
    (Seq [SetV 2 (Local 0) (OpApp PAdd [Ref 2 (Local 0); Ref 5 (Local 1)]);
          App (Ref 4 (Local 0)) [Ref 3 (Local 0); Ref 1 (Local 0)]])
  = [(2, Local 0); (4, Local 0); (3, Local 0); (1, Local 0)].
Proof. reflexivity. Qed.

(* ------------------------------------------------------------------ closure layout *)

Lemma closure_index_nth : forall fv k r, NoDup fv -> nth_error fv k = Some r -> closure_index r fv = k.
Proof.
  induction fv as [|a t IH]; intros k r Hnd Hk; [destruct k; discriminate|].
  inversion Hnd as [|? ? Hn Hd]; subst. destruct k as [|k]; simpl in *.
  - inversion Hk; subst. assert (E : vref_eqb r r = true) by (apply vref_eqb_eq; reflexivity).
    rewrite E. reflexivity.
  - destruct (vref_eqb r a) eqn:E.
    + apply vref_eqb_eq in E. subst a. exfalso. apply Hn. eapply nth_error_In. eassumption.
    + f_equal. apply IH; assumption.
Qed.

Lemma closure_fill_group : forall svs cur fv k0 k x o, nth_error fv k = Some (x, o) ->
  exists pre post, closure_fill svs cur k0 fv =
    pre ++ gen_non_global_ref svs cur x o false
        ++ [IPush (LInt (Z.of_nat (k0 + k))); IStackRef 3; IVectorSet] ++ post.
Proof.
  induction fv as [|[y p] t IH]; intros k0 k x o H; [destruct k; discriminate|].
  destruct k as [|k]; simpl in H.
  - inversion H; subst. exists [], (closure_fill svs cur (S k0) t). simpl. rewrite Nat.add_0_r.
    rewrite <- ?app_assoc. reflexivity.
  - destruct (IH (S k0) k x o H) as [pre [post E]].
    exists (gen_non_global_ref svs cur y p false ++ [IPush (LInt (Z.of_nat k0)); IStackRef 3; IVectorSet] ++ pre), post.
    simpl. rewrite E. replace (S k0 + k) with (k0 + S k) by lia. rewrite <- ?app_assoc. reflexivity.
Qed.

(** Closure layout: the creation code stores the k-th free variable of a lambda at vector index k
    (reading it in the *enclosing* frame), and inside the lambda every reference to that variable
    is CLOSURE-REF k (followed by CDR exactly when the variable is boxed and a value is wanted). *)
Lemma closure_layout_agrees : forall svs svs' cur id ps r ls b k x o u,
  nth_error (lam_fv id ps r ls b) k = Some (x, o) -> o <> Local id ->
  (exists pre post, closure_fill svs cur 0 (lam_fv id ps r ls b) =
     pre ++ gen_non_global_ref svs cur x o false ++ [IPush (LInt (Z.of_nat k)); IStackRef 3; IVectorSet] ++ post)
  /\ gen_non_global_ref svs' (Some (mk_lctx id ps r ls (lam_fv id ps r ls b))) x o u
     = IClosureRef k :: (if u && memn x (sv_of svs' o) then [ICdr] else []).
Proof.
  intros svs svs' cur id ps r ls b k x o u Hk Ho. split.
  - apply (closure_fill_group svs cur _ 0 k x o Hk).
  - unfold gen_non_global_ref. simpl.
    destruct (loc_eqb o (Local id)) eqn:E; [apply loc_eqb_eq in E; congruence|].
    rewrite (closure_index_nth _ k (x, o) (lam_fv_nodup id ps r ls b) Hk). reflexivity.
Qed.

(* ------------------------------------------------------------------ boxing *)

(** a variable is reached through its box (CDR after the reference, SET-CDR for assignment)
    exactly when it is in the sv list of its owner; the entry code boxes exactly the sv list *)
Lemma boxing_consistent : forall svs c x m v tail,
  gen_ref svs (Some c) x (Local m) true
    = gen_ref svs (Some c) x (Local m) false ++ (if memn x (svs m) then [ICdr] else [])
  /\ (memn x (svs m) = true ->
      generate tail svs (Some c) (SetV x (Local m) v)
      = generate false svs (Some c) v ++ gen_ref svs (Some c) x (Local m) false ++ [ISetCdr; IPush LVoid])
  /\ (forall ps r ls sv,
        box_code ps r ls sv
        = flat_map (fun y => [ILocalRef (param_index ps r ls y); IPush (LSym y); ICons; ILocalSet (param_index ps r ls y)]) sv).
Proof.
  intros. repeat split.
  - unfold gen_ref, gen_non_global_ref. simpl. destruct (memn x (svs m)); simpl; rewrite ?app_nil_r, <- ?app_assoc; reflexivity.
  - intro H. simpl. rewrite H. rewrite <- ?app_assoc. reflexivity.
Qed.
