(** C03 — compile_correct, third fragment: assignments and boxes (no calls).

    Fragment [imp id sv e] (id = current lambda, sv = its assigned variables): literals, global references,
    references to variables of the current frame (boxed ones through LOCAL-REF; CDR, the others through
    LOCAL-REF), set! of boxed variables of the current frame (LOCAL-REF; SET-CDR on the box), set! of globals
    (PUSH cell; SET-CDR), if, begin (with the PUSH-rewind of generate_drop_prev for a non-final set!), the
    inlined unary / binary opcodes except eq?.

    The heap is now MUTATED (boxes), so the statement says what must not change: every heap cell that is not one
    of the frame's boxes [B] keeps its content, the heap only grows otherwise; the stack below the result and
    the frame are unchanged; and the simulation relation [imp_rel] between the SPEC's store and the VM's frame /
    boxes / globals is re-established for the SPEC's final store.  Data values are related by [vrelB]: like
    Simulation.vrel, and no pair cell of a value is a box. *)
From Coq Require Import ZArith List Bool Arith Lia.
From ChibiV Require Import C03.Defs C03.Model C03.Spec C03.Simulation.
Import ListNotations.
Local Open Scope nat_scope.

(* ------------------------------------------------------------------ lists with one element replaced *)

Lemma list_set_length : forall {A} (l : list A) n v, length (list_set l n v) = length l.
Proof. intros A l. induction l as [|x r IH]; intros [|n] v; simpl; auto. Qed.

Lemma list_set_same : forall {A} (l : list A) n v, n < length l -> nth_error (list_set l n v) n = Some v.
Proof. intros A l. induction l as [|x r IH]; intros [|n] v H; simpl in *; try lia; auto. apply IH. lia. Qed.

Lemma list_set_other : forall {A} (l : list A) n m v, m <> n -> nth_error (list_set l n v) m = nth_error l m.
Proof.
  intros A l. induction l as [|x r IH]; intros [|n] [|m] v H; simpl; auto; try congruence.
Qed.

Lemma cell_set_same : forall l n v, n < length l -> nth_error (cell_set l n v) n = Some v.
Proof. intros l. induction l as [|x r IH]; intros [|n] v H; simpl in *; try lia; auto. apply IH. lia. Qed.

Lemma cell_set_other : forall l n m v, m <> n -> nth_error (cell_set l n v) m = nth_error l m.
Proof. intros l. induction l as [|x r IH]; intros [|n] [|m] v H; simpl; auto; try congruence. Qed.

Lemma glob_lookup_set : forall g' g v l,
  glob_lookup g' (glob_set g v l) = if Nat.eqb g' g then Some v else glob_lookup g' l.
Proof.
  intros g' g v l. induction l as [|[k w] t IH]; simpl.
  - destruct (Nat.eqb g' g); reflexivity.
  - destruct (Nat.eqb g k) eqn:E; simpl.
    + apply Nat.eqb_eq in E. subst k. destruct (Nat.eqb g' g); reflexivity.
    + rewrite IH. destruct (Nat.eqb g' k) eqn:E2; auto.
      apply Nat.eqb_eq in E2. subst k. destruct (Nat.eqb g' g) eqn:E3; auto.
      apply Nat.eqb_eq in E3. subst g'. rewrite Nat.eqb_refl in E. discriminate.
Qed.

Lemma assoc_nat_set : forall {A} g' g (v : A) l,
  assoc_nat g' (assoc_set g v l) = if Nat.eqb g' g then Some v else assoc_nat g' l.
Proof.
  intros A g' g v l. induction l as [|[k w] t IH]; simpl.
  - destruct (Nat.eqb g' g); reflexivity.
  - destruct (Nat.eqb g k) eqn:E; simpl.
    + apply Nat.eqb_eq in E. subst k. destruct (Nat.eqb g' g); reflexivity.
    + rewrite IH. destruct (Nat.eqb g' k) eqn:E2; auto.
      apply Nat.eqb_eq in E2. subst k. destruct (Nat.eqb g' g) eqn:E3; auto.
      apply Nat.eqb_eq in E3. subst g'. rewrite Nat.eqb_refl in E. discriminate.
Qed.

(* ------------------------------------------------------------------ values, heaps that evolve *)

Fixpoint vrelB (B : list nat) (h : list hobj) (v : value) (w : sval) {struct w} : Prop :=
  match w with
  | SLit l => v = VLit l
  | SPair x y => exists a vx vy, v = VPair a /\ ~ In a B /\ nth_error h a = Some (HPair vx vy)
                                 /\ vrelB B h vx x /\ vrelB B h vy y
  | SClo _ _ _ _ _ _ => False
  end.

(** h' differs from h only in cells of B and in new cells *)
Definition evolves (B : list nat) (h h' : list hobj) : Prop :=
  length h <= length h' /\ forall a, a < length h -> ~ In a B -> nth_error h' a = nth_error h a.

Lemma evolves_refl : forall B h, evolves B h h.
Proof. intros; split; auto. Qed.

Lemma evolves_trans : forall B a b c, evolves B a b -> evolves B b c -> evolves B a c.
Proof.
  intros B a b c [L1 H1] [L2 H2]. split; [lia|]. intros x Hx Hn. rewrite H2 by (auto; lia). apply H1; auto.
Qed.

Lemma evolves_app : forall B h hx, evolves B h (h ++ hx).
Proof. intros B h hx. split; [rewrite app_length; lia|]. intros a Ha _. apply nth_error_app1; auto. Qed.

Lemma evolves_set : forall B h bx o, In bx B -> evolves B h (list_set h bx o).
Proof.
  intros B h bx o Hin. split; [rewrite list_set_length; lia|]. intros a _ Hn.
  apply list_set_other. intro E; subst; auto.
Qed.

Lemma vrelB_evolves : forall B w h h' v, vrelB B h v w -> evolves B h h' -> vrelB B h' v w.
Proof.
  intros B. induction w as [l | x IHx y IHy | ]; simpl; intros h h' v H He; auto.
  destruct H as (a & vx & vy & -> & Hn & Hc & H1 & H2). exists a, vx, vy.
  repeat split; eauto. destruct He as [_ He]. rewrite He; auto. apply nth_error_Some. congruence.
Qed.

(* ------------------------------------------------------------------ the fragment *)

Fixpoint imp (id : nat) (sv : list name) (e : ast) {struct e} : bool :=
  match e with
  | Lit _ => true
  | Ref x Global => true
  | Ref x (Local m) => Nat.eqb m id
  | SetV x Global v => imp id sv v
  | SetV x (Local m) v => Nat.eqb m id && memn x sv && imp id sv v
  | Cnd t p f => imp id sv t && imp id sv p && imp id sv f
  | Seq es => match es with [] => false | _ :: _ => forallb (imp id sv) es end
  | OpApp p args => pure_prim p && Nat.eqb (length args) (prim_arity p) && forallb (imp id sv) args
  | Lam _ _ _ _ _ _ _ | App _ _ => false
  end.

(* ------------------------------------------------------------------ more single instructions *)

Lemma step_cdr : forall s pre post a r x d, at_code s pre [ICdr] post ->
  stk s = VPair a :: r -> nth_error (heap s) a = Some (HPair x d) ->
  step s = Next (upd s (d :: r) (S (ip s)) (heap s)).
Proof. intros s pre post a r x d H Hs Hh. unfold step. rewrite (fetch _ _ _ _ H), Hs, Hh. reflexivity. Qed.

Lemma step_set_cdr_box : forall s pre post a v r x d, at_code s pre [ISetCdr] post ->
  stk s = VPair a :: v :: r -> nth_error (heap s) a = Some (HPair x d) ->
  step s = Next (upd s r (S (ip s)) (list_set (heap s) a (HPair x v))).
Proof. intros s pre post a v r x d H Hs Hh. unfold step. rewrite (fetch _ _ _ _ H), Hs, Hh. reflexivity. Qed.

Lemma step_set_cdr_cell : forall s pre post g v r, at_code s pre [ISetCdr] post ->
  stk s = VCell g :: v :: r ->
  step s = Next (mkst r (fp s) (self s) (S (ip s)) (heap s) (assoc_set g v (globals s))).
Proof. intros s pre post g v r H Hs. unfold step. rewrite (fetch _ _ _ _ H), Hs. reflexivity. Qed.

Lemma step_push_cell : forall s pre post g, at_code s pre [IPushCell g] post ->
  step s = Next (upd s (VCell g :: stk s) (S (ip s)) (heap s)).
Proof. intros s pre post g H. unfold step. rewrite (fetch _ _ _ _ H). reflexivity. Qed.

(* ------------------------------------------------------------------ primitives under vrelB *)

Lemma prim1_okB : forall B p h v w r stk0,
  prim_arity p = 1 -> vrelB B h v w -> prim_sem p [w] = inl (Some r) ->
  exists r', prim_step p (v :: stk0) h = inl (Some (r' :: stk0, h)) /\ vrelB B h r' r.
Proof.
  intros B p h v w r stk0 Ha Hv Hs.
  destruct p; try discriminate Ha; destruct w as [l | x y | ]; simpl in Hv; try contradiction;
    try (destruct Hv as (a & vx & vy & -> & HnB & Hn & H1 & H2)); subst; simpl in Hs; try discriminate;
    inversion Hs; subst; simpl; rewrite ?Hn; eexists; split; try reflexivity; simpl; auto;
    try (destruct l as [z|[|]| | | | |o|nd]; reflexivity).
Qed.

Lemma prim2_okB : forall B p h v1 v2 w1 w2 r stk0,
  (forall a, In a B -> a < length h) ->
  prim_arity p = 2 -> pure_prim p = true -> vrelB B h v1 w1 -> vrelB B h v2 w2 ->
  prim_sem p [w1; w2] = inl (Some r) ->
  exists r' hx,
    (if prim_inverse p then prim_step (prim_opcode p) (v2 :: v1 :: stk0) h
     else prim_step p (v1 :: v2 :: stk0) h) = inl (Some (r' :: stk0, h ++ hx))
    /\ vrelB B (h ++ hx) r' r.
Proof.
  intros B p h v1 v2 w1 w2 r stk0 HB Ha Hp H1 H2 Hs.
  destruct p; try discriminate Ha; try discriminate Hp.
  all: try (destruct w1 as [[a| | | | | | |] | |]; simpl in Hs; try discriminate;
            destruct w2 as [[b| | | | | | |] | |]; simpl in Hs; try discriminate;
            simpl in H1, H2; subst; inversion Hs; subst; simpl;
            eexists; exists []; rewrite app_nil_r; split; reflexivity).
  simpl in Hs. inversion Hs; subst. simpl. eexists; exists [HPair v1 v2]. split; [reflexivity|].
  simpl. exists (length h), v1, v2. repeat split.
  - intro Hin. apply HB in Hin. lia.
  - rewrite nth_error_app2 by lia. rewrite Nat.sub_diag. reflexivity.
  - eapply vrelB_evolves; eauto using evolves_app.
  - eapply vrelB_evolves; eauto using evolves_app.
Qed.

Lemma sval_false_decB : forall B h v w, vrelB B h v w ->
  (w = SLit (LBool false) /\ v = VLit (LBool false)) \/ (w <> SLit (LBool false) /\ v <> VLit (LBool false)).
Proof.
  intros B h v w H. destruct w as [l | x y | ]; simpl in H; try contradiction.
  - subst. destruct l as [z|[|]| | | | |o|nd]; try (right; split; congruence). left; auto.
  - destruct H as (a & vx & vy & -> & _). right; split; congruence.
Qed.

(* ------------------------------------------------------------------ the simulation *)

Section Boxes.
  Variable c : lctx.
  Variable svs : nat -> list name.
  Variable B : list nat.             (* addresses of the frame's boxes *)
  Variable fp0 : nat.                (* the frame *)
  Variable stk0 : list value.        (* the stack at the start: frame + everything below *)
  Variable env : senv.               (* the SPEC environment (fixed: the fragment binds nothing) *)

  Local Notation id := (l_id c).
  Local Notation sv := (svs (l_id c)).
  Local Notation pidx x := (param_index (l_params c) (l_rest c) (l_locals c) x).

  (** static separation: a boxed variable shares its SPEC location with no other variable, and two boxed
      variables have different boxes *)
  Hypothesis loc_sep : forall x y a, memn x sv = true ->
    env_lookup (x, Local id) env = Some a -> env_lookup (y, Local id) env = Some a -> y = x.
  Hypothesis box_sep : forall x y kx ky bx, memn x sv = true -> memn y sv = true ->
    slot fp0 (pidx x) = Some kx -> sget stk0 kx = Some (VPair bx) ->
    slot fp0 (pidx y) = Some ky -> sget stk0 ky = Some (VPair bx) -> y = x.

  (** the simulation relation between the SPEC store and the VM's frame / boxes / globals *)
  Definition imp_rel (st : sstore) (h : list hobj) (gl : list (nat * value)) : Prop :=
    (forall x a, memn x sv = false -> env_lookup (x, Local id) env = Some a ->
       exists w k v, nth_error (cells st) a = Some w /\ slot fp0 (pidx x) = Some k /\ sget stk0 k = Some v /\ vrelB B h v w)
    /\ (forall x a, memn x sv = true -> env_lookup (x, Local id) env = Some a ->
       exists w k bx nm v, nth_error (cells st) a = Some w /\ slot fp0 (pidx x) = Some k /\
                           sget stk0 k = Some (VPair bx) /\ In bx B /\ nth_error h bx = Some (HPair nm v) /\ vrelB B h v w)
    /\ (forall g w, glob_lookup g (sglobals st) = Some w -> exists v, assoc_nat g gl = Some v /\ vrelB B h v w)
    /\ (forall a, In a B -> a < length h).

  Lemma imp_rel_evolves : forall st h h' gl, imp_rel st h gl -> evolves B h h' ->
    (forall bx, In bx B -> nth_error h' bx = nth_error h bx) -> imp_rel st h' gl.
  Proof.
    intros st h h' gl (HU & HBx & HG & HL) He Hb. repeat split.
    - intros x a Hm Hl. destruct (HU x a Hm Hl) as (w & k & v & H1 & H2 & H3 & H4).
      exists w, k, v. repeat split; auto. eapply vrelB_evolves; eauto.
    - intros x a Hm Hl. destruct (HBx x a Hm Hl) as (w & k & bx & nm & v & H1 & H2 & H3 & H4 & H5 & H6).
      exists w, k, bx, nm, v. repeat split; auto. { rewrite Hb; auto. } eapply vrelB_evolves; eauto.
    - intros g w Hg. destruct (HG g w Hg) as (v & H1 & H2). exists v. split; auto. eapply vrelB_evolves; eauto.
    - intros a Ha. destruct He as [Hlen _]. specialize (HL a Ha). lia.
  Qed.

  Lemma imp_rel_app : forall st h hx gl, imp_rel st h gl -> imp_rel st (h ++ hx) gl.
  Proof.
    intros st h hx gl H. eapply imp_rel_evolves; eauto using evolves_app.
    intros bx Hb. destruct H as (_ & _ & _ & HL). apply nth_error_app1. auto.
  Qed.

  Definition res_ok (s : state) (pre code : code) (v : sval) (st' : sstore) : Prop :=
    exists n v' h' gl',
      nsteps n s = Some (mkst (v' :: stk s) (fp s) (self s) (length pre + length code) h' gl')
      /\ evolves B (heap s) h' /\ vrelB B h' v' v /\ imp_rel st' h' gl'.

  Definition imp_at (f : nat) (e : ast) : Prop :=
    forall st v st', imp id sv e = true -> eval f e env st = SVal v st' ->
    forall tl s pre post temps,
    at_code s pre (generate tl svs (Some c) e) post -> stk s = temps ++ stk0 -> fp s = fp0 ->
    imp_rel st (heap s) (globals s) ->
    res_ok s pre (generate tl svs (Some c) e) v st'.

  (** the code of an assignment without the final PUSH of the unspecified value *)
  Definition set_code (x : name) (o : loc) : code :=
    match o with
    | Global => [IPushCell x; ISetCdr]
    | Local _ => [ILocalRef (pidx x); ISetCdr]
    end.

  Lemma generate_SetV : forall tl x o e1, imp id sv (SetV x o e1) = true ->
    generate tl svs (Some c) (SetV x o e1) = (generate false svs (Some c) e1 ++ set_code x o) ++ [IPush LVoid].
  Proof.
    intros tl x o e1 H. destruct o as [|m]; simpl in *.
    - rewrite <- app_assoc. reflexivity.
    - apply andb_true_iff in H. destruct H as [H _]. apply andb_true_iff in H. destruct H as [Hm Hx].
      apply Nat.eqb_eq in Hm. subst m. rewrite Hx.
      unfold gen_ref, gen_non_global_ref. simpl. rewrite Nat.eqb_refl. simpl.
      rewrite <- !app_assoc. reflexivity.
  Qed.

  Lemma eval_SetV : forall f x o e1 st,
    eval (S f) (SetV x o e1) env st =
    match eval f e1 env st with
    | SVal w st1 =>
        match o with
        | Global => SVal (SLit LVoid) (mkstore (cells st1) (glob_set x w (sglobals st1)))
        | Local _ =>
            match env_lookup (x, o) env with
            | Some a => SVal (SLit LVoid) (mkstore (cell_set (cells st1) a w) (sglobals st1))
            | None => SErr EStuck
            end
        end
    | r => r
    end.
  Proof. reflexivity. Qed.

  (** value computed, assignment done, nothing pushed *)
  Definition core_ok (s : state) (pre code : code) (st' : sstore) : Prop :=
    exists n h' gl',
      nsteps n s = Some (mkst (stk s) (fp s) (self s) (length pre + length code) h' gl')
      /\ evolves B (heap s) h' /\ imp_rel st' h' gl'.

  Lemma nsteps_trans : forall n m a b c0, nsteps n a = Some b -> nsteps m b = Some c0 -> nsteps (n + m) a = Some c0.
  Proof. intros; eapply nsteps_app; eauto. Qed.

  Lemma core_step : forall f, (forall e, imp_at f e) ->
    forall x o e1 st v st', imp id sv (SetV x o e1) = true ->
    eval (S f) (SetV x o e1) env st = SVal v st' ->
    forall s pre post temps,
    at_code s pre (generate false svs (Some c) e1 ++ set_code x o) post -> stk s = temps ++ stk0 -> fp s = fp0 ->
    imp_rel st (heap s) (globals s) ->
    v = SLit LVoid /\ core_ok s pre (generate false svs (Some c) e1 ++ set_code x o) st'.
  Proof.
    intros f IH x o e1 st v st' Hp He s pre post temps Hat Hstk Hfp Hrel.
    rewrite eval_SetV in He.
    destruct (eval f e1 env st) as [w st1| |] eqn:E1; try discriminate.
    set (c1 := generate false svs (Some c) e1) in *.
    destruct Hat as [Hcode Hip].
    assert (Hp1 : imp id sv e1 = true).
    { destruct o; simpl in Hp; auto. apply andb_true_iff in Hp. tauto. }
    assert (Hat1 : at_code s pre c1 (set_code x o ++ post)).
    { split; auto; rewrite Hcode; norm_code. }
    destruct (IH e1 st w st1 Hp1 E1 false s pre _ temps Hat1 Hstk Hfp Hrel) as (n1 & v1 & h1 & gl1 & Hn1 & Hev1 & Hv1 & Hrel1).
    fold c1 in Hn1. set (s1 := mkst (v1 :: stk s) (fp s) (self s) (length pre + length c1) h1 gl1) in *.
    destruct o as [|m].
    - (* global *)
      inversion He; subst v st'. split; auto.
      assert (Hat2 : at_code s1 (pre ++ c1) [IPushCell x] ([ISetCdr] ++ post)).
      { split; simpl; [|rewrite app_length; reflexivity]. rewrite Hcode. norm_code. }
      pose proof (step_push_cell s1 _ _ _ Hat2) as Hstep2.
      set (s2 := upd s1 (VCell x :: stk s1) (S (ip s1)) (heap s1)) in *.
      assert (Hat3 : at_code s2 (pre ++ c1 ++ [IPushCell x]) [ISetCdr] post).
      { split; simpl; [|solve_len]. rewrite Hcode. norm_code. }
      pose proof (step_set_cdr_cell s2 _ _ x v1 (stk s) Hat3 eq_refl) as Hstep3.
      exists (n1 + (1 + 1)), h1, (assoc_set x v1 gl1). split; [|split; auto].
      + eapply nsteps_trans; [exact Hn1|]. eapply nsteps_trans; [apply nsteps_one; exact Hstep2|].
        rewrite (nsteps_one _ _ Hstep3). f_equal. simpl. f_equal. solve_len.
      + destruct Hrel1 as (HU & HBx & HG & HL). repeat split; auto.
        intros g w0 Hg. simpl in Hg. rewrite glob_lookup_set in Hg. rewrite assoc_nat_set.
        destruct (Nat.eqb g x); auto. inversion Hg; subst w0. exists v1; auto.
    - (* boxed variable of the current frame *)
      simpl in Hp. apply andb_true_iff in Hp. destruct Hp as [Hp _]. apply andb_true_iff in Hp. destruct Hp as [Hm Hx].
      apply Nat.eqb_eq in Hm. subst m.
      destruct (env_lookup (x, Local (l_id c)) env) as [a|] eqn:El; try discriminate.
      inversion He; subst v st'. split; auto.
      destruct Hrel1 as (HU & HBx & HG & HL).
      destruct (HBx x a Hx El) as (w0 & k & bx & nm & vold & Hc0 & Hsl & Hsg & HinB & Hhb & Hvold).
      assert (Hat2 : at_code s1 (pre ++ c1) [ILocalRef (pidx x)] ([ISetCdr] ++ post)).
      { split; simpl; [|rewrite app_length; reflexivity]. rewrite Hcode. norm_code. }
      assert (Hsg1 : sget (stk s1) k = Some (VPair bx)).
      { simpl. rewrite Hstk. change (v1 :: temps ++ stk0) with ((v1 :: temps) ++ stk0). apply sget_app; auto. }
      assert (Hsl1 : slot (fp s1) (pidx x) = Some k) by (simpl; rewrite Hfp; exact Hsl).
      pose proof (step_local_ref s1 _ _ _ _ _ Hat2 Hsl1 Hsg1) as Hstep2.
      set (s2 := upd s1 (VPair bx :: stk s1) (S (ip s1)) (heap s1)) in *.
      assert (Hat3 : at_code s2 (pre ++ c1 ++ [ILocalRef (pidx x)]) [ISetCdr] post).
      { split; simpl; [|solve_len]. rewrite Hcode. norm_code. }
      pose proof (step_set_cdr_box s2 _ _ bx v1 (stk s) nm vold Hat3 eq_refl Hhb) as Hstep3.
      set (h2 := list_set h1 bx (HPair nm v1)).
      assert (Hev2 : evolves B h1 h2) by (apply evolves_set; auto).
      exists (n1 + (1 + 1)), h2, gl1. split; [|split].
      + eapply nsteps_trans; [exact Hn1|]. eapply nsteps_trans; [apply nsteps_one; exact Hstep2|].
        rewrite (nsteps_one _ _ Hstep3). f_equal. unfold upd; simpl. f_equal. solve_len.
      + eapply evolves_trans; eauto.
      + assert (Hlt : a < length (cells st1)) by (apply nth_error_Some; congruence).
        repeat split.
        * intros y ay Hy Hly. destruct (HU y ay Hy Hly) as (wy & ky & vy & H1 & H2 & H3 & H4).
          exists wy, ky, vy. repeat split; auto.
          -- simpl. rewrite cell_set_other; auto. intro E; subst ay.
             pose proof (loc_sep x y a Hx El Hly) as Hyx. subst y. congruence.
          -- eapply vrelB_evolves; eauto.
        * intros y ay Hy Hly. destruct (Nat.eq_dec y x) as [->|Hne].
          -- rewrite El in Hly. inversion Hly; subst ay.
             exists w, k, bx, nm, v1. repeat split; auto.
             ++ simpl. apply cell_set_same; auto.
             ++ unfold h2. apply list_set_same. auto.
             ++ eapply vrelB_evolves; eauto.
          -- destruct (HBx y ay Hy Hly) as (wy & ky & by0 & nmy & vy & H1 & H2 & H3 & H4 & H5 & H6).
             exists wy, ky, by0, nmy, vy. repeat split; auto.
             ++ simpl. rewrite cell_set_other; auto. intro E; subst ay.
                apply Hne. exact (loc_sep x y a Hx El Hly).
             ++ unfold h2. rewrite list_set_other; auto. intro E; subst by0.
                apply Hne. exact (box_sep x y k ky bx Hx Hy Hsl Hsg H2 H3).
             ++ eapply vrelB_evolves; eauto.
        * intros g w1 Hg. simpl in Hg. destruct (HG g w1 Hg) as (vg & H1 & H2). exists vg. split; auto.
          eapply vrelB_evolves; eauto.
        * intros b Hb. unfold h2. rewrite list_set_length. auto.
  Qed.


  (** pushing a value on top of state [s1 = (v1 :: stk s, ...)] keeps the "temps ++ stk0" shape *)
  Lemma leaf_res : forall s pre i post v v' st,
    at_code s pre [i] post ->
    step s = Next (upd s (v' :: stk s) (S (ip s)) (heap s)) ->
    vrelB B (heap s) v' v -> imp_rel st (heap s) (globals s) ->
    res_ok s pre [i] v st.
  Proof.
    intros s pre i post v v' st [_ Hip] Hstep Hv Hrel. exists 1, v', (heap s), (globals s).
    split; [|split; [apply evolves_refl|split; auto]].
    apply nsteps_one. rewrite Hstep. unfold upd. rewrite Hip. simpl. f_equal. f_equal. lia.
  Qed.

  Lemma imp_seq : forall f, (forall f', f' <= f -> forall e, imp_at f' e) ->
    forall es st v st', es <> [] -> forallb (imp id sv) es = true ->
    eval_seq f env es st = SVal v st' ->
    forall tl s pre post temps,
    at_code s pre (gen_seq tl svs (Some c) es) post -> stk s = temps ++ stk0 -> fp s = fp0 ->
    imp_rel st (heap s) (globals s) ->
    res_ok s pre (gen_seq tl svs (Some c) es) v st'.
  Proof.
    intros f IHle es. induction es as [|a r IHr]; intros st v st' Hne Hp He tl s pre post temps Hat Hstk Hfp Hrel.
    - congruence.
    - simpl in Hp. apply andb_true_iff in Hp. destruct Hp as [Hpa Hpr].
      destruct r as [|b r'].
      + simpl in He, Hat |- *. eapply (IHle f (le_n f)); eauto.
      + change (eval_seq f env (a :: b :: r') st) with
          (match eval f a env st with SVal _ st1 => eval_seq f env (b :: r') st1 | x => x end) in He.
        destruct (eval f a env st) as [va st1| |] eqn:Ea; try discriminate.
        change (gen_seq tl svs (Some c) (a :: b :: r')) with
          ((if is_lit a then [] else drop_prev a (generate false svs (Some c) a)) ++ gen_seq tl svs (Some c) (b :: r')) in *.
        assert (Hne2 : b :: r' <> []) by congruence.
        set (cr := gen_seq tl svs (Some c) (b :: r')) in *.
        (* the continuation: evaluate the rest from a state whose stack is that of s *)
        assert (Hcont : forall ca n1 h1 gl1,
                  code_of (self s) = pre ++ (ca ++ cr) ++ post ->
                  nsteps n1 s = Some (mkst (stk s) (fp s) (self s) (length pre + length ca) h1 gl1) ->
                  evolves B (heap s) h1 -> imp_rel st1 h1 gl1 ->
                  res_ok s pre (ca ++ cr) v st').
        { intros ca n1 h1 gl1 Hcode Hn1 Hev1 Hrel1.
          set (s2 := mkst (stk s) (fp s) (self s) (length pre + length ca) h1 gl1) in *.
          assert (Hat3 : at_code s2 (pre ++ ca) cr post).
          { split; simpl; [|solve_len]. rewrite Hcode. norm_code. }
          destruct (IHr st1 v st' Hne2 Hpr He tl s2 _ post temps Hat3 Hstk Hfp Hrel1) as (n2 & v2 & h2 & gl2 & Hn2 & Hev2 & Hv2 & Hrel2).
          fold cr in Hn2. exists (n1 + n2), v2, h2, gl2. split; [|split; [eapply evolves_trans; eauto|split; auto]].
          eapply nsteps_trans; [exact Hn1|]. rewrite Hn2. f_equal. simpl. f_equal. solve_len. }
        destruct Hat as [Hcode Hip].
        destruct (is_lit a) eqn:La.
        * destruct a; try discriminate La. destruct f; [discriminate Ea|]. rewrite eval_Lit in Ea. inversion Ea; subst st1.
          apply (Hcont [] 0 (heap s) (globals s)); auto using evolves_refl.
          simpl. rewrite Nat.add_0_r, <- Hip. destruct s; reflexivity.
        * destruct a as [l | x o | x o e1 | t p e2 | es | lid ps r ls lsv fv lb | g args | p args]; try discriminate La; try discriminate Hpa.
          -- (* Ref *)
             set (ca := generate false svs (Some c) (Ref x o)) in *.
             assert (Hd : drop_prev (Ref x o) ca = ca ++ [IDrop]) by reflexivity.
             rewrite Hd in *.
             assert (Hat1 : at_code s pre ca ([IDrop] ++ cr ++ post)).
             { split; auto; rewrite Hcode; norm_code. }
             destruct (IHle f (le_n f) (Ref x o) st va st1 Hpa Ea false s pre _ temps Hat1 Hstk Hfp Hrel) as (n1 & v1 & h1 & gl1 & Hn1 & Hev1 & Hv1 & Hrel1).
             fold ca in Hn1. set (s1 := mkst (v1 :: stk s) (fp s) (self s) (length pre + length ca) h1 gl1) in *.
             assert (Hat2 : at_code s1 (pre ++ ca) [IDrop] (cr ++ post)).
             { split; simpl; [|rewrite app_length; reflexivity]. rewrite Hcode. norm_code. }
             pose proof (step_drop s1 _ _ v1 (stk s) Hat2 eq_refl) as Hstep.
             apply (Hcont (ca ++ [IDrop]) (n1 + 1) h1 gl1); auto.
             eapply nsteps_trans; [exact Hn1|]. rewrite (nsteps_one _ _ Hstep). f_equal. unfold upd; simpl. f_equal. solve_len.
          -- (* set!: the trailing PUSH is rewound *)
             assert (Hd : drop_prev (SetV x o e1) (generate false svs (Some c) (SetV x o e1))
                          = generate false svs (Some c) e1 ++ set_code x o).
             { unfold drop_prev. simpl is_set_or_lit. cbv iota. rewrite generate_SetV by exact Hpa. apply removelast_last. }
             rewrite Hd in *. set (ca := generate false svs (Some c) e1 ++ set_code x o) in *.
             destruct f as [|f0]; [discriminate Ea|].
             assert (Hat1 : at_code s pre ca (cr ++ post)).
             { split; auto; rewrite Hcode; norm_code. }
             assert (IH0 : forall e, imp_at f0 e) by (intro e; apply IHle; lia).
             destruct (core_step f0 IH0 x o e1 st va st1 Hpa Ea s pre _ temps Hat1 Hstk Hfp Hrel) as (_ & n1 & h1 & gl1 & Hn1 & Hev1 & Hrel1).
             apply (Hcont ca n1 h1 gl1); auto.
          -- (* Cnd *)
             set (ca := generate false svs (Some c) (Cnd t p e2)) in *.
             assert (Hd : drop_prev (Cnd t p e2) ca = ca ++ [IDrop]) by reflexivity.
             rewrite Hd in *.
             assert (Hat1 : at_code s pre ca ([IDrop] ++ cr ++ post)).
             { split; auto; rewrite Hcode; norm_code. }
             destruct (IHle f (le_n f) (Cnd t p e2) st va st1 Hpa Ea false s pre _ temps Hat1 Hstk Hfp Hrel) as (n1 & v1 & h1 & gl1 & Hn1 & Hev1 & Hv1 & Hrel1).
             fold ca in Hn1. set (s1 := mkst (v1 :: stk s) (fp s) (self s) (length pre + length ca) h1 gl1) in *.
             assert (Hat2 : at_code s1 (pre ++ ca) [IDrop] (cr ++ post)).
             { split; simpl; [|rewrite app_length; reflexivity]. rewrite Hcode. norm_code. }
             pose proof (step_drop s1 _ _ v1 (stk s) Hat2 eq_refl) as Hstep.
             apply (Hcont (ca ++ [IDrop]) (n1 + 1) h1 gl1); auto.
             eapply nsteps_trans; [exact Hn1|]. rewrite (nsteps_one _ _ Hstep). f_equal. unfold upd; simpl. f_equal. solve_len.
          -- (* Seq *)
             set (ca := generate false svs (Some c) (Seq es)) in *.
             assert (Hd : drop_prev (Seq es) ca = ca ++ [IDrop]) by reflexivity.
             rewrite Hd in *.
             assert (Hat1 : at_code s pre ca ([IDrop] ++ cr ++ post)).
             { split; auto; rewrite Hcode; norm_code. }
             destruct (IHle f (le_n f) (Seq es) st va st1 Hpa Ea false s pre _ temps Hat1 Hstk Hfp Hrel) as (n1 & v1 & h1 & gl1 & Hn1 & Hev1 & Hv1 & Hrel1).
             fold ca in Hn1. set (s1 := mkst (v1 :: stk s) (fp s) (self s) (length pre + length ca) h1 gl1) in *.
             assert (Hat2 : at_code s1 (pre ++ ca) [IDrop] (cr ++ post)).
             { split; simpl; [|rewrite app_length; reflexivity]. rewrite Hcode. norm_code. }
             pose proof (step_drop s1 _ _ v1 (stk s) Hat2 eq_refl) as Hstep.
             apply (Hcont (ca ++ [IDrop]) (n1 + 1) h1 gl1); auto.
             eapply nsteps_trans; [exact Hn1|]. rewrite (nsteps_one _ _ Hstep). f_equal. unfold upd; simpl. f_equal. solve_len.
          -- (* OpApp *)
             set (ca := generate false svs (Some c) (OpApp p args)) in *.
             assert (Hd : drop_prev (OpApp p args) ca = ca ++ [IDrop]) by reflexivity.
             rewrite Hd in *.
             assert (Hat1 : at_code s pre ca ([IDrop] ++ cr ++ post)).
             { split; auto; rewrite Hcode; norm_code. }
             destruct (IHle f (le_n f) (OpApp p args) st va st1 Hpa Ea false s pre _ temps Hat1 Hstk Hfp Hrel) as (n1 & v1 & h1 & gl1 & Hn1 & Hev1 & Hv1 & Hrel1).
             fold ca in Hn1. set (s1 := mkst (v1 :: stk s) (fp s) (self s) (length pre + length ca) h1 gl1) in *.
             assert (Hat2 : at_code s1 (pre ++ ca) [IDrop] (cr ++ post)).
             { split; simpl; [|rewrite app_length; reflexivity]. rewrite Hcode. norm_code. }
             pose proof (step_drop s1 _ _ v1 (stk s) Hat2 eq_refl) as Hstep.
             apply (Hcont (ca ++ [IDrop]) (n1 + 1) h1 gl1); auto.
             eapply nsteps_trans; [exact Hn1|]. rewrite (nsteps_one _ _ Hstep). f_equal. unfold upd; simpl. f_equal. solve_len.
  Qed.


  Lemma imp_step : forall f, (forall f', f' <= f -> forall e, imp_at f' e) -> forall e, imp_at (S f) e.
  Proof.
    intros f IHle e st v st' Hp He tl s pre post temps Hat Hstk Hfp Hrel.
    assert (IH : forall e, imp_at f e) by (intro e0; apply IHle; lia).
    destruct e as [l | x o | x o e1 | t p e2 | es | lid ps r ls lsv fv lb | g args | p args]; try discriminate Hp.
    - (* Lit *)
      rewrite eval_Lit in He. inversion He; subst. simpl generate in *.
      eapply leaf_res; eauto. eapply step_push; eauto. reflexivity.
    - (* Ref *)
      destruct o as [|m].
      + simpl in He. destruct (glob_lookup x (sglobals st)) as [w|] eqn:Eg; try discriminate. inversion He; subst.
        destruct Hrel as (HU & HBx & HG & HL). destruct (HG x v Eg) as (v' & Ha & Hv).
        simpl generate in *. eapply leaf_res; eauto; [|repeat split; auto]. eapply step_global_ref; eauto.
      + simpl in Hp. apply Nat.eqb_eq in Hp. subst m.
        simpl in He. destruct (env_lookup (x, Local id) env) as [a|] eqn:El; try discriminate.
        destruct (nth_error (cells st) a) as [w|] eqn:Ec; try discriminate. inversion He; subst.
        pose proof Hrel as (HU & HBx & HG & HL).
        destruct (memn x sv) eqn:Ex.
        * (* boxed: LOCAL-REF; CDR *)
          destruct (HBx x a Ex El) as (w0 & k & bx & nm & v' & Hc0 & Hsl & Hsg & HinB & Hhb & Hv').
          rewrite Ec in Hc0. inversion Hc0; subst w0.
          assert (Hgen : generate tl svs (Some c) (Ref x (Local id)) = [ILocalRef (pidx x); ICdr]).
          { simpl. unfold gen_non_global_ref. simpl. rewrite Nat.eqb_refl, Ex. reflexivity. }
          rewrite Hgen in *. destruct Hat as [Hcode Hip].
          assert (Hat1 : at_code s pre [ILocalRef (pidx x)] ([ICdr] ++ post)).
          { split; auto; rewrite Hcode; norm_code. }
          assert (Hsg1 : sget (stk s) k = Some (VPair bx)) by (rewrite Hstk; apply sget_app; auto).
          assert (Hsl1 : slot (fp s) (pidx x) = Some k) by (rewrite Hfp; exact Hsl).
          pose proof (step_local_ref s _ _ _ _ _ Hat1 Hsl1 Hsg1) as Hstep1.
          set (s1 := upd s (VPair bx :: stk s) (S (ip s)) (heap s)) in *.
          assert (Hat2 : at_code s1 (pre ++ [ILocalRef (pidx x)]) [ICdr] post).
          { split; simpl; [|solve_len]. rewrite Hcode. norm_code. }
          pose proof (step_cdr s1 _ _ bx (stk s) nm v' Hat2 eq_refl Hhb) as Hstep2.
          exists 2, v', (heap s), (globals s). split; [|split; [apply evolves_refl|split; auto]].
          change 2 with (1 + 1). eapply nsteps_trans; [apply nsteps_one; exact Hstep1|].
          rewrite (nsteps_one _ _ Hstep2). f_equal. unfold upd; simpl. f_equal. lia.
        * (* unboxed *)
          destruct (HU x a Ex El) as (w0 & k & v' & Hc0 & Hsl & Hsg & Hv').
          rewrite Ec in Hc0. inversion Hc0; subst w0.
          assert (Hgen : generate tl svs (Some c) (Ref x (Local id)) = [ILocalRef (pidx x)]).
          { simpl. unfold gen_non_global_ref. simpl. rewrite Nat.eqb_refl, Ex. reflexivity. }
          rewrite Hgen in *.
          eapply leaf_res; eauto. eapply step_local_ref; eauto.
          -- rewrite Hfp; exact Hsl.
          -- rewrite Hstk; apply sget_app; auto.
    - (* SetV *)
      rewrite generate_SetV in * by exact Hp.
      set (cc := generate false svs (Some c) e1 ++ set_code x o) in *.
      destruct Hat as [Hcode Hip].
      assert (Hat1 : at_code s pre cc ([IPush LVoid] ++ post)).
      { split; auto; rewrite Hcode; norm_code. }
      destruct (core_step f IH x o e1 st v st' Hp He s pre _ temps Hat1 Hstk Hfp Hrel) as (-> & n1 & h1 & gl1 & Hn1 & Hev1 & Hrel1).
      set (s1 := mkst (stk s) (fp s) (self s) (length pre + length cc) h1 gl1) in *.
      assert (Hat2 : at_code s1 (pre ++ cc) [IPush LVoid] post).
      { split; simpl; [|rewrite app_length; reflexivity]. rewrite Hcode. norm_code. }
      pose proof (step_push s1 _ _ _ Hat2) as Hstep.
      exists (n1 + 1), (VLit LVoid), h1, gl1. split; [|split; [auto|split; [reflexivity|auto]]].
      eapply nsteps_trans; [exact Hn1|]. apply nsteps_one. etransitivity; [exact Hstep|]. f_equal. unfold upd; simpl. f_equal. solve_len.
    - (* Cnd *)
      simpl in Hp. apply andb_true_iff in Hp. destruct Hp as [Hp Hpf]. apply andb_true_iff in Hp. destruct Hp as [Hpt Hpp].
      rewrite eval_Cnd in He.
      destruct (eval f t env st) as [vt st1| |] eqn:Et; try discriminate.
      simpl generate in *.
      set (ct := generate false svs (Some c) t) in *.
      set (cp := generate tl svs (Some c) p) in *.
      set (cf := generate tl svs (Some c) e2) in *.
      destruct Hat as [Hcode Hip].
      assert (Hat1 : at_code s pre ct (([IJumpUnless (S (length cp))] ++ cp ++ [IJump (length cf)] ++ cf) ++ post)).
      { split; auto; rewrite Hcode; norm_code. }
      destruct (IH t st vt st1 Hpt Et false s pre _ temps Hat1 Hstk Hfp Hrel) as (n1 & v1 & h1 & gl1 & Hn1 & Hev1 & Hv1 & Hrel1).
      fold ct in Hn1. set (s1 := mkst (v1 :: stk s) (fp s) (self s) (length pre + length ct) h1 gl1) in *.
      assert (Hat2 : at_code s1 (pre ++ ct) [IJumpUnless (S (length cp))] (cp ++ [IJump (length cf)] ++ cf ++ post)).
      { split; simpl; [|rewrite app_length; reflexivity]. rewrite Hcode. norm_code. }
      destruct (sval_false_decB _ _ _ _ Hv1) as [[-> ->] | [Hw Hv]].
      + pose proof (step_jump_unless_false s1 _ _ _ (stk s) Hat2 eq_refl) as Hstep.
        set (s2 := upd s1 (stk s) (S (ip s1) + S (length cp)) (heap s1)) in *.
        assert (Hat3 : at_code s2 (pre ++ ct ++ [IJumpUnless (S (length cp))] ++ cp ++ [IJump (length cf)]) cf post).
        { split; simpl; [|solve_len]. rewrite Hcode. norm_code. }
        destruct (IH e2 st1 v st' Hpf He tl s2 _ post temps Hat3 Hstk Hfp Hrel1) as (n2 & v2 & h2 & gl2 & Hn2 & Hev2 & Hv2 & Hrel2).
        fold cf in Hn2.
        exists (n1 + (1 + n2)), v2, h2, gl2. split; [|split; [eapply evolves_trans; eauto|split; auto]].
        eapply nsteps_trans; [exact Hn1|]. eapply nsteps_trans; [apply nsteps_one; exact Hstep|].
        rewrite Hn2. f_equal. simpl. f_equal. solve_len.
      + assert (Hep : eval f p env st1 = SVal v st').
        { destruct vt as [[z|[|]| | | | |o|nd] | |]; try exact He; congruence. }
        pose proof (step_jump_unless_true s1 _ _ _ v1 (stk s) Hat2 eq_refl Hv) as Hstep.
        set (s2 := upd s1 (stk s) (S (ip s1)) (heap s1)) in *.
        assert (Hat3 : at_code s2 (pre ++ ct ++ [IJumpUnless (S (length cp))]) cp ([IJump (length cf)] ++ cf ++ post)).
        { split; simpl; [|solve_len]. rewrite Hcode. norm_code. }
        destruct (IH p st1 v st' Hpp Hep tl s2 _ _ temps Hat3 Hstk Hfp Hrel1) as (n2 & v2 & h2 & gl2 & Hn2 & Hev2 & Hv2 & Hrel2).
        fold cp in Hn2.
        set (s3 := mkst (v2 :: stk s2) (fp s2) (self s2) (length (pre ++ ct ++ [IJumpUnless (S (length cp))]) + length cp) h2 gl2) in *.
        assert (Hat4 : at_code s3 (pre ++ ct ++ [IJumpUnless (S (length cp))] ++ cp) [IJump (length cf)] (cf ++ post)).
        { split; simpl; [|solve_len]. rewrite Hcode. norm_code. }
        pose proof (step_jump s3 _ _ _ Hat4) as Hstep2.
        exists (n1 + (1 + (n2 + 1))), v2, h2, gl2. split; [|split; [eapply evolves_trans; eauto|split; auto]].
        eapply nsteps_trans; [exact Hn1|]. eapply nsteps_trans; [apply nsteps_one; exact Hstep|].
        eapply nsteps_trans; [exact Hn2|]. rewrite (nsteps_one _ _ Hstep2).
        f_equal. unfold upd; simpl. f_equal. solve_len.
    - (* Seq *)
      rewrite eval_Seq in He. rewrite generate_Seq in *.
      simpl in Hp. destruct es as [|a r0]; try discriminate Hp.
      eapply (imp_seq f IHle (a :: r0)); eauto. congruence.
    - (* OpApp *)
      simpl in Hp. apply andb_true_iff in Hp. destruct Hp as [Hp Hall]. apply andb_true_iff in Hp. destruct Hp as [Hpp Hlen].
      apply Nat.eqb_eq in Hlen. rewrite eval_OpApp in He.
      destruct args as [|a [|b [|c0 args]]]; simpl in Hlen.
      + destruct p; discriminate Hlen.
      + assert (Ha1 : prim_arity p = 1) by auto.
        assert (Hinv : (if prim_inverse p then [a] else rev [a]) = [a]) by (destruct (prim_inverse p); reflexivity).
        rewrite Hinv in He. simpl evlist in He. simpl in Hall. apply andb_true_iff in Hall. destruct Hall as [Hpa _].
        destruct (eval f a env st) as [va st1| |] eqn:Ea; try discriminate.
        assert (Hinv2 : (if prim_inverse p then [va] else rev [va]) = [va]) by (destruct (prim_inverse p); reflexivity).
        rewrite Hinv2 in He.
        destruct (prim_sem p [va]) as [[rv|]|] eqn:Eprim; try discriminate. inversion He; subst rv st'. clear He.
        rewrite gen_op1 in * by auto.
        set (ca := generate false svs (Some c) a) in *.
        destruct Hat as [Hcode Hip].
        assert (Hat1 : at_code s pre ca ([IPrim p] ++ post)).
        { split; auto; rewrite Hcode; norm_code. }
        destruct (IH a st va st1 Hpa Ea false s pre _ temps Hat1 Hstk Hfp Hrel) as (n1 & v1 & h1 & gl1 & Hn1 & Hev1 & Hv1 & Hrel1).
        fold ca in Hn1. set (s1 := mkst (v1 :: stk s) (fp s) (self s) (length pre + length ca) h1 gl1) in *.
        destruct (prim1_okB B p _ _ _ _ (stk s) Ha1 Hv1 Eprim) as (r' & Hps & Hr).
        assert (Hat2 : at_code s1 (pre ++ ca) [IPrim p] post).
        { split; simpl; [|rewrite app_length; reflexivity]. rewrite Hcode. norm_code. }
        pose proof (step_prim s1 _ _ _ _ _ Hat2 Hps) as Hstep.
        exists (n1 + 1), r', h1, gl1. split; [|split; [auto|split; auto]].
        eapply nsteps_trans; [exact Hn1|]. rewrite (nsteps_one _ _ Hstep). f_equal. unfold upd; simpl. f_equal. solve_len.
      + assert (Ha2 : prim_arity p = 2) by auto.
        simpl in Hall. apply andb_true_iff in Hall. destruct Hall as [Hpa Hall].
        apply andb_true_iff in Hall. destruct Hall as [Hpb _].
        rewrite gen_op2 in * by auto.
        destruct Hat as [Hcode Hip].
        destruct (prim_inverse p) eqn:Einv.
        * simpl evlist in He.
          destruct (eval f a env st) as [va st1| |] eqn:Ea; try discriminate.
          destruct (eval f b env st1) as [vb st2| |] eqn:Eb; try discriminate.
          destruct (prim_sem p [va; vb]) as [[rv|]|] eqn:Eprim; try discriminate. inversion He; subst rv st'. clear He.
          set (ca := generate false svs (Some c) a) in *. set (cb := generate false svs (Some c) b) in *.
          assert (Hat1 : at_code s pre ca ((cb ++ [IPrim (prim_opcode p)]) ++ post)).
          { split; auto; rewrite Hcode; norm_code. }
          destruct (IH a st va st1 Hpa Ea false s pre _ temps Hat1 Hstk Hfp Hrel) as (n1 & v1 & h1 & gl1 & Hn1 & Hev1 & Hv1 & Hrel1).
          fold ca in Hn1. set (s1 := mkst (v1 :: stk s) (fp s) (self s) (length pre + length ca) h1 gl1) in *.
          assert (Hat2 : at_code s1 (pre ++ ca) cb ([IPrim (prim_opcode p)] ++ post)).
          { split; simpl; [|rewrite app_length; reflexivity]. rewrite Hcode. norm_code. }
          assert (Hstk1 : stk s1 = (v1 :: temps) ++ stk0) by (simpl; rewrite Hstk; reflexivity).
          destruct (IH b st1 vb st2 Hpb Eb false s1 _ _ (v1 :: temps) Hat2 Hstk1 Hfp Hrel1) as (n2 & v2 & h2 & gl2 & Hn2 & Hev2 & Hv2 & Hrel2).
          fold cb in Hn2.
          set (s2 := mkst (v2 :: stk s1) (fp s1) (self s1) (length (pre ++ ca) + length cb) h2 gl2) in *.
          assert (Hv1' : vrelB B h2 v1 va) by (eapply vrelB_evolves; eauto).
          assert (HL2 : forall a0, In a0 B -> a0 < length h2) by (destruct Hrel2 as (_ & _ & _ & HL); exact HL).
          pose proof (prim2_okB B p _ _ _ _ _ _ (stk s) HL2 Ha2 Hpp Hv1' Hv2 Eprim) as (r' & hx & Hps & Hr).
          rewrite Einv in Hps.
          assert (Hat3 : at_code s2 (pre ++ ca ++ cb) [IPrim (prim_opcode p)] post).
          { split; simpl; [|solve_len]. rewrite Hcode. norm_code. }
          pose proof (step_prim s2 _ _ _ _ _ Hat3 Hps) as Hstep.
          exists (n1 + (n2 + 1)), r', (h2 ++ hx), gl2. split; [|split; [|split; [auto|apply imp_rel_app; auto]]].
          -- eapply nsteps_trans; [exact Hn1|]. eapply nsteps_trans; [exact Hn2|]. rewrite (nsteps_one _ _ Hstep).
             f_equal. unfold upd; simpl. f_equal. solve_len.
          -- eapply evolves_trans; [exact Hev1|]. eapply evolves_trans; [exact Hev2|]. apply evolves_app.
        * simpl evlist in He.
          destruct (eval f b env st) as [vb st1| |] eqn:Eb; try discriminate.
          destruct (eval f a env st1) as [va st2| |] eqn:Ea; try discriminate.
          simpl rev in He.
          destruct (prim_sem p [va; vb]) as [[rv|]|] eqn:Eprim; try discriminate. inversion He; subst rv st'. clear He.
          set (ca := generate false svs (Some c) a) in *. set (cb := generate false svs (Some c) b) in *.
          assert (Hat1 : at_code s pre cb ((ca ++ [IPrim p]) ++ post)).
          { split; auto; rewrite Hcode; norm_code. }
          destruct (IH b st vb st1 Hpb Eb false s pre _ temps Hat1 Hstk Hfp Hrel) as (n1 & v1 & h1 & gl1 & Hn1 & Hev1 & Hv1 & Hrel1).
          fold cb in Hn1. set (s1 := mkst (v1 :: stk s) (fp s) (self s) (length pre + length cb) h1 gl1) in *.
          assert (Hat2 : at_code s1 (pre ++ cb) ca ([IPrim p] ++ post)).
          { split; simpl; [|rewrite app_length; reflexivity]. rewrite Hcode. norm_code. }
          assert (Hstk1 : stk s1 = (v1 :: temps) ++ stk0) by (simpl; rewrite Hstk; reflexivity).
          destruct (IH a st1 va st2 Hpa Ea false s1 _ _ (v1 :: temps) Hat2 Hstk1 Hfp Hrel1) as (n2 & v2 & h2 & gl2 & Hn2 & Hev2 & Hv2 & Hrel2).
          fold ca in Hn2.
          set (s2 := mkst (v2 :: stk s1) (fp s1) (self s1) (length (pre ++ cb) + length ca) h2 gl2) in *.
          assert (Hv1' : vrelB B h2 v1 vb) by (eapply vrelB_evolves; eauto).
          assert (HL2 : forall a0, In a0 B -> a0 < length h2) by (destruct Hrel2 as (_ & _ & _ & HL); exact HL).
          pose proof (prim2_okB B p _ _ _ _ _ _ (stk s) HL2 Ha2 Hpp Hv2 Hv1' Eprim) as (r' & hx & Hps & Hr).
          rewrite Einv in Hps.
          assert (Hat3 : at_code s2 (pre ++ cb ++ ca) [IPrim p] post).
          { split; simpl; [|solve_len]. rewrite Hcode. norm_code. }
          pose proof (step_prim s2 _ _ _ _ _ Hat3 Hps) as Hstep.
          exists (n1 + (n2 + 1)), r', (h2 ++ hx), gl2. split; [|split; [|split; [auto|apply imp_rel_app; auto]]].
          -- eapply nsteps_trans; [exact Hn1|]. eapply nsteps_trans; [exact Hn2|]. rewrite (nsteps_one _ _ Hstep).
             f_equal. unfold upd; simpl. f_equal. solve_len.
          -- eapply evolves_trans; [exact Hev1|]. eapply evolves_trans; [exact Hev2|]. apply evolves_app.
      + destruct p; discriminate Hlen.
  Qed.

  Lemma imp_all_le : forall f f', f' <= f -> forall e, imp_at f' e.
  Proof.
    induction f as [|f IH]; intros f' Hle e.
    - assert (f' = 0) by lia. subst. intros st v st' _ He. discriminate He.
    - destruct (Nat.eq_dec f' (S f)) as [->|Hne].
      + apply imp_step. exact IH.
      + apply IH. lia.
  Qed.

  Theorem imp_all : forall f e, imp_at f e.
  Proof. intros f e. apply (imp_all_le f f (le_n f)). Qed.

End Boxes.

(* ------------------------------------------------------------------ closed form *)

Theorem compile_correct_boxes_fragment : forall c svs B fp0 stk0 env,
  (forall x y a, memn x (svs (l_id c)) = true ->
     env_lookup (x, Local (l_id c)) env = Some a -> env_lookup (y, Local (l_id c)) env = Some a -> y = x) ->
  (forall x y kx ky bx, memn x (svs (l_id c)) = true -> memn y (svs (l_id c)) = true ->
     slot fp0 (param_index (l_params c) (l_rest c) (l_locals c) x) = Some kx -> sget stk0 kx = Some (VPair bx) ->
     slot fp0 (param_index (l_params c) (l_rest c) (l_locals c) y) = Some ky -> sget stk0 ky = Some (VPair bx) -> y = x) ->
  forall fuel e st v st' tl s pre post temps,
  imp (l_id c) (svs (l_id c)) e = true ->
  eval fuel e env st = SVal v st' ->
  code_of (self s) = pre ++ generate tl svs (Some c) e ++ post -> ip s = length pre ->
  stk s = temps ++ stk0 -> fp s = fp0 ->
  imp_rel c svs B fp0 stk0 env st (heap s) (globals s) ->
  exists n v' h' gl',
    nsteps n s = Some (mkst (v' :: stk s) (fp s) (self s) (length pre + length (generate tl svs (Some c) e)) h' gl')
    /\ evolves B (heap s) h' /\ vrelB B h' v' v /\ imp_rel c svs B fp0 stk0 env st' h' gl'.
Proof.
  intros c svs B fp0 stk0 env Hloc Hbox fuel e st v st' tl s pre post temps Hp He Hc Hi Hstk Hfp Hrel.
  exact (imp_all c svs B fp0 stk0 env Hloc Hbox fuel e st v st' Hp He tl s pre post temps (conj Hc Hi) Hstk Hfp Hrel).
Qed.

(* ------------------------------------------------------------------ the hypotheses are satisfiable *)

(** body of (lambda (x y) (set! x (+ x y)) (set! g (cons x '())) (if (< x 10) x y)) in the frame of the call (f 3 4)
    after the entry code has boxed x (sv = (x)): box at heap address 0 *)
Module ExampleBoxes.
  Definition c0 : lctx := mk_lctx 1 [0; 1] None [] [].
  Definition svs0 : nat -> list name := fun m => if Nat.eqb m 1 then [0] else [].
  Definition e0 : ast :=
    Seq [SetV 0 (Local 1) (OpApp PAdd [Ref 0 (Local 1); Ref 1 (Local 1)]);
         SetV 9 Global (OpApp PCons [Ref 0 (Local 1); Lit LNil]);
         Cnd (OpApp PLt [Ref 0 (Local 1); Lit (LInt 10)]) (Ref 0 (Local 1)) (Ref 1 (Local 1))].
  Definition env0 : senv := [((0, Local 1), 0); ((1, Local 1), 1)].
  Definition st0 : sstore := mkstore [SLit (LInt 3); SLit (LInt 4)] [].
  Definition stk00 : list value := [vint 0; VLit LVoid; vint 0; vint 2; VPair 0; VLit (LInt 4)].
  Definition heap0 : list hobj := [HPair (VLit (LSym 0)) (VLit (LInt 3))].
  Definition code0 : code := generate true svs0 (Some c0) e0 ++ [IRet].
  Definition s0 : state := mkst stk00 2 (VProc 0 2 code0 (VLit LVoid)) 0 heap0 [].

  Example imp_e0 : imp (l_id c0) (svs0 (l_id c0)) e0 = true.
  Proof. reflexivity. Qed.

  Example eval_e0 : exists st', eval 10 e0 env0 st0 = SVal (SLit (LInt 7)) st'.
  Proof. eexists. vm_compute. reflexivity. Qed.

  Lemma lookup_env0 : forall x a, env_lookup (x, Local 1) env0 = Some a -> (x = 0 /\ a = 0) \/ (x = 1 /\ a = 1).
  Proof.
    intros x a H. unfold env0 in H. simpl in H. unfold vref_eqb in H. simpl in H.
    destruct (Nat.eqb x 0) eqn:E0; simpl in H.
    - apply Nat.eqb_eq in E0. inversion H. auto.
    - destruct (Nat.eqb x 1) eqn:E1; simpl in H; try discriminate. apply Nat.eqb_eq in E1. inversion H. auto.
  Qed.

  Lemma boxed0 : forall x, memn x (svs0 (l_id c0)) = true -> x = 0.
  Proof. intros x H. simpl in H. rewrite orb_false_r in H. apply Nat.eqb_eq in H. auto. Qed.

  Example loc_sep0 : forall x y a, memn x (svs0 (l_id c0)) = true ->
    env_lookup (x, Local (l_id c0)) env0 = Some a -> env_lookup (y, Local (l_id c0)) env0 = Some a -> y = x.
  Proof.
    intros x y a Hx H1 H2. apply boxed0 in Hx. subst x.
    destruct (lookup_env0 _ _ H1) as [[_ ->]|[E _]]; [|discriminate].
    destruct (lookup_env0 _ _ H2) as [[-> _]|[_ E]]; [reflexivity|discriminate].
  Qed.

  Example box_sep0 : forall x y kx ky bx, memn x (svs0 (l_id c0)) = true -> memn y (svs0 (l_id c0)) = true ->
    slot 2 (param_index (l_params c0) (l_rest c0) (l_locals c0) x) = Some kx -> sget stk00 kx = Some (VPair bx) ->
    slot 2 (param_index (l_params c0) (l_rest c0) (l_locals c0) y) = Some ky -> sget stk00 ky = Some (VPair bx) -> y = x.
  Proof. intros x y kx ky bx Hx Hy _ _ _ _. apply boxed0 in Hx. apply boxed0 in Hy. congruence. Qed.

  Example imp_rel0 : imp_rel c0 svs0 [0] 2 stk00 env0 st0 (heap s0) (globals s0).
  Proof.
    repeat split.
    - intros x a Hx Hl. destruct (lookup_env0 _ _ Hl) as [[-> ->]|[-> ->]]; [discriminate Hx|].
      exists (SLit (LInt 4)), 0, (VLit (LInt 4)). repeat split.
    - intros x a Hx Hl. apply boxed0 in Hx. subst x. destruct (lookup_env0 _ _ Hl) as [[_ ->]|[E _]]; [|discriminate].
      exists (SLit (LInt 3)), 1, 0, (VLit (LSym 0)), (VLit (LInt 3)). repeat split. left; reflexivity.
    - intros g w Hg. discriminate Hg.
    - intros a [<-|[]]. simpl. lia.
  Qed.

  (** the run the theorem promises: x := 7 in its box, g := (7), result 7, stack below untouched *)
  Example run_e0 : exists n h' gl',
    nsteps n s0 = Some (mkst (VLit (LInt 7) :: stk00) 2 (self s0) (length (generate true svs0 (Some c0) e0)) h' gl')
    /\ nth_error h' 0 = Some (HPair (VLit (LSym 0)) (VLit (LInt 7))).
  Proof. exists 20. eexists. eexists. split; vm_compute; reflexivity. Qed.
End ExampleBoxes.
